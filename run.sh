#!/bin/bash
# usage: run.sh <property-id> [quick|thorough]
# Builds the checker if needed and runs one property's static check against
# /repo's current working tree. Exit 0 = property held on everything analysed,
# 1 = violation (VIOLATION line printed), 2 = usage/infrastructure error.
set -u
PROP="${1:?property id}"
TIER="${2:-${VERIF_TIER:-quick}}"
HERE="$(cd "$(dirname "$0")" && pwd)"
REPO="${OCIVET_REPO:-/repo}"
export GOWORK=off GOFLAGS=-mod=mod GOPROXY=off GOSUMDB=off GOTOOLCHAIN=local
unset GOPATH_OVERRIDE 2>/dev/null
mkdir -p "$HERE/bin" "$HERE/evidence"
( cd "$HERE/checker" && go build -o "$HERE/bin/ocivet" ./cmd/ocivet ) || { echo "cannot build checker" >&2; exit 2; }
exec "$HERE/bin/ocivet" -property "$PROP" -tier "$TIER" -repo "$REPO" -verif "$HERE"
