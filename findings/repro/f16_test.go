package scratch

import (
	"context"
	"net/http"
	"net/http/httptest"
	"testing"

	"cuelabs.dev/go/oci/ociregistry/ociclient"
)

// F16 (C18): a server that answers the resume GET (offset -1) with a huge
// OCI-Chunk-Min-Length made the first Write panic with
// "makeslice: cap out of range" (before fix b840035).
func TestF16(t *testing.T) {
	srv := httptest.NewServer(http.HandlerFunc(func(w http.ResponseWriter, r *http.Request) {
		w.Header().Set("Location", "/v2/foo/blobs/uploads/xyz")
		w.Header().Set("Range", "0-9")
		w.Header().Set("OCI-Chunk-Min-Length", "9223372036854775807")
		w.WriteHeader(http.StatusNoContent)
	}))
	defer srv.Close()
	c, err := ociclient.New(srv.Listener.Addr().String(), &ociclient.Options{Insecure: true})
	if err != nil {
		t.Fatal(err)
	}
	w, err := c.PushBlobChunkedResume(context.Background(), "foo", srv.URL+"/v2/foo/blobs/uploads/xyz", -1, 0)
	if err != nil {
		t.Fatalf("resume: %v", err)
	}
	defer func() {
		if e := recover(); e != nil {
			t.Fatalf("Write panicked: %v", e)
		}
	}()
	if _, err := w.Write([]byte("x")); err != nil {
		t.Logf("write: %v", err)
	}
}
