package scratch

// Demonstrations, against the real code, of defects predicted in DESIGN.md
// section 5 (F1, F2, F4, F8, F9, F10). These are NOT checks: nothing in
// MANIFEST.json runs them. They exist so that each "fix:" commit can cite a
// concrete failing input. Run with:
//   cp /repo/ociregistry/go.sum . && GOWORK=off GOFLAGS=-mod=mod GOPROXY=off go test -v .

import (
	"context"
	"net/http"
	"net/http/httptest"
	"strings"
	"testing"

	"cuelabs.dev/go/oci/ociregistry"
	"cuelabs.dev/go/oci/ociregistry/ociauth"
	"cuelabs.dev/go/oci/ociregistry/ociclient"
	"cuelabs.dev/go/oci/ociregistry/ocifilter"
	"cuelabs.dev/go/oci/ociregistry/ocimem"
	"cuelabs.dev/go/oci/ociregistry/ociref"
	"cuelabs.dev/go/oci/ociregistry/ociserver"
	"github.com/opencontainers/go-digest"
)

func try(t *testing.T, name string, f func()) {
	defer func() {
		if e := recover(); e != nil {
			t.Logf("%s: PANIC %v", name, e)
		}
	}()
	f()
}

func TestF1toF10(t *testing.T) {
	ctx := context.Background()
	try(t, "F1 Funcs.PushBlobChunkedResume with only PushBlobChunked_ set", func() {
		f := &ociregistry.Funcs{PushBlobChunked_: func(ctx context.Context, repo string, n int) (ociregistry.BlobWriter, error) { return nil, nil }}
		_, err := f.PushBlobChunkedResume(ctx, "r", "id", 0, 0)
		t.Logf("F1 err=%v", err)
	})
	try(t, "F2 IsValidTag(\"\")", func() { t.Logf("F2 %v", ociref.IsValidTag("")) })
	try(t, "F2b GET /v2/foo/manifests/", func() {
		srv := httptest.NewServer(ociserver.New(ocimem.New(), nil))
		defer srv.Close()
		resp, err := http.Get(srv.URL + "/v2/foo/manifests/")
		t.Logf("F2b resp=%v err=%v (EOF = handler panicked)", resp, err)
	})
	try(t, "F8 scope", func() {
		s := ociauth.NewScope(ociauth.ResourceScope{ResourceType: "repository", Resource: "", Action: "pull"})
		t.Logf("F8 {repository::pull}.Holds(CatalogScope)=%v String=%q", s.Holds(ociauth.CatalogScope), s.Canonical().String())
		c := ociauth.NewScope(ociauth.CatalogScope)
		t.Logf("F8 {catalog}.Holds(repository::pull)=%v Equal=%v", c.Holds(ociauth.ResourceScope{ResourceType: "repository", Resource: "", Action: "pull"}), c.Equal(s))
	})
	try(t, "F9/F10 sub", func() {
		m := ocimem.New()
		for _, r := range []string{"a/b", "a/c", "x", "b"} {
			m.PushBlob(ctx, r, ociregistry.Descriptor{MediaType: "application/octet-stream", Digest: digest.FromString(r), Size: int64(len(r))}, strings.NewReader(r))
		}
		s := ocifilter.Sub(m, "a")
		_, err := s.ResolveBlob(ctx, "../x", digest.FromString("x"))
		t.Logf("F9 Sub(a).ResolveBlob(../x, digest of x's blob) err=%v (nil = escaped the prefix)", err)
		l, err := ociregistry.All(s.Repositories(ctx, "b"))
		t.Logf("F10 Sub(a).Repositories(startAfter=b) = %v %v (expected [c])", l, err)
	})
	try(t, "F4 ListPageSize=-1", func() {
		srv := httptest.NewServer(ociserver.New(ocimem.New(), nil))
		defer srv.Close()
		c, err := ociclient.New(strings.TrimPrefix(srv.URL, "http://"), &ociclient.Options{Insecure: true, ListPageSize: -1})
		if err != nil {
			t.Fatal(err)
		}
		l, err := ociregistry.All(c.Repositories(ctx, ""))
		t.Logf("F4: %v %v", l, err)
	})
}
