package scratch
import (
	"context"
	"encoding/json"
	"errors"
	"testing"
	"net/http"
	"net/http/httptest"
	"strings"
	"cuelabs.dev/go/oci/ociregistry"
	"cuelabs.dev/go/oci/ociregistry/ocimem"
	"cuelabs.dev/go/oci/ociregistry/ociserver"
	"cuelabs.dev/go/oci/ociregistry/ociclient"
	"github.com/opencontainers/go-digest"
	ocispec "github.com/opencontainers/image-spec/specs-go/v1"
)
func push(t *testing.T, m ociregistry.Interface, repo, s string) ociregistry.Descriptor {
	d, err := m.PushBlob(context.Background(), repo, ociregistry.Descriptor{MediaType:"application/octet-stream", Digest: digest.FromString(s), Size:int64(len(s))}, strings.NewReader(s))
	if err != nil { t.Fatal(err) }
	return d
}
func TestF12(t *testing.T) {
	ctx := context.Background()
	m := ocimem.NewWithConfig(&ocimem.Config{ImmutableTags:true})
	layer := push(t, m, "r", "layer"); cfg := push(t, m, "r", "{}")
	cfg.MediaType = ocispec.MediaTypeImageConfig; layer.MediaType = ocispec.MediaTypeImageLayer
	img, _ := json.Marshal(ocispec.Manifest{MediaType: ocispec.MediaTypeImageManifest, Config: cfg, Layers: []ocispec.Descriptor{layer}})
	idesc, err := m.PushManifest(ctx, "r", "", img, ocispec.MediaTypeImageManifest); if err != nil { t.Fatal(err) }
	wrong := idesc; wrong.MediaType = "application/octet-stream"
	idx, _ := json.Marshal(ocispec.Index{MediaType: ocispec.MediaTypeImageIndex, Manifests: []ocispec.Descriptor{wrong}})
	_, err = m.PushManifest(ctx, "r", "tag", idx, ocispec.MediaTypeImageIndex); if err != nil { t.Fatal(err) }
	t.Logf("F12 delete layer referenced (transitively) by tagged index: err=%v", m.DeleteBlob(ctx, "r", layer.Digest))
	right := idesc
	idx2, _ := json.Marshal(ocispec.Index{MediaType: ocispec.MediaTypeImageIndex, Manifests: []ocispec.Descriptor{right}})
	_, err = m.PushManifest(ctx, "r", "tag2", idx2, ocispec.MediaTypeImageIndex); if err != nil { t.Fatal(err) }
	t.Logf("F12 control (right media type): err=%v", m.DeleteBlob(ctx, "r", cfg.Digest))
}
func TestF13(t *testing.T) {
	m := ocimem.New()
	_, err := m.PushBlob(context.Background(), "r", ociregistry.Descriptor{MediaType:"x/y", Digest: digest.FromString("other"), Size:3}, strings.NewReader("abc"))
	t.Logf("F13 err=%v isDigestInvalid=%v", err, errors.Is(err, ociregistry.ErrDigestInvalid))
	_, err = m.PushBlob(context.Background(), "r", ociregistry.Descriptor{MediaType:"x/y", Digest: digest.FromString("abc"), Size:4}, strings.NewReader("abc"))
	t.Logf("F13 err=%v isSizeInvalid=%v", err, errors.Is(err, ociregistry.ErrSizeInvalid))
}
func TestF11F14(t *testing.T) {
	ctx := context.Background()
	srv := httptest.NewServer(ociserver.New(ocimem.New(), nil)); defer srv.Close()
	c, _ := ociclient.New(strings.TrimPrefix(srv.URL,"http://"), &ociclient.Options{Insecure:true})
	w, err := c.PushBlobChunked(ctx, "r", 100); if err != nil { t.Fatal(err) }
	w.Write([]byte("hello")); w.Close()
	// resume at wrong explicit offset then commit with remaining body -> final PUT at wrong offset
	w2, err := c.PushBlobChunkedResume(ctx, "r", w.ID(), 3, 100); if err != nil { t.Fatal(err) }
	w2.Write([]byte("xx"))
	_, err = w2.Commit(digest.FromString("helloxx"))
	var herr ociregistry.HTTPError
	errors.As(err, &herr)
	t.Logf("F11 commit err=%v isRangeInvalid=%v status=%v", err, errors.Is(err, ociregistry.ErrRangeInvalid), herr != nil && herr.StatusCode() == 416)
	// F14: resume -1 against a backend that says upload unknown
	f := &ociregistry.Funcs{PushBlobChunkedResume_: func(ctx context.Context, repo, id string, off int64, n int)(ociregistry.BlobWriter, error){ return nil, ociregistry.ErrBlobUploadUnknown }, PushBlobChunked_: func(ctx context.Context, repo string, n int)(ociregistry.BlobWriter, error){ return nil, nil }}
	srv2 := httptest.NewServer(ociserver.New(f, nil)); defer srv2.Close()
	c2, _ := ociclient.New(strings.TrimPrefix(srv2.URL,"http://"), &ociclient.Options{Insecure:true})
	_, err = c2.PushBlobChunkedResume(ctx, "r", srv2.URL+"/v2/r/blobs/uploads/aWQ", -1, 0)
	t.Logf("F14 err=%v is=%v", err, errors.Is(err, ociregistry.ErrBlobUploadUnknown))
	_, err = c2.PushBlobChunkedResume(ctx, "r", srv2.URL+"/v2/r/blobs/uploads/aWQ", 0, 0)
	_ = http.StatusOK
}
