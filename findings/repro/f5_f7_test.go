package scratch
import (
	"context"
	"sync"
	"testing"
	"errors"
	"io"
	"cuelabs.dev/go/oci/ociregistry"
	"cuelabs.dev/go/oci/ociregistry/ocimem"
	"github.com/opencontainers/go-digest"
)
func TestF5(t *testing.T) {
	ctx := context.Background()
	m := ocimem.New()
	m1 := []byte(`{"a":1}`); m2 := []byte(`{"a":2}`)
	d1, _ := m.PushManifest(ctx, "r", "t", m1, "application/x")
	d2 := digest.FromBytes(m2)
	var wg sync.WaitGroup
	stop := make(chan struct{})
	bad := 0
	wg.Add(1)
	go func() { defer wg.Done()
		for { select { case <-stop: return; default: }
			r, err := m.GetTag(ctx, "r", "t")
			if err != nil { bad++; t.Logf("F5 GetTag: %v", err); return }
			r.Close()
		}
	}()
	for i := 0; i < 200000 && bad == 0; i++ {
		// tag always points at an existing manifest: push new under tag, then delete old.
		m.PushManifest(ctx, "r", "t", m2, "application/x")
		m.DeleteManifest(ctx, "r", d1.Digest)
		m.PushManifest(ctx, "r", "t", m1, "application/x")
		m.DeleteManifest(ctx, "r", d2)
	}
	close(stop); wg.Wait()
	t.Logf("F5 bad=%d", bad)
}
func TestF7(t *testing.T) {
	ctx := context.Background()
	found := false
	for i := 0; i < 20000 && !found; i++ {
		m := ocimem.New()
		w, _ := m.PushBlobChunked(ctx, "r", 0)
		w.Write([]byte("hello"))
		dg := digest.FromString("hello")
		var wg sync.WaitGroup
		wg.Add(2)
		go func(){ defer wg.Done(); w.Commit(dg) }()
		go func(){ defer wg.Done(); w2, _ := m.PushBlobChunkedResume(ctx, "r", w.ID(), -1, 0); w2.Write([]byte("X")) }()
		wg.Wait()
		r, err := m.GetBlob(ctx, "r", dg)
		if err != nil { continue }
		data, _ := io.ReadAll(r)
		if string(data) != "hello" { found = true; t.Logf("F7 stored %q under digest of hello (iteration %d)", data, i) }
	}
	t.Logf("F7 found=%v", found)
	_ = errors.New; var _ ociregistry.Digest
}
