#!/bin/bash
# usage: regress.sh [refactors|seeds|combos|all] [filter-regexp] [property-regexp]
# Runs the checks against scratch copies of /repo with (a) every behaviour-preserving
# refactoring under /verif/refactors applied (expect: no alarm from any of the 20 checks) and
# (b) every seeded breaking change under /verif/seeded applied (expect: its property's check alarms).
# Scratch copies live under /tmp/rr and are removed afterwards. Never touches /repo.
MODE=${1:-all}; FILTER=${2:-.}; PROPS=${3:-.}
ROOT=/tmp/rr; rm -rf $ROOT; mkdir -p $ROOT/evid
export GOWORK=off GOFLAGS=-mod=mod GOPROXY=off GOSUMDB=off GOTOOLCHAIN=local GOMAXPROCS=3
( cd /verif/checker && go build -o /verif/bin/ocivet ./cmd/ocivet ) || exit 2
jobs=$ROOT/jobs.txt; : > $jobs
mkcopy() { # name patch
  mkdir -p $ROOT/$1 && rsync -a --exclude .git --exclude 'cmd/ocisrv/ocisrv' /repo/ $ROOT/$1/ && ( cd $ROOT/$1 && patch -s -p1 < $2 ) || { echo "PATCH-FAILED $1"; return 1; }
}
if [ $MODE = refactors ] || [ $MODE = all ]; then
  for d in /verif/refactors/*/; do n=$(basename $d); echo $n | grep -Eq "$FILTER" || continue
    mkcopy ref-$n $d/patch.diff || continue
    for i in $(seq -w 1 20); do echo C$i | grep -Eq "$PROPS" || continue; echo "ref-$n C$i clean" >> $jobs; done
  done
fi
if [ $MODE = seeds ] || [ $MODE = all ]; then
  for d in /verif/seeded/*/; do n=$(basename $d); echo $n | grep -Eq "$FILTER" || continue
    [ $n = C14-B ] && continue
    mkcopy seed-$n $d/patch.diff || continue
    # detected_under: the seed breaks a different property than the one its author was given
    sp=${n%%-*}; [ -f $d/detected_under ] && sp=$(cat $d/detected_under)
    echo "seed-$n $sp alarm" >> $jobs
  done
fi
if [ $MODE = combos ] || [ $MODE = all ]; then
  # a refactoring followed by a break of the refactored code: the alarm must still be raised
  for d in /verif/combos/*/; do n=$(basename $d); echo $n | grep -Eq "$FILTER" || continue
    mkcopy combo-$n /verif/refactors/$(cat $d/base)/patch.diff || continue
    ( cd $ROOT/combo-$n && patch -s -p1 < $d/patch.diff ) || { echo "PATCH-FAILED combo-$n"; continue; }
    echo "combo-$n $(cat $d/prop) alarm" >> $jobs
  done
fi
run1() { c=$1; p=$2; want=$3
  mkdir -p /tmp/rr/evid/$c-$p
  out=$(/verif/bin/ocivet -property $p -tier quick -nocontrols -repo /tmp/rr/$c -verif /tmp/rr/evid/$c-$p 2>&1); rc=$?
  if [ $want = clean ] && [ $rc -ne 0 ]; then echo "FALSE-ALARM $c $p"; echo "$out" | grep -E '\[violation\]|\[undecided\]|LOAD FAILURE' | grep -v '^VIOLATION' | head -5 | cut -c1-300; fi
  if [ $want = alarm ] && [ $rc -ne 1 ]; then echo "MISSED $c $p (exit $rc)"; fi
}
export -f run1
cat $jobs | xargs -P ${REGRESS_P:-5} -L 1 bash -c 'run1 $0 $1 $2' | tee $ROOT/out.txt
echo "regress done: $(grep -c clean $jobs) refactor checks, $(grep -c alarm $jobs) seed checks; $(grep -c '^FALSE-ALARM' $ROOT/out.txt) false alarms, $(grep -c '^MISSED' $ROOT/out.txt) missed, $(grep -c '^PATCH-FAILED' $ROOT/out.txt) patches failed"
rm -rf $ROOT
