#!/bin/bash
# usage: recheck_seeds.sh [filter-regexp]
# Re-runs each seeded change's property check (quick, no controls) on a scratch copy of /repo with the
# patch applied and records what is reported NOW in /verif/seeded/<id>/detect.log (verify.log keeps the
# record of the seed's own verification: suite passes, demo fails with / passes without the change).
FILTER=${1:-.}
ROOT=/tmp/rs; rm -rf $ROOT; mkdir -p $ROOT
export GOWORK=off GOFLAGS=-mod=mod GOPROXY=off GOSUMDB=off GOTOOLCHAIN=local GOMAXPROCS=3
( cd /verif/checker && go build -o /verif/bin/ocivet ./cmd/ocivet ) || exit 2
one() { n=$1; p=${n%%-*}
  [ -f /verif/seeded/$n/detected_under ] && p=$(cat /verif/seeded/$n/detected_under)
  [ -f /verif/seeded/$n/patch.diff ] || return
  [ $n = C14-B ] && return   # became fix F15: the change is already in /repo
  mkdir -p /tmp/rs/$n && rsync -a --exclude .git --exclude 'cmd/ocisrv/ocisrv' /repo/ /tmp/rs/$n/ && ( cd /tmp/rs/$n && patch -s -p1 < /verif/seeded/$n/patch.diff ) || { echo "PATCH-FAILED $n"; return; }
  out=$(/verif/bin/ocivet -property $p -tier quick -nocontrols -repo /tmp/rs/$n -verif /tmp/rs/ev-$n 2>&1); rc=$?
  { echo "check $p with the change applied (scratch copy): exit $rc"; echo "$out" | grep -E '\[violation\]|\[undecided\]' | grep -v '^VIOLATION' | sed "s#/tmp/rs/$n/##" | head -8; } > /verif/seeded/$n/detect.log
  echo "$n exit=$rc"
  rm -rf /tmp/rs/$n /tmp/rs/ev-$n
}
export -f one
ls /verif/seeded | grep -E "$FILTER" | xargs -P 5 -I{} bash -c 'one {}'
rm -rf $ROOT
