#!/usr/bin/env python3
"""(Re)writes meta.json for every kept seeded change under /verif/seeded from its notes.md and verify.log."""
import json, os, re, sys
root = '/verif/seeded'
for d in sorted(os.listdir(root)):
    p = os.path.join(root, d)
    if not os.path.isdir(p): continue
    prop = d.split('-')[0]
    notes = open(os.path.join(p, 'notes.md')).read() if os.path.exists(os.path.join(p, 'notes.md')) else ''
    log = open(os.path.join(p, 'verify.log')).read().splitlines() if os.path.exists(os.path.join(p, 'verify.log')) else []
    dl = os.path.join(p, 'detect.log')
    if os.path.exists(dl):
        dlog = open(dl).read().splitlines()
        detected = [l.strip() for l in dlog if '[violation]' in l or '[undecided]' in l]
        log = [l for l in log if not l.startswith('check ') and '[violation]' not in l and 'VIOLATION' not in l] + dlog[:1]
    else:
        detected = [l.strip() for l in log if '[violation]' in l or '[undecided]' in l]
    meta = {
        'property': prop,
        'seed': d,
        'source': 'independent sub-agent given only the property text and a scratch worktree',
        'what_and_needs_to_manifest': notes.strip(),
        'what_i_ran': [l for l in log if not l.startswith(' ') and 'VIOLATION' not in l] + ['tools/verify_seed.sh: scratch worktree of /repo HEAD; 3 module suites with the patch; demo with and without the patch; then /verif/run.sh %s quick with the patch applied to /repo and reverted' % prop],
        'detected_by_check': bool(detected),
        'violations_reported': detected,
    }
    du = os.path.join(p, 'detected_under')
    if os.path.exists(du):
        meta['detected_under_property'] = open(du).read().strip()
        meta['note'] = 'the change does not contradict the statement of %s (see DESIGN.md); it is a violation of %s and is reported by that check' % (prop, meta['detected_under_property'])
    extra = os.path.join(p, 'extra.json')
    if os.path.exists(extra):
        meta.update(json.load(open(extra)))
    json.dump(meta, open(os.path.join(p, 'meta.json'), 'w'), indent=1)
    print(d, 'detected' if detected else 'NOT DETECTED')
