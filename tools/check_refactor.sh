#!/bin/bash
# usage: check_refactor.sh <patch.diff>  -> applies a behaviour-preserving patch to /repo, runs all 20 quick checks, reverts.
P=$1
cd /repo || exit 2
git apply --check "$P" 2>/dev/null || { echo "PATCH DOES NOT APPLY: $P"; exit 3; }
git apply "$P"
bad=0
for i in $(seq -w 1 20); do
  out=$(/verif/bin/ocivet -property C$i -tier quick -nocontrols -repo /repo -verif /tmp/refac-evid 2>&1)
  if [ $? -ne 0 ]; then bad=1; echo "== C$i raises an alarm on $P"; echo "$out" | grep -E '\[violation\]|\[undecided\]|LOAD FAILURE' | head -6 | cut -c1-330; fi
done
git checkout -- . ; git clean -fdq ociregistry 2>/dev/null
[ $bad -eq 0 ] && echo "clean: $P"
exit $bad
