#!/bin/bash
# usage: verify_seed.sh <PROP> <variant> <demo-dir-relative-to-repo> [demo test run regexp]
# Confirms, in a scratch worktree of /repo's HEAD: suite passes with the patch; demo fails with it; demo passes without.
# Then runs the property's check on /repo with the patch applied (and undoes it), and stores everything in /verif/seeded/.
set -u
P=$1; V=$2; DIR=$3
SRC=${SEED_SRC:-/tmp/seed-$P}/$V
WT=/tmp/vs-$P-$V
OUT=/verif/seeded/$P-$V
unset GOFLAGS GOWORK
export GOPROXY=off GOSUMDB=off
git -C /repo worktree remove --force $WT 2>/dev/null
git -C /repo worktree add --detach $WT HEAD -q || exit 2
res() { echo "$1" | tee -a $WT.log; }
: > $WT.log
if ! git -C $WT apply $SRC/patch.diff; then res "PATCH DOES NOT APPLY to current HEAD"; git -C /repo worktree remove --force $WT; exit 3; fi
suite=ok
for m in ociregistry ociregistry/internal/conformance cmd/ocisrv; do
  (cd $WT/$m && go build ./... && go test -vet=off -count=1 ./... >/tmp/vs-out.txt 2>&1) || { suite=FAIL; tail -5 /tmp/vs-out.txt; }
done
res "suite with patch: $suite"
cp $SRC/demo_test.go $WT/$DIR/zz_seed_demo_test.go
RACE=""; grep -qi -- '-race' $SRC/notes.md && RACE="-race"
(cd $WT/$DIR && go test $RACE -vet=off -count=1 . >/tmp/vs-demo1.txt 2>&1); d1=$?
res "demo with patch: exit $d1 (expect non-zero)"
git -C $WT apply -R $SRC/patch.diff
(cd $WT/$DIR && go test $RACE -vet=off -count=1 . >/tmp/vs-demo2.txt 2>&1); d2=$?
res "demo without patch: exit $d2 (expect 0)"
[ $d2 -ne 0 ] && tail -15 /tmp/vs-demo2.txt
git -C /repo worktree remove --force $WT
# the static check
git -C /repo apply $SRC/patch.diff
/verif/run.sh $P quick > /tmp/vs-check.txt 2>&1; c=$?
git -C /repo checkout -- .
res "check $P with patch on /repo: exit $c"
grep -E '^VIOLATION|\[violation\]|\[undecided\]' /tmp/vs-check.txt | head -6 | tee -a $WT.log
if [ "$suite" = ok ] && [ $d1 -ne 0 ] && [ $d2 -eq 0 ]; then
  mkdir -p $OUT && cp $SRC/patch.diff $SRC/demo_test.go $SRC/notes.md $OUT/ && cp $WT.log $OUT/verify.log
  echo "KEPT in $OUT (detected: $([ $c -eq 1 ] && echo yes || echo NO))"
else
  echo "NOT KEPT (seed did not verify)"
fi
rm -f $WT.log
