#!/bin/bash
# usage: mkcombo.sh <name> <refactor-id> <property> <python-edit-script>
# Builds /verif/combos/<name>: the refactoring <refactor-id> applied to a scratch copy of /repo, then the
# python script (run in the copy's root) breaks the refactored code; the diff between the two is stored.
N=$1; B=$2; P=$3; SCRIPT=$4
T=/tmp/mkcombo; rm -rf $T; mkdir -p $T/a
rsync -a --exclude .git --exclude cmd/ocisrv/ocisrv /repo/ $T/a/ && ( cd $T/a && patch -s -p1 < /verif/refactors/$B/patch.diff ) || exit 2
cp -r $T/a $T/b && ( cd $T/b && python3 $SCRIPT ) || exit 3
( cd $T/b/ociregistry && env -u GOFLAGS -u GOWORK -u GOPROXY -u GOSUMDB -u GOTOOLCHAIN go build ./... ) || { echo "does not build"; exit 4; }
mkdir -p /verif/combos/$N
( cd $T && diff -ruN a b > /verif/combos/$N/patch.diff )
[ -s /verif/combos/$N/patch.diff ] || { echo "empty diff"; exit 5; }
echo $B > /verif/combos/$N/base; echo $P > /verif/combos/$N/prop
rm -rf $T; echo "combo $N written"
