// ocivet: static checker for the C01..C20 properties of cue-labs/oci.
//
//	ocivet -property C20 -tier quick -repo /repo -verif /verif
package main

import (
	"encoding/json"
	"flag"
	"fmt"
	"os"
	"os/exec"
	"path/filepath"
	"runtime/debug"
	"sort"
	"strconv"
	"strings"
	"sync"
	"time"

	"ocivet/internal/core"
	"ocivet/internal/load"
	"ocivet/internal/mutants"
	"ocivet/internal/props"
)

func main() {
	var (
		prop   = flag.String("property", "", "property id (C01..C20)")
		tier   = flag.String("tier", "quick", "quick|thorough")
		repo   = flag.String("repo", "/repo", "repository root")
		verif  = flag.String("verif", "/verif", "verif root (evidence, known findings)")
		mutant = flag.String("mutant", "", "internal: run one mutant and print JSON result")
		list   = flag.Bool("list", false, "list properties")
		dump   = flag.Bool("v", false, "print every obligation")
		noctl  = flag.Bool("nocontrols", false, "skip positive controls")
		manif  = flag.Bool("manifest", false, "print MANIFEST.json for the registered properties")
	)
	flag.Parse()
	if *manif {
		printManifest(*verif)
		return
	}
	if *list {
		for _, id := range props.IDs() {
			fmt.Println(id, props.Registry[id].Title)
		}
		return
	}
	p := props.Registry[*prop]
	if p == nil {
		fmt.Fprintf(os.Stderr, "unknown property %q\n", *prop)
		os.Exit(2)
	}
	if *mutant != "" {
		runMutantChild(p, *repo, *mutant)
		return
	}
	os.Exit(run(p, *tier, *repo, *verif, *dump, *noctl))
}

func runRules(p *props.Prop, repo string, overlay map[string][]byte) (rep *core.Report, err error) {
	prog, lerr := load.Load(repo, overlay)
	if lerr != nil {
		return nil, lerr
	}
	c := core.NewCtx(prog, p.ID)
	c.Explain(p.Explanation)
	defer func() {
		if r := recover(); r != nil {
			c.Fail(p.ID+".ENGINE", "engine-panic", 0, fmt.Sprintf("checker panicked (failing closed): %v\n%s", r, debug.Stack()))
			rep = c.Rep
		}
	}()
	props.Prepare(c)
	p.Run(c)
	return c.Rep, nil
}

func run(p *props.Prop, tier, repo, verif string, dump, noctl bool) int {
	start := time.Now()
	seed, _ := strconv.Atoi(os.Getenv("VERIF_SEED"))
	evdir := filepath.Join(verif, "evidence")

	var wg sync.WaitGroup
	var ctlRep *core.Report
	var ctlErr error
	var ctlStatus map[string]string
	var quickMs []mutants.Mutant
	for _, m := range mutants.For(p.ID) {
		if m.Quick {
			quickMs = append(quickMs, m)
		}
	}
	if !noctl && len(quickMs) > 0 {
		wg.Add(1)
		go func() {
			defer wg.Done()
			var ov map[string][]byte
			ov, ctlStatus = mutants.Apply(repo, quickMs)
			if len(ov) == 0 {
				return
			}
			ctlRep, ctlErr = runRules(p, repo, ov)
		}()
	}
	wg.Wait() // sequential: two concurrent loads thrash (measured 32 s vs 2 x 5 s)
	rep, err := runRules(p, repo, nil)
	if err != nil {
		// fail closed
		r := &core.Report{Property: p.ID, Explanation: p.Explanation, Functions: map[string]bool{}}
		o := core.Obligation{Rule: p.ID + ".LOAD", Key: p.ID + ".LOAD/load", Status: "violation", Detail: err.Error(), Nontrivial: true}
		r.Obls = append(r.Obls, o)
		path, _ := core.WriteReplay(evdir, p.ID, 1, o)
		r.WriteEvidence(evdir, tier, seed, time.Since(start).Seconds(), 1, nil)
		fmt.Printf("LOAD FAILURE: %v\n", err)
		fmt.Printf("VIOLATION property=%s replay=%s\n", p.ID, path)
		return 1
	}
	if len(rep.Obls) == 0 {
		rep.Obls = append(rep.Obls, core.Obligation{Rule: p.ID + ".FLOOR", Key: p.ID + ".FLOOR/no-obligations", Status: "violation", Detail: "the rules produced no obligation at all (instance floor)", Nontrivial: true})
	}

	// positive controls (quick: combined overlay)
	for _, m := range quickMs {
		ctl := core.Control{Name: m.Name, Mutates: m.File, Expect: m.ExpectRule + " ~ " + m.KeyHas}
		st := ctlStatus[m.Name]
		switch {
		case noctl:
			ctl.Result = "skipped(-nocontrols)"
		case st != "applied":
			ctl.Result = st
		case ctlErr != nil:
			ctl.Result = "skipped(mutated tree failed to load: " + ctlErr.Error() + ")"
		default:
			ctl.Result = "NOT-FIRED"
			for _, o := range ctlRep.Violations() {
				if strings.HasPrefix(o.Rule, m.ExpectRule) && strings.Contains(o.Key, m.KeyHas) {
					ctl.Result = "fired"
					ctl.Keys = append(ctl.Keys, o.Key)
				}
			}
		}
		rep.Controls = append(rep.Controls, ctl)
	}
	extra := map[string]any{}
	if tier == "thorough" && !noctl {
		res := runAllMutants(p, repo)
		extra["mutant_selftest"] = res
	}

	known, kerr := core.LoadKnown(filepath.Join(verif, "known_findings.txt"))
	if kerr != nil {
		fmt.Fprintf(os.Stderr, "warning: cannot read known findings: %v\n", kerr)
	}
	viol := rep.Violations()
	sort.SliceStable(viol, func(i, j int) bool { return viol[i].Key < viol[j].Key })
	nreal := 0
	var lines []string
	for _, o := range viol {
		isKnown := false
		for _, k := range known {
			if k.Property == p.ID && k.Key == o.Key {
				isKnown = true
				lines = append(lines, fmt.Sprintf("KNOWN-FINDING: property=%s key=%s %s", p.ID, o.Key, k.What))
			}
		}
		if isKnown {
			continue
		}
		nreal++
		path, _ := core.WriteReplay(evdir, p.ID, nreal, o)
		lines = append(lines, fmt.Sprintf("  %s %s [%s]: %s", o.Pos, o.Key, o.Status, o.Detail))
		lines = append(lines, fmt.Sprintf("VIOLATION property=%s replay=%s", p.ID, path))
	}
	wall := time.Since(start).Seconds()
	if err := rep.WriteEvidence(evdir, tier, seed, wall, nreal, extra); err != nil {
		fmt.Fprintf(os.Stderr, "cannot write evidence: %v\n", err)
		return 2
	}
	ok := 0
	perRule := map[string][2]int{}
	for _, o := range rep.Obls {
		pr := perRule[o.Rule]
		pr[0]++
		if o.Status == "ok" {
			ok++
			pr[1]++
		}
		perRule[o.Rule] = pr
		if dump {
			fmt.Printf("  [%s] %s %s: %s\n", o.Status, o.Pos, o.Key, o.Detail)
		}
	}
	var rules []string
	for r := range perRule {
		rules = append(rules, r)
	}
	sort.Strings(rules)
	fmt.Printf("%s (%s): %d obligations, %d discharged, %d functions analysed, %.1fs\n", p.ID, tier, len(rep.Obls), ok, len(rep.Functions), wall)
	for _, r := range rules {
		fmt.Printf("  %-10s %d/%d\n", r, perRule[r][1], perRule[r][0])
	}
	for _, ctl := range rep.Controls {
		fmt.Printf("  control %-32s %s\n", ctl.Name, ctl.Result)
		if ctl.Result == "NOT-FIRED" {
			fmt.Printf("WARNING: positive control %s did not fire (rule may be dead)\n", ctl.Name)
		}
	}
	if ms, ok := extra["mutant_selftest"].([]core.Control); ok {
		for _, ctl := range ms {
			fmt.Printf("  mutant  %-32s %s\n", ctl.Name, ctl.Result)
		}
	}
	for _, l := range lines {
		fmt.Println(l)
	}
	if nreal > 0 {
		return 1
	}
	return 0
}

// runAllMutants runs every mutant of the property in its own child process
// (bounded parallelism), so that each rule is shown to name its own mutant.
func runAllMutants(p *props.Prop, repo string) []core.Control {
	ms := mutants.For(p.ID)
	out := make([]core.Control, len(ms))
	sem := make(chan struct{}, 4)
	var wg sync.WaitGroup
	self, _ := os.Executable()
	for i, m := range ms {
		wg.Add(1)
		go func(i int, m mutants.Mutant) {
			defer wg.Done()
			sem <- struct{}{}
			defer func() { <-sem }()
			cmd := exec.Command(self, "-property", p.ID, "-repo", repo, "-mutant", m.Name)
			// many concurrent loads with GOMAXPROCS=16 each thrash (measured); cap the children
			cmd.Env = append(os.Environ(), "GOMAXPROCS=4")
			data, err := cmd.Output()
			var ctl core.Control
			if err != nil || json.Unmarshal(data, &ctl) != nil {
				ctl = core.Control{Name: m.Name, Mutates: m.File, Expect: m.ExpectRule + " ~ " + m.KeyHas, Result: fmt.Sprintf("skipped(child failed: %v)", err)}
			}
			out[i] = ctl
		}(i, m)
	}
	wg.Wait()
	return out
}

func runMutantChild(p *props.Prop, repo, name string) {
	for _, m := range mutants.For(p.ID) {
		if m.Name != name {
			continue
		}
		ctl := core.Control{Name: m.Name, Mutates: m.File, Expect: m.ExpectRule + " ~ " + m.KeyHas}
		ov, st := mutants.Apply(repo, []mutants.Mutant{m})
		if st[m.Name] != "applied" {
			ctl.Result = st[m.Name]
		} else if rep, err := runRules(p, repo, ov); err != nil {
			ctl.Result = "skipped(mutated tree failed to load: " + err.Error() + ")"
		} else {
			ctl.Result = "NOT-FIRED"
			for _, o := range rep.Violations() {
				if strings.HasPrefix(o.Rule, m.ExpectRule) && strings.Contains(o.Key, m.KeyHas) {
					ctl.Result = "fired"
				}
				ctl.Keys = append(ctl.Keys, o.Key)
			}
		}
		data, _ := json.Marshal(ctl)
		fmt.Println(string(data))
		return
	}
	fmt.Println(`{"name":"` + name + `","result":"skipped(unknown mutant)"}`)
}

func printManifest(verif string) {
	type na struct {
		ID     string `json:"property_id"`
		Reason string `json:"reason"`
	}
	var checks []map[string]any
	nas := []na{}
	var served []string
	// property ids come from properties.jsonl (given and fixed)
	data, _ := os.ReadFile(filepath.Join(verif, "properties.jsonl"))
	for _, line := range strings.Split(strings.TrimSpace(string(data)), "\n") {
		var pr struct {
			ID string `json:"id"`
		}
		if json.Unmarshal([]byte(line), &pr) != nil || pr.ID == "" {
			continue
		}
		p := props.Registry[pr.ID]
		if p == nil {
			nas = append(nas, na{pr.ID, "static rule not built yet (design: DESIGN.md section 4); not claimed rather than claimed through a weaker proxy"})
			continue
		}
		served = append(served, pr.ID)
		tech := p.Technique
		if tech == "" {
			tech = "static analysis: custom rules over go/types + go/ssa (dominance, path search, provenance)"
		}
		checks = append(checks, map[string]any{
			"property_id":         pr.ID,
			"quick_cmd":           "./run.sh " + pr.ID + " quick",
			"thorough_cmd":        "./run.sh " + pr.ID + " thorough",
			"evidence_file":       "/verif/evidence/" + pr.ID + ".json",
			"replay_cmd_template": "./run.sh " + pr.ID + " quick  # replay file {path} names the obligation (rule, key, file:line); the check re-evaluates it on the current tree",
			"engine":              "ocivet",
			"level_claimed": map[string]any{
				"category":   "other",
				"text":       "Sound static decision, on every path of the current tree, of stated structural necessary conditions of the property: " + p.Explanation,
				"design_ref": "DESIGN.md section 4, " + pr.ID,
			},
			"level_note": "Not decided by this check (value-/history-level clauses): " + p.NotDecided + " Trusted base: go/types + go/ssa (x/tools v0.29.0), the reference tables of DESIGN.md appendix A, and the stated assumptions in the evidence file.",
			"technique":  tech,
		})
	}
	m := map[string]any{
		"version":   1,
		"setup_cmd": "cd /verif/checker && GOWORK=off GOFLAGS=-mod=mod GOPROXY=off GOSUMDB=off GOTOOLCHAIN=local go build -o /verif/bin/ocivet ./cmd/ocivet",
		"hooks": map[string]any{
			"guard":            "verif",
			"enable":           "none: static analysis reads /repo's source; no hooks or instrumentation were added to /repo",
			"baseline_off_cmd": "for m in $(cat /w/out/gomods.txt); do MF=$(cd /repo/$m && . /w/out/goenv.sh && gomodflag); (cd /repo/$m && go test $MF -json -vet=off -count=1 -timeout 25m ./...); done",
			"source_commits":   []string{},
			"add_only":         true,
		},
		"engines": []map[string]any{{
			"name": "ocivet", "path": "/verif/checker", "serves_properties": served,
			"kind_free_text": "repository-specific static analyser (go/packages + go/types + go/ssa + VTA call graph): dominance branch facts, path search, provenance terms, lockset, bounds prover, table agreement; positive controls as in-memory overlay mutants",
		}},
		"checks":         checks,
		"not_applicable": nas,
		"notes":          "Technique family: static analysis only. Every verdict is computed from /repo's current source (type-checked program, SSA, CFG, call graph); nothing executes cue-labs/oci code. See DESIGN.md.",
	}
	out, _ := json.MarshalIndent(m, "", " ")
	fmt.Println(string(out))
}
