// Package load loads cue-labs/oci from its current working tree, type-checks
// it and builds go/ssa form plus (lazily) a VTA call graph.
package load

import (
	"fmt"
	"go/token"
	"go/types"
	"os"
	"path/filepath"
	"sort"
	"strings"
	"sync"

	"golang.org/x/tools/go/callgraph"
	"golang.org/x/tools/go/callgraph/cha"
	"golang.org/x/tools/go/callgraph/vta"
	"golang.org/x/tools/go/packages"
	"golang.org/x/tools/go/ssa"
	"golang.org/x/tools/go/ssa/ssautil"
)

// Mod is the import-path prefix of the module under analysis.
const Mod = "cuelabs.dev/go/oci/ociregistry"

type Program struct {
	Repo    string
	Fset    *token.FileSet
	Pkgs    []*packages.Package // module packages (initial)
	All     map[string]*packages.Package
	SSA     *ssa.Program
	cgOnce  sync.Once
	cg      *callgraph.Graph
	allOnce sync.Once
	allFns  []*ssa.Function
}

func env() []string {
	e := os.Environ()
	out := e[:0:0]
	for _, kv := range e {
		if strings.HasPrefix(kv, "GOWORK=") || strings.HasPrefix(kv, "GOFLAGS=") ||
			strings.HasPrefix(kv, "GOPROXY=") || strings.HasPrefix(kv, "GOSUMDB=") ||
			strings.HasPrefix(kv, "GOTOOLCHAIN=") {
			continue
		}
		out = append(out, kv)
	}
	return append(out, "GOWORK=off", "GOFLAGS=-mod=mod", "GOPROXY=off", "GOSUMDB=off", "GOTOOLCHAIN=local")
}

// Load loads <repo>/ociregistry/... . overlay maps absolute file names to
// replacement contents (used only by the mutant self-test; /repo is never
// written).
func Load(repo string, overlay map[string][]byte) (*Program, error) {
	fset := token.NewFileSet()
	cfg := &packages.Config{
		Mode:    packages.LoadAllSyntax,
		Dir:     filepath.Join(repo, "ociregistry"),
		Fset:    fset,
		Env:     env(),
		Tests:   false,
		Overlay: overlay,
	}
	pkgs, err := packages.Load(cfg, "./...")
	if err != nil {
		return nil, fmt.Errorf("packages.Load: %v", err)
	}
	if len(pkgs) == 0 {
		return nil, fmt.Errorf("no packages loaded from %s", cfg.Dir)
	}
	var errs []string
	all := map[string]*packages.Package{}
	packages.Visit(pkgs, nil, func(p *packages.Package) {
		all[p.PkgPath] = p
		if strings.HasPrefix(p.PkgPath, "cuelabs.dev/") {
			for _, e := range p.Errors {
				errs = append(errs, e.Error())
			}
		}
	})
	if len(errs) > 0 {
		return nil, fmt.Errorf("type errors in the tree (cannot vouch for a tree that does not build): %s", strings.Join(errs, "; "))
	}
	prog, _ := ssautil.AllPackages(pkgs, ssa.InstantiateGenerics)
	prog.Build()
	sort.Slice(pkgs, func(i, j int) bool { return pkgs[i].PkgPath < pkgs[j].PkgPath })
	return &Program{Repo: repo, Fset: fset, Pkgs: pkgs, All: all, SSA: prog}, nil
}

// Pkg returns the SSA package with the given import path suffix relative to
// the module (e.g. "ocimem", "" for the root package, "internal/ocirequest").
func (p *Program) Pkg(rel string) *ssa.Package {
	path := Mod
	if rel != "" {
		path = Mod + "/" + rel
	}
	tp := p.All[path]
	if tp == nil {
		return nil
	}
	return p.SSA.Package(tp.Types)
}

func (p *Program) TypesPkg(rel string) *types.Package {
	path := Mod
	if rel != "" {
		path = Mod + "/" + rel
	}
	tp := p.All[path]
	if tp == nil {
		return nil
	}
	return tp.Types
}

// RoleFunc / RoleType are installed by the role model (props.Prepare): they
// resolve an unexported function ("pkgname.canonicalName") or type by the
// structural role it plays, so that renaming it does not matter. They are
// consulted before the lookup by name.
var (
	RoleFunc func(key string) *ssa.Function
	RoleType func(pkgPath, name string) *types.Named
)

func roleKey(pkgPath, name string) string {
	return pkgPath[strings.LastIndex(pkgPath, "/")+1:] + "." + name
}

// Func returns a package-level function.
func (p *Program) Func(rel, name string) *ssa.Function {
	sp := p.Pkg(rel)
	if sp == nil {
		return nil
	}
	if RoleFunc != nil {
		if f := RoleFunc(roleKey(sp.Pkg.Path(), name)); f != nil {
			return f
		}
	}
	return sp.Func(name)
}

// NamedType returns the named type rel.name.
func (p *Program) NamedType(rel, name string) *types.Named {
	tp := p.TypesPkg(rel)
	if tp == nil {
		return nil
	}
	if RoleType != nil {
		if n := RoleType(tp.Path(), name); n != nil {
			return n
		}
	}
	o := tp.Scope().Lookup(name)
	if o == nil {
		return nil
	}
	n, _ := o.Type().(*types.Named)
	return n
}

// Method returns the SSA function for method name of T (T may be pointer).
func (p *Program) Method(T types.Type, name string) *ssa.Function {
	if RoleFunc != nil {
		t := T
		if pt, ok := t.(*types.Pointer); ok {
			t = pt.Elem()
		}
		if n, ok := t.(*types.Named); ok && n.Obj().Pkg() != nil {
			if f := RoleFunc(roleKey(n.Obj().Pkg().Path(), name)); f != nil && f.Signature.Recv() != nil {
				rt := f.Signature.Recv().Type()
				if pt, ok := rt.(*types.Pointer); ok {
					rt = pt.Elem()
				}
				if rn, ok := rt.(*types.Named); ok && rn.Origin().Obj() == n.Origin().Obj() {
					return f
				}
			}
		}
	}
	ms := p.SSA.MethodSets.MethodSet(T)
	for i := 0; i < ms.Len(); i++ {
		if ms.At(i).Obj().Name() == name {
			return p.SSA.MethodValue(ms.At(i))
		}
	}
	return nil
}

// InModule reports whether fn belongs to a package of the module.
func InModule(fn *ssa.Function) bool {
	pk := FuncPkgPath(fn)
	return strings.HasPrefix(pk, "cuelabs.dev/go/oci")
}

func FuncPkgPath(fn *ssa.Function) string {
	for fn != nil {
		if fn.Pkg != nil {
			return fn.Pkg.Pkg.Path()
		}
		if fn.Parent() != nil {
			fn = fn.Parent()
			continue
		}
		if o := fn.Origin(); o != nil && o != fn {
			fn = o
			continue
		}
		if fn.Object() != nil && fn.Object().Pkg() != nil {
			return fn.Object().Pkg().Path()
		}
		return ""
	}
	return ""
}

// AllFunctions returns every function of the program (incl. instantiations,
// wrappers and anonymous functions), sorted by name for determinism.
func (p *Program) AllFunctions() []*ssa.Function {
	p.allOnce.Do(func() {
		m := ssautil.AllFunctions(p.SSA)
		// ssautil.AllFunctions misses unexported methods of generic types (they are
		// only reachable through type-parameter method calls): add every function
		// and method declared in the module's packages, with nested literals.
		var addWithAnon func(f *ssa.Function)
		addWithAnon = func(f *ssa.Function) {
			if f == nil || m[f] {
				return
			}
			m[f] = true
			for _, a := range f.AnonFuncs {
				addWithAnon(a)
			}
		}
		for _, pkg := range p.Pkgs {
			if pkg.TypesInfo == nil {
				continue
			}
			for _, obj := range pkg.TypesInfo.Defs {
				if fo, ok := obj.(*types.Func); ok {
					addWithAnon(p.SSA.FuncValue(fo))
				}
			}
		}
		for f := range m {
			p.allFns = append(p.allFns, f)
		}
		sort.Slice(p.allFns, func(i, j int) bool {
			a, b := p.allFns[i], p.allFns[j]
			if a.String() != b.String() {
				return a.String() < b.String()
			}
			return a.Pos() < b.Pos()
		})
	})
	return p.allFns
}

// ModuleFunctions returns source functions (with bodies) in module packages
// whose package path has the given module-relative prefix ("" = all).
func (p *Program) ModuleFunctions(rel string) []*ssa.Function {
	want := Mod
	if rel != "" {
		want = Mod + "/" + rel
	}
	var out []*ssa.Function
	for _, f := range p.AllFunctions() {
		if f.Blocks == nil || f.Synthetic != "" && !strings.Contains(f.Synthetic, "instance of") {
			continue
		}
		pk := FuncPkgPath(f)
		if rel == "" {
			if !strings.HasPrefix(pk, Mod) {
				continue
			}
		} else if rel == "." {
			if pk != Mod {
				continue
			}
		} else if pk != want {
			continue
		}
		out = append(out, f)
	}
	return out
}

// CallGraph returns the VTA-over-CHA call graph (computed once).
func (p *Program) CallGraph() *callgraph.Graph {
	p.cgOnce.Do(func() {
		fns := ssautil.AllFunctions(p.SSA)
		p.cg = vta.CallGraph(fns, cha.CallGraph(p.SSA))
	})
	return p.cg
}

// Pos renders a position relative to the repo root.
func (p *Program) Pos(pos token.Pos) string {
	if !pos.IsValid() {
		return "-"
	}
	ps := p.Fset.Position(pos)
	rel, err := filepath.Rel(p.Repo, ps.Filename)
	if err != nil {
		rel = ps.Filename
	}
	return fmt.Sprintf("%s:%d", rel, ps.Line)
}
