// Package facts holds the SSA helpers shared by the rules: value stripping and
// terms (E0), dominance branch facts (E1), instruction-level path search (E4),
// and a small must-dataflow (E2).
package facts

import (
	"fmt"
	"go/constant"
	"go/token"
	"go/types"
	"strconv"
	"strings"

	"golang.org/x/tools/go/ssa"
)

// Strip removes value-preserving conversions.
func Strip(v ssa.Value) ssa.Value {
	for {
		switch x := v.(type) {
		case *ssa.ChangeType:
			v = x.X
		case *ssa.Convert:
			// string-kinded <-> string-kinded (e.g. Digest(string)) preserves the value.
			if isStringy(x.Type()) && isStringy(x.X.Type()) {
				v = x.X
			} else {
				return v
			}
		case *ssa.ChangeInterface:
			v = x.X
		case *ssa.MakeInterface:
			v = x.X
		default:
			return v
		}
	}
}

func isStringy(t types.Type) bool {
	b, ok := t.Underlying().(*types.Basic)
	return ok && b.Info()&types.IsString != 0
}

// StoresTo returns every Store whose address is exactly addr, in fn and in
// the closures nested in fn that capture it.
func StoresTo(addr ssa.Value) []*ssa.Store {
	var out []*ssa.Store
	refs := addr.Referrers()
	if refs == nil {
		return nil
	}
	for _, r := range *refs {
		switch r := r.(type) {
		case *ssa.Store:
			if r.Addr == addr {
				out = append(out, r)
			}
		case *ssa.MakeClosure:
			// captured: find the corresponding free var in the closure
			fn := r.Fn.(*ssa.Function)
			for i, b := range r.Bindings {
				if b == addr && i < len(fn.FreeVars) {
					out = append(out, StoresTo(fn.FreeVars[i])...)
				}
			}
		}
	}
	return out
}

// Resolve looks through spill cells: a load *cell yields the stored value
// when the reaching store is unique (single store, or the last of several
// stores that all precede the load / the creation of the closure containing
// the load, with no other store able to reach it in between).
func Resolve(v ssa.Value) ssa.Value {
	for i := 0; i < 20; i++ {
		v = Strip(v)
		u, ok := v.(*ssa.UnOp)
		if !ok || u.Op != token.MUL {
			return v
		}
		if nv, ok := cellLoad(u); ok {
			v = nv
			continue
		}
		return v
	}
	return v
}

// cellLoad resolves a load from an Alloc cell (directly or through FreeVar
// captures) to the value of its unique reaching store.
func cellLoad(u *ssa.UnOp) (ssa.Value, bool) {
	var alloc *ssa.Alloc
	var site ssa.Instruction = u
	switch a := u.X.(type) {
	case *ssa.Alloc:
		alloc = a
	case *ssa.FreeVar:
		// walk up the closure chain to the function owning the cell
		var cur ssa.Value = a
		fn := u.Parent()
		for d := 0; d < 8; d++ {
			fv, isFV := cur.(*ssa.FreeVar)
			if !isFV {
				break
			}
			mc := uniqueMakeClosure(fn)
			if mc == nil {
				return nil, false
			}
			idx := -1
			for i, f := range fn.FreeVars {
				if f == fv {
					idx = i
				}
			}
			if idx < 0 {
				return nil, false
			}
			cur = mc.Bindings[idx]
			site = mc
			fn = fn.Parent()
		}
		al, ok := cur.(*ssa.Alloc)
		if !ok {
			return nil, false
		}
		alloc = al
	default:
		return nil, false
	}
	st, ok := ReachingStore(alloc, site, site != ssa.Instruction(u))
	if !ok {
		return nil, false
	}
	return st.Val, true
}

// ReachingStore returns the unique whole-cell store to alloc that reaches
// site (an instruction of alloc's function).
func ReachingStore(alloc *ssa.Alloc, site ssa.Instruction, inClosure bool) (*ssa.Store, bool) {
	stores := StoresTo(alloc)
	if len(stores) == 0 {
		return nil, false
	}
	if len(stores) == 1 {
		return stores[0], true
	}
	owner := alloc.Parent()
	var best *ssa.Store
	for _, st := range stores {
		if st.Parent() != owner {
			return nil, false // stored from inside a closure: timing unknown
		}
		if site.Parent() != owner {
			return nil, false
		}
		if Dominates(st, site) {
			if best == nil || Dominates(best, st) {
				best = st
			}
		} else if inClosure {
			return nil, false // a store that may happen after the closure was created
		}
	}
	if best == nil {
		return nil, false
	}
	for _, st := range stores {
		if st == best {
			continue
		}
		isSite := func(in ssa.Instruction) bool { return in == site }
		isBest := func(in ssa.Instruction) bool { return in == ssa.Instruction(best) }
		if _, reach := ReachesWithout(st, isSite, isBest, nil); reach {
			return nil, false
		}
	}
	return best, true
}

// StructFieldSource: if v is field `name` of a struct value — either a Field
// instruction, or a load of a FieldAddr of a local struct cell whose reaching
// whole-struct store is unique and which has no field-level stores — it
// returns that struct value.
func StructFieldSource(v ssa.Value) (structVal ssa.Value, name string, ok bool) {
	v = Strip(v)
	switch x := v.(type) {
	case *ssa.Field:
		return Resolve(x.X), fieldName(x.X.Type(), x.Field), true
	case *ssa.UnOp:
		if x.Op != token.MUL {
			return nil, "", false
		}
		fa, isFA := x.X.(*ssa.FieldAddr)
		if !isFA {
			return nil, "", false
		}
		al, isAl := fa.X.(*ssa.Alloc)
		if !isAl {
			return nil, "", false
		}
		// no field-level stores anywhere
		for _, ref := range *al.Referrers() {
			if fa2, ok := ref.(*ssa.FieldAddr); ok && len(StoresTo(fa2)) > 0 {
				return nil, "", false
			}
		}
		st, ok := ReachingStore(al, x, false)
		if !ok {
			return nil, "", false
		}
		return Resolve(st.Val), fieldName(fa.X.Type(), fa.Field), true
	}
	return nil, "", false
}

func uniqueMakeClosure(fn *ssa.Function) *ssa.MakeClosure {
	if fn.Parent() == nil {
		return nil
	}
	var site *ssa.MakeClosure
	n := 0
	for _, b := range fn.Parent().Blocks {
		for _, in := range b.Instrs {
			if mc, ok := in.(*ssa.MakeClosure); ok && mc.Fn == fn {
				site = mc
				n++
			}
		}
	}
	if n != 1 {
		return nil
	}
	return site
}

// Binding returns the value bound to free variable fv at the (unique)
// MakeClosure site of its function, or nil.
func Binding(fv *ssa.FreeVar) ssa.Value {
	fn := fv.Parent()
	idx := -1
	for i, f := range fn.FreeVars {
		if f == fv {
			idx = i
		}
	}
	if idx < 0 || fn.Parent() == nil {
		return nil
	}
	var found ssa.Value
	n := 0
	var walk func(p *ssa.Function)
	walk = func(p *ssa.Function) {
		for _, b := range p.Blocks {
			for _, in := range b.Instrs {
				if mc, ok := in.(*ssa.MakeClosure); ok && mc.Fn == fn {
					found = mc.Bindings[idx]
					n++
				}
			}
		}
	}
	walk(fn.Parent())
	if n == 1 {
		return found
	}
	return nil
}

// ResolveFree resolves a value through FreeVar bindings (by-value captures
// and by-reference cells) to the value in the enclosing function.
func ResolveFree(v ssa.Value) ssa.Value {
	for i := 0; i < 10; i++ {
		v = Resolve(v)
		if fv, ok := v.(*ssa.FreeVar); ok {
			if b := Binding(fv); b != nil {
				v = b
				continue
			}
		}
		return v
	}
	return v
}

// Term renders a canonical term for v (E0). Equal terms denote equal values
// provided no intervening store kills the loaded field (callers that need
// kill-sensitivity check it separately).
func Term(v ssa.Value) string {
	return term(v, 0)
}

func term(v ssa.Value, depth int) string {
	if depth > 12 {
		return fmt.Sprintf("?%s", localName(v))
	}
	v = ResolveFree(v)
	switch x := v.(type) {
	case *ssa.Parameter:
		if sub, ok := ParamSubst[x]; ok {
			return sub
		}
		return "param(" + x.Name() + ")"
	case *ssa.FreeVar:
		return "free(" + x.Name() + ")"
	case *ssa.Const:
		if x.Value == nil {
			return "nil"
		}
		return "const(" + x.Value.ExactString() + ")"
	case *ssa.Global:
		return "global(" + x.String() + ")"
	case *ssa.Function:
		return "func(" + x.String() + ")"
	case *ssa.UnOp:
		if x.Op == token.MUL {
			return "*" + term(x.X, depth+1)
		}
		return x.Op.String() + term(x.X, depth+1)
	case *ssa.FieldAddr:
		return term(x.X, depth+1) + "." + fieldName(x.X.Type(), x.Field) + "&"
	case *ssa.Field:
		return term(x.X, depth+1) + "." + fieldName(x.X.Type(), x.Field)
	case *ssa.Extract:
		return fmt.Sprintf("ext%d(%s)", x.Index, term(x.Tuple, depth+1))
	case *ssa.Call:
		var args []string
		for _, a := range x.Call.Args {
			args = append(args, term(a, depth+1))
		}
		name := CalleeName(&x.Call)
		if x.Call.IsInvoke() {
			name = term(x.Call.Value, depth+1) + "." + x.Call.Method.Name()
		}
		return fmt.Sprintf("call#%s(%s)", name, strings.Join(args, ","))
	case *ssa.BinOp:
		return "(" + term(x.X, depth+1) + x.Op.String() + term(x.Y, depth+1) + ")"
	case *ssa.Alloc:
		// the spill cell of an address-taken (struct-valued) parameter stands for
		// the parameter, so that ParamSubst relates it to the caller's argument
		if p := spillOfParam(x); p != nil {
			return "&(" + term(p, depth+1) + ")"
		}
		return fmt.Sprintf("alloc(%s@%d)", x.Comment, x.Pos())
	case *ssa.Phi:
		return fmt.Sprintf("phi(%s@%s)", x.Comment, localName(x))
	case *ssa.Lookup:
		return "lookup(" + term(x.X, depth+1) + "," + term(x.Index, depth+1) + ")"
	case *ssa.IndexAddr:
		return term(x.X, depth+1) + "[" + term(x.Index, depth+1) + "]&"
	case *ssa.Index:
		return term(x.X, depth+1) + "[" + term(x.Index, depth+1) + "]"
	case *ssa.Slice:
		return "slice(" + term(x.X, depth+1) + ")"
	case *ssa.MakeClosure:
		return "closure(" + x.Fn.Name() + ")"
	case *ssa.Convert:
		return "conv(" + term(x.X, depth+1) + ")"
	case *ssa.TypeAssert:
		return "assert(" + term(x.X, depth+1) + ")"
	}
	return fmt.Sprintf("%T(%s)", v, localName(v))
}

// spillOfParam: al is the cell a parameter is copied into on entry and is
// never written again (neither as a whole nor field by field).
// SpillOfParam is spillOfParam for rules.
func SpillOfParam(al *ssa.Alloc) *ssa.Parameter { return spillOfParam(al) }

func spillOfParam(al *ssa.Alloc) *ssa.Parameter {
	if al.Referrers() == nil {
		return nil
	}
	var p *ssa.Parameter
	for _, ref := range *al.Referrers() {
		switch r := ref.(type) {
		case *ssa.Store:
			if r.Addr != ssa.Value(al) {
				continue
			}
			q, ok := r.Val.(*ssa.Parameter)
			if !ok || p != nil {
				return nil
			}
			p = q
		case *ssa.FieldAddr:
			if r.Referrers() != nil {
				for _, rr := range *r.Referrers() {
					if st, ok := rr.(*ssa.Store); ok && st.Addr == ssa.Value(r) {
						return nil
					}
				}
			}
		}
	}
	return p
}

// localName: a function-qualified register name (terms of different functions
// share one namespace once helpers are inlined).
func localName(v ssa.Value) string {
	if in, ok := v.(ssa.Instruction); ok && in.Parent() != nil {
		return in.Parent().Name() + ":" + v.Name()
	}
	return v.Name()
}

// ParamSubst, while a helper is being analysed in the context of a call site
// (Inliner), maps the helper's parameters to the terms of the call's arguments.
var ParamSubst = map[*ssa.Parameter]string{}

// CanonField, when set, maps a struct field to its canonical (role) name, so
// that rules are insensitive to renames of unexported fields.
var CanonField func(f *types.Var) string

func fieldName(t types.Type, i int) string {
	if p, ok := t.Underlying().(*types.Pointer); ok {
		t = p.Elem()
	}
	if s, ok := t.Underlying().(*types.Struct); ok && i < s.NumFields() {
		f := s.Field(i)
		if CanonField != nil {
			// fields of instantiated generic structs are distinct objects: map through the origin
			if n := CanonField(f.Origin()); n != "" {
				return n
			}
		}
		return f.Name()
	}
	return fmt.Sprintf("f%d", i)
}

// FieldOf: if v is a load of (or the address of, or a Field of) a struct
// field, returns the base value and the field name.
func FieldOf(v ssa.Value) (base ssa.Value, name string, ok bool) {
	v = Strip(v)
	switch x := v.(type) {
	case *ssa.UnOp:
		if x.Op == token.MUL {
			if fa, ok := x.X.(*ssa.FieldAddr); ok {
				return fa.X, fieldName(fa.X.Type(), fa.Field), true
			}
		}
	case *ssa.FieldAddr:
		return x.X, fieldName(x.X.Type(), x.Field), true
	case *ssa.Field:
		return x.X, fieldName(x.X.Type(), x.Field), true
	}
	return nil, "", false
}

// CalleeName returns a stable name for the static callee ("fmt.Errorf",
// "(*net/http.Request).SetBasicAuth"), the invoked method for interface
// calls ("invoke:Close"), or "dynamic".
// CanonFuncString / CanonMethod are installed by the role model: they give the
// canonical rendering of a module function whose (unexported) name or receiver
// type name differs from the one the rules were written against.
var (
	CanonFuncString func(f *ssa.Function) string
	CanonMethod     func(name string) string
)

func CalleeName(c *ssa.CallCommon) string {
	if c.IsInvoke() {
		if CanonMethod != nil {
			return "invoke:" + CanonMethod(c.Method.Name())
		}
		return "invoke:" + c.Method.Name()
	}
	if f := c.StaticCallee(); f != nil {
		if o := f.Origin(); o != nil {
			f = o
		}
		if CanonFuncString != nil {
			if s := CanonFuncString(f); s != "" {
				return s
			}
		}
		return f.String()
	}
	if b, ok := c.Value.(*ssa.Builtin); ok {
		return "builtin:" + b.Name()
	}
	return "dynamic"
}

// ConstString returns the string value of v if it is a string constant.
func ConstString(v ssa.Value) (string, bool) {
	v = Strip(v)
	if c, ok := v.(*ssa.Const); ok && c.Value != nil && c.Value.Kind() == constant.String {
		return constant.StringVal(c.Value), true
	}
	return "", false
}

// ConstInt returns the int value of v if it is an integer constant.
func ConstInt(v ssa.Value) (int64, bool) {
	if cv, ok := v.(*ssa.Convert); ok {
		v = cv.X
	}
	if c, ok := v.(*ssa.Const); ok && c.Value != nil && c.Value.Kind() == constant.Int {
		i, ok := constant.Int64Val(c.Value)
		return i, ok
	}
	return 0, false
}

func IsNilConst(v ssa.Value) bool {
	c, ok := v.(*ssa.Const)
	return ok && c.Value == nil
}

// ---------------------------------------------------------------- E1

// Cond is a branch condition known to hold (Pos) or not hold (!Pos).
type Cond struct {
	V   ssa.Value
	Pos bool
	If  *ssa.If
}

// CondsAt returns the branch conditions that hold on entry to b on every
// path (dominator-tree walk; the nilness-analyzer discipline).
func CondsAt(b *ssa.BasicBlock) []Cond {
	return condsAtD(b, 0)
}

func condsAtD(b *ssa.BasicBlock, depth int) []Cond {
	var out []Cond
	if depth > 4 {
		return nil
	}
	for cur := b; cur != nil; cur = cur.Idom() {
		d := cur.Idom()
		if d == nil || len(cur.Preds) != 1 || cur.Preds[0] != d {
			continue
		}
		iff, ok := d.Instrs[len(d.Instrs)-1].(*ssa.If)
		if !ok {
			continue
		}
		if d.Succs[0] == cur && d.Succs[1] != cur {
			out = append(out, flattenD(Cond{iff.Cond, true, iff}, depth)...)
		} else if d.Succs[1] == cur && d.Succs[0] != cur {
			out = append(out, flattenD(Cond{iff.Cond, false, iff}, depth)...)
		}
	}
	return out
}

// flatten pushes negations inward (!x true => x false) and opens the phi
// that go/ssa builds for a short-circuit expression used as a value (e.g. a
// tagless switch case `a && b`): phi[false, ..., X] known true means the path
// through X's edge was taken, so X holds together with everything that held
// at the end of that predecessor; dually for `||` known false.
func flatten(c Cond) []Cond {
	return flattenD(c, 0)
}

func flattenD(c Cond, depth int) []Cond {
	if u, ok := c.V.(*ssa.UnOp); ok && u.Op == token.NOT {
		return flattenD(Cond{u.X, !c.Pos, c.If}, depth)
	}
	if ph, ok := c.V.(*ssa.Phi); ok && depth < 4 {
		if j, known := pathPhiEdge(ph); known {
			// PathFlow knows which predecessor this path came through
			e := ph.Edges[j]
			if _, isC := e.(*ssa.Const); isC {
				return []Cond{c}
			}
			return append([]Cond{c}, flattenD(Cond{e, c.Pos, c.If}, depth+1)...)
		}
		want := "false"
		if !c.Pos {
			want = "true"
		}
		idx := -1
		n := 0
		for i, e := range ph.Edges {
			if cst, ok := e.(*ssa.Const); ok && cst.Value != nil && cst.Value.ExactString() == want {
				continue
			}
			idx = i
			n++
		}
		if n == 1 {
			out := []Cond{c}
			out = append(out, flattenD(Cond{ph.Edges[idx], c.Pos, c.If}, depth+1)...)
			out = append(out, condsAtD(ph.Block().Preds[idx], depth+1)...)
			return out
		}
	}
	return []Cond{c}
}

// pathTokens is set by PathFlow while it evaluates an edge: the facts of the
// path being extended, among them which incoming edge each boolean phi took
// ("φ:<phi>=<j>"), so that short-circuit conditions (`a && b`, `a || b`, which
// go/ssa compiles to a phi of a constant and the second operand) are decoded
// exactly along each path instead of only on the edge where both operands are
// determined.
var pathTokens Tokens

func phiKey(ph *ssa.Phi) string { return "φ:" + localName(ph) + "=" }

func pathPhiEdge(ph *ssa.Phi) (int, bool) {
	if pathTokens == nil {
		return 0, false
	}
	k := phiKey(ph)
	for j := range ph.Edges {
		if pathTokens[k+strconv.Itoa(j)] {
			return j, true
		}
	}
	return 0, false
}

// phiInfeasible: the If of b tests (a negation of) a boolean phi whose incoming
// value on this path is a constant contradicting successor idx.
func phiInfeasible(b *ssa.BasicBlock, idx int, t Tokens) bool {
	iff, ok := b.Instrs[len(b.Instrs)-1].(*ssa.If)
	if !ok {
		return false
	}
	v, pos := iff.Cond, idx == 0
	for d := 0; d < 6; d++ {
		if u, ok := v.(*ssa.UnOp); ok && u.Op == token.NOT {
			v, pos = u.X, !pos
			continue
		}
		ph, ok := v.(*ssa.Phi)
		if !ok {
			return false
		}
		k := phiKey(ph)
		found := false
		for j, e := range ph.Edges {
			if !t[k+strconv.Itoa(j)] {
				continue
			}
			found = true
			if cst, isC := e.(*ssa.Const); isC && cst.Value != nil {
				return (cst.Value.ExactString() == "true") != pos
			}
			v = e
		}
		if !found {
			return false
		}
	}
	return false
}

// notePhis records, for the boolean phis of s, that the path enters s from b.
func notePhis(b, s *ssa.BasicBlock, t Tokens) {
	j, n := -1, 0
	for i, p := range s.Preds {
		if p == b {
			j = i
			n++
		}
	}
	for _, in := range s.Instrs {
		ph, ok := in.(*ssa.Phi)
		if !ok {
			break
		}
		if !trackedPhi(ph) {
			continue
		}
		k := phiKey(ph)
		for tk := range t {
			if strings.HasPrefix(tk, k) {
				delete(t, tk)
			}
		}
		if n == 1 {
			t[k+strconv.Itoa(j)] = true
		}
	}
}

// trackedPhi: boolean phis (short-circuit conditions) and error/pointer phis
// that are compared with nil (`err := f(); if err == nil { err = g() }`).
func trackedPhi(ph *ssa.Phi) bool {
	switch t := ph.Type().Underlying().(type) {
	case *types.Basic:
		return t.Kind() == types.Bool
	case *types.Interface, *types.Pointer:
		for _, r := range *ph.Referrers() {
			if bo, ok := r.(*ssa.BinOp); ok && (bo.Op == token.EQL || bo.Op == token.NEQ) && (IsNilConst(bo.X) || IsNilConst(bo.Y)) {
				return true
			}
		}
	}
	return false
}

// PathValue: inside a PathFlow Edge function, the value v stands for on the
// path being extended — a tracked phi is replaced by its incoming value.
func PathValue(v ssa.Value) ssa.Value {
	for d := 0; d < 6; d++ {
		ph, ok := v.(*ssa.Phi)
		if !ok {
			return v
		}
		j, known := pathPhiEdge(ph)
		if !known {
			return v
		}
		v = ph.Edges[j]
	}
	return v
}

// dropLocalPhis forgets, on leaving b, the phis of b that are used only inside b.
func dropLocalPhis(b *ssa.BasicBlock, t Tokens) {
	for _, in := range b.Instrs {
		ph, ok := in.(*ssa.Phi)
		if !ok {
			break
		}
		local := true
		for _, r := range *ph.Referrers() {
			if r.Block() != b {
				local = false
			}
		}
		if local {
			k := phiKey(ph)
			for tk := range t {
				if strings.HasPrefix(tk, k) {
					delete(t, tk)
				}
			}
		}
	}
}

// FlattenOne strips negations from a condition (NOT x, positive -> x, negative).
func FlattenOne(c Cond) Cond {
	for d := 0; d < 6; d++ {
		u, ok := c.V.(*ssa.UnOp)
		if !ok || u.Op != token.NOT {
			break
		}
		c = Cond{u.X, !c.Pos, c.If}
	}
	return c
}

// EdgeConds returns the conditions established by taking successor idx of b
// (only the condition of b's own If, if any).
func EdgeConds(b *ssa.BasicBlock, idx int) []Cond {
	iff, ok := b.Instrs[len(b.Instrs)-1].(*ssa.If)
	if !ok || b.Succs[0] == b.Succs[1] {
		return nil
	}
	return flatten(Cond{iff.Cond, idx == 0, iff})
}

// NilCheck decodes "x == nil"/"x != nil" conditions: returns the tested
// value and whether the condition (with its polarity) means x is nil.
func NilCheck(c Cond) (x ssa.Value, isNil bool, ok bool) {
	b, isb := c.V.(*ssa.BinOp)
	if !isb || (b.Op != token.EQL && b.Op != token.NEQ) {
		return nil, false, false
	}
	var other ssa.Value
	switch {
	case IsNilConst(b.Y):
		other = b.X
	case IsNilConst(b.X):
		other = b.Y
	default:
		return nil, false, false
	}
	eq := b.Op == token.EQL
	return other, eq == c.Pos, true
}

// Cmp decodes comparison conditions into (x, op, y) with polarity applied.
func Cmp(c Cond) (x ssa.Value, op token.Token, y ssa.Value, ok bool) {
	b, isb := c.V.(*ssa.BinOp)
	if !isb {
		return nil, 0, nil, false
	}
	op = b.Op
	switch op {
	case token.EQL, token.NEQ, token.LSS, token.LEQ, token.GTR, token.GEQ:
	default:
		return nil, 0, nil, false
	}
	if !c.Pos {
		switch op {
		case token.EQL:
			op = token.NEQ
		case token.NEQ:
			op = token.EQL
		case token.LSS:
			op = token.GEQ
		case token.LEQ:
			op = token.GTR
		case token.GTR:
			op = token.LEQ
		case token.GEQ:
			op = token.LSS
		}
	}
	// canonical operand order: a constant goes on the right (`255 < len(s)` is
	// read as `len(s) > 255`), so that rules match either spelling
	x, y = b.X, b.Y
	if isConstOperand(x) && !isConstOperand(y) {
		x, y = y, x
		switch op {
		case token.LSS:
			op = token.GTR
		case token.LEQ:
			op = token.GEQ
		case token.GTR:
			op = token.LSS
		case token.GEQ:
			op = token.LEQ
		}
	}
	return x, op, y, true
}

func isConstOperand(v ssa.Value) bool {
	v = Strip(v)
	_, ok := v.(*ssa.Const)
	return ok
}

// EmptyTest decodes the spellings of "string/slice x is (not) empty":
// x == "", x != "", len(x) == 0, len(x) != 0, len(x) > 0, len(x) >= 1,
// len(x) < 1, len(x) <= 0 (with the condition's polarity applied).
func EmptyTest(c Cond) (x ssa.Value, isEmpty bool, ok bool) {
	a, op, b, okc := Cmp(c)
	if !okc {
		return nil, false, false
	}
	if s, isS := ConstString(b); isS && s == "" {
		switch op {
		case token.EQL:
			return a, true, true
		case token.NEQ:
			return a, false, true
		}
		return nil, false, false
	}
	k, isK := ConstInt(b)
	call, isCall := Resolve(a).(*ssa.Call)
	if !isK || !isCall {
		return nil, false, false
	}
	bi, isB := call.Call.Value.(*ssa.Builtin)
	if !isB || bi.Name() != "len" {
		return nil, false, false
	}
	arg := call.Call.Args[0]
	switch {
	case op == token.EQL && k == 0, op == token.LEQ && k == 0, op == token.LSS && k == 1:
		return arg, true, true
	case op == token.NEQ && k == 0, op == token.GTR && k == 0, op == token.GEQ && k == 1:
		return arg, false, true
	}
	return nil, false, false
}

// ---------------------------------------------------------------- positions in the CFG

// Index returns the index of in within its block.
func Index(in ssa.Instruction) int {
	for i, x := range in.Block().Instrs {
		if x == in {
			return i
		}
	}
	return -1
}

// Dominates reports whether instruction a dominates instruction b (a
// executes before b on every path to b).
func Dominates(a, b ssa.Instruction) bool {
	if a.Block() == b.Block() {
		return Index(a) < Index(b)
	}
	return a.Block().Dominates(b.Block())
}

// EdgeFilter may veto a CFG edge (block b -> b.Succs[idx]).
type EdgeFilter func(b *ssa.BasicBlock, idx int) bool

// ReachesWithout searches paths starting just after `from`. It returns the
// first instruction satisfying target that can be reached without passing an
// instruction satisfying barrier, honouring edge (nil = all edges).
func ReachesWithout(from ssa.Instruction, target, barrier func(ssa.Instruction) bool, edge EdgeFilter) (ssa.Instruction, bool) {
	return ReachesFrom(from.Block(), Index(from)+1, target, barrier, edge)
}

// ReachesFrom is ReachesWithout starting at b.Instrs[start].
func ReachesFrom(b0 *ssa.BasicBlock, start int, target, barrier func(ssa.Instruction) bool, edge EdgeFilter) (ssa.Instruction, bool) {
	type item struct {
		b *ssa.BasicBlock
		i int
	}
	seen := map[*ssa.BasicBlock]bool{}
	work := []item{{b0, start}}
	for len(work) > 0 {
		it := work[len(work)-1]
		work = work[:len(work)-1]
		blocked := false
		for i := it.i; i < len(it.b.Instrs); i++ {
			in := it.b.Instrs[i]
			if target(in) {
				return in, true
			}
			if barrier != nil && barrier(in) {
				blocked = true
				break
			}
		}
		if blocked {
			continue
		}
		for idx, s := range it.b.Succs {
			if edge != nil && !edge(it.b, idx) {
				continue
			}
			if !seen[s] {
				seen[s] = true
				work = append(work, item{s, 0})
			}
		}
	}
	return nil, false
}

func IsReturn(in ssa.Instruction) bool { _, ok := in.(*ssa.Return); return ok }

func IsExit(in ssa.Instruction) bool {
	switch in.(type) {
	case *ssa.Return, *ssa.Panic:
		return true
	}
	return false
}

// CallsIn returns all call-like instructions (Call, Defer, Go) of fn.
func CallsIn(fn *ssa.Function) []ssa.CallInstruction {
	var out []ssa.CallInstruction
	for _, b := range fn.Blocks {
		for _, in := range b.Instrs {
			if c, ok := in.(ssa.CallInstruction); ok {
				out = append(out, c)
			}
		}
	}
	return out
}

// WithAnon returns fn and all functions nested in it.
func WithAnon(fn *ssa.Function) []*ssa.Function {
	out := []*ssa.Function{fn}
	for _, a := range fn.AnonFuncs {
		out = append(out, WithAnon(a)...)
	}
	return out
}

// ---------------------------------------------------------------- E2 must-dataflow

// MustFlow computes, for every block, the set of tokens that hold at block
// entry on all paths from the function entry. gen is called for every
// instruction (tokens generated / killed by it) and edgeGen for every CFG edge.
type Tokens map[string]bool

func (t Tokens) clone() Tokens {
	n := Tokens{}
	for k := range t {
		n[k] = true
	}
	return n
}

type FlowFuncs struct {
	Instr func(in ssa.Instruction, t Tokens)              // mutate t
	Edge  func(b *ssa.BasicBlock, idx int, t Tokens) bool // mutate t; return false if the edge is infeasible given t
	// Call (PathFlow only), applied after Instr: the token sets that hold after
	// the instruction instead of t (nil = just t). Used to inline helpers.
	Call func(in ssa.Instruction, t Tokens) []Tokens
}

func (ff FlowFuncs) step(ins ssa.Instruction, ts []Tokens) []Tokens {
	if ff.Instr != nil {
		for _, t := range ts {
			ff.Instr(ins, t)
		}
	}
	if ff.Call == nil {
		return ts
	}
	if _, ok := ins.(*ssa.Call); !ok {
		return ts
	}
	var out []Tokens
	changed := false
	for _, t := range ts {
		if r := ff.Call(ins, t); r != nil {
			out = append(out, r...)
			changed = true
		} else {
			out = append(out, t)
		}
	}
	if !changed {
		return ts
	}
	var d DNF
	for _, t := range out {
		d, _ = d.add(t)
	}
	return d
}

// MustFlow returns tokens at entry of each block (nil for unreachable).
func MustFlow(fn *ssa.Function, ff FlowFuncs) map[*ssa.BasicBlock]Tokens {
	in := map[*ssa.BasicBlock]Tokens{}
	if len(fn.Blocks) == 0 {
		return in
	}
	in[fn.Blocks[0]] = Tokens{}
	work := []*ssa.BasicBlock{fn.Blocks[0]}
	for iter := 0; len(work) > 0 && iter < 100000; iter++ {
		b := work[0]
		work = work[1:]
		t := in[b].clone()
		for _, ins := range b.Instrs {
			if ff.Instr != nil {
				ff.Instr(ins, t)
			}
		}
		for idx, s := range b.Succs {
			te := t.clone()
			if ff.Edge != nil && !ff.Edge(b, idx, te) {
				continue
			}
			old, ok := in[s]
			if !ok {
				in[s] = te
				work = append(work, s)
				continue
			}
			changed := false
			for k := range old {
				if !te[k] {
					delete(old, k)
					changed = true
				}
			}
			if changed {
				work = append(work, s)
			}
		}
	}
	return in
}

// TokensAt returns the tokens holding just before instruction at.
func TokensAt(fn *ssa.Function, ff FlowFuncs, flow map[*ssa.BasicBlock]Tokens, at ssa.Instruction) Tokens {
	t, ok := flow[at.Block()]
	if !ok {
		return nil
	}
	t = t.clone()
	for _, ins := range at.Block().Instrs {
		if ins == at {
			break
		}
		if ff.Instr != nil {
			ff.Instr(ins, t)
		}
	}
	return t
}

// FuncName renders a function name relative to the module.
func FuncName(fn *ssa.Function) string {
	s := fn.String()
	s = strings.ReplaceAll(s, "cuelabs.dev/go/oci/ociregistry/", "")
	s = strings.ReplaceAll(s, "cuelabs.dev/go/oci/", "")
	return s
}

// ---------------------------------------------------------------- E2 disjunctive path facts

// DNF is a bounded set of token sets: each element describes the facts known
// along one class of paths. A query holds at a point iff it holds in every
// disjunct that reaches the point.
type DNF []Tokens

func (t Tokens) key() string {
	ks := make([]string, 0, len(t))
	for k := range t {
		ks = append(ks, k)
	}
	sortStrings(ks)
	return strings.Join(ks, "\x00")
}

func sortStrings(a []string) {
	for i := 1; i < len(a); i++ {
		for j := i; j > 0 && a[j] < a[j-1]; j-- {
			a[j], a[j-1] = a[j-1], a[j]
		}
	}
}

const maxDisjuncts = 32

func (d DNF) add(t Tokens) (DNF, bool) {
	k := t.key()
	for _, x := range d {
		if x.key() == k {
			return d, false
		}
	}
	d = append(d, t)
	if len(d) > maxDisjuncts {
		// collapse to the intersection: loses facts, never invents them
		inter := d[0].clone()
		for _, x := range d[1:] {
			for k := range inter {
				if !x[k] {
					delete(inter, k)
				}
			}
		}
		return DNF{inter}, true
	}
	return d, true
}

// PathFlow runs the disjunctive forward analysis over fn.
func PathFlow(fn *ssa.Function, ff FlowFuncs) map[*ssa.BasicBlock]DNF {
	return PathFlowFrom(fn, ff, Tokens{})
}

// PathFlowFrom is PathFlow with the given facts holding on entry.
func PathFlowFrom(fn *ssa.Function, ff FlowFuncs, init Tokens) map[*ssa.BasicBlock]DNF {
	in := map[*ssa.BasicBlock]DNF{}
	if len(fn.Blocks) == 0 {
		return in
	}
	in[fn.Blocks[0]] = DNF{init.clone()}
	work := []*ssa.BasicBlock{fn.Blocks[0]}
	inWork := map[*ssa.BasicBlock]bool{fn.Blocks[0]: true}
	for iter := 0; len(work) > 0 && iter < 200000; iter++ {
		b := work[0]
		work = work[1:]
		inWork[b] = false
		for _, d0 := range in[b] {
			ts := []Tokens{d0.clone()}
			for _, ins := range b.Instrs {
				ts = ff.step(ins, ts)
			}
			for _, t := range ts {
				for idx, s := range b.Succs {
					te := t.clone()
					if phiInfeasible(b, idx, te) {
						continue
					}
					if ff.Edge != nil {
						saved := pathTokens
						pathTokens = te
						ok := ff.Edge(b, idx, te)
						pathTokens = saved
						if !ok {
							continue
						}
					}
					dropLocalPhis(b, te)
					notePhis(b, s, te)
					nd, changed := in[s].add(te)
					in[s] = nd
					if changed && !inWork[s] {
						inWork[s] = true
						work = append(work, s)
					}
				}
			}
		}
	}
	return in
}

// AllAt reports whether pred holds in every disjunct just before instruction
// at (false if the point is unreachable in the analysis).
func AllAt(ff FlowFuncs, flow map[*ssa.BasicBlock]DNF, at ssa.Instruction, pred func(Tokens) bool) bool {
	ds, ok := flow[at.Block()]
	if !ok || len(ds) == 0 {
		return false
	}
	for _, d0 := range ds {
		ts := []Tokens{d0.clone()}
		for _, ins := range at.Block().Instrs {
			if ins == at {
				break
			}
			ts = ff.step(ins, ts)
		}
		for _, t := range ts {
			if !pred(t) {
				return false
			}
		}
	}
	return true
}

// CondsAtDeep is CondsAt plus, for instructions inside a function literal,
// the conditions that held where the (unique) closure was created: SSA
// values are immutable, so a condition on them established at creation time
// still holds when the literal runs.
func CondsAtDeep(b *ssa.BasicBlock) []Cond {
	out := CondsAt(b)
	fn := b.Parent()
	for d := 0; fn.Parent() != nil && d < 6; d++ {
		var site *ssa.MakeClosure
		n := 0
		for _, pb := range fn.Parent().Blocks {
			for _, in := range pb.Instrs {
				if mc, ok := in.(*ssa.MakeClosure); ok && mc.Fn == fn {
					site = mc
					n++
				}
			}
		}
		if n != 1 {
			break
		}
		out = append(out, CondsAt(site.Block())...)
		fn = fn.Parent()
	}
	return out
}

// RetVal returns the i-th result of r, looking through the defer/closure
// spill of named results: `*cell = v; rundefers; t = *cell; return t` yields v
// (the last store to the cell in the returning block).
func RetVal(r *ssa.Return, i int) ssa.Value {
	v := r.Results[i]
	u, ok := v.(*ssa.UnOp)
	if !ok || u.Op != token.MUL {
		return Resolve(v)
	}
	al, ok := u.X.(*ssa.Alloc)
	if !ok {
		return Resolve(v)
	}
	instrs := r.Block().Instrs
	for j := len(instrs) - 1; j >= 0; j-- {
		if st, ok := instrs[j].(*ssa.Store); ok && st.Addr == ssa.Value(al) {
			return Resolve(st.Val)
		}
	}
	return Resolve(v)
}

// RetErrIsNil: the last result of r is the nil constant.
func RetErrIsNil(r *ssa.Return) bool {
	if len(r.Results) == 0 {
		return false
	}
	return IsNilConst(RetVal(r, len(r.Results)-1))
}

// ConstIntOf converts a constant.Value to int64.
func ConstIntOf(v constant.Value) (int64, bool) {
	if v == nil || v.Kind() != constant.Int {
		return 0, false
	}
	return constant.Int64Val(v)
}

// ---------------------------------------------------------------- helper inlining

// Inliner lets a PathFlow rule follow a helper extracted from the function
// under analysis: at a static call to an in-scope function with a body, the
// helper is analysed with the same flow functions starting from the caller's
// facts, its parameters standing for the call's arguments (ParamSubst), and
// the facts at each of its returns continue in the caller. Each continuation
// records what the helper returned as its error (or sole bool) result —
// "ret:<call>=nil|nonnil|true|false|unk" — and Edge prunes the branches of a
// later test on that result that contradict it.
type Inliner struct {
	FF      *FlowFuncs
	InScope func(h *ssa.Function) bool
	// OnInlined, if set, is called with the helper's flow in the context of one
	// call (once per caller path reaching the call), so that a rule can decide
	// the sites that a refactoring moved INTO the helper under the facts its
	// callers established.
	OnInlined func(h *ssa.Function, flow map[*ssa.BasicBlock]DNF)
	stack   []*ssa.Function
	edge    func(b *ssa.BasicBlock, idx int, t Tokens) bool
}

// NewInliner installs the inliner on ff (wrapping its Edge and setting Call).
func NewInliner(ff *FlowFuncs, inScope func(*ssa.Function) bool) *Inliner {
	il := &Inliner{FF: ff, InScope: inScope, edge: ff.Edge}
	ff.Call = il.call
	ff.Edge = il.edgeFn
	return il
}

func retKey(call *ssa.Call, i int) string { return fmt.Sprintf("ret:%s#%d=", Term(call), i) }

// resultOf: v is result i of a call.
func resultOf(v ssa.Value) (*ssa.Call, int, bool) {
	switch y := Resolve(v).(type) {
	case *ssa.Call:
		if y.Call.Signature().Results().Len() == 1 {
			return y, 0, true
		}
	case *ssa.Extract:
		if c2, ok := y.Tuple.(*ssa.Call); ok {
			return c2, y.Index, true
		}
	}
	return nil, 0, false
}

func (il *Inliner) edgeFn(b *ssa.BasicBlock, idx int, t Tokens) bool {
	for _, cd := range EdgeConds(b, idx) {
		if x, isNil, ok := NilCheck(cd); ok {
			if call, i, ok := resultOf(x); ok {
				k := retKey(call, i)
				if (isNil && t[k+"nonnil"]) || (!isNil && t[k+"nil"]) {
					return false
				}
			}
			continue
		}
		if call, i, ok := resultOf(cd.V); ok {
			k := retKey(call, i)
			if (cd.Pos && t[k+"false"]) || (!cd.Pos && t[k+"true"]) {
				return false
			}
		}
	}
	if il.edge != nil {
		return il.edge(b, idx, t)
	}
	return true
}

func (il *Inliner) call(in ssa.Instruction, t Tokens) []Tokens {
	call, ok := in.(*ssa.Call)
	if !ok {
		return nil
	}
	h := call.Call.StaticCallee()
	if h == nil || h.Blocks == nil || len(il.stack) >= 3 || (il.InScope != nil && !il.InScope(h)) {
		return nil
	}
	for _, s := range il.stack {
		if s == h {
			return nil
		}
	}
	if len(call.Call.Args) != len(h.Params) {
		return nil
	}
	// bind parameters (argument terms are computed in the caller's context first)
	terms := make([]string, len(h.Params))
	for i, a := range call.Call.Args {
		terms[i] = Term(a)
	}
	saved := map[*ssa.Parameter]string{}
	had := map[*ssa.Parameter]bool{}
	for i, p := range h.Params {
		saved[p], had[p] = ParamSubst[p], false
		if _, ok := ParamSubst[p]; ok {
			had[p] = true
		}
		ParamSubst[p] = terms[i]
	}
	il.stack = append(il.stack, h)
	defer func() {
		il.stack = il.stack[:len(il.stack)-1]
		for _, p := range h.Params {
			if had[p] {
				ParamSubst[p] = saved[p]
			} else {
				delete(ParamSubst, p)
			}
		}
	}()
	kpref := "ret:" + Term(call) + "#"
	init := t.clone()
	for tk := range init {
		if strings.HasPrefix(tk, kpref) {
			delete(init, tk)
		}
	}
	flow := PathFlowFrom(h, *il.FF, init)
	if il.OnInlined != nil {
		il.OnInlined(h, flow)
	}
	res := h.Signature.Results()
	var out DNF
	for _, b := range h.Blocks {
		if b == h.Recover || len(b.Instrs) == 0 {
			continue
		}
		r, ok := b.Instrs[len(b.Instrs)-1].(*ssa.Return)
		if !ok {
			continue
		}
		kinds := map[int]string{}
		for i := 0; i < res.Len() && i < len(r.Results); i++ {
			switch res.At(i).Type().String() {
			case "error":
				ev := RetVal(r, i)
				switch {
				case IsNilConst(ev):
					kinds[i] = "nil"
				case ProvablyNonNil(ev, b):
					kinds[i] = "nonnil"
				default:
					kinds[i] = "unk"
					if p, isP := ev.(*ssa.Parameter); isP {
						for j, q := range h.Params {
							if q == p && ProvablyNonNil(call.Call.Args[j], call.Block()) {
								kinds[i] = "nonnil"
							}
						}
					}
				}
			case "bool":
				kinds[i] = "unk"
				if cst, isC := RetVal(r, i).(*ssa.Const); isC && cst.Value != nil {
					kinds[i] = cst.Value.String()
				}
			}
		}
		for _, d0 := range flow[b] {
			ts := []Tokens{d0.clone()}
			for _, ins := range b.Instrs {
				ts = il.FF.step(ins, ts)
			}
			for _, tt := range ts {
				for i, kind := range kinds {
					if kind == "unk" {
						// `return g(...)`: what g returned on this path is what h returns
						if c2, j, ok := resultOf(RetVal(r, i)); ok {
							k2 := retKey(c2, j)
							for _, cand := range []string{"nil", "nonnil", "true", "false"} {
								if tt[k2+cand] {
									kind = cand
								}
							}
						}
					}
					tt[retKey(call, i)+kind] = true
				}
				out, _ = out.add(tt)
			}
		}
	}
	if len(out) == 0 {
		return nil // the helper never returns (panics): keep the caller's facts
	}
	return out
}

// provablyNonNil: v is known non-nil at block b: a fresh allocation / call to
// a constructor-like function, a sentinel error global assigned only in the
// package initialiser, or guarded by a dominating `v != nil`.
func ProvablyNonNil(v ssa.Value, b *ssa.BasicBlock) bool {
	v = Resolve(v)
	switch x := v.(type) {
	case *ssa.MakeInterface:
		return true
	case *ssa.Alloc:
		return true
	case *ssa.Call:
		switch CalleeName(&x.Call) {
		case "fmt.Errorf", "errors.New":
			return true
		}
	case *ssa.UnOp:
		if g, ok := x.X.(*ssa.Global); ok && x.Op == token.MUL {
			return SentinelGlobal(g)
		}
	}
	for _, cd := range CondsAt(b) {
		if y, isNil, ok := NilCheck(cd); ok && !isNil && Resolve(y) == v {
			return true
		}
	}
	return false
}

// SentinelGlobal: a package-level error variable that is assigned only in its
// package's initialiser, from a call or an allocation (never nil).
func SentinelGlobal(g *ssa.Global) bool {
	if g.Pkg == nil {
		return false
	}
	n := 0
	var fns []*ssa.Function
	for _, mem := range g.Pkg.Members {
		switch m := mem.(type) {
		case *ssa.Function:
			fns = append(fns, m)
		case *ssa.Type:
			for _, T := range []types.Type{m.Type(), types.NewPointer(m.Type())} {
				ms := g.Pkg.Prog.MethodSets.MethodSet(T)
				for i := 0; i < ms.Len(); i++ {
					if f := g.Pkg.Prog.MethodValue(ms.At(i)); f != nil && f.Pkg == g.Pkg {
						fns = append(fns, f)
					}
				}
			}
		}
	}
	for _, fn := range fns {
		for _, f := range WithAnon(fn) {
			for _, b := range f.Blocks {
				for _, in := range b.Instrs {
					st, ok := in.(*ssa.Store)
					if !ok || st.Addr != ssa.Value(g) {
						continue
					}
					if f.Name() != "init" || f.Parent() != nil {
						return false
					}
					switch Resolve(st.Val).(type) {
					case *ssa.Call, *ssa.MakeInterface, *ssa.Alloc:
						n++
					default:
						return false
					}
				}
			}
		}
	}
	return n == 1
}
