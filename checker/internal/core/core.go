// Package core holds the obligation/report model shared by all rules, plus
// evidence, replay-file and known-findings handling.
package core

import (
	"bufio"
	"encoding/json"
	"fmt"
	"go/token"
	"os"
	"path/filepath"
	"regexp"
	"sort"
	"strings"

	"ocivet/internal/load"
)

type Obligation struct {
	Rule       string `json:"rule"`
	Key        string `json:"key"` // rule/package/function/construct — never a line number
	Pos        string `json:"pos"`
	Status     string `json:"status"` // ok | violation | undecided
	Detail     string `json:"detail"`
	Nontrivial bool   `json:"nontrivial"`
}

type Control struct {
	Name    string   `json:"name"`
	Mutates string   `json:"mutates"`
	Expect  string   `json:"expect_rule"`
	Result  string   `json:"result"` // fired | NOT-FIRED | skipped(<why>)
	Keys    []string `json:"violating_keys,omitempty"`
}

type Report struct {
	Property    string
	Obls        []Obligation
	Functions   map[string]bool
	Assumptions []string
	Notes       []string
	Explanation string
	Controls    []Control
}

// Ctx is what a property's rules get.
type Ctx struct {
	P    *load.Program
	Rep  *Report
	seen map[string]int
}

func NewCtx(p *load.Program, prop string) *Ctx {
	return &Ctx{P: p, Rep: &Report{Property: prop, Functions: map[string]bool{}}, seen: map[string]int{}}
}

var posInKey = regexp.MustCompile(`@[0-9]+`)

func (c *Ctx) add(rule, key string, pos token.Pos, status, detail string, nontrivial bool) {
	// keys identify constructs, never positions: drop the position suffix that
	// terms of local cells carry for uniqueness
	key = posInKey.ReplaceAllString(key, "")
	full := rule + "/" + key
	// Make keys unique but stable: second occurrence of the same key gets #2.
	c.seen[full]++
	if n := c.seen[full]; n > 1 {
		full = fmt.Sprintf("%s#%d", full, n)
	}
	c.Rep.Obls = append(c.Rep.Obls, Obligation{Rule: rule, Key: full, Pos: c.P.Pos(pos), Status: status, Detail: detail, Nontrivial: nontrivial})
}

func (c *Ctx) OK(rule, key string, pos token.Pos, detail string) {
	c.add(rule, key, pos, "ok", detail, true)
}

// Trivial records an obligation that held without anything to examine.
func (c *Ctx) Trivial(rule, key string, pos token.Pos, detail string) {
	c.add(rule, key, pos, "ok", detail, false)
}

func (c *Ctx) Fail(rule, key string, pos token.Pos, detail string) {
	c.add(rule, key, pos, "violation", detail, true)
}

func (c *Ctx) Undecided(rule, key string, pos token.Pos, detail string) {
	c.add(rule, key, pos, "undecided", detail, true)
}

// Check is a convenience: ok ? OK : Fail.
func (c *Ctx) Check(ok bool, rule, key string, pos token.Pos, okDetail, failDetail string) bool {
	if ok {
		c.OK(rule, key, pos, okDetail)
	} else {
		c.Fail(rule, key, pos, failDetail)
	}
	return ok
}

func (c *Ctx) Analysed(fn string)      { c.Rep.Functions[fn] = true }
func (c *Ctx) Assume(s string)         { c.Rep.Assumptions = append(c.Rep.Assumptions, s) }
func (c *Ctx) Note(f string, a ...any) { c.Rep.Notes = append(c.Rep.Notes, fmt.Sprintf(f, a...)) }
func (c *Ctx) Explain(s string)        { c.Rep.Explanation = s }

func (r *Report) Violations() []Obligation {
	var out []Obligation
	for _, o := range r.Obls {
		if o.Status != "ok" {
			out = append(out, o)
		}
	}
	return out
}

// ---- known findings ----

type Known struct {
	Property string
	Key      string
	What     string
}

// LoadKnown parses known_findings.txt. Lines:
//
//	fixed: property=<id> <commit> <what failed>     (suppresses nothing)
//	known: property=<id> key=<obligation key> <what fails>
func LoadKnown(path string) ([]Known, error) {
	f, err := os.Open(path)
	if err != nil {
		if os.IsNotExist(err) {
			return nil, nil
		}
		return nil, err
	}
	defer f.Close()
	var out []Known
	sc := bufio.NewScanner(f)
	for sc.Scan() {
		line := strings.TrimSpace(sc.Text())
		if !strings.HasPrefix(line, "known:") {
			continue
		}
		fields := strings.Fields(strings.TrimPrefix(line, "known:"))
		var k Known
		var rest []string
		for _, fl := range fields {
			switch {
			case strings.HasPrefix(fl, "property=") && k.Property == "":
				k.Property = strings.TrimPrefix(fl, "property=")
			case strings.HasPrefix(fl, "key=") && k.Key == "":
				k.Key = strings.TrimPrefix(fl, "key=")
			default:
				rest = append(rest, fl)
			}
		}
		k.What = strings.Join(rest, " ")
		if k.Property != "" && k.Key != "" {
			out = append(out, k)
		}
	}
	return out, sc.Err()
}

// ---- evidence ----

type Evidence struct {
	PropertyID  string         `json:"property_id"`
	Tier        string         `json:"tier"`
	Seed        int            `json:"seed"`
	Level       string         `json:"level"`
	Coverage    map[string]any `json:"coverage"`
	Assumptions []string       `json:"assumptions"`
	WallS       float64        `json:"wall_s"`
	Violations  int            `json:"violations"`
}

func (r *Report) WriteEvidence(dir, tier string, seed int, wall float64, nviol int, extra map[string]any) error {
	keys := map[string]bool{}
	nontriv := map[string]bool{}
	discharged := 0
	perRule := map[string]int{}
	for _, o := range r.Obls {
		keys[o.Key] = true
		if o.Nontrivial {
			nontriv[o.Key] = true
		}
		if o.Status == "ok" {
			discharged++
		}
		perRule[o.Rule]++
	}
	// samples: first obligation of every rule, plus every non-ok one.
	var samples []any
	seenRule := map[string]int{}
	for _, o := range r.Obls {
		if o.Status != "ok" || seenRule[o.Rule] < 2 {
			samples = append(samples, o)
			seenRule[o.Rule]++
		}
		if len(samples) > 60 {
			break
		}
	}
	var fns []string
	for f := range r.Functions {
		fns = append(fns, f)
	}
	sort.Strings(fns)
	cov := map[string]any{
		"explanation":          r.Explanation,
		"obligations":          len(r.Obls),
		"discharged":           discharged,
		"evaluations":          len(r.Obls),
		"distinct_nontrivial":  len(nontriv),
		"rule":                 "one obligation per (rule instance, construct) found in the current tree; distinct = distinct obligation keys; non-trivial = the rule had a guard, path, call site or table row to examine (not vacuous)",
		"samples":              samples,
		"obligations_per_rule": perRule,
		"functions_analysed":   fns,
		"checker_cmd":          "/verif/run.sh " + r.Property + " " + tier,
		"trusted_base":         []string{"go/types, go/ssa and VTA call graph from golang.org/x/tools v0.29.0", "reference tables frozen in the checker (DESIGN.md appendix A)"},
		"notes":                r.Notes,
		"positive_controls":    r.Controls,
	}
	for k, v := range extra {
		cov[k] = v
	}
	if r.Assumptions == nil {
		r.Assumptions = []string{}
	}
	ev := Evidence{PropertyID: r.Property, Tier: tier, Seed: seed, Level: "other", Coverage: cov, Assumptions: r.Assumptions, WallS: wall, Violations: nviol}
	data, err := json.MarshalIndent(ev, "", " ")
	if err != nil {
		return err
	}
	if err := os.MkdirAll(dir, 0o755); err != nil {
		return err
	}
	return os.WriteFile(filepath.Join(dir, r.Property+".json"), append(data, '\n'), 0o644)
}

// WriteReplay writes a violation replay file and returns its path.
func WriteReplay(dir, prop string, n int, o Obligation) (string, error) {
	vdir := filepath.Join(dir, "violations")
	if err := os.MkdirAll(vdir, 0o755); err != nil {
		return "", err
	}
	path := filepath.Join(vdir, fmt.Sprintf("%s-%d.json", prop, n))
	data, _ := json.MarshalIndent(map[string]any{
		"property": prop, "rule": o.Rule, "key": o.Key, "pos": o.Pos, "status": o.Status, "reason": o.Detail,
		"replay": "/verif/run.sh " + prop + " quick   # re-evaluates this obligation on the current tree",
	}, "", " ")
	return path, os.WriteFile(path, append(data, '\n'), 0o644)
}
