package props

import (
	"go/token"
	"go/types"
	"strings"

	"golang.org/x/tools/go/ssa"

	"ocivet/internal/core"
	"ocivet/internal/facts"
)

func init() {
	register(&Prop{
		ID:    "C01",
		Title: "Content integrity: bytes served for a digest are the bytes pushed",
		Run:   runC01,
		Explanation: "Decides that nothing is stored or served as verified content without passing the verification code, on every path. " +
			"R1 verified-store: every store into ocimem's blobs/manifests maps stores (key k, bytes d) such that CheckDescriptor(desc, d) == nil dominates it with k = desc.Digest, or (desc, d) are the results of (*Buffer).GetBlob and k = desc.Digest, or the stored *blob was looked up under the same digest (mount); R1b CheckDescriptor returns nil on the data path only when both the digest and the size comparison succeeded; " +
			"R2 commit gate: Buffer marks itself committed / records its descriptor only under digest.FromBytes(buf) == dig, invokes the commit callback only after checkCommit succeeded, and GetBlob hands out data only under committed && commitErr == nil; " +
			"R3 client verification: in ociclient's blobReader.Read every return whose error may be io.EOF holds !verify or (size equal and digest equal) (disjunctive path facts), and the unverified reader is constructed only by the range read; " +
			"R4 server digest gate: in the manifest-PUT handler the backend push is dominated by tag != \"\" or Digest(request digest) == FromBytes(body), with that same body; " +
			"R5 immutability: no store through an index of blob.data or Buffer.buf, and the bytes put into a stored blob never alias a caller-owned parameter slice (they are an io.ReadAll result, a fresh append([]byte(nil), ...) copy, or the upload buffer). " +
			"R6 range dispatch: the server's blob GET handler serves the whole blob only when the unmodified parse of the Range header is empty and hands the backend the start/end of that parsed range. " +
			"R4b the manifest bytes pushed are the whole request body (io.ReadAll of req.Body, or a capped read followed by a length test); R3b the body behind the verifying reader is consumed only by blobReader.Read (no WriteTo-style bypass). " +
			"R3c (shared with C03.R12) a digest computed for comparison with an expected digest is built with that digest's own algorithm. " +
			"R7 without a Docker-Content-Digest header the descriptor carries the digest that was asked for, unconditionally (every phi edge / helper return chosen where the header is empty is the known-digest parameter); R8 the fields of a stored ocimem blob are assigned only while the blob value is being built (the *blob is shared by MountBlob and by readers). " +
			"R1c where the descriptor is the caller's, the bytes handed to CheckDescriptor are not re-derived through append([]byte(nil), …) (nil for empty content means \"nothing to verify\"); R9 (shared with C02.R7) GetBlobRange compares its upper bound with 0 strictly. " +
			"R10 (shared with C08.R3) a committed upload buffer takes no more bytes: every append to Buffer.buf is dominated by !committed under the buffer lock, so what was verified at Commit is what stays stored. " +
			"R11 (shared with C03.R17) the running hash of the client's verifying reader is created by the algorithm of the descriptor's own digest.",
		NotDecided: "byte equality of round trips, the range-slice arithmetic (bounds are proven under C06/C18 but not which slice), Range/Content-Range formatting (the upload Content-Range codec is not its own inverse for a one-byte body: RangeString(0,1) = \"0-0\" parses back as length 0 — a value-level defect outside this technique, noted in DESIGN.md) and the behaviour of a corrupting server beyond R3.",
		Technique:  "static analysis: SSA dominance of verification calls over stores, disjunctive path facts for EOF returns, provenance/aliasing of stored byte slices",
	})
}

func runC01(c *core.Ctx) {
	c01VerifiedStore(c)
	c01CheckDescriptor(c)
	c01CommitGate(c)
	c01ClientVerify(c)
	c01ServerDigestGate(c)
	c01Immutability(c)
	serverRangeDispatch(c, "C01.R6")
	manifestBodyComplete(c, "C01.R4")
	verifiedReaderOnlyReadByRead(c, "C01.R3")
	digestComparedUnderItsOwnAlgorithm(c, "C01.R3", "ociclient")
	knownDigestWhenHeaderAbsent(c, "C01.R7")
	storedBlobDataNeverReassigned(c, "C01.R8")
	pushedBytesReachTheCheckNonNil(c, "C01.R1")
	negativeMeansToTheEnd(c, "C01.R9", "ocimem", "ociclient")
	// a committed upload buffer takes no more bytes: what was verified is what stays stored (shared with C08.R3)
	hashFieldFromOwnDigest(c, "C01.R11", "ociclient")
	relabel(c, "C01.R10", func() { c08Seal(c, newLockAnalysis(c, "ocimem")) })
}

// blobLiteralField: the value stored into field name of the *blob literal v.
func blobLiteralField(v ssa.Value, name string) (ssa.Value, bool) {
	al, ok := facts.Resolve(v).(*ssa.Alloc)
	if !ok {
		return nil, false
	}
	for _, ref := range *al.Referrers() {
		fa, ok := ref.(*ssa.FieldAddr)
		if !ok {
			continue
		}
		if _, f2, _ := facts.FieldOf(fa); f2 == name {
			for _, st := range facts.StoresTo(fa) {
				return st.Val, true
			}
		}
	}
	return nil, false
}

// sameBytes: a and b denote the same byte slice value.
func sameBytes(a, b ssa.Value) bool {
	return facts.ResolveFree(a) == facts.ResolveFree(b) || facts.Term(a) == facts.Term(b)
}

// digestOfDesc: does key equal the Digest field of descriptor value/cell desc?
func keyIsDigestOf(key ssa.Value, desc ssa.Value) bool {
	// key is a load of desc.Digest
	if sv, fld, ok := facts.StructFieldSource(facts.Resolve(key)); ok && fld == "Digest" && sv == facts.Resolve(desc) {
		return true
	}
	if b, fld, ok := facts.FieldOf(facts.Resolve(key)); ok && fld == "Digest" {
		if facts.Term(b) == facts.Term(desc) || facts.Resolve(b) == facts.Resolve(desc) || normTerm(b) == normTerm(desc) {
			return true
		}
		// desc passed by value: load of the same cell
		if u, ok := facts.Strip(desc).(*ssa.UnOp); ok && u.Op == token.MUL && u.X == b {
			return true
		}
	}
	// desc is a local struct whose Digest field was stored with the same value as key
	if u, ok := facts.Strip(desc).(*ssa.UnOp); ok && u.Op == token.MUL {
		if al, ok := u.X.(*ssa.Alloc); ok {
			for _, ref := range *al.Referrers() {
				if fa, ok := ref.(*ssa.FieldAddr); ok {
					if _, f2, _ := facts.FieldOf(fa); f2 == "Digest" {
						for _, st := range facts.StoresTo(fa) {
							if facts.Resolve(st.Val) == facts.Resolve(key) {
								return true
							}
						}
					}
				}
			}
		}
	}
	return false
}

func c01VerifiedStore(c *core.Ctx) {
	cd := c.P.Func("ocimem", "CheckDescriptor")
	if cd == nil {
		c.Fail("C01.R1", "anchor/ocimem.CheckDescriptor", 0, "ocimem.CheckDescriptor not found")
		return
	}
	n := 0
	for _, fn := range c.P.ModuleFunctions("ocimem") {
		for _, b := range fn.Blocks {
			for _, in := range b.Instrs {
				mu, ok := in.(*ssa.MapUpdate)
				if !ok {
					continue
				}
				fld, ok := memMapField(mu.Map)
				if !ok || (fld != "blobs" && fld != "manifests") {
					continue
				}
				n++
				c.Analysed(facts.FuncName(fn))
				key := facts.FuncName(fn) + "/" + fld + "-store"
				how := ""
				data, isLit := blobLiteralField(mu.Value, "data")
				if isLit {
					// (a) CheckDescriptor(desc, data) == nil dominates, key = desc.Digest
					// in every calling context (the store may sit in a private helper that is
					// handed the verified descriptor and bytes)
					all, any := true, false
					forEachCallContext(b, 2, func(conds []facts.Cond) {
						any = true
						found := false
						for _, cond := range conds {
							x, isNil, okc := facts.NilCheck(cond)
							if !okc || !isNil {
								continue
							}
							call, isCall := facts.Resolve(x).(*ssa.Call)
							if !isCall || call.Call.StaticCallee() != cd {
								continue
							}
							if sameBytes(call.Call.Args[1], data) && keyIsDigestOf(mu.Key, call.Call.Args[0]) {
								found = true
							}
						}
						if !found {
							all = false
						}
					})
					if any && all {
						how = "dominated by CheckDescriptor(desc, data) == nil with key = desc.Digest"
					}
					// (c) (desc, data) = Buffer.GetBlob()
					if how == "" {
						if ex, isEx := facts.Resolve(data).(*ssa.Extract); isEx && ex.Index == 1 {
							if call, isCall := ex.Tuple.(*ssa.Call); isCall && call.Call.StaticCallee() != nil && strings.HasSuffix(call.Call.StaticCallee().String(), "ocimem.Buffer).GetBlob") {
								if sv, f2, ok := facts.StructFieldSource(facts.Resolve(mu.Key)); ok && f2 == "Digest" {
									if e0, ok := sv.(*ssa.Extract); ok && e0.Tuple == ex.Tuple && e0.Index == 0 {
										how = "descriptor and bytes are the committed results of Buffer.GetBlob (R2 gate)"
									}
								}
							}
						}
					}
				} else {
					// (d) mount: the stored *blob was looked up under the same digest
					if ex, isEx := facts.Resolve(mu.Value).(*ssa.Extract); isEx && ex.Index == 0 {
						if call, isCall := ex.Tuple.(*ssa.Call); isCall && call.Call.StaticCallee() != nil {
							callee := call.Call.StaticCallee()
							args := call.Call.Args
							if len(args) >= 1 && facts.Term(args[len(args)-1]) == facts.Term(mu.Key) && lookupHelperFor(callee, fld) {
								how = "stored blob was looked up under the same digest (" + callee.Name() + ")"
							}
						}
					}
				}
				c.Check(how != "", "C01.R1", key, in.Pos(), how, "content is stored under a digest without verification on this path (no dominating CheckDescriptor(desc, data) == nil with key = desc.Digest, not a committed upload, not a same-digest mount): bytes served for that digest may not hash to it")
			}
		}
	}
	if n < 4 {
		c.Fail("C01.R1", "instance-floor", 0, sprintf("only %d content stores found in ocimem", n))
	}
}

// lookupHelperFor: fn returns (*blob, error) from a lookup in the given map field keyed by its last parameter.
func lookupHelperFor(fn *ssa.Function, field string) bool {
	if fn.Blocks == nil {
		return false
	}
	for _, b := range fn.Blocks {
		for _, in := range b.Instrs {
			if lk, ok := in.(*ssa.Lookup); ok {
				if f, ok := memMapField(lk.X); ok && f == field && argIsParam(lk.Index, fn, len(fn.Params)-1) {
					return true
				}
			}
		}
	}
	return false
}

func c01CheckDescriptor(c *core.Ctx) {
	cd := c.P.Func("ocimem", "CheckDescriptor")
	if cd == nil {
		return
	}
	c.Analysed("ocimem.CheckDescriptor")
	ff := facts.FlowFuncs{
		Edge: func(b *ssa.BasicBlock, idx int, t facts.Tokens) bool {
			for _, cond := range facts.EdgeConds(b, idx) {
				if x, isNil, ok := facts.NilCheck(cond); ok && argIsParam(x, cd, 1) {
					// the parameter is never reassigned: a repeated test has the same outcome
					if (isNil && t["dataNonNil"]) || (!isNil && t["dataNil"]) {
						return false
					}
					if isNil {
						t["dataNil"] = true
					} else {
						t["dataNonNil"] = true
					}
				}
				x, op, y, ok := facts.Cmp(cond)
				if !ok || op != token.EQL {
					continue
				}
				for _, pr := range [][2]ssa.Value{{x, y}, {y, x}} {
					if call, isCall := facts.Resolve(pr[0]).(*ssa.Call); isCall && strings.HasSuffix(facts.CalleeName(&call.Call), "go-digest.FromBytes") && argIsParam(call.Call.Args[0], cd, 1) {
						if _, fld, isF := facts.FieldOf(facts.Resolve(pr[1])); isF && fld == "Digest" {
							t["digestOK"] = true
						}
					}
					if _, fld, isF := facts.FieldOf(facts.Resolve(pr[0])); isF && fld == "Size" {
						if sliceHas(pr[1], func(v ssa.Value) bool {
							call, ok := v.(*ssa.Call)
							if !ok {
								return false
							}
							bi, ok := call.Call.Value.(*ssa.Builtin)
							return ok && bi.Name() == "len" && argIsParam(call.Call.Args[0], cd, 1)
						}) {
							t["sizeOK"] = true
						}
					}
				}
			}
			return true
		},
	}
	flow := facts.PathFlow(cd, ff)
	n := 0
	for _, r := range returnsOf(cd) {
		if !facts.RetErrIsNil(r) {
			continue
		}
		n++
		ok := facts.AllAt(ff, flow, r, func(t facts.Tokens) bool { return t["dataNil"] || (t["digestOK"] && t["sizeOK"]) })
		c.Check(ok, "C01.R1", "CheckDescriptor/nil-only-when-verified", r.Pos(), "nil returned for data only after digest and size both matched", "CheckDescriptor can return nil for non-nil data on a path where digest.FromBytes(data) == desc.Digest or desc.Size == len(data) was not established: unverified content would be stored")
	}
	if n == 0 {
		c.Fail("C01.R1", "CheckDescriptor/nil-only-when-verified", cd.Pos(), "CheckDescriptor has no nil return")
	}
}

func c01CommitGate(c *core.Ctx) {
	buf := c.P.NamedType("ocimem", "Buffer")
	if buf == nil {
		c.Fail("C01.R2", "anchor/ocimem.Buffer", 0, "ocimem.Buffer not found")
		return
	}
	ptr := types.NewPointer(buf)
	digestEq := func(b *ssa.BasicBlock, recv ssa.Value) bool {
		found := false
		want := facts.Term(recv)
		// also what a nil error of a private checking helper implies
		forEachCondImplied(b, 2, func(cond facts.Cond) {
			x, op, y, ok := facts.Cmp(cond)
			if !ok || op != token.EQL {
				return
			}
			for _, side := range []ssa.Value{x, y} {
				if call, isCall := facts.Resolve(side).(*ssa.Call); isCall && strings.HasSuffix(facts.CalleeName(&call.Call), "go-digest.FromBytes") {
					if bb, fld, isF := facts.FieldOf(facts.Resolve(call.Call.Args[0])); isF && fld == "buf" && facts.Term(bb) == want {
						found = true
					}
				}
			}
		})
		return found
	}
	n := 0
	for _, fn := range c.P.ModuleFunctions("ocimem") {
		for _, b := range fn.Blocks {
			for _, in := range b.Instrs {
				st, ok := in.(*ssa.Store)
				if !ok {
					continue
				}
				base, fld, isF := facts.FieldOf(st.Addr)
				if !isF || structName(base.Type()) != "Buffer" || isFreshBase(base) {
					continue
				}
				if fld == "committed" || fld == "desc" {
					if cst, isC := st.Val.(*ssa.Const); isC && cst.Value != nil && cst.Value.ExactString() == "false" {
						continue
					}
					n++
					c.Check(digestEq(b, base), "C01.R2", facts.FuncName(fn)+"/"+fld+"-store", st.Pos(), "set only under digest.FromBytes(buf) == dig", "the upload buffer is marked committed / given its descriptor on a path where digest.FromBytes(buf) == dig was not established: a commit with the wrong digest would store content")
				}
			}
		}
	}
	if n < 2 {
		c.Fail("C01.R2", "commit-stores/instance-floor", 0, "stores to Buffer.committed / Buffer.desc not found")
	}
	// the callback is invoked only after checkCommit succeeded
	commit := declaredMethod(c, ptr, "Commit")
	check := c.P.Method(ptr, "checkCommit")
	if commit == nil || check == nil {
		c.Fail("C01.R2", "anchor/Buffer.Commit", 0, "Buffer.Commit / checkCommit not found")
	} else {
		c.Analysed(facts.FuncName(commit))
		found := false
		for _, ci := range facts.CallsIn(commit) {
			cc := ci.Common()
			if cc.IsInvoke() || cc.StaticCallee() != nil {
				continue
			}
			if _, fld, isF := facts.FieldOf(cc.Value); !isF || fld != "commit" {
				continue
			}
			found = true
			ok := false
			for _, cond := range facts.CondsAt(ci.Block()) {
				if x, isNil, okc := facts.NilCheck(cond); okc && isNil {
					v := facts.Resolve(x)
					if ex, isEx := v.(*ssa.Extract); isEx {
						v = ex.Tuple
					}
					if call, isCall := v.(*ssa.Call); isCall && call.Call.StaticCallee() == check && argIsParam(call.Call.Args[1], commit, 1) {
						ok = true
					}
				}
			}
			c.Check(ok, "C01.R2", "Buffer.Commit/callback-after-check", ci.Pos(), "commit callback runs only after checkCommit(dig) succeeded", "the commit callback (which stores the blob) can run on a path where checkCommit(dig) did not succeed")
		}
		if !found {
			c.Fail("C01.R2", "Buffer.Commit/callback-after-check", commit.Pos(), "Commit never invokes the commit callback")
		}
	}
	// GetBlob returns data only under committed && commitErr == nil
	gb := declaredMethod(c, ptr, "GetBlob")
	if gb == nil {
		c.Fail("C01.R2", "anchor/Buffer.GetBlob", 0, "Buffer.GetBlob not found")
		return
	}
	c.Analysed(facts.FuncName(gb))
	for _, r := range returnsOf(gb) {
		if !facts.RetErrIsNil(r) {
			continue
		}
		committed, noErr := false, false
		for _, cond := range facts.CondsAt(r.Block()) {
			if _, fld, isF := facts.FieldOf(facts.Resolve(cond.V)); isF && fld == "committed" && cond.Pos {
				committed = true
			}
			if x, isNil, ok := facts.NilCheck(cond); ok && isNil {
				if _, fld, isF := facts.FieldOf(facts.Resolve(x)); isF && fld == "commitErr" {
					noErr = true
				}
			}
		}
		c.Check(committed && noErr, "C01.R2", "Buffer.GetBlob/only-committed", r.Pos(), "data handed out only under committed && commitErr == nil", "GetBlob can hand out the buffered bytes without the buffer being committed without error")
	}
}

func c01ClientVerify(c *core.Ctx) {
	br := c.P.NamedType("ociclient", "blobReader")
	if br == nil {
		c.Fail("C01.R3", "anchor/ociclient.blobReader", 0, "ociclient.blobReader not found")
		return
	}
	rd := declaredMethod(c, types.NewPointer(br), "Read")
	if rd == nil {
		c.Fail("C01.R3", "anchor/blobReader.Read", 0, "blobReader.Read not found")
		return
	}
	c.Analysed(facts.FuncName(rd))
	// the underlying read's error
	var underErr ssa.Value
	for _, ci := range facts.CallsIn(rd) {
		if ci.Common().IsInvoke() && ci.Common().Method.Name() == "Read" {
			for _, ref := range *ci.Value().Referrers() {
				if ex, ok := ref.(*ssa.Extract); ok && ex.Index == 1 {
					underErr = ex
				}
			}
		}
	}
	isEOF := func(v ssa.Value) bool {
		u, ok := facts.Resolve(v).(*ssa.UnOp)
		if !ok || u.Op != token.MUL {
			return false
		}
		g, ok := u.X.(*ssa.Global)
		return ok && g.String() == "io.EOF"
	}
	// the value of the reader's flag that means "verify": what the constructor of
	// full reads stores (nothing = false); the flag may be spelt either way round
	// (verify / skipVerify)
	verifyOn := readerFlagOnValue(c)
	ff := facts.FlowFuncs{
		Edge: func(b *ssa.BasicBlock, idx int, t facts.Tokens) bool {
			for _, cond := range facts.EdgeConds(b, idx) {
				if x, isNil, ok := facts.NilCheck(cond); ok && underErr != nil && facts.Resolve(x) == underErr && isNil {
					t["errNotEOF"] = true // err == nil
				}
				if _, fld, isF := facts.FieldOf(facts.Resolve(cond.V)); isF && fld == "verify" && cond.Pos != verifyOn {
					t["noVerify"] = true
				}
				x, op, y, ok := facts.Cmp(cond)
				if !ok {
					continue
				}
				for _, pr := range [][2]ssa.Value{{x, y}, {y, x}} {
					if underErr != nil && facts.Resolve(pr[0]) == underErr && isEOF(pr[1]) && op == token.NEQ {
						t["errNotEOF"] = true
					}
					if op != token.EQL {
						continue
					}
					_, f0, is0 := facts.FieldOf(facts.Resolve(pr[0]))
					if is0 && f0 == "n" {
						if _, f1, is1 := facts.FieldOf(facts.Resolve(pr[1])); is1 && f1 == "Size" {
							t["sizeOK"] = true
						}
					}
					if call, isCall := facts.Resolve(pr[0]).(*ssa.Call); isCall && strings.HasSuffix(facts.CalleeName(&call.Call), "go-digest.NewDigest") {
						if _, f1, is1 := facts.FieldOf(facts.Resolve(pr[1])); is1 && f1 == "Digest" {
							t["digestOK"] = true
						}
					}
				}
			}
			return true
		},
	}
	// the end-of-stream check may live in a helper of the reader
	facts.NewInliner(&ff, func(h *ssa.Function) bool {
		return h.Pkg == rd.Pkg && h.Signature.Recv() != nil && structName(h.Signature.Recv().Type()) == "blobReader"
	})
	flow := facts.PathFlow(rd, ff)
	n := 0
	for _, r := range returnsOf(rd) {
		ev := facts.RetVal(r, 1)
		var pred func(t facts.Tokens) bool
		switch {
		case isEOF(ev):
			pred = func(t facts.Tokens) bool { return t["noVerify"] || (t["sizeOK"] && t["digestOK"]) }
		case underErr != nil && ev == underErr:
			pred = func(t facts.Tokens) bool {
				return t["errNotEOF"] || t["noVerify"] || (t["sizeOK"] && t["digestOK"])
			}
		default:
			continue
		}
		n++
		ok := facts.AllAt(ff, flow, r, pred)
		c.Check(ok, "C01.R3", "blobReader.Read/eof-only-when-verified", r.Pos(), "end-of-stream is reported only for an unverified (range) reader or after size and digest matched", "blobReader.Read can report a clean end-of-stream (io.EOF) on a path where the content's size and digest were not compared with the descriptor: wrong, short or empty content is accepted")
	}
	if n == 0 {
		c.Fail("C01.R3", "blobReader.Read/eof-only-when-verified", rd.Pos(), "no end-of-stream return found in blobReader.Read")
	}
	// who may construct the unverified reader
	unv := c.P.Func("ociclient", "newBlobReaderUnverified")
	if unv != nil {
		for _, fn := range c.P.ModuleFunctions("ociclient") {
			for _, ci := range facts.CallsIn(fn) {
				if ci.Common().StaticCallee() == unv {
					c.Check(outermost(fn).Name() == "GetBlobRange", "C01.R3", "unverified-reader/"+facts.FuncName(fn), ci.Pos(), "unverified reader used only for range reads", "the unverified blob reader is constructed outside GetBlobRange: a full read would not be checked against its descriptor")
				}
			}
		}
	}
	// every store of false to .verify is in the unverified constructor
	for _, fn := range c.P.ModuleFunctions("ociclient") {
		for _, b := range fn.Blocks {
			for _, in := range b.Instrs {
				if st, ok := in.(*ssa.Store); ok {
					if _, fld, isF := facts.FieldOf(st.Addr); isF && fld == "verify" {
						if cst, isC := st.Val.(*ssa.Const); isC && cst.Value != nil && (cst.Value.ExactString() == "true") == verifyOn {
							continue
						}
						c.Check(unv != nil && fn == unv, "C01.R3", "verify-cleared/"+facts.FuncName(fn), st.Pos(), "verification is switched off only by the unverified constructor", "blobReader.verify is cleared outside newBlobReaderUnverified")
					}
				}
			}
		}
	}
}

// readerFlagOnValue: the constant the verifying constructor stores into the
// blob reader's bool flag (false when it stores nothing).
func readerFlagOnValue(c *core.Ctx) bool {
	nbr := c.P.Func("ociclient", "newBlobReader")
	if nbr == nil {
		return true
	}
	for _, b := range nbr.Blocks {
		for _, in := range b.Instrs {
			if st, ok := in.(*ssa.Store); ok {
				if _, fld, isF := facts.FieldOf(st.Addr); isF && fld == "verify" {
					if cst, isC := st.Val.(*ssa.Const); isC && cst.Value != nil {
						return cst.Value.ExactString() == "true"
					}
				}
			}
		}
	}
	return false
}

func c01ServerDigestGate(c *core.Ctx) {
	var h *ssa.Function
	for fn := range handlerFns(c) {
		for _, bc := range backendCalls(fn) {
			if bc.Method == "PushManifest" {
				h = fn
			}
		}
	}
	if h == nil {
		c.Fail("C01.R4", "anchor/manifest-put-handler", 0, "no server handler calls the backend's PushManifest")
		return
	}
	c.Analysed(facts.FuncName(h))
	var rreq *ssa.Parameter
	for _, p := range h.Params {
		if pt, ok := p.Type().(*types.Pointer); ok && isNamed(pt.Elem(), "internal/ocirequest", "Request") {
			rreq = p
		}
	}
	for _, bc := range backendCalls(h) {
		if bc.Method != "PushManifest" {
			continue
		}
		body := bc.Call.Common().Args[3]
		ff := facts.FlowFuncs{
			Edge: func(b *ssa.BasicBlock, idx int, t facts.Tokens) bool {
				for _, cond := range facts.EdgeConds(b, idx) {
					// any spelling of "the request names a tag"
					if v, isEmpty, okE := facts.EmptyTest(cond); okE && !isEmpty {
						if fld, isF := rreqField(v, rreq); isF && fld == "Tag" {
							t["tagged"] = true
						}
					}
					x, op, y, ok := facts.Cmp(cond)
					if !ok {
						continue
					}
					for _, pr := range [][2]ssa.Value{{x, y}, {y, x}} {
						if fld, isF := rreqField(pr[0], rreq); isF && fld == "Tag" {
							if s, isS := facts.ConstString(pr[1]); isS && s == "" && op == token.NEQ {
								t["tagged"] = true
							}
						}
						if fld, isF := rreqField(pr[0], rreq); isF && fld == "Digest" && op == token.EQL {
							if call, isCall := facts.Resolve(pr[1]).(*ssa.Call); isCall && strings.HasSuffix(facts.CalleeName(&call.Call), "go-digest.FromBytes") && sameBytes(call.Call.Args[0], body) {
								t["digestOK"] = true
							}
						}
					}
				}
				return true
			},
		}
		flow := facts.PathFlow(h, ff)
		ok := facts.AllAt(ff, flow, bc.Call, func(t facts.Tokens) bool { return t["tagged"] || t["digestOK"] })
		c.Check(ok, "C01.R4", facts.FuncName(h)+"/digest-gate", bc.Call.Pos(), "push dominated by tag != \"\" or request digest == FromBytes(body)", "a manifest PUT by digest reaches the backend on a path where the URL's digest was not compared with the digest of the body being pushed: content can be stored under a digest it does not hash to (as seen by the client)")
	}
}

func c01Immutability(c *core.Ctx) {
	// (i) no element store into blob.data / Buffer.buf
	bad := 0
	for _, fn := range c.P.ModuleFunctions("ocimem") {
		for _, b := range fn.Blocks {
			for _, in := range b.Instrs {
				st, ok := in.(*ssa.Store)
				if !ok {
					continue
				}
				ia, ok := st.Addr.(*ssa.IndexAddr)
				if !ok {
					continue
				}
				if backedByStoredBytes(ia.X, 0) {
					bad++
					c.Fail("C01.R5", facts.FuncName(fn)+"/element-store", st.Pos(), "an element of stored blob bytes / the upload buffer is overwritten in place")
				}
			}
		}
	}
	if bad == 0 {
		c.OK("C01.R5", "ocimem/no-element-store", 0, "no in-place element store into blob.data or Buffer.buf")
	}
	// (ii) provenance of blob.data
	n := 0
	for _, fn := range c.P.ModuleFunctions("ocimem") {
		for _, b := range fn.Blocks {
			for _, in := range b.Instrs {
				st, ok := in.(*ssa.Store)
				if !ok {
					continue
				}
				base, fld, isF := facts.FieldOf(st.Addr)
				if !isF || fld != "data" || structName(base.Type()) != "blob" {
					continue
				}
				n++
				why := aliasesCaller(st.Val, outermost(fn), 0)
				c.Check(why == "", "C01.R5", facts.FuncName(fn)+"/blob-data-owned", st.Pos(), "stored bytes are owned by the registry (fresh copy, io.ReadAll result, or the committed upload buffer)", "the bytes stored for a digest alias a caller-owned slice ("+why+"): the caller can change what is served for that digest after the push")
			}
		}
	}
	if n < 3 {
		c.Fail("C01.R5", "blob-data/instance-floor", 0, sprintf("only %d stores to blob.data found", n))
	}
}

// aliasesCaller returns "" if v is provably not backed by a parameter slice.
func aliasesCaller(v ssa.Value, root *ssa.Function, depth int) string {
	if depth > 6 {
		return "provenance too deep"
	}
	v = facts.ResolveFree(v)
	switch x := v.(type) {
	case *ssa.Parameter:
		// a private helper is handed the bytes: owned if they are at every call site
		h := x.Parent()
		if sites := privateCallSites(h); len(sites) > 0 && h.Parent() == nil {
			pi := -1
			for i, q := range h.Params {
				if q == x {
					pi = i
				}
			}
			if pi >= 0 {
				for _, s := range sites {
					if pi >= len(s.Common().Args) {
						return "parameter " + x.Name()
					}
					if why := aliasesCaller(s.Common().Args[pi], outermost(s.Parent()), depth+1); why != "" {
						return why
					}
				}
				return ""
			}
		}
		return "parameter " + x.Name()
	case *ssa.Slice:
		return aliasesCaller(x.X, root, depth+1)
	case *ssa.Extract:
		if call, ok := x.Tuple.(*ssa.Call); ok {
			name := facts.CalleeName(&call.Call)
			if name == "io.ReadAll" || strings.HasSuffix(name, "ocimem.Buffer).GetBlob") {
				return ""
			}
			return "result of " + name
		}
	case *ssa.Call:
		if bi, ok := x.Call.Value.(*ssa.Builtin); ok && bi.Name() == "append" {
			// append(base, ...): the result may share base's backing array
			base := facts.ResolveFree(x.Call.Args[0])
			if cst, ok := base.(*ssa.Const); ok && cst.Value == nil {
				return "" // append([]byte(nil), ...) is a fresh copy
			}
			if cv, ok := base.(*ssa.Convert); ok {
				if cst, ok := cv.X.(*ssa.Const); ok && cst.Value == nil {
					return ""
				}
			}
			return aliasesCaller(base, root, depth+1)
		}
		name := facts.CalleeName(&x.Call)
		if name == "bytes.Clone" || name == "slices.Clone" {
			return ""
		}
		return "result of " + name
	case *ssa.Phi:
		for _, e := range x.Edges {
			if why := aliasesCaller(e, root, depth+1); why != "" {
				return why
			}
		}
		return ""
	case *ssa.MakeSlice:
		return ""
	case *ssa.Const:
		return ""
	case *ssa.UnOp:
		if _, fld, ok := facts.FieldOf(x); ok && (fld == "buf" || fld == "data") {
			return ""
		}
	}
	return "unrecognised provenance"
}

// backedByStoredBytes: v is (a slice of) blob.data or Buffer.buf.
func backedByStoredBytes(v ssa.Value, depth int) bool {
	if depth > 5 {
		return false
	}
	v = facts.ResolveFree(v)
	if b, fld, ok := facts.FieldOf(v); ok && (fld == "data" || fld == "buf") {
		sn := structName(b.Type())
		return sn == "blob" || sn == "Buffer"
	}
	switch x := v.(type) {
	case *ssa.Slice:
		return backedByStoredBytes(x.X, depth+1)
	case *ssa.Phi:
		for _, e := range x.Edges {
			if backedByStoredBytes(e, depth+1) {
				return true
			}
		}
	}
	return false
}
