package props

import (
	"go/token"
	"go/types"
	"strings"

	"golang.org/x/tools/go/ssa"

	"ocivet/internal/core"
	"ocivet/internal/facts"
)

func init() {
	register(&Prop{
		ID:    "C08",
		Title: "In-memory registry is race-free and linearizable under concurrent use",
		Run:   runC08,
		Explanation: "Necessary conditions decided on every path (lock identity is type-based): R1 lockset — every access to a mutable field of a mutex-bearing ocimem struct (Registry.repos; Buffer.buf/checkStartOffset/committed/desc/commitErr, found as the fields stored to outside constructors) and every map operation on the maps reachable from Registry.repos (repository.tags/manifests/blobs/uploads) happens with that struct's mutex held, where held = acquired on all paths in the function and not released, plus held-at-entry computed as a greatest fixpoint over the VTA call graph (closures called through iterator parameters included; go statements start with nothing held; deferred calls hold what is released by earlier-registered deferred unlocks); stored blobs are immutable (no store to a blob field outside its literal); " +
			"R2 atomic sections — no Interface method of *Registry performs two successive critical sections of Registry.mu where the second consumes a value produced by the first (check-then-act); " +
			"R3 seal — every append to Buffer.buf is dominated, inside the same critical section, by a test that the buffer is not yet committed, so the digest verified at commit is the digest of the bytes stored; " +
			"R4 the lock-order graph (acquire B while holding A) is acyclic. " +
			"R6 Buffer.Commit reports success only after the commit function returned nil in this call; R7 the server answers a manifest GET by tag with the single backend call GetTag. " +
			"R8 (shared with C04.R6) a refused Buffer.Write assigns no field of the upload, so concurrent stale writers cannot disarm the offset check for one another. " +
			"R9 the bytes whose digest gates `committed = true` are read in the same critical section (no unlock between the read of buf that is hashed and the store). " +
			"R10 (shared with C01.R5) the bytes stored for a digest never alias a caller-owned slice: no goroutine outside the registry can write to stored content.",
		NotDecided: "linearizability of histories itself, and races that a lockset abstraction cannot see (none known: ocimem uses no atomics or channels); behaviour through ociserver relies on the same registry methods.",
		Technique:  "static analysis: lockset dataflow + greatest-fixpoint held-at-entry over the VTA call graph, critical-section counting, lock-order graph",
	})
}

func runC08(c *core.Ctx) {
	la := newLockAnalysis(c, "ocimem")
	if len(la.mutexOf) == 0 {
		c.Fail("C08.R1", "anchor/ocimem.mutexes", 0, "no mutex-bearing struct found in ocimem")
		return
	}
	c.Note("mutex-bearing structs: %v", la.mutexOf)
	mut := la.mutableFields()
	for s, fs := range mut {
		c.Note("fields of %s stored to outside constructors: %v", s, keys(fs))
	}
	// region: package-local structs without a mutex reachable from mutable map fields of a mutex-bearing struct.
	tp := c.P.TypesPkg("ocimem")
	regionOwner := map[string]string{} // struct name -> lock token
	for sname, mfield := range la.mutexOf {
		tn, _ := tp.Scope().Lookup(sname).(*types.TypeName)
		if tn == nil {
			continue
		}
		st := tn.Type().Underlying().(*types.Struct)
		var visit func(t types.Type, depth int)
		visit = func(t types.Type, depth int) {
			if depth > 4 {
				return
			}
			switch u := t.(type) {
			case *types.Map:
				visit(u.Elem(), depth+1)
			case *types.Slice:
				visit(u.Elem(), depth+1)
			case *types.Pointer:
				visit(u.Elem(), depth+1)
			case *types.Named:
				if u.Obj().Pkg() != tp {
					return
				}
				if _, hasMu := la.mutexOf[u.Obj().Name()]; hasMu {
					return
				}
				s2, ok := u.Underlying().(*types.Struct)
				if !ok {
					return
				}
				// immutable structs (no field ever stored outside constructors, no map fields) need no lock
				hasMap := false
				for i := 0; i < s2.NumFields(); i++ {
					if _, isMap := s2.Field(i).Type().Underlying().(*types.Map); isMap {
						hasMap = true
					}
				}
				if !hasMap && len(mut[u.Obj().Name()]) == 0 {
					return
				}
				if _, seen := regionOwner[u.Obj().Name()]; seen {
					return
				}
				regionOwner[u.Obj().Name()] = sname + "." + mfield
				for i := 0; i < s2.NumFields(); i++ {
					visit(s2.Field(i).Type(), depth+1)
				}
			}
		}
		for i := 0; i < st.NumFields(); i++ {
			f := st.Field(i)
			if mut[sname][f.Name()] {
				visit(f.Type(), 0)
			}
		}
	}
	c.Note("guarded region: %v", regionOwner)
	// guarded map types (type-based aliasing): the map-typed fields of the
	// region structs and the mutable map fields of the mutex-bearing structs.
	type gmap struct {
		t    types.Type
		lock string
		name string
	}
	var gmaps []gmap
	for _, n := range tp.Scope().Names() {
		tn, ok := tp.Scope().Lookup(n).(*types.TypeName)
		if !ok {
			continue
		}
		st, ok := tn.Type().Underlying().(*types.Struct)
		if !ok {
			continue
		}
		lock := regionOwner[tn.Name()]
		mf, hasMu := la.mutexOf[tn.Name()]
		for i := 0; i < st.NumFields(); i++ {
			f := st.Field(i)
			if _, isMap := f.Type().Underlying().(*types.Map); !isMap {
				continue
			}
			if lock != "" {
				gmaps = append(gmaps, gmap{f.Type(), lock, tn.Name() + "." + f.Name()})
			} else if hasMu && mut[tn.Name()][f.Name()] {
				gmaps = append(gmaps, gmap{f.Type(), tn.Name() + "." + mf, tn.Name() + "." + f.Name()})
			}
		}
	}

	// blobs are immutable
	if len(mut["blob"]) > 0 {
		c.Fail("C08.R1", "ocimem.blob/immutable", 0, sprintf("fields %v of a stored blob are written after construction: readers hand out blob data without copying", keys(mut["blob"])))
	} else {
		c.OK("C08.R1", "ocimem.blob/immutable", 0, "no field of blob is stored to outside its literal")
	}

	// enumerate accesses
	nAcc := 0
	perFn := map[string][2]int{}
	for _, fn := range la.fns {
		if isInstance(fn) && fn.Parent() == nil {
			// instances of generic helpers are analysed like any function (they carry the concrete map types)
		}
		for _, b := range fn.Blocks {
			for _, in := range b.Instrs {
				var accs []guardedAccess
				addField := func(addr ssa.Value, write bool) {
					base, fld, ok := facts.FieldOf(addr)
					if !ok || isFreshBase(base) {
						return
					}
					sn := structName(base.Type())
					mf, hasMu := la.mutexOf[sn]
					if !hasMu || !mut[sn][fld] {
						return
					}
					accs = append(accs, guardedAccess{In: in, Lock: sn + "." + mf, What: sn + "." + fld, Write: write})
				}
				addMap := func(m ssa.Value, write bool) {
					base, fld, ok := facts.FieldOf(facts.Resolve(m))
					if !ok {
						// not a direct field load: a map that travelled through a parameter,
						// a closure capture or a local. Type-based: any map of a guarded map type.
						if _, fresh := facts.ResolveFree(m).(*ssa.MakeMap); fresh {
							return
						}
						for _, g := range gmaps {
							if types.Identical(m.Type(), g.t) {
								accs = append(accs, guardedAccess{In: in, Lock: g.lock, What: "a map of the type of " + g.name + " (aliased)", Write: write})
								return
							}
						}
						return
					}
					if isFreshBase(base) {
						return
					}
					sn := structName(base.Type())
					if lock, inRegion := regionOwner[sn]; inRegion {
						accs = append(accs, guardedAccess{In: in, Lock: lock, What: sn + "." + fld + " (map)", Write: write})
					}
					if mf, hasMu := la.mutexOf[sn]; hasMu && mut[sn][fld] {
						accs = append(accs, guardedAccess{In: in, Lock: sn + "." + mf, What: sn + "." + fld + " (map)", Write: write})
					}
				}
				switch x := in.(type) {
				case *ssa.UnOp:
					if x.Op == token.MUL {
						addField(x.X, false)
					}
				case *ssa.Store:
					addField(x.Addr, true)
				case *ssa.MapUpdate:
					addMap(x.Map, true)
				case *ssa.Lookup:
					if _, isMap := x.X.Type().Underlying().(*types.Map); isMap {
						addMap(x.X, false)
					}
				case *ssa.Range:
					if _, isMap := x.X.Type().Underlying().(*types.Map); isMap {
						addMap(x.X, false)
					}
				case *ssa.Call:
					if bi, ok := x.Call.Value.(*ssa.Builtin); ok && (bi.Name() == "delete" || bi.Name() == "len") && len(x.Call.Args) > 0 {
						if _, isMap := x.Call.Args[0].Type().Underlying().(*types.Map); isMap {
							addMap(x.Call.Args[0], bi.Name() == "delete")
						}
					}
				}
				for _, a := range accs {
					nAcc++
					held := la.HeldAt(in)
					pf := perFn[facts.FuncName(fn)]
					pf[0]++
					if held[a.Lock] {
						pf[1]++
					} else {
						rw := "read"
						if a.Write {
							rw = "write"
						}
						c.Fail("C08.R1", facts.FuncName(fn)+"/"+a.What+"/"+rw, in.Pos(), rw+" of "+a.What+" without "+a.Lock+" held (held here: "+describeTokens(held)+"): data race with any concurrent operation on the same object")
					}
					perFn[facts.FuncName(fn)] = pf
				}
			}
		}
	}
	for fnName, pf := range perFn {
		c.Analysed(fnName)
		if pf[0] == pf[1] {
			c.OK("C08.R1", fnName+"/lockset", 0, sprintf("%d guarded accesses, all with the owning mutex held", pf[0]))
		}
	}
	if nAcc < 20 {
		c.Fail("C08.R1", "instance-floor", 0, sprintf("only %d guarded accesses found in ocimem", nAcc))
	}
	c08Atomic(c, la)
	allOrNothing(c, "C08.R2", la.fns)
	c08Seal(c, la)
	c08LockOrder(c, la)
	bufferCommitAfterStore(c, "C08.R6")
	// a committed blob's stored content always matches its digest: the stored bytes are the registry's own,
	// not a slice the pushing goroutine can still write to (shared with C01.R5)
	relabel(c, "C08.R10", func() { c01Immutability(c) })
	serverTagReadIsOneCall(c, "C08.R7")
	// a refused Write changes nothing (shared with C04.R6): two stale writers racing on one session cannot disarm the offset check for each other
	bufferFailedWriteLeavesState(c, "C08.R8")
	commitHashesUnderTheLock(c, "C08.R9")
}

// acquires: does calling fn (transitively, within the package) acquire lock tok?
func (la *lockAnalysis) acquires(fn *ssa.Function, tok string, seen map[*ssa.Function]bool) bool {
	if seen[fn] || fn.Blocks == nil {
		return false
	}
	seen[fn] = true
	for _, ci := range facts.CallsIn(fn) {
		if t, kind, ok := lockCall(ci); ok && kind == "lock" && t == tok {
			return true
		}
		if _, isGo := ci.(*ssa.Go); isGo {
			continue
		}
		if sc := ci.Common().StaticCallee(); sc != nil && la.inScope(sc) {
			if la.acquires(sc, tok, seen) {
				return true
			}
		}
	}
	return false
}

// c08Atomic: R2.
func c08Atomic(c *core.Ctx, la *lockAnalysis) {
	reg := c.P.NamedType("ocimem", "Registry")
	if reg == nil {
		c.Fail("C08.R2", "anchor/ocimem.Registry", 0, "ocimem.Registry not found")
		return
	}
	tok := "Registry." + la.mutexOf["Registry"]
	for _, m := range ifaceMethods(c) {
		fn := declaredMethod(c, types.NewPointer(reg), m.Name())
		if fn == nil {
			continue // promoted from Funcs: unsupported, no state
		}
		key := "(*Registry)." + m.Name()
		// acquisition events in fn, in CFG order: direct Lock, or a call to an acquirer while not holding tok
		var events []ssa.CallInstruction
		for _, ci := range facts.CallsIn(fn) {
			if _, isDefer := ci.(*ssa.Defer); isDefer {
				continue
			}
			if t, kind, ok := lockCall(ci); ok {
				if kind == "lock" && t == tok {
					events = append(events, ci)
				}
				continue
			}
			sc := ci.Common().StaticCallee()
			if sc == nil || !la.inScope(sc) {
				continue
			}
			if la.HeldAt(ci)[tok] {
				continue
			}
			if la.acquires(sc, tok, map[*ssa.Function]bool{}) {
				events = append(events, ci)
			}
		}
		bad := false
		for _, e1 := range events {
			for _, e2 := range events {
				if e1 == e2 {
					continue
				}
				isE2 := func(in ssa.Instruction) bool { return in == ssa.Instruction(e2) }
				if _, reach := facts.ReachesWithout(e1, isE2, nil, nil); !reach {
					continue
				}
				// dependent if an argument of e2 derives from e1's result
				dep := false
				if v1 := e1.Value(); v1 != nil {
					for _, a := range e2.Common().Args {
						if sliceHas(a, func(v ssa.Value) bool { return v == ssa.Value(v1) }) {
							dep = true
						}
					}
				}
				if dep {
					bad = true
					c.Fail("C08.R2", key+"/check-then-act", e2.Pos(), "the operation is two critical sections of "+tok+": the value read in the first ("+c.P.Pos(e1.Pos())+") is used in the second after the lock was released, so a concurrent writer can interleave (e.g. a tag that always points at an existing manifest is reported missing)")
				}
			}
		}
		if !bad {
			c.OK("C08.R2", key+"/atomic", fn.Pos(), sprintf("%d critical-section entries; no dependent pair", len(events)))
		}
	}
}

// c08Seal: R3.
func c08Seal(c *core.Ctx, la *lockAnalysis) {
	n := 0
	for _, fn := range la.fns {
		for _, b := range fn.Blocks {
			for _, in := range b.Instrs {
				st, ok := in.(*ssa.Store)
				if !ok {
					continue
				}
				base, fld, isF := facts.FieldOf(st.Addr)
				if !isF || structName(base.Type()) != "Buffer" || fld != "buf" || isFreshBase(base) {
					continue
				}
				n++
				// dominated by a false `committed` test on the same buffer, with no unlock between the test and the store
				sealed := false
				want := facts.Term(base)
				// `!committed` established by a private helper that returned nil, called in
				// this critical section: no unlock between that call and the store
				for _, cd0 := range facts.CondsAt(b) {
					x, isNil, okN := facts.NilCheck(cd0)
					if !okN || !isNil {
						continue
					}
					call, isCall := facts.Resolve(x).(*ssa.Call)
					if !isCall {
						continue
					}
					implied := false
					h := call.Call.StaticCallee()
					if h == nil || h.Blocks == nil || len(privateCallSites(h)) == 0 {
						continue
					}
					nilRets, okAll := 0, true
					for _, r := range returnsOf(h) {
						if facts.ProvablyNonNil(facts.RetVal(r, len(r.Results)-1), r.Block()) {
							continue
						}
						nilRets++
						got := false
						withParams(h, call, func() {
							forEachCondImplied(r.Block(), 1, func(c2 facts.Cond) {
								b2, f2, ok := facts.FieldOf(facts.Resolve(c2.V))
								if ok && f2 == "committed" && !c2.Pos && facts.Term(b2) == want {
									got = true
								}
							})
						})
						if !got {
							okAll = false
						}
					}
					implied = nilRets > 0 && okAll && !helperTouches(h, 2, func(i ssa.Instruction) bool {
						ci, ok := i.(*ssa.Call)
						if !ok {
							return false
						}
						_, kind, ok := lockCall(ci)
						return ok && kind == "unlock"
					})
					if implied {
						unlockBetween := func(i ssa.Instruction) bool {
							ci, ok := i.(*ssa.Call)
							if !ok {
								return false
							}
							_, kind, ok := lockCall(ci)
							return ok && kind == "unlock"
						}
						isStore := func(i ssa.Instruction) bool { return i == in }
						if _, reach := facts.ReachesWithout(call, unlockBetween, isStore, nil); !reach {
							sealed = true
						}
					}
				}
				for _, cd := range facts.CondsAt(b) {
					b2, f2, ok := facts.FieldOf(facts.Resolve(cd.V))
					if ok && f2 == "committed" && !cd.Pos && facts.Term(b2) == want {
						unlockBetween := func(i ssa.Instruction) bool {
							ci, ok := i.(*ssa.Call)
							if !ok {
								return false
							}
							_, kind, ok := lockCall(ci)
							return ok && kind == "unlock"
						}
						isStore := func(i ssa.Instruction) bool { return i == in }
						// every path from the test to the store must be free of unlocks
						if _, reach := facts.ReachesWithout(cd.If, unlockBetween, isStore, nil); !reach {
							sealed = true
						}
					}
				}
				c.Check(sealed, "C08.R3", facts.FuncName(fn)+"/buf-store-sealed", in.Pos(), "append to the upload buffer is dominated by `!committed` in the same critical section", "bytes can be appended to an upload buffer after its digest was verified and it was marked committed (Commit running concurrently with Write on one session): the committed blob's stored content no longer matches its digest")
			}
		}
	}
	if n == 0 {
		c.Fail("C08.R3", "instance-floor", 0, "no store to Buffer.buf found")
	}
}

// c08LockOrder: R4.
func c08LockOrder(c *core.Ctx, la *lockAnalysis) {
	edges := map[string]map[string]ssa.Instruction{}
	may := la.MayHeldIn()
	for _, fn := range la.fns {
		for _, ci := range facts.CallsIn(fn) {
			tok, kind, ok := lockCall(ci)
			if !ok || kind != "lock" {
				continue
			}
			held := la.HeldAt(ci)
			for k := range may[fn] {
				held[k] = true
			}
			for h := range held {
				if edges[h] == nil {
					edges[h] = map[string]ssa.Instruction{}
				}
				edges[h][tok] = ci
			}
		}
	}
	// self edges and cycles
	var desc []string
	cyc := false
	var visit func(n string, stack []string)
	visit = func(n string, stack []string) {
		for _, s := range stack {
			if s == n {
				cyc = true
				c.Fail("C08.R4", "lock-order/"+strings.Join(append(stack, n), "->"), edges[stack[len(stack)-1]][n].Pos(), "lock-order cycle: "+strings.Join(append(stack, n), " -> ")+" (possible deadlock)")
				return
			}
		}
		for m := range edges[n] {
			visit(m, append(stack, n))
		}
	}
	for a, ms := range edges {
		for b := range ms {
			desc = append(desc, a+"->"+b)
		}
		visit(a, nil)
	}
	if !cyc {
		c.OK("C08.R4", "lock-order", 0, "acyclic: "+strings.Join(desc, ", "))
	}
}

// c08AllOrNothing: R2b — inside an operation, once a content map (tags,
// manifests, blobs) has been mutated no failure return is reachable: a
// failed operation leaves the content state untouched (otherwise a rejected
// tagged push can leave a tag pointing at a manifest that was never stored).
func allOrNothing(c *core.Ctx, rule string, fns []*ssa.Function) {
	n := 0
	for _, fn := range fns {
		if isInstance(fn) {
			continue
		}
		res := fn.Signature.Results()
		if res.Len() == 0 || res.At(res.Len()-1).Type().String() != "error" {
			continue
		}
		for _, b := range fn.Blocks {
			for _, in := range b.Instrs {
				var m ssa.Value
				switch x := in.(type) {
				case *ssa.MapUpdate:
					m = x.Map
				case *ssa.Call:
					if bi, ok := x.Call.Value.(*ssa.Builtin); ok && bi.Name() == "delete" {
						m = x.Call.Args[0]
					}
				}
				if m == nil {
					continue
				}
				fld, ok := memMapField(m)
				if !ok || (fld != "tags" && fld != "manifests" && fld != "blobs") {
					continue
				}
				n++
				failing := func(i ssa.Instruction) bool {
					r, ok := i.(*ssa.Return)
					if !ok || len(r.Results) == 0 {
						return false
					}
					return !facts.RetErrIsNil(r)
				}
				at, reach := facts.ReachesWithout(in, failing, nil, nil)
				if reach {
					c.Fail(rule, facts.FuncName(fn)+"/all-or-nothing/"+fld, in.Pos(), "the "+fld+" map is mutated and a failure return is still reachable afterwards ("+c.P.Pos(at.Pos())+"): a rejected operation leaves a partial update behind (e.g. a tag bound to a manifest that was never stored, so a tag whose previous manifest still exists is reported missing)")
				} else {
					c.OK(rule, facts.FuncName(fn)+"/all-or-nothing/"+fld, in.Pos(), "no failure return reachable after the mutation")
				}
			}
		}
	}
	if n < 4 {
		c.Fail(rule, "all-or-nothing/instance-floor", 0, sprintf("only %d content-map mutations found in ocimem", n))
	}
}
