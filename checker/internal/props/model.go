package props

import (
	"fmt"
	"go/types"
	"ocivet/internal/bounds"
	"os"
	"sort"
	"strings"

	"golang.org/x/tools/go/ssa"

	"ocivet/internal/core"
	"ocivet/internal/facts"
	"ocivet/internal/load"
)

// Model resolves the UNEXPORTED anchors of the repository (types, fields,
// functions) by structural role — signature, unique field type, which exported
// method uses them — and maps them to the canonical names the rules are written
// against (the names on the tree the rules were reviewed on). Renaming an
// unexported identifier therefore changes nothing for the rules. Exported
// identifiers are part of the API and are resolved by name. When a role cannot
// be resolved the actual name is used unchanged (and a rule that needs the
// anchor reports it as unresolved).
type Model struct {
	typeCanon  map[*types.TypeName]string
	fieldCanon map[*types.Var]string
	fn         map[string]*ssa.Function // canonical "pkg.name" -> function
	fnCanon    map[*ssa.Function]string
	methCanon  map[string]string // actual unexported interface method name -> canonical
	globCanon  map[types.Object]string
	notes      []string
}

var M *Model

// Prepare builds the model for the loaded program and installs the
// canonicalisation hooks. Must be called before a property's Run.
func Prepare(c *core.Ctx) {
	m := &Model{typeCanon: map[*types.TypeName]string{}, fieldCanon: map[*types.Var]string{}, fn: map[string]*ssa.Function{}, fnCanon: map[*ssa.Function]string{}, methCanon: map[string]string{}, globCanon: map[types.Object]string{}}
	M = m
	facts.CanonField = func(f *types.Var) string { return m.fieldCanon[f] }
	load.RoleFunc, load.RoleType = nil, nil // the model itself resolves by actual names
	facts.CanonMethod = methName
	facts.CanonFuncString = m.funcString
	m.build(c)
	buildProgIndex(c)
	bounds.PrivateCallSites = privateCallSites
	load.RoleFunc = func(key string) *ssa.Function { return m.fn[key] }
	load.RoleType = func(pkgPath, name string) *types.Named {
		for tn, cn := range m.typeCanon {
			if cn == name && tn.Pkg() != nil && tn.Pkg().Path() == pkgPath {
				n, _ := tn.Type().(*types.Named)
				return n
			}
		}
		return nil
	}
	if os.Getenv("OCIVET_MODEL") != "" {
		var ks []string
		for k, f := range m.fn {
			ks = append(ks, "fn "+k+" = "+f.String())
		}
		for f, n := range m.fieldCanon {
			ks = append(ks, "field "+f.Pkg().Name()+"."+f.Name()+" -> "+n)
		}
		for t, n := range m.typeCanon {
			ks = append(ks, "type "+t.Pkg().Name()+"."+t.Name()+" -> "+n)
		}
		sort.Strings(ks)
		fmt.Fprintln(os.Stderr, strings.Join(ks, "\n"))
	}
	c.Note("model: %d types, %d fields, %d functions resolved by role", len(m.typeCanon), len(m.fieldCanon), len(m.fn))
	for _, n := range m.notes {
		c.Note("model: %s", n)
	}
}

func (m *Model) setType(t types.Type, canon string) {
	if p, ok := t.(*types.Pointer); ok {
		t = p.Elem()
	}
	if n, ok := t.(*types.Named); ok {
		if n.Obj().Name() != canon {
			m.notes = append(m.notes, "type "+n.Obj().Name()+" plays the role of "+canon)
		}
		m.typeCanon[n.Origin().Obj()] = canon
	}
}

func (m *Model) setField(f *types.Var, canon string) {
	if f == nil {
		return
	}
	if f.Name() != canon {
		m.notes = append(m.notes, "field "+f.Name()+" plays the role of "+canon)
	}
	m.fieldCanon[f.Origin()] = canon
}

func (m *Model) setFn(key string, fn *ssa.Function) {
	if fn == nil {
		return
	}
	if o := fn.Origin(); o != nil {
		fn = o
	}
	name := key[strings.LastIndex(key, ".")+1:]
	// two functions fit the role's shape: the one that still carries the
	// canonical name wins (a newly added look-alike does not take the role over)
	if prev, ok := m.fn[key]; ok && prev != fn {
		if prev.Name() == name {
			return
		}
		if fn.Name() != name {
			m.notes = append(m.notes, "role "+key+" is ambiguous between "+prev.Name()+" and "+fn.Name())
		}
		delete(m.fnCanon, prev)
	}
	m.fn[key] = fn
	if fn.Name() != name {
		m.notes = append(m.notes, "function "+fn.Name()+" plays the role of "+key)
	}
	m.fnCanon[fn] = name
}

// constrained: the function's first type parameter has a constraint with methods
// (the package's result interface), not `any`.
func constrained(s *types.Signature) bool {
	if s.TypeParams().Len() == 0 {
		return false
	}
	it, ok := s.TypeParams().At(0).Constraint().Underlying().(*types.Interface)
	return ok && it.NumMethods() > 0
}

// funcString renders a module function the way (*ssa.Function).String does,
// with canonical receiver type and function names; "" if nothing differs.
func (m *Model) funcString(f *ssa.Function) string {
	if f.Parent() != nil || !load.InModule(f) || f.Object() == nil || f.Object().Pkg() == nil {
		return ""
	}
	name := f.Name()
	if n, ok := m.fnCanon[f]; ok {
		name = n
	} else if f.Signature.Recv() != nil {
		name = methName(name)
	}
	pkg := f.Object().Pkg().Path()
	recv := f.Signature.Recv()
	if recv == nil {
		if name == f.Name() {
			return ""
		}
		return pkg + "." + name
	}
	rt, ptr := recv.Type(), ""
	if p, ok := rt.(*types.Pointer); ok {
		rt, ptr = p.Elem(), "*"
	}
	n, ok := rt.(*types.Named)
	if !ok {
		return ""
	}
	tn := canonTypeName(n)
	if tn == n.Obj().Name() && name == f.Name() {
		return ""
	}
	return "(" + ptr + pkg + "." + tn + ")." + name
}

// Fn returns the function playing the given canonical role ("ociclient.do").
func (m *Model) Fn(key string) *ssa.Function { return m.fn[key] }

// fnName: canonical name of fn if it plays a known role, else its own name.
func fnName(fn *ssa.Function) string {
	if fn == nil {
		return ""
	}
	f := fn
	if o := fn.Origin(); o != nil {
		f = o
	}
	if M != nil {
		if n, ok := M.fnCanon[f]; ok {
			return n
		}
	}
	return f.Name()
}

// roleName: facts.FuncName with canonical receiver-type and function names —
// for MATCHING a function against the role a rule expects (reports keep the
// actual name).
func roleName(fn *ssa.Function) string {
	if fn == nil {
		return ""
	}
	suffix := ""
	f := fn
	for f.Parent() != nil {
		suffix = f.Name()[len(f.Parent().Name()):] + suffix
		f = f.Parent()
	}
	if o := f.Origin(); o != nil {
		f = o
	}
	s := ""
	if M != nil {
		s = M.funcString(f)
	}
	if s == "" {
		s = f.String()
	}
	s = strings.ReplaceAll(s, "cuelabs.dev/go/oci/ociregistry/", "")
	s = strings.ReplaceAll(s, "cuelabs.dev/go/oci/", "")
	return s + suffix
}

// isFn: does call ci statically call the function playing role key?
func isFn(ci ssa.CallInstruction, key string) bool {
	sc := ci.Common().StaticCallee()
	if sc == nil || M == nil {
		return false
	}
	want := M.fn[key]
	if want == nil {
		return false
	}
	if sc == want {
		return true
	}
	return sc.Origin() != nil && sc.Origin() == want
}

// globalName: canonical name of a package-level variable.
func globalName(g *ssa.Global) string {
	if M != nil && g.Object() != nil {
		if n, ok := M.globCanon[g.Object()]; ok {
			return n
		}
	}
	return g.Name()
}

func canonTypeName(n *types.Named) string {
	if M != nil {
		if c, ok := M.typeCanon[n.Origin().Obj()]; ok {
			return c
		}
	}
	return n.Obj().Name()
}

// methName canonicalises an unexported interface method name.
func methName(name string) string {
	if M != nil {
		if c, ok := M.methCanon[name]; ok {
			return c
		}
	}
	return name
}

// ---------------------------------------------------------------- helpers

func structOf(t types.Type) *types.Struct {
	if t == nil {
		return nil
	}
	if p, ok := t.Underlying().(*types.Pointer); ok {
		t = p.Elem()
	}
	s, _ := t.Underlying().(*types.Struct)
	return s
}

func fieldsWhere(st *types.Struct, pred func(types.Type) bool) []*types.Var {
	var out []*types.Var
	if st == nil {
		return nil
	}
	for i := 0; i < st.NumFields(); i++ {
		if pred(st.Field(i).Type()) {
			out = append(out, st.Field(i))
		}
	}
	return out
}

func uniqueField(st *types.Struct, pred func(types.Type) bool) *types.Var {
	fs := fieldsWhere(st, pred)
	if len(fs) == 1 {
		return fs[0]
	}
	return nil
}

func typeIs(s string) func(types.Type) bool {
	return func(t types.Type) bool { return t.String() == s }
}

func typeHasSuffix(s string) func(types.Type) bool {
	return func(t types.Type) bool { return strings.HasSuffix(t.String(), s) }
}

func isMapT(t types.Type) bool { _, ok := t.Underlying().(*types.Map); return ok }

func isFuncT(t types.Type) bool { _, ok := t.Underlying().(*types.Signature); return ok }

func elemNamed(t types.Type) *types.Named {
	for i := 0; i < 4; i++ {
		switch u := t.(type) {
		case *types.Pointer:
			t = u.Elem()
		case *types.Map:
			t = u.Elem()
		case *types.Slice:
			t = u.Elem()
		case *types.Named:
			if _, isStruct := u.Underlying().(*types.Struct); isStruct {
				return u
			}
			t = u.Underlying()
		default:
			return nil
		}
	}
	return nil
}

// sigString renders parameter and result types of a signature (without receiver).
func sigString(s *types.Signature) string {
	var ps, rs []string
	for i := 0; i < s.Params().Len(); i++ {
		ps = append(ps, shortType(s.Params().At(i).Type()))
	}
	for i := 0; i < s.Results().Len(); i++ {
		rs = append(rs, shortType(s.Results().At(i).Type()))
	}
	return "(" + strings.Join(ps, ",") + ")(" + strings.Join(rs, ",") + ")"
}

func shortType(t types.Type) string {
	s := t.String()
	s = strings.ReplaceAll(s, load.Mod+"/", "")
	s = strings.ReplaceAll(s, "cuelabs.dev/go/oci/", "")
	s = strings.ReplaceAll(s, "github.com/opencontainers/go-digest.", "digest.")
	s = strings.ReplaceAll(s, "github.com/opencontainers/image-spec/specs-go/v1.", "ocispec.")
	return s
}

// pkgFuncs: package-level functions and methods (no closures, no instances) of a module package.
func pkgFuncs(c *core.Ctx, rel string) []*ssa.Function {
	var out []*ssa.Function
	for _, f := range c.P.ModuleFunctions(rel) {
		if f.Parent() != nil || isInstance(f) {
			continue
		}
		out = append(out, f)
	}
	return out
}

// methodsOf: SSA functions of the methods declared on named type n (value and pointer receivers).
func methodsOf(c *core.Ctx, n *types.Named) []*ssa.Function {
	var out []*ssa.Function
	if n == nil {
		return nil
	}
	for i := 0; i < n.NumMethods(); i++ {
		if f := c.P.SSA.FuncValue(n.Method(i)); f != nil {
			out = append(out, f)
		}
	}
	return out
}

// findBySig: the unique function among fns whose signature string equals sig and satisfies extra.
func findBySig(fns []*ssa.Function, sig string, extra func(*ssa.Function) bool) *ssa.Function {
	var found *ssa.Function
	n := 0
	for _, f := range fns {
		if sigString(f.Signature) != sig {
			continue
		}
		if extra != nil && !extra(f) {
			continue
		}
		found = f
		n++
	}
	if n == 1 {
		return found
	}
	return nil
}

func callsFn(f, callee *ssa.Function) bool {
	if f == nil || callee == nil {
		return false
	}
	for _, g := range facts.WithAnon(f) {
		for _, ci := range facts.CallsIn(g) {
			sc := ci.Common().StaticCallee()
			if sc != nil && (sc == callee || sc.Origin() == callee) {
				return true
			}
		}
	}
	return false
}

func callsNamed(f *ssa.Function, calleeName string) bool {
	for _, g := range facts.WithAnon(f) {
		for _, ci := range facts.CallsIn(g) {
			if facts.CalleeName(ci.Common()) == calleeName {
				return true
			}
		}
	}
	return false
}

// byNameOr: fall back to the canonical name when the role search found nothing.
func byNameOr(found *ssa.Function, fns []*ssa.Function, name string) *ssa.Function {
	if found != nil {
		return found
	}
	for _, f := range fns {
		if f.Name() == name {
			return f
		}
	}
	return nil
}

// ---------------------------------------------------------------- the roles

func (m *Model) build(c *core.Ctx) {
	m.buildMem(c)
	m.buildAuth(c)
	m.buildClient(c)
	m.buildServer(c)
	m.buildRoot(c)
	m.buildUnify(c)
	m.buildMisc(c)
}

func (m *Model) buildMem(c *core.Ctx) {
	reg := c.P.NamedType("ocimem", "Registry")
	buf := c.P.NamedType("ocimem", "Buffer")
	if reg == nil || buf == nil {
		return
	}
	rst := structOf(reg)
	repos := uniqueField(rst, isMapT)
	m.setField(repos, "repos")
	m.setField(uniqueField(rst, typeHasSuffix("ocimem.Config")), "cfg")
	var repoT *types.Named
	if repos != nil {
		repoT = elemNamed(repos.Type())
	}
	if repoT != nil {
		m.setType(repoT, "repository")
		st := structOf(repoT)
		m.setField(uniqueField(st, func(t types.Type) bool {
			mp, ok := t.Underlying().(*types.Map)
			return ok && strings.HasSuffix(mp.Elem().String(), "Descriptor")
		}), "tags")
		m.setField(uniqueField(st, func(t types.Type) bool {
			mp, ok := t.Underlying().(*types.Map)
			return ok && strings.HasSuffix(mp.Elem().String(), "ocimem.Buffer")
		}), "uploads")
		// the two digest->*blob maps: told apart by which exported method stores into them
		cands := fieldsWhere(st, func(t types.Type) bool {
			mp, ok := t.Underlying().(*types.Map)
			if !ok {
				return false
			}
			_, isPtr := mp.Elem().(*types.Pointer)
			return isPtr && !strings.HasSuffix(mp.Elem().String(), "ocimem.Buffer")
		})
		if len(cands) == 2 {
			m.setType(elemNamed(cands[0].Type()), "blob")
			storedIn := func(method string) *types.Var {
				fn := c.P.Method(types.NewPointer(reg), method)
				if fn == nil {
					return nil
				}
				for _, b := range fn.Blocks {
					for _, in := range b.Instrs {
						mu, ok := in.(*ssa.MapUpdate)
						if !ok {
							continue
						}
						if u, ok := mu.Map.(*ssa.UnOp); ok {
							if fa, ok := u.X.(*ssa.FieldAddr); ok {
								if s2 := structOf(fa.X.Type()); s2 != nil {
									f := s2.Field(fa.Field)
									if f == cands[0] || f == cands[1] {
										return f
									}
								}
							}
						}
					}
				}
				return nil
			}
			mf, bf := storedIn("PushManifest"), storedIn("PushBlob")
			if mf != nil && bf != nil && mf != bf {
				m.setField(mf, "manifests")
				m.setField(bf, "blobs")
			}
			if bt := elemNamed(cands[0].Type()); bt != nil {
				bs := structOf(bt)
				m.setField(uniqueField(bs, typeIs("string")), "mediaType")
				m.setField(uniqueField(bs, typeIs("[]byte")), "data")
				m.setField(uniqueField(bs, typeHasSuffix("go-digest.Digest")), "subject")
			}
		}
	}
	bst := structOf(buf)
	m.setField(uniqueField(bst, typeIs("[]byte")), "buf")
	m.setField(uniqueField(bst, typeIs("int64")), "checkStartOffset")
	m.setField(uniqueField(bst, typeIs("bool")), "committed")
	m.setField(uniqueField(bst, typeHasSuffix("Descriptor")), "desc")
	m.setField(uniqueField(bst, typeIs("error")), "commitErr")
	m.setField(uniqueField(bst, isFuncT), "commit")
	m.setField(uniqueField(bst, typeIs("string")), "uuid")
	fns := pkgFuncs(c, "ocimem")
	m.setFn("ocimem.manifestReferences", byNameOr(findBySig(fns, "(string,[]byte)(ocimem.descIter,error)", nil), fns, "manifestReferences"))
	if m.fn["ocimem.manifestReferences"] == nil {
		for _, f := range fns {
			s := f.Signature
			if s.Recv() == nil && s.Params().Len() == 2 && s.Results().Len() == 2 && s.Params().At(0).Type().String() == "string" && s.Params().At(1).Type().String() == "[]byte" && s.Results().At(1).Type().String() == "error" {
				m.setFn("ocimem.manifestReferences", f)
			}
		}
	}
	for _, f := range fns {
		s := f.Signature
		if s.Recv() == nil && s.TypeParams().Len() > 0 && s.Params().Len() == 3 && isMapT(s.Params().At(0).Type()) && isSeqType(s.Results().At(0).Type()) {
			m.setFn("ocimem.mapKeysIter", f)
		}
	}
	var regM, bufM []*ssa.Function
	for _, f := range fns {
		if f.Signature.Recv() == nil {
			continue
		}
		switch structNameRaw(f.Signature.Recv().Type()) {
		case "Registry":
			regM = append(regM, f)
		case "Buffer":
			bufM = append(bufM, f)
		}
	}
	m.setFn("ocimem.checkManifest", byNameOr(findBySig(regM, "(string,string,[]byte)(digest.Digest,error)", nil), regM, "checkManifest"))
	m.setFn("ocimem.checkCommit", byNameOr(pickUnexported(bufM, func(f *ssa.Function) bool {
		s := f.Signature
		return s.Params().Len() == 1 && strings.HasSuffix(s.Params().At(0).Type().String(), "go-digest.Digest") && s.Results().Len() >= 1 && s.Results().At(s.Results().Len()-1).Type().String() == "error"
	}), bufM, "checkCommit"))
	// descInfo: the parameter type of the reference-walk callbacks; refKind: its named-int field
	if cm := m.fn["ocimem.checkManifest"]; cm != nil {
		for _, f := range facts.WithAnon(cm) {
			if f != cm && f.Signature.Params().Len() == 1 {
				if n, ok := f.Signature.Params().At(0).Type().(*types.Named); ok {
					m.setType(n, "descInfo")
					st := structOf(n)
					kind := uniqueField(st, func(t types.Type) bool {
						nt, ok := t.(*types.Named)
						if !ok {
							return false
						}
						b, ok := nt.Underlying().(*types.Basic)
						return ok && b.Info()&types.IsInteger != 0
					})
					m.setField(kind, "kind")
					if kind != nil {
						m.setType(kind.Type(), "refKind")
					}
					m.setField(uniqueField(st, typeHasSuffix("Descriptor")), "desc")
					m.setField(uniqueField(st, typeIs("string")), "name")
				}
			}
		}
	}
}

func pickUnexported(fns []*ssa.Function, pred func(*ssa.Function) bool) *ssa.Function {
	var found *ssa.Function
	n := 0
	for _, f := range fns {
		if f.Object() != nil && f.Object().Exported() {
			continue
		}
		if pred(f) {
			found = f
			n++
		}
	}
	if n == 1 {
		return found
	}
	return nil
}

func structNameRaw(t types.Type) string {
	if p, ok := t.(*types.Pointer); ok {
		t = p.Elem()
	}
	if n, ok := t.(*types.Named); ok {
		return n.Obj().Name()
	}
	return ""
}

func (m *Model) buildAuth(c *core.Ctx) {
	ctor := c.P.Func("ociauth", "NewStdTransport")
	if ctor == nil {
		return
	}
	ts := constructorResultTypes(ctor)
	if len(ts) != 1 {
		return
	}
	stT := elemNamed(ts[0])
	if stT == nil {
		return
	}
	m.setType(stT, "stdTransport")
	sst := structOf(stT)
	regs := uniqueField(sst, isMapT)
	m.setField(regs, "registries")
	m.setField(uniqueField(sst, typeHasSuffix("http.RoundTripper")), "transport")
	m.setField(uniqueField(sst, typeHasSuffix("ociauth.Config")), "config")
	if regs == nil {
		return
	}
	regT := elemNamed(regs.Type())
	if regT == nil {
		return
	}
	m.setType(regT, "registry")
	rst := structOf(regT)
	m.setField(uniqueField(rst, typeHasSuffix("http.RoundTripper")), "transport")
	m.setField(uniqueField(rst, typeHasSuffix("ociauth.Config")), "config")
	m.setField(uniqueField(rst, typeIs("sync.Once")), "initOnce")
	m.setField(uniqueField(rst, typeIs("error")), "initErr")
	// pointer-to-struct fields: challenge header (string + map) and basic credentials (two strings)
	for _, f := range fieldsWhere(rst, func(t types.Type) bool { _, ok := t.(*types.Pointer); return ok }) {
		n := elemNamed(f.Type())
		st := structOf(n)
		if st == nil {
			continue
		}
		strs := fieldsWhere(st, typeIs("string"))
		maps := fieldsWhere(st, isMapT)
		switch {
		case len(strs) == 1 && len(maps) == 1:
			m.setField(f, "wwwAuthenticate")
			m.setType(n, "authHeader")
			m.setField(strs[0], "scheme")
			m.setField(maps[0], "params")
		case len(strs) == 2 && st.NumFields() == 2:
			m.setField(f, "basic")
			m.setType(n, "userPass")
			m.setField(strs[0], "username")
			m.setField(strs[1], "password")
		}
	}
	if toks := uniqueField(rst, func(t types.Type) bool { _, ok := t.Underlying().(*types.Slice); return ok }); toks != nil {
		m.setField(toks, "accessTokens")
		if tn := elemNamed(toks.Type()); tn != nil {
			m.setType(tn, "scopedToken")
			tst := structOf(tn)
			m.setField(uniqueField(tst, typeHasSuffix("ociauth.Scope")), "scope")
			m.setField(uniqueField(tst, typeIs("string")), "token")
			m.setField(uniqueField(tst, typeIs("time.Time")), "expires")
		}
	}
	// the two string fields of registry: host (set from the URL when the object is created) and the refresh token
	strs := fieldsWhere(rst, typeIs("string"))
	if len(strs) == 2 {
		var hostF *types.Var
		for _, fn := range pkgFuncs(c, "ociauth") {
			for _, b := range fn.Blocks {
				for _, in := range b.Instrs {
					st, ok := in.(*ssa.Store)
					if !ok {
						continue
					}
					fa, ok := st.Addr.(*ssa.FieldAddr)
					if !ok {
						continue
					}
					s2 := structOf(fa.X.Type())
					if s2 == nil || (s2.Field(fa.Field) != strs[0] && s2.Field(fa.Field) != strs[1]) {
						continue
					}
					// value is a load of a field named Host of a *url.URL
					if u, ok := st.Val.(*ssa.UnOp); ok {
						if fa2, ok := u.X.(*ssa.FieldAddr); ok && strings.HasSuffix(fa2.X.Type().String(), "url.URL") {
							hostF = s2.Field(fa.Field)
						}
					}
				}
			}
		}
		if hostF != nil {
			m.setField(hostF, "host")
			for _, f := range strs {
				if f != hostF {
					m.setField(f, "refreshToken")
				}
			}
		}
	}
	fns := pkgFuncs(c, "ociauth")
	var regM []*ssa.Function
	for _, f := range fns {
		if f.Signature.Recv() != nil && elemNamed(f.Signature.Recv().Type()) == regT {
			regM = append(regM, f)
		}
	}
	for canon, sig := range map[string]string{
		"setAuthorization":    "(context.Context,*net/http.Request,ociauth.Scope,ociauth.Scope)(error)",
		"acquireAccessToken":  "(context.Context,ociauth.Scope,ociauth.Scope)(string,error)",
		"deleteExpiredTokens": "(time.Time)()",
		"init":                "()(error)",
	} {
		m.setFn("ociauth."+canon, byNameOr(findBySig(regM, sig, nil), regM, canon))
	}
	for _, f := range regM {
		s := f.Signature
		switch {
		case s.Params().Len() == 5 && s.Results().Len() == 3:
			m.setFn("ociauth.setAuthorizationFromChallenge", f)
		case s.Params().Len() == 2 && s.Results().Len() == 2 && s.Params().At(0).Type().String() == "context.Context" && strings.HasSuffix(s.Params().At(1).Type().String(), "ociauth.Scope") && s.Results().At(1).Type().String() == "error":
			m.setFn("ociauth.acquireToken", f)
		case s.Params().Len() == 1 && strings.HasSuffix(s.Params().At(0).Type().String(), "http.Request") && s.Results().Len() == 2:
			m.setFn("ociauth.doTokenRequest", f)
		case s.Params().Len() == 1 && strings.HasSuffix(s.Params().At(0).Type().String(), "ociauth.Scope") && s.Results().Len() == 1:
			if _, isPtr := s.Results().At(0).Type().(*types.Pointer); isPtr {
				m.setFn("ociauth.accessTokenForScope", f)
			}
		}
	}
	// Scope representation fields by type; ResourceScope.isKnown by signature
	if sc := c.P.NamedType("ociauth", "Scope"); sc != nil {
		st := structOf(sc)
		m.setField(uniqueField(st, typeIs("string")), "original")
		m.setField(uniqueField(st, typeIs("bool")), "unlimited")
		m.setField(uniqueField(st, typeIs("[]string")), "repositories")
		m.setField(uniqueField(st, typeIs("[]byte")), "actions")
		m.setField(uniqueField(st, func(t types.Type) bool { return strings.HasSuffix(t.String(), "[]"+load.Mod+"/ociauth.ResourceScope") }), "others")
	}
	if rs := c.P.NamedType("ociauth", "ResourceScope"); rs != nil {
		m.setFn("ociauth.isKnown", byNameOr(pickUnexported(methodsOf(c, rs), func(f *ssa.Function) bool { return sigString(f.Signature) == "()(bool)" }), methodsOf(c, rs), "isKnown"))
	}
	// config file
	if cf := c.P.NamedType("ociauth", "ConfigFile"); cf != nil {
		st := structOf(cf)
		m.setField(uniqueField(st, isFuncT), "runner")
		if d := uniqueField(st, func(t types.Type) bool { return structOf(t) != nil }); d != nil {
			m.setField(d, "data")
			if dn := elemNamed(d.Type()); dn != nil {
				m.setType(dn, "configData")
				if auths := uniqueField(structOf(dn), func(t types.Type) bool {
					mp, ok := t.Underlying().(*types.Map)
					return ok && structOf(mp.Elem()) != nil
				}); auths != nil {
					if an := elemNamed(auths.Type()); an != nil {
						m.setType(an, "authConfig")
						m.setField(uniqueField(structOf(an), typeIs("[]string")), "derivedFrom")
					}
				}
				for _, f := range fns {
					if f.Signature.Recv() == nil && f.Signature.Params().Len() == 1 && f.Signature.Params().At(0).Type().String() == "[]byte" && f.Signature.Results().Len() == 2 && elemNamed(f.Signature.Results().At(0).Type()) == dn {
						m.setFn("ociauth.decodeConfigFile", f)
					}
				}
			}
		}
	}
}

func (m *Model) buildClient(c *core.Ctx) {
	ctor := c.P.Func("ociclient", "New")
	if ctor == nil {
		return
	}
	ts := constructorResultTypes(ctor)
	if len(ts) != 1 {
		return
	}
	clT := elemNamed(ts[0])
	if clT == nil {
		return
	}
	m.setType(clT, "client")
	cst := structOf(clT)
	m.setField(uniqueField(cst, typeIs("int")), "listPageSize")
	m.setField(uniqueField(cst, typeHasSuffix("http.Client")), "httpClient")
	fns := pkgFuncs(c, "ociclient")
	var clM []*ssa.Function
	for _, f := range fns {
		if f.Signature.Recv() != nil && elemNamed(f.Signature.Recv().Type()) == clT {
			clM = append(clM, f)
		}
	}
	var do *ssa.Function
	for _, f := range clM {
		if callsNamed(f, "(*net/http.Client).Do") {
			do = f
		}
	}
	m.setFn("ociclient.do", byNameOr(do, clM, "do"))
	for _, f := range fns {
		s := f.Signature
		if s.Recv() != nil {
			continue
		}
		switch sigString(s) {
		case "(context.Context,*internal/ocirequest.Request,io.Reader)(*net/http.Request,error)":
			m.setFn("ociclient.newRequest", f)
		case "(*net/http.Response)(error)":
			m.setFn("ociclient.makeError", f)
		case "(*net/http.Response,[]byte)(error)":
			m.setFn("ociclient.makeError1", f)
		case "(*internal/ocirequest.Request)(ociauth.Scope)":
			m.setFn("ociclient.scopeForRequest", f)
		case "(context.Context,*net/http.Response,*internal/ocirequest.Request,string)(*net/http.Request,error)":
			m.setFn("ociclient.nextLink", f)
		}
		if s.Params().Len() == 3 && s.Results().Len() == 2 && strings.HasSuffix(s.Params().At(0).Type().String(), "http.Response") && strings.HasSuffix(s.Results().At(0).Type().String(), "Descriptor") {
			m.setFn("ociclient.descriptorFromResponse", f)
		}
	}
	for _, f := range clM {
		s := f.Signature
		if f.Object() != nil && f.Object().Exported() {
			continue
		}
		if s.Results().Len() == 1 && isSeqType(s.Results().At(0).Type()) {
			m.setFn("ociclient.pager", f)
		}
		if s.Results().Len() == 2 && strings.HasSuffix(s.Results().At(0).Type().String(), "http.Response") && s.Params().Len() >= 2 && strings.HasSuffix(s.Params().At(1).Type().String(), "ocirequest.Request") {
			m.setFn("ociclient.doRequest", f)
		}
	}
	// blob writer: concrete type returned by PushBlobChunked
	if pbc := c.P.Method(types.NewPointer(clT), "PushBlobChunked"); pbc != nil {
		if wts := constructorResultTypes(pbc); len(wts) == 1 {
			if wT := elemNamed(wts[0]); wT != nil {
				m.setType(wT, "blobWriter")
				wst := structOf(wT)
				m.setField(uniqueField(wst, typeIs("[]byte")), "chunk")
				m.setField(uniqueField(wst, typeHasSuffix("url.URL")), "location")
				m.setField(uniqueField(wst, typeIs("int")), "chunkSize")
				m.setField(uniqueField(wst, typeIs("bool")), "closed")
				m.setField(uniqueField(wst, typeIs("error")), "closeErr")
				i64 := fieldsWhere(wst, typeIs("int64"))
				if len(i64) == 2 {
					if sz := c.P.Method(types.NewPointer(wT), "Size"); sz != nil {
						var sizeF *types.Var
						for _, b := range sz.Blocks {
							for _, in := range b.Instrs {
								if fa, ok := in.(*ssa.FieldAddr); ok {
									f := structOf(fa.X.Type()).Field(fa.Field)
									if f == i64[0] || f == i64[1] {
										sizeF = f
									}
								}
							}
						}
						if sizeF != nil {
							m.setField(sizeF, "size")
							for _, f := range i64 {
								if f != sizeF {
									m.setField(f, "flushed")
								}
							}
						}
					}
				}
				for _, f := range methodsOf(c, wT) {
					if f.Object() != nil && !f.Object().Exported() && callsFn(f, m.fn["ociclient.do"]) {
						m.setFn("ociclient.flush", f)
					}
				}
			}
		}
	}
	// blob reader: the type with a hash.Hash field
	for _, name := range c.P.TypesPkg("ociclient").Scope().Names() {
		tn, ok := c.P.TypesPkg("ociclient").Scope().Lookup(name).(*types.TypeName)
		if !ok {
			continue
		}
		st := structOf(tn.Type())
		if st == nil || uniqueField(st, typeIs("hash.Hash")) == nil {
			continue
		}
		m.setType(tn.Type(), "blobReader")
		m.setField(uniqueField(st, typeIs("hash.Hash")), "digester")
		m.setField(uniqueField(st, typeIs("io.ReadCloser")), "r")
		m.setField(uniqueField(st, typeIs("int64")), "n")
		m.setField(uniqueField(st, typeHasSuffix("Descriptor")), "desc")
		m.setField(uniqueField(st, typeIs("bool")), "verify")
		// constructors: func(io.ReadCloser, Descriptor) *blobReader ; the unverified one calls the other
		var ctors []*ssa.Function
		for _, f := range fns {
			s := f.Signature
			if s.Recv() == nil && s.Params().Len() == 2 && s.Results().Len() == 1 && elemNamed(s.Results().At(0).Type()) != nil && elemNamed(s.Results().At(0).Type()).Obj() == tn {
				ctors = append(ctors, f)
			}
		}
		if len(ctors) == 2 {
			a, b := ctors[0], ctors[1]
			if callsFn(b, a) {
				m.setFn("ociclient.newBlobReader", a)
				m.setFn("ociclient.newBlobReaderUnverified", b)
			} else if callsFn(a, b) {
				m.setFn("ociclient.newBlobReader", b)
				m.setFn("ociclient.newBlobReaderUnverified", a)
			} else {
				// two independent constructors: the unverified one is the one used by range reads only
				onlyFromRange := func(f *ssa.Function) bool {
					n := 0
					for _, g := range fns {
						if g == f || !callsFn(g, f) {
							continue
						}
						n++
						o := g
						for o.Parent() != nil {
							o = o.Parent()
						}
						if o.Name() != "GetBlobRange" {
							return false
						}
					}
					return n > 0
				}
				switch {
				case onlyFromRange(b) && !onlyFromRange(a):
					m.setFn("ociclient.newBlobReader", a)
					m.setFn("ociclient.newBlobReaderUnverified", b)
				case onlyFromRange(a) && !onlyFromRange(b):
					m.setFn("ociclient.newBlobReader", b)
					m.setFn("ociclient.newBlobReaderUnverified", a)
				}
			}
		} else if len(ctors) == 1 {
			m.setFn("ociclient.newBlobReader", ctors[0])
		}
	}
}

func (m *Model) buildServer(c *core.Ctx) {
	ctor := c.P.Func("ociserver", "New")
	if ctor == nil {
		return
	}
	ts := constructorResultTypes(ctor)
	if len(ts) != 1 {
		return
	}
	rT := elemNamed(ts[0])
	if rT == nil {
		return
	}
	m.setType(rT, "registry")
	st := structOf(rT)
	m.setField(uniqueField(st, typeHasSuffix("ociserver.Options")), "opts")
	m.setField(uniqueField(st, typeHasSuffix("ociregistry.Interface")), "backend")
	fns := pkgFuncs(c, "ociserver")
	for _, f := range fns {
		s := f.Signature
		switch sigString(s) {
		case "(*net/http.Request)(int64,int64,error)":
			m.setFn("ociserver.chunkRange", f)
		case "(*net/http.Request,string)(string)":
			m.setFn("ociserver.makeNextLink", f)
		case "(net/http.ResponseWriter,bool,ocispec.Descriptor,string)(error)":
			m.setFn("ociserver.setLocationHeader", f)
		case "(error)(error)":
			m.setFn("ociserver.handlerErrorForRequestParseError", f)
		case "(string,string)(string)":
			m.setFn("ociserver.locationForUploadID", f)
		}
		for i := 0; i < s.Params().Len(); i++ {
			if isSeqType(s.Params().At(i).Type()) {
				m.setFn("ociserver.nextListResults", f)
			}
		}
	}
	// the parsed HTTP range: its two fields by the backend argument they supply
	// (GetBlobRange(ctx, repo, digest, <start>, <end>))
	for _, f := range fns {
		for _, g := range facts.WithAnon(f) {
			for _, ci := range facts.CallsIn(g) {
				cc := ci.Common()
				if !cc.IsInvoke() || cc.Method.Name() != "GetBlobRange" || len(cc.Args) != 5 {
					continue
				}
				for i, canon := range map[int]string{3: "start", 4: "end"} {
					v := facts.Resolve(cc.Args[i])
					var fa *ssa.FieldAddr
					switch x := v.(type) {
					case *ssa.UnOp:
						fa, _ = x.X.(*ssa.FieldAddr)
					case *ssa.Field:
						if st2 := structOf(x.X.Type()); st2 != nil {
							m.setField(st2.Field(x.Field), canon)
						}
					}
					if fa != nil {
						if st2 := structOf(fa.X.Type()); st2 != nil {
							m.setField(st2.Field(fa.Field), canon)
						}
					}
				}
			}
		}
	}
	// ocirequest.construct
	for _, f := range pkgFuncs(c, "internal/ocirequest") {
		if f.Signature.Recv() != nil && (f.Object() == nil || !f.Object().Exported()) && sigString(f.Signature) == "()(string,string)" {
			m.setFn("ocirequest.construct", f)
		}
	}
}

func (m *Model) buildRoot(c *core.Ctx) {
	// the code -> HTTP status table: the only package-level map[string]int
	if tp := c.P.TypesPkg(""); tp != nil {
		var tabs []types.Object
		for _, name := range tp.Scope().Names() {
			if v, ok := tp.Scope().Lookup(name).(*types.Var); ok && v.Type().String() == "map[string]int" {
				tabs = append(tabs, v)
			}
		}
		if len(tabs) == 1 {
			m.globCanon[tabs[0]] = "errorStatuses"
			if tabs[0].Name() != "errorStatuses" {
				m.notes = append(m.notes, "variable "+tabs[0].Name()+" plays the role of errorStatuses")
			}
		}
	}
	fns := pkgFuncs(c, ".")
	for _, f := range fns {
		if f.Signature.Recv() != nil {
			continue
		}
		switch sigString(f.Signature) {
		case "(error,int,string)(string)":
			m.setFn("ociregistry.trimErrorCodePrefix", f)
		case "([]byte,int)([]byte)":
			m.setFn("ociregistry.appendHTTPStatusPrefix", f)
		case "([]byte,string)([]byte)":
			m.setFn("ociregistry.appendErrorCodePrefix", f)
		}
	}
	if nh := c.P.Func("", "NewHTTPError"); nh != nil {
		if ts := constructorResultTypes(nh); len(ts) == 1 {
			if hT := elemNamed(ts[0]); hT != nil {
				m.setType(hT, "httpError")
				st := structOf(hT)
				m.setField(uniqueField(st, typeIs("error")), "underlying")
				m.setField(uniqueField(st, typeIs("int")), "statusCode")
				m.setField(uniqueField(st, typeHasSuffix("http.Response")), "response")
				m.setField(uniqueField(st, typeIs("[]byte")), "body")
			}
		}
	}
	if fu := c.P.NamedType("", "Funcs"); fu != nil {
		m.setFn("ociregistry.newError", byNameOr(pickUnexported(methodsOf(c, fu), func(f *ssa.Function) bool {
			return sigString(f.Signature) == "(context.Context,string,string)(error)"
		}), methodsOf(c, fu), "newError"))
	}
}

func (m *Model) buildUnify(c *core.Ctx) {
	ctor := c.P.Func("ociunify", "New")
	if ctor == nil {
		return
	}
	ts := constructorResultTypes(ctor)
	if len(ts) != 1 {
		return
	}
	uT := elemNamed(ts[0])
	if uT == nil {
		return
	}
	m.setType(uT, "unifier")
	members := fieldsWhere(structOf(uT), typeHasSuffix("ociregistry.Interface"))
	if len(members) == 2 {
		m.setField(members[0], "r0")
		m.setField(members[1], "r1")
	}
	m.setField(uniqueField(structOf(uT), typeHasSuffix("ociunify.Options")), "opts")
	fns := pkgFuncs(c, "ociunify")
	isUnifier := func(t types.Type) bool { return elemNamed(t) == uT }
	for _, f := range fns {
		s := f.Signature
		if s.Recv() != nil || s.TypeParams().Len() == 0 {
			continue
		}
		np, nr := s.Params().Len(), s.Results().Len()
		switch {
		case np == 2 && nr == 2 && isUnifier(s.Params().At(0).Type()) && isFuncT(s.Params().At(1).Type()):
			m.setFn("ociunify.both", f)
		case np == 2 && nr == 1 && constrained(s) && !isUnifier(s.Params().At(0).Type()) && types.Identical(s.Params().At(0).Type(), s.Params().At(1).Type()) && types.Identical(s.Params().At(0).Type(), s.Results().At(0).Type()):
			m.setFn("ociunify.bothResults", f)
		case np == 3 && nr == 1 && isSeqType(s.Results().At(0).Type()):
			m.setFn("ociunify.mergeIter", f)
		case np == 3 && s.Params().At(0).Type().String() == "context.Context" && isUnifier(s.Params().At(1).Type()):
			hasGo := false
			for _, ci := range facts.CallsIn(f) {
				if _, ok := ci.(*ssa.Go); ok {
					hasGo = true
				}
			}
			switch {
			case nr == 2 && hasGo:
				m.setFn("ociunify.runReadConcurrent", f)
			case nr == 2:
				m.setFn("ociunify.runReadWithCancel", f)
			}
		}
	}
	for _, f := range fns {
		s := f.Signature
		if s.Recv() != nil || s.Params().Len() != 3 || s.Params().At(0).Type().String() != "context.Context" || !isUnifier(s.Params().At(1).Type()) {
			continue
		}
		if s.TypeParams().Len() > 0 && s.Results().Len() == 1 {
			if callsFn(f, m.fn["ociunify.runReadWithCancel"]) {
				m.setFn("ociunify.runRead", f)
			} else {
				m.setFn("ociunify.runReadSequential", f)
			}
		}
		if s.TypeParams().Len() == 0 && s.Results().Len() == 2 && strings.HasSuffix(s.Results().At(0).Type().String(), "BlobReader") {
			m.setFn("ociunify.runReadBlobReader", f)
		}
	}
	// the unified writer and the cancelling reader
	if pbc := c.P.Method(uT, "PushBlobChunked"); pbc != nil {
		if wts := constructorResultTypes(pbc); len(wts) == 1 {
			if wT := elemNamed(wts[0]); wT != nil {
				m.setType(wT, "unifiedBlobWriter")
				st := structOf(wT)
				m.setField(uniqueField(st, func(t types.Type) bool { _, ok := t.Underlying().(*types.Array); return ok }), "w")
				m.setField(uniqueField(st, typeIs("int64")), "size")
				m.setField(uniqueField(st, isUnifier), "u")
			}
		}
	}
	if rbr := m.fn["ociunify.runReadBlobReader"]; rbr != nil {
		if rts := constructorResultTypes(rbr); len(rts) == 1 {
			if rT := elemNamed(rts[0]); rT != nil {
				m.setType(rT, "blobReader")
				m.setField(uniqueField(structOf(rT), isFuncT), "cancel")
			}
		}
	}
	// result carriers: generic struct with (T, error) -> fields x, err ; struct with only error -> err
	tp := c.P.TypesPkg("ociunify")
	for _, name := range tp.Scope().Names() {
		tn, ok := tp.Scope().Lookup(name).(*types.TypeName)
		if !ok {
			continue
		}
		st := structOf(tn.Type())
		if st == nil {
			continue
		}
		ef := uniqueField(st, typeIs("error"))
		if ef == nil {
			continue
		}
		if st.NumFields() == 1 {
			m.setField(ef, "err")
		}
		if st.NumFields() == 2 {
			if n, ok := tn.Type().(*types.Named); ok && n.TypeParams().Len() == 1 {
				m.setField(ef, "err")
				for i := 0; i < 2; i++ {
					if st.Field(i) != ef {
						m.setField(st.Field(i), "x")
					}
				}
			}
		}
	}
	// the unexported methods of the result constraint: error() error, close(), mkErr(error) T, get() (T, error)
	for _, name := range tp.Scope().Names() {
		tn, ok := tp.Scope().Lookup(name).(*types.TypeName)
		if !ok {
			continue
		}
		it, ok := tn.Type().Underlying().(*types.Interface)
		if !ok {
			continue
		}
		for i := 0; i < it.NumMethods(); i++ {
			mm := it.Method(i)
			if mm.Exported() {
				continue
			}
			s := mm.Type().(*types.Signature)
			switch {
			case s.Params().Len() == 0 && s.Results().Len() == 1 && s.Results().At(0).Type().String() == "error":
				m.methCanon[mm.Name()] = "error"
			case s.Params().Len() == 0 && s.Results().Len() == 0:
				m.methCanon[mm.Name()] = "close"
			case s.Params().Len() == 1 && s.Params().At(0).Type().String() == "error" && s.Results().Len() == 1:
				m.methCanon[mm.Name()] = "mkErr"
			}
		}
	}
}

func (m *Model) buildMisc(c *core.Ctx) {
	for _, f := range pkgFuncs(c, "ocidebug") {
		s := f.Signature
		if s.Recv() == nil && s.TypeParams().Len() > 0 && s.Results().Len() == 1 && isSeqType(s.Results().At(0).Type()) {
			m.setFn("ocidebug.logIterReturn", f)
		}
	}
}
