package props

import (
	"go/token"
	"go/types"
	"sort"
	"strings"

	"golang.org/x/tools/go/ssa"

	"ocivet/internal/core"
	"ocivet/internal/facts"
)

func init() {
	register(&Prop{
		ID:    "C04",
		Title: "Chunked and resumable uploads commit exactly the bytes written",
		Run:   runC04,
		Explanation: "R1 the offset-mismatch return of ocimem's Buffer.Write wraps ErrRangeInvalid with %w, every error from the backend writer / io.Copy into it that the server formats is formatted with %w, and RANGE_INVALID maps to 416; " +
			"R2 refused data does not alter the upload and the offset guard exists: the append to Buffer.buf holds (no start-offset check pending) or (len(buf) == expected offset) on every path (disjunctive path facts), and the in-memory registry registers the caller's offset on the buffer on every path that returns a writer (new and existing upload ids alike); the server passes the backend the offset parsed from Content-Range (or 0 when absent); " +
			"R3 wrong digest stores nothing (the C01.R2 commit gate); " +
			"R4 one codec: every Content-Range the client sends and every Range the server answers for uploads is built by ocirequest.RangeString, and both sides parse with ocirequest.ParseRange; " +
			"R5 client bookkeeping: in blobWriter.flush the range end, the request's ContentLength and the amount added to `flushed` are the same quantity, `flushed` advances only after the request succeeded, and in Write `size` is advanced only where no failure return is reachable any more. " +
			"R5b the flush request's ContentLength is set to len(chunk)+len(buf) before the Content-Range is built; R6 a refused Buffer.Write assigns no field of the upload on its path. " +
			"R5c every path of flush to the request sets Content-Range; R7 the unifier creates its members' chunked-upload writers with the caller's own context. " +
			"R8 the HTTP client's blobWriter.Write assigns no field of the writer on a path to an error return (what was refused is not silently kept in the buffer). " +
			"R9 (shared with C15.R8) resuming a unified upload compares the Size() of the one member's writer with that of the other. " +
			"R10 (shared with C03.R16) every successful return of the HTTP client's blobWriter.Write lies behind the update of w.size: Size() and the committed descriptor count every accepted byte.",
		NotDecided: "that the concatenation of the written chunks equals the committed content, and the arithmetic of offsets across arbitrary partitions, are value-level and not decided (in particular the Content-Range codec is not its own inverse for a one-byte body, see C01's note).",
		Technique:  "static analysis: disjunctive path facts, must-pass-through, format-verb provenance, term equality of bookkeeping quantities",
	})
}

func runC04(c *core.Ctx) {
	buf := c.P.NamedType("ocimem", "Buffer")
	if buf == nil {
		c.Fail("C04.R0", "anchor/ocimem.Buffer", 0, "ocimem.Buffer not found")
		return
	}
	wr := declaredMethod(c, types.NewPointer(buf), "Write")
	if wr == nil {
		c.Fail("C04.R0", "anchor/Buffer.Write", 0, "Buffer.Write not found")
		return
	}
	c.Analysed(facts.FuncName(wr))
	recv := recvOf(wr)
	isFieldLoad := func(v ssa.Value, name string) bool {
		b, fld, ok := facts.FieldOf(facts.Resolve(v))
		return ok && fld == name && facts.Term(b) == facts.Term(recv)
	}
	// R1a: mismatch return wraps ErrRangeInvalid
	// R2: guard on the append
	var offsetVal ssa.Value // the loaded checkStartOffset value
	ff := facts.FlowFuncs{
		Edge: func(b *ssa.BasicBlock, idx int, t facts.Tokens) bool {
			for _, cd := range facts.EdgeConds(b, idx) {
				x, op, y, ok := facts.Cmp(cd)
				if !ok {
					continue
				}
				for _, pr := range [][2]ssa.Value{{x, y}, {y, x}} {
					if isFieldLoad(pr[0], "checkStartOffset") {
						if k, isK := facts.ConstInt(pr[1]); isK && k == -1 {
							if op == token.EQL {
								t["nocheck"] = true
							} else if op == token.NEQ {
								t["checking"] = true
								offsetVal = facts.Resolve(pr[0])
							}
						}
					}
					// len(b.buf) == offset
					if sliceHas(pr[0], func(v ssa.Value) bool {
						call, ok := v.(*ssa.Call)
						if !ok {
							return false
						}
						bi, ok := call.Call.Value.(*ssa.Builtin)
						return ok && bi.Name() == "len" && isFieldLoad(call.Call.Args[0], "buf")
					}) && isFieldLoad(pr[1], "checkStartOffset") {
						if op == token.EQL {
							t["offsetOK"] = true
						} else if op == token.NEQ {
							t["offsetBad"] = true
						}
					}
				}
			}
			return true
		},
	}
	// the offset check may live in a helper of the Buffer
	nRet := 0
	checkRefusals := func(fn *ssa.Function, flow map[*ssa.BasicBlock]facts.DNF) {
		for _, r := range returnsOf(fn) {
			if len(r.Results) == 0 || facts.RetErrIsNil(r) || len(flow[r.Block()]) == 0 {
				continue
			}
			if !facts.AllAt(ff, flow, r, func(t facts.Tokens) bool { return t["offsetBad"] }) {
				continue
			}
			nRet++
			c.Check(carriesCode(facts.RetVal(r, len(r.Results)-1), "ErrRangeInvalid", 0), "C04.R1", "Buffer.Write/mismatch-is-range-invalid", r.Pos(), "offset mismatch returns an error wrapping ErrRangeInvalid", "the offset-mismatch refusal does not wrap ErrRangeInvalid with %w: over HTTP it is not answered 416")
		}
	}
	il := facts.NewInliner(&ff, func(h *ssa.Function) bool {
		return h.Pkg == wr.Pkg && h.Signature.Recv() != nil && structName(h.Signature.Recv().Type()) == "Buffer" && helperTouches(h, 2, func(in ssa.Instruction) bool {
			fa, ok := in.(*ssa.FieldAddr)
			if !ok {
				return false
			}
			_, fld, _ := facts.FieldOf(fa)
			return fld == "checkStartOffset"
		})
	})
	// a refusal issued inside such a helper is judged there, under the facts of the call
	il.OnInlined = func(h *ssa.Function, flow map[*ssa.BasicBlock]facts.DNF) { checkRefusals(h, flow) }
	flow := facts.PathFlow(wr, ff)
	_ = offsetVal
	nStore := 0
	for _, b := range wr.Blocks {
		for _, in := range b.Instrs {
			st, ok := in.(*ssa.Store)
			if !ok {
				continue
			}
			base, fld, isF := facts.FieldOf(st.Addr)
			if !isF || fld != "buf" || facts.Term(base) != facts.Term(recv) {
				continue
			}
			nStore++
			ok2 := facts.AllAt(ff, flow, in, func(t facts.Tokens) bool { return (t["nocheck"] || t["offsetOK"]) && !t["offsetBad"] })
			c.Check(ok2, "C04.R2", "Buffer.Write/append-guarded", in.Pos(), "append holds (no offset check pending) or (len(buf) == expected offset)", "data is appended to the upload buffer on a path where a resumed write's start offset was not checked against the bytes already received: data sent at the wrong offset alters the upload")
		}
	}
	if nStore == 0 {
		c.Fail("C04.R2", "Buffer.Write/append-guarded", wr.Pos(), "Buffer.Write does not append to the buffer")
	}
	checkRefusals(wr, flow)
	if nRet == 0 {
		c.Fail("C04.R1", "Buffer.Write/mismatch-is-range-invalid", wr.Pos(), "Buffer.Write has no return on the offset-mismatch branch: mismatching data is not refused")
	}
	c04ResumeRegistersOffset(c)
	failedMethodLeavesState(c, "C04.R8", "ociclient", "blobWriter", "Write")
	unifierResumeComparesMemberSizes(c, "C04.R9")
	successfulMethodPassesThrough(c, "C04.R10", "ociclient", "blobWriter", "Write", "size")
	c04ServerOffsets(c)
	m := loadErrModel(c)
	c.Check(m.StatusOf["ErrRangeInvalid"] == 416, "C04.R1", "status/RANGE_INVALID", 0, "RANGE_INVALID -> 416", "ErrRangeInvalid is not answered with HTTP 416")
	c04ServerWrap(c)
	c04Codec(c)
	c04ClientBookkeeping(c)
	bufferFailedWriteLeavesState(c, "C04.R6")
	unifierChunkedUploadContext(c, "C04.R7")
	// R3
	c01CommitGateAs(c, "C04.R3")
}

// relabel runs f and re-labels the obligations it adds with another rule id
// (a clause shared by two properties is evaluated under each).
func relabel(c *core.Ctx, rule string, f func()) {
	before := len(c.Rep.Obls)
	f()
	for i := before; i < len(c.Rep.Obls); i++ {
		o := &c.Rep.Obls[i]
		o.Key = strings.Replace(o.Key, o.Rule, rule, 1)
		o.Rule = rule
	}
}

func c01CommitGateAs(c *core.Ctx, rule string) {
	relabel(c, rule, func() { c01CommitGate(c) })
}

// c04ResumeRegistersOffset: on every path of ocimem's PushBlobChunkedResume
// that returns a writer, the offset parameter was registered on that buffer.
func c04ResumeRegistersOffset(c *core.Ctx) {
	reg := c.P.NamedType("ocimem", "Registry")
	if reg == nil {
		return
	}
	fn := declaredMethod(c, types.NewPointer(reg), "PushBlobChunkedResume")
	if fn == nil {
		c.Fail("C04.R2", "anchor/ocimem.PushBlobChunkedResume", 0, "(*ocimem.Registry).PushBlobChunkedResume not found")
		return
	}
	c.Analysed(facts.FuncName(fn))
	const pOffset = 4 // recv, ctx, repoName, id, offset, chunkSize
	registers := func(in ssa.Instruction) bool {
		switch x := in.(type) {
		case *ssa.Store:
			if _, fld, ok := facts.FieldOf(x.Addr); ok && fld == "checkStartOffset" && argIsParam(x.Val, fn, pOffset) {
				return true
			}
		case *ssa.Call:
			sc := x.Call.StaticCallee()
			if sc == nil || sc.Blocks == nil || len(x.Call.Args) != 2 || !argIsParam(x.Call.Args[1], fn, pOffset) {
				return false
			}
			// a setter: stores its parameter into checkStartOffset
			for _, b := range sc.Blocks {
				for _, i2 := range b.Instrs {
					if st, ok := i2.(*ssa.Store); ok {
						if _, fld, ok := facts.FieldOf(st.Addr); ok && fld == "checkStartOffset" && argIsParam(st.Val, sc, 1) {
							return true
						}
					}
				}
			}
		}
		return false
	}
	success := func(in ssa.Instruction) bool {
		r, ok := in.(*ssa.Return)
		return ok && facts.RetErrIsNil(r)
	}
	at, escapes := facts.ReachesFrom(fn.Blocks[0], 0, success, registers, nil)
	if escapes {
		c.Fail("C04.R2", "ocimem.PushBlobChunkedResume/offset-registered", at.Pos(), "a writer is returned on a path where the caller's offset was not registered on the buffer (e.g. for an upload id the registry has no record of): a write at the wrong offset is accepted instead of refused with 416")
	} else {
		c.OK("C04.R2", "ocimem.PushBlobChunkedResume/offset-registered", fn.Pos(), "every path returning a writer registers the caller's offset on it")
	}
}

func c04ServerOffsets(c *core.Ctx) {
	var chunkRange *ssa.Function
	for _, fn := range c.P.ModuleFunctions("ociserver") {
		if fnName(fn) == "chunkRange" {
			chunkRange = fn
		}
	}
	n := 0
	seenSite := map[ssa.CallInstruction]bool{}
	var hfns []*ssa.Function
	for fn := range handlerFns(c) {
		hfns = append(hfns, fn)
	}
	sort.Slice(hfns, func(i, j int) bool { return hfns[i].String() < hfns[j].String() })
	for _, fn := range hfns {
		// the call may sit in a helper that several handlers share: it counts once per handler that reaches it
		for _, bc := range backendCallsDeep(fn) {
			if bc.Method != "PushBlobChunkedResume" {
				continue
			}
			off := bc.Call.Common().Args[3]
			if k, isK := facts.ConstInt(off); isK && k == -1 {
				continue // upload-info: ask the backend
			}
			n++
			if seenSite[bc.Call] {
				continue
			}
			seenSite[bc.Call] = true
			fn := bc.In
			ok := false
			if ex, isEx := facts.Resolve(off).(*ssa.Extract); isEx && ex.Index == 0 {
				if call, isCall := ex.Tuple.(*ssa.Call); isCall && chunkRange != nil && call.Call.StaticCallee() == chunkRange {
					ok = true
				}
			}
			c.Check(ok, "C04.R2", facts.FuncName(fn)+"/offset-from-content-range", bc.Call.Pos(), "backend offset is the start parsed from Content-Range", "the offset handed to the backend is not the start parsed from the request's Content-Range")
		}
	}
	if n < 2 {
		c.Fail("C04.R2", "server-offsets/instance-floor", 0, "fewer than two upload handlers pass an offset to the backend")
	}
	if chunkRange == nil {
		c.Fail("C04.R2", "anchor/ociserver.chunkRange", 0, "ociserver.chunkRange not found")
		return
	}
	c.Analysed(facts.FuncName(chunkRange))
	// chunkRange's start result: ParseRange's first result, or 0
	for _, r := range returnsOf(chunkRange) {
		if !facts.RetErrIsNil(r) {
			continue
		}
		v := facts.RetVal(r, 0)
		ok := false
		var visit func(v ssa.Value, d int) bool
		visit = func(v ssa.Value, d int) bool {
			if d > 4 {
				return false
			}
			v = facts.Resolve(v)
			if k, isK := facts.ConstInt(v); isK {
				return k == 0
			}
			if ex, isEx := v.(*ssa.Extract); isEx && ex.Index == 0 {
				if call, isCall := ex.Tuple.(*ssa.Call); isCall && strings.HasSuffix(facts.CalleeName(&call.Call), "ocirequest.ParseRange") {
					return true
				}
			}
			if ph, isPhi := v.(*ssa.Phi); isPhi {
				for _, e := range ph.Edges {
					if !visit(e, d+1) {
						return false
					}
				}
				return true
			}
			if u, isU := v.(*ssa.UnOp); isU && u.Op == token.MUL {
				if al, isAl := u.X.(*ssa.Alloc); isAl {
					sts := facts.StoresTo(al)
					for _, st := range sts {
						if !visit(st.Val, d+1) {
							return false
						}
					}
					return true // zero-initialised named result otherwise
				}
			}
			return false
		}
		ok = visit(v, 0)
		c.Check(ok, "C04.R2", "chunkRange/start-from-ParseRange", r.Pos(), "start is ParseRange's first result or 0", "chunkRange's start offset is not the first result of ocirequest.ParseRange (or 0 when the header is absent)")
	}
}

func c04ServerWrap(c *core.Ctx) {
	n := 0
	for _, fn := range c.P.ModuleFunctions("ociserver") {
		for _, ci := range facts.CallsIn(fn) {
			call, ok := ci.(*ssa.Call)
			if !ok || facts.CalleeName(&call.Call) != "fmt.Errorf" {
				continue
			}
			format, args, ok := errorfArgs(call)
			if !ok {
				continue
			}
			vs := formatVerbs(format)
			for i, a := range args {
				if a == nil {
					continue
				}
				inner := facts.Resolve(a)
				if inner.Type().String() != "error" {
					continue
				}
				origin, isWire := wireOrigin(inner)
				if !isWire || !(strings.Contains(origin, "BlobWriter") || strings.Contains(origin, "io.Copy")) {
					continue
				}
				n++
				verb := byte('?')
				if i < len(vs) {
					verb = vs[i]
				}
				c.Check(verb == 'w', "C04.R1", facts.FuncName(fn)+"/writer-error-wrapped", call.Pos(), "backend writer error formatted with %w", "the error of writing upload data to the backend ("+origin+") is formatted with %"+string(verb)+": a range-invalid refusal reaches the client as 500 instead of 416")
			}
		}
	}
	if n < 2 {
		c.Fail("C04.R1", "writer-error-wrapped/instance-floor", 0, sprintf("only %d backend-writer errors formatted in the server", n))
	}
}

func c04Codec(c *core.Ctx) {
	n := 0
	for _, rel := range []string{"ociclient", "ociserver"} {
		for _, fn := range c.P.ModuleFunctions(rel) {
			for _, ci := range facts.CallsIn(fn) {
				cc := ci.Common()
				name := facts.CalleeName(cc)
				if name == "(net/http.Header).Set" {
					hdr, ok := facts.ConstString(cc.Args[1])
					if !ok {
						continue
					}
					isUploadRange := (rel == "ociclient" && hdr == "Content-Range") || (rel == "ociserver" && hdr == "Range")
					if !isUploadRange {
						continue
					}
					n++
					ok2 := false
					if s, isS := facts.ConstString(cc.Args[2]); isS && s == "0-0" {
						ok2 = true
					}
					if call, isCall := facts.Resolve(cc.Args[2]).(*ssa.Call); isCall && strings.HasSuffix(facts.CalleeName(&call.Call), "ocirequest.RangeString") {
						ok2 = true
					}
					c.Check(ok2, "C04.R4", facts.FuncName(fn)+"/"+hdr+"-by-RangeString", ci.Pos(), hdr+" built by ocirequest.RangeString", "an upload "+hdr+" header is not built by ocirequest.RangeString: the two ends may disagree on inclusive/exclusive ends")
				}
				if name == "(net/http.Header).Get" {
					hdr, ok := facts.ConstString(cc.Args[1])
					if !ok {
						continue
					}
					isUploadRange := (rel == "ociserver" && hdr == "Content-Range") || (rel == "ociclient" && hdr == "Range")
					if !isUploadRange {
						continue
					}
					n++
					parsed := false
					v := ci.Value()
					if v != nil {
						var walk func(v ssa.Value, d int)
						walk = func(v ssa.Value, d int) {
							if d > 3 || v.Referrers() == nil {
								return
							}
							for _, ref := range *v.Referrers() {
								if call, ok := ref.(*ssa.Call); ok && strings.HasSuffix(facts.CalleeName(&call.Call), "ocirequest.ParseRange") {
									parsed = true
								}
								if ph, ok := ref.(*ssa.Phi); ok {
									walk(ph, d+1)
								}
								if st, ok := ref.(*ssa.Store); ok {
									if al, ok := st.Addr.(*ssa.Alloc); ok {
										for _, r2 := range *al.Referrers() {
											if u, ok := r2.(*ssa.UnOp); ok {
												walk(u, d+1)
											}
										}
									}
								}
							}
						}
						walk(v, 0)
					}
					c.Check(parsed, "C04.R4", facts.FuncName(fn)+"/"+hdr+"-by-ParseRange", ci.Pos(), hdr+" parsed by ocirequest.ParseRange", "an upload "+hdr+" header is read but not parsed by ocirequest.ParseRange")
				}
			}
		}
	}
	if n < 5 {
		c.Fail("C04.R4", "codec/instance-floor", 0, sprintf("only %d upload range header sites found", n))
	}
}

func c04ClientBookkeeping(c *core.Ctx) {
	bw := c.P.NamedType("ociclient", "blobWriter")
	if bw == nil {
		c.Fail("C04.R5", "anchor/ociclient.blobWriter", 0, "ociclient.blobWriter not found")
		return
	}
	ptr := types.NewPointer(bw)
	flush := c.P.Method(ptr, "flush")
	write := declaredMethod(c, ptr, "Write")
	flushContentLengthIsBodySize(c, "C04.R5")
	contentRangeOnEveryFlush(c, "C04.R5")
	if flush == nil || write == nil {
		c.Fail("C04.R5", "anchor/blobWriter.flush", 0, "blobWriter.flush / Write not found")
		return
	}
	c.Analysed(facts.FuncName(flush))
	c.Analysed(facts.FuncName(write))
	// the request sent by flush
	var doCall *ssa.Call
	for _, ci := range facts.CallsIn(flush) {
		if call, ok := ci.(*ssa.Call); ok && strings.HasSuffix(facts.CalleeName(&call.Call), "ociclient.client).do") {
			doCall = call
		}
	}
	if doCall == nil {
		c.Fail("C04.R5", "flush/sends-request", flush.Pos(), "flush does not send a request through client.do")
		return
	}
	reqVal := facts.Resolve(doCall.Call.Args[1])
	// the request's ContentLength: a load of the field, or the very value assigned to it
	// the request may be built by a private helper of flush
	builder := flushRequestBuilder(flush)
	var lenVals []ssa.Value
	for _, b := range builder.Blocks {
		for _, in := range b.Instrs {
			if st, ok := in.(*ssa.Store); ok {
				if b0, fld, isF := facts.FieldOf(st.Addr); isF && fld == "ContentLength" && (builder != flush || facts.Resolve(b0) == reqVal) {
					lenVals = append(lenVals, facts.Resolve(st.Val))
				}
			}
		}
	}
	isReqLen := func(v ssa.Value) bool {
		b, fld, ok := facts.FieldOf(facts.Resolve(v))
		if ok && fld == "ContentLength" && (facts.Resolve(b) == reqVal || (builder != flush && b.Parent() == builder)) {
			return true
		}
		if len(lenVals) == 1 && facts.Resolve(v) == lenVals[0] {
			return true
		}
		return false
	}
	isFlushedLoad := func(v ssa.Value) bool {
		_, fld, ok := facts.FieldOf(facts.Resolve(v))
		return ok && fld == "flushed"
	}
	// (a) Content-Range = RangeString(flushed, flushed + req.ContentLength)
	okRange := false
	for _, ci := range facts.CallsIn(builder) {
		if !strings.HasSuffix(facts.CalleeName(ci.Common()), "ocirequest.RangeString") {
			continue
		}
		a := ci.Common().Args
		if bo, ok := facts.Resolve(a[1]).(*ssa.BinOp); ok && bo.Op == token.ADD && isFlushedLoad(a[0]) && isFlushedLoad(bo.X) && isReqLen(bo.Y) {
			okRange = true
		}
	}
	c.Check(okRange, "C04.R5", "flush/content-range", flush.Pos(), "Content-Range is RangeString(flushed, flushed + ContentLength)", "the chunk's Content-Range is not [flushed, flushed + the request's ContentLength)")
	// (b) flushed += req.ContentLength, after the request succeeded
	okAdv := false
	for _, b := range flush.Blocks {
		for _, in := range b.Instrs {
			st, ok := in.(*ssa.Store)
			if !ok {
				continue
			}
			if _, fld, isF := facts.FieldOf(st.Addr); !isF || fld != "flushed" {
				continue
			}
			bo, isBo := facts.Resolve(st.Val).(*ssa.BinOp)
			same := isBo && bo.Op == token.ADD && isFlushedLoad(bo.X) && isReqLen(bo.Y)
			after := false
			for _, cd := range facts.CondsAt(b) {
				if x, isNil, okc := facts.NilCheck(cd); okc && isNil {
					if ex, isEx := facts.Resolve(x).(*ssa.Extract); isEx && ex.Tuple == ssa.Value(doCall) {
						after = true
					}
				}
			}
			okAdv = true
			c.Check(same && after, "C04.R5", "flush/flushed-advance", st.Pos(), "flushed advances by the ContentLength just sent, after the request succeeded", "`flushed` does not advance by exactly the ContentLength of the request that was just accepted (or advances before success): the next chunk's Content-Range starts at a stale offset and is refused with 416")
		}
	}
	if !okAdv {
		c.Fail("C04.R5", "flush/flushed-advance", flush.Pos(), "flush never advances `flushed`")
	}
	// (c) req.ContentLength = len(chunk)+len(buf) and the body is concatBody(chunk, buf)
	// (d) Write: after size is advanced no failure return is reachable
	for _, b := range write.Blocks {
		for _, in := range b.Instrs {
			st, ok := in.(*ssa.Store)
			if !ok {
				continue
			}
			if _, fld, isF := facts.FieldOf(st.Addr); !isF || fld != "size" {
				continue
			}
			failing := func(i ssa.Instruction) bool {
				r, ok := i.(*ssa.Return)
				return ok && !facts.RetErrIsNil(r)
			}
			at, reach := facts.ReachesWithout(in, failing, nil, nil)
			if reach {
				c.Fail("C04.R5", "Write/size-after-success", st.Pos(), "`size` is advanced and a failure return is still reachable ("+c.P.Pos(at.Pos())+"): a Write that reports failure is still counted, so Size() and the commit descriptor disagree with what the registry received and a resume at the reported size is refused")
			} else {
				c.OK("C04.R5", "Write/size-after-success", st.Pos(), "size advances only where Write can no longer fail")
			}
		}
	}
}
