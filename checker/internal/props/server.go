package props

import (
	"go/constant"
	"go/token"
	"go/types"
	"regexp"
	"sort"
	"strings"

	"golang.org/x/tools/go/ssa"

	"ocivet/internal/bounds"
	"ocivet/internal/core"
	"ocivet/internal/facts"
	"ocivet/internal/load"
)

// serverModel is the dispatch structure of ociserver read from the tree.
type serverModel struct {
	Kinds     map[string]int64 // ocirequest.Kind constants
	KindNames map[int64]string
	TableLen  int64
	Handlers  map[int64]*ssa.Function // kind value -> handler method (thunks resolved)
	Global    *ssa.Global
	// Dispatcher is set instead of Global when the server dispatches with a
	// switch over Request.Kind (each arm calling one handler) rather than
	// through a table.
	Dispatcher *ssa.Function
	problems   []string
	c          *core.Ctx
}

func (m *serverModel) hasDispatch() bool { return m.Global != nil || m.Dispatcher != nil }

func (m *serverModel) anchorPos() token.Pos {
	if m.Global != nil {
		return m.Global.Pos()
	}
	if m.Dispatcher != nil {
		return m.Dispatcher.Pos()
	}
	return token.NoPos
}

// findSwitchDispatch: a function of ociserver that, under `rreq.Kind == K`,
// hands the same request to a handler (a same-package function taking the
// *ocirequest.Request), for most of the declared kinds.
func findSwitchDispatch(c *core.Ctx, m *serverModel) {
	isReq := func(t types.Type) bool {
		pt, ok := t.(*types.Pointer)
		return ok && isNamed(pt.Elem(), "internal/ocirequest", "Request")
	}
	for _, fn := range c.P.ModuleFunctions("ociserver") {
		if fn.Parent() != nil {
			continue
		}
		found := map[int64]*ssa.Function{}
		for _, ci := range facts.CallsIn(fn) {
			g := ci.Common().StaticCallee()
			if g == nil || g.Pkg != fn.Pkg || g.Blocks == nil {
				continue
			}
			var reqArg ssa.Value
			for _, a := range ci.Common().Args {
				if isReq(a.Type()) {
					reqArg = a
				}
			}
			if reqArg == nil {
				continue
			}
			for _, cd := range facts.CondsAt(ci.Block()) {
				x, op, y, ok := facts.Cmp(cd)
				if !ok || op != token.EQL {
					continue
				}
				base, fld, isF := facts.FieldOf(facts.Resolve(x))
				if !isF || fld != "Kind" || facts.Term(base) != facts.Term(reqArg) {
					continue
				}
				if k, isK := facts.ConstInt(y); isK {
					if prev, dup := found[k]; dup && prev != g {
						m.problems = append(m.problems, sprintf("kind %d is dispatched to two different handlers in %s", k, facts.FuncName(fn)))
					}
					found[k] = g
				}
			}
		}
		if len(found)*2 > len(m.Kinds) && len(found) > len(m.Handlers) {
			m.Dispatcher = fn
			m.Handlers = found
		}
	}
}

func loadKinds(c *core.Ctx) (map[string]int64, map[int64]string) {
	kinds := map[string]int64{}
	names := map[int64]string{}
	tp := c.P.TypesPkg("internal/ocirequest")
	if tp == nil {
		return kinds, names
	}
	for _, n := range tp.Scope().Names() {
		k, ok := tp.Scope().Lookup(n).(*types.Const)
		if !ok {
			continue
		}
		nt, ok := k.Type().(*types.Named)
		if !ok || nt.Obj().Name() != "Kind" {
			continue
		}
		v, _ := constant.Int64Val(k.Val())
		kinds[n] = v
		names[v] = n
	}
	return kinds, names
}

func loadServerModel(c *core.Ctx) *serverModel {
	m := &serverModel{Handlers: map[int64]*ssa.Function{}, c: c}
	m.Kinds, m.KindNames = loadKinds(c)
	sp := c.P.Pkg("ociserver")
	if sp == nil {
		m.problems = append(m.problems, "package ociserver not found")
		return m
	}
	// the dispatch table: a package-level slice of handler funcs taking *ocirequest.Request
	for _, mem := range sp.Members {
		g, ok := mem.(*ssa.Global)
		if !ok {
			continue
		}
		sl, ok := g.Type().(*types.Pointer).Elem().Underlying().(*types.Slice)
		if !ok {
			continue
		}
		sig, ok := sl.Elem().Underlying().(*types.Signature)
		if !ok || sig.Params().Len() == 0 {
			continue
		}
		last := sig.Params().At(sig.Params().Len() - 1).Type().String()
		if strings.HasSuffix(last, "ocirequest.Request") {
			m.Global = g
		}
	}
	if m.Global == nil {
		findSwitchDispatch(c, m)
		if m.Dispatcher == nil {
			m.problems = append(m.problems, "dispatch (package-level []func(..., *ocirequest.Request) error table, or a switch over Request.Kind calling one handler per kind) not found in ociserver")
		}
		return m
	}
	init := sp.Func("init")
	for _, b := range init.Blocks {
		for _, in := range b.Instrs {
			st, ok := in.(*ssa.Store)
			if !ok || st.Addr != ssa.Value(m.Global) {
				continue
			}
			sl, ok := st.Val.(*ssa.Slice)
			if !ok {
				m.problems = append(m.problems, "dispatch table is not initialised from a slice literal")
				continue
			}
			arr, ok := sl.X.(*ssa.Alloc)
			if !ok {
				continue
			}
			if at, ok := arr.Type().(*types.Pointer).Elem().Underlying().(*types.Array); ok {
				m.TableLen = at.Len()
			}
			for _, ref := range *arr.Referrers() {
				ia, ok := ref.(*ssa.IndexAddr)
				if !ok {
					continue
				}
				idx, ok := facts.ConstInt(ia.Index)
				if !ok {
					continue
				}
				for _, s2 := range facts.StoresTo(ia) {
					if fn := resolveThunk(s2.Val); fn != nil {
						m.Handlers[idx] = fn
					}
				}
			}
		}
	}
	// any other store to the table anywhere in the package?
	for _, fn := range c.P.ModuleFunctions("ociserver") {
		if fn == init {
			continue
		}
		for _, b := range fn.Blocks {
			for _, in := range b.Instrs {
				if st, ok := in.(*ssa.Store); ok {
					if st.Addr == ssa.Value(m.Global) {
						m.problems = append(m.problems, "dispatch table reassigned in "+facts.FuncName(fn))
					}
					if ia, ok := st.Addr.(*ssa.IndexAddr); ok {
						if u, ok := ia.X.(*ssa.UnOp); ok && u.X == ssa.Value(m.Global) {
							m.problems = append(m.problems, "dispatch table element written in "+facts.FuncName(fn))
						}
					}
				}
			}
		}
	}
	return m
}

// resolveThunk: a method expression value (*T).m is a synthetic thunk; return the method.
func resolveThunk(v ssa.Value) *ssa.Function {
	var fn *ssa.Function
	switch x := v.(type) {
	case *ssa.Function:
		fn = x
	case *ssa.MakeClosure:
		fn, _ = x.Fn.(*ssa.Function)
	case *ssa.ChangeType:
		return resolveThunk(x.X)
	}
	if fn == nil {
		return nil
	}
	if fn.Synthetic == "" {
		return fn
	}
	for _, ci := range facts.CallsIn(fn) {
		if sc := ci.Common().StaticCallee(); sc != nil {
			return sc
		}
	}
	return fn
}

func (m *serverModel) sortedKinds() []int64 {
	var ks []int64
	for _, v := range m.Kinds {
		ks = append(ks, v)
	}
	sort.Slice(ks, func(i, j int) bool { return ks[i] < ks[j] })
	return ks
}

// ---------------------------------------------------------------- regexp resolution

// regexpPattern resolves v (a *regexp.Regexp value) to its constant pattern:
// MustCompile(const), or a call of a package-level func var initialised once
// with sync.OnceValue(func() *regexp.Regexp { return regexp.MustCompile(const) }).
func regexpPattern(c *core.Ctx, v ssa.Value) (string, bool) {
	call, ok := facts.Resolve(v).(*ssa.Call)
	if !ok {
		return "", false
	}
	if facts.CalleeName(&call.Call) == "regexp.MustCompile" {
		return facts.ConstString(call.Call.Args[0])
	}
	// dynamic call of a global func var
	u, ok := call.Call.Value.(*ssa.UnOp)
	if !ok || u.Op != token.MUL {
		return "", false
	}
	g, ok := u.X.(*ssa.Global)
	if !ok {
		return "", false
	}
	init0, okInit := onceInitOf(g)
	if !okInit {
		return "", false
	}
	init, bind, okOnce := onceCallOf(init0)
	if !okOnce || facts.CalleeName(&init.Call) != "sync.OnceValue" || len(init.Call.Args) != 1 {
		return "", false
	}
	lit := resolveThunk(facts.Resolve(init.Call.Args[0]))
	if lit == nil {
		return "", false
	}
	var pat string
	n := 0
	for _, r := range returnsOf(lit) {
		if len(r.Results) != 1 {
			return "", false
		}
		p, ok := regexpPattern(c, r.Results[0])
		if !ok {
			// regexp.MustCompile(expr) where expr is the parameter of the wrapping
			// constructor (`func lazyRegexp(expr string) func() *regexp.Regexp`)
			if call, isCall := facts.Resolve(r.Results[0]).(*ssa.Call); isCall && facts.CalleeName(&call.Call) == "regexp.MustCompile" {
				if prm, isP := facts.ResolveFree(call.Call.Args[0]).(*ssa.Parameter); isP {
					if a, has := bind[prm]; has {
						p, ok = facts.ConstString(a)
					}
				}
			}
		}
		if !ok {
			return "", false
		}
		pat = p
		n++
	}
	return pat, n == 1
}

// onceCallOf: init is a call of sync.OnceValue/OnceFunc/OnceValues, or of a
// module function every return of which is such a call (a small constructor
// like lazyRegexp); returns that call and the binding of the constructor's
// parameters to init's arguments.
func onceCallOf(init *ssa.Call) (*ssa.Call, map[*ssa.Parameter]ssa.Value, bool) {
	isOnce := func(n string) bool { return n == "sync.OnceValue" || n == "sync.OnceFunc" || n == "sync.OnceValues" }
	if isOnce(facts.CalleeName(&init.Call)) {
		return init, map[*ssa.Parameter]ssa.Value{}, true
	}
	h := init.Call.StaticCallee()
	if h == nil || h.Blocks == nil || !load.InModule(h) || len(h.Params) != len(init.Call.Args) {
		return nil, nil, false
	}
	var inner *ssa.Call
	for _, r := range returnsOf(h) {
		if len(r.Results) != 1 {
			return nil, nil, false
		}
		call, ok := facts.Resolve(r.Results[0]).(*ssa.Call)
		if !ok || !isOnce(facts.CalleeName(&call.Call)) || (inner != nil && inner != call) {
			return nil, nil, false
		}
		inner = call
	}
	if inner == nil {
		return nil, nil, false
	}
	bind := map[*ssa.Parameter]ssa.Value{}
	for i, p := range h.Params {
		bind[p] = init.Call.Args[i]
	}
	return inner, bind, true
}

// onceInitOf: the unique store to package-level var g (in its package's init) and
// its value if that is a call.
func onceInitOf(g *ssa.Global) (*ssa.Call, bool) {
	var found *ssa.Call
	n := 0
	for _, mem := range g.Pkg.Members {
		fn, ok := mem.(*ssa.Function)
		if !ok {
			continue
		}
		for _, f := range facts.WithAnon(fn) {
			for _, b := range f.Blocks {
				for _, in := range b.Instrs {
					if st, ok := in.(*ssa.Store); ok && st.Addr == ssa.Value(g) {
						n++
						if call, ok := st.Val.(*ssa.Call); ok && f.Name() == "init" {
							found = call
						}
					}
				}
			}
		}
	}
	// methods are not package members: scan them too for stray stores
	return found, n == 1 && found != nil
}

// compilesAsGoRegexp: the pattern compiles with Go's regexp (same engine the code uses).
func compilesAsGoRegexp(pat string) (int, error) {
	re, err := regexp.Compile(pat)
	if err != nil {
		return 0, err
	}
	return re.NumSubexp(), nil
}

var _ = bounds.NumSubexp
