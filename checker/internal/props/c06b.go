package props

import (
	"go/token"
	"go/types"
	"strings"

	"golang.org/x/tools/go/ssa"

	"ocivet/internal/core"
	"ocivet/internal/facts"
)

// ---------------------------------------------------------------- R2 validated fields

var fieldPredicate = map[string]string{"Repo": "IsValidRepository", "FromRepo": "IsValidRepository", "Digest": "IsValidDigest", "Tag": "IsValidTag"}

func c06ValidatedFields(c *core.Ctx, rule string) {
	// the classifier: the ocirequest function that owns a local Request and returns its address
	var parse *ssa.Function
	var rreq *ssa.Alloc
	for _, fn := range c.P.ModuleFunctions("internal/ocirequest") {
		if fn.Parent() != nil || fn.Signature.Results().Len() != 2 {
			continue
		}
		for _, b := range fn.Blocks {
			for _, in := range b.Instrs {
				if al, ok := in.(*ssa.Alloc); ok && al.Heap && isNamed(al.Type().(*types.Pointer).Elem(), "internal/ocirequest", "Request") {
					if strings.Contains(fn.Signature.Params().String(), "url.URL") {
						parse, rreq = fn, al
					}
				}
			}
		}
	}
	if parse == nil {
		c.Fail(rule, "anchor/ocirequest.parse", 0, "request classifier (function of ocirequest owning a local Request and taking a *url.URL) not found")
		return
	}
	c.Analysed(facts.FuncName(parse))
	rreqTerm := facts.Term(rreq)
	isField := func(addr ssa.Value) (string, bool) {
		base, fld, ok := facts.FieldOf(addr)
		// the request under construction: the classifier's local, or (inside a
		// helper followed by the inliner) the parameter bound to its address
		if !ok || (base != ssa.Value(rreq) && facts.Term(base) != rreqTerm) {
			return "", false
		}
		_, tracked := fieldPredicate[fld]
		return fld, tracked
	}
	ff := facts.FlowFuncs{
		Instr: func(in ssa.Instruction, t facts.Tokens) {
			st, ok := in.(*ssa.Store)
			if !ok {
				return
			}
			fld, ok := isField(st.Addr)
			if !ok {
				return
			}
			delete(t, "ok:"+fld)
			for k := range t {
				if strings.HasPrefix(k, "val:"+fld+"=") {
					delete(t, k)
				}
			}
			if _, isConst := facts.ConstString(st.Val); isConst {
				delete(t, "set:"+fld)
				return
			}
			tm := facts.Term(st.Val)
			t["set:"+fld] = true
			t["val:"+fld+"="+tm] = true
			if t["valid:"+fieldPredicate[fld]+":"+tm] {
				t["ok:"+fld] = true
			}
		},
		Edge: func(b *ssa.BasicBlock, idx int, t facts.Tokens) bool {
			for _, cd := range facts.EdgeConds(b, idx) {
				// rreq.F == "" : the field is known empty (unset) on this edge
				if x, op, y, okc := facts.Cmp(cd); okc && op == token.EQL {
					if s, isS := facts.ConstString(y); isS && s == "" {
						if u, isU := facts.Strip(x).(*ssa.UnOp); isU {
							if fld, isF := isField(u.X); isF {
								delete(t, "set:"+fld)
								delete(t, "ok:"+fld)
							}
						}
					}
				}
				call, ok := cd.V.(*ssa.Call)
				if !ok || !cd.Pos || len(call.Call.Args) != 1 {
					continue
				}
				name := facts.CalleeName(&call.Call)
				for _, pred := range []string{"IsValidRepository", "IsValidDigest", "IsValidTag"} {
					if !strings.HasSuffix(name, "ociref."+pred) {
						continue
					}
					arg := call.Call.Args[0]
					tm := facts.Term(arg)
					t["valid:"+pred+":"+tm] = true
					for fld, p := range fieldPredicate {
						if p != pred {
							continue
						}
						if u, ok := facts.Strip(arg).(*ssa.UnOp); ok {
							if f2, ok := isField(u.X); ok && f2 == fld {
								t["ok:"+fld] = true
							}
						}
						if t["val:"+fld+"="+tm] {
							t["ok:"+fld] = true
						}
					}
				}
			}
			return true
		},
	}
	// helpers that are handed the request under construction are followed
	followed := map[*ssa.Function]bool{}
	facts.NewInliner(&ff, func(h *ssa.Function) bool {
		if h.Pkg != parse.Pkg {
			return false
		}
		for _, p := range h.Params {
			if pt, ok := p.Type().(*types.Pointer); ok && isNamed(pt.Elem(), "internal/ocirequest", "Request") {
				followed[h] = helperTouches(h, 3, func(in ssa.Instruction) bool {
					st, ok := in.(*ssa.Store)
					if !ok {
						return false
					}
					_, fld, isF := facts.FieldOf(st.Addr)
					_, tracked := fieldPredicate[fld]
					return isF && tracked
				})
				return followed[h]
			}
		}
		return false
	})
	n := 0
	analyse := func(root *ssa.Function) {
		flow := facts.PathFlow(root, ff)
		for _, r := range returnsOf(root) {
			if len(r.Results) != 2 || !facts.RetErrIsNil(r) {
				continue
			}
			n++
			for fld, pred := range fieldPredicate {
				ok := facts.AllAt(ff, flow, r, func(t facts.Tokens) bool { return !t["set:"+fld] || t["ok:"+fld] })
				c.Check(ok, rule, "classifier/return/"+fld, r.Pos(), fld+" is unset, constant, or passed ociref."+pred, "a request is classified successfully on a path where its "+fld+" field holds a value that did not pass ociref."+pred+": the backend can be called with a syntactically invalid "+strings.ToLower(fld))
			}
		}
	}
	analyse(parse)
	// part of the classification may live in a helper that builds the request
	// itself and whose results the classifier returns as they are
	// (`return parseUploadStart(method, repo, q)`): such a helper is a classifier
	// in its own right
	for _, h := range withHelpers(parse) {
		if h == parse || h.Parent() != nil || h.Pkg != parse.Pkg || h.Signature.Results().Len() != 2 {
			continue
		}
		takesReq := false
		for _, p := range h.Params {
			if pt, ok := p.Type().(*types.Pointer); ok && isNamed(pt.Elem(), "internal/ocirequest", "Request") {
				takesReq = true
			}
		}
		if takesReq {
			continue
		}
		var own *ssa.Alloc
		for _, b := range h.Blocks {
			for _, in := range b.Instrs {
				if al, ok := in.(*ssa.Alloc); ok && al.Heap && isNamed(al.Type().(*types.Pointer).Elem(), "internal/ocirequest", "Request") {
					own = al
				}
			}
		}
		if own == nil {
			continue
		}
		c.Analysed(facts.FuncName(h))
		saved, savedTerm := rreq, rreqTerm
		rreq, rreqTerm = own, facts.Term(own)
		analyse(h)
		rreq, rreqTerm = saved, savedTerm
	}
	// classification outcomes decided inside followed helpers count as well
	for h, ok := range followed {
		if !ok {
			continue
		}
		c.Analysed(facts.FuncName(h))
		for _, r := range returnsOf(h) {
			if facts.RetErrIsNil(r) {
				n++
			}
		}
	}
	if n < 10 {
		c.Fail(rule, "classifier/instance-floor", parse.Pos(), sprintf("only %d success returns found in the request classifier", n))
	}
}

// ---------------------------------------------------------------- R3 handler argument provenance

// handlerFns: functions of ociserver with a *ocirequest.Request parameter.
func handlerFns(c *core.Ctx) map[*ssa.Function]*ssa.Parameter {
	out := map[*ssa.Function]*ssa.Parameter{}
	for _, fn := range c.P.ModuleFunctions("ociserver") {
		if fn.Parent() != nil {
			continue
		}
		for _, p := range fn.Params {
			if pt, ok := p.Type().(*types.Pointer); ok && isNamed(pt.Elem(), "internal/ocirequest", "Request") {
				out[fn] = p
			}
		}
	}
	return out
}

// rreqField: v is (a conversion of) a load of field name of the handler's request parameter.
func rreqField(v ssa.Value, rreq *ssa.Parameter) (string, bool) {
	base, fld, ok := facts.FieldOf(facts.ResolveFree(v))
	if !ok || facts.ResolveFree(base) != ssa.Value(rreq) {
		return "", false
	}
	return fld, true
}

func c06HandlerArgs(c *core.Ctx, rule string) {
	tagPos := map[string]int{"GetTag": 2, "ResolveTag": 2, "PushManifest": 2, "DeleteTag": 2}
	n := 0
	for fn, rreq := range handlerFns(c) {
		for _, bc := range backendCalls(fn) {
			if isNamed(bc.Recv.Type(), "oci/ociregistry", "Interface") == false {
				continue
			}
			c.Analysed(facts.FuncName(fn))
			role, reviewed := roles[bc.Method]
			key := facts.FuncName(fn) + "/" + bc.Method
			if !reviewed {
				c.Fail(rule, key, bc.Call.Pos(), "handler calls unreviewed Interface method "+bc.Method)
				continue
			}
			args := bc.Call.Common().Args
			check := func(i int, want []string, what string) {
				n++
				var bad string
				var visit func(v ssa.Value, d int)
				visit = func(v ssa.Value, d int) {
					if d > 4 || bad != "" {
						return
					}
					v2 := facts.ResolveFree(v)
					if _, isC := v2.(*ssa.Const); isC {
						return
					}
					if ph, isPhi := v2.(*ssa.Phi); isPhi {
						for _, e := range ph.Edges {
							visit(e, d+1)
						}
						return
					}
					fld, ok := rreqField(v2, rreq)
					if !ok {
						bad = "is not a field of the classified request"
						return
					}
					for _, w := range want {
						if w == fld {
							return
						}
					}
					bad = "is request field " + fld + ", expected " + strings.Join(want, "/")
				}
				visit(args[i], 0)
				c.Check(bad == "", rule, key+"/"+what, bc.Call.Pos(), what+" argument comes from the validated request field "+strings.Join(want, "/"), what+" argument of backend "+bc.Method+" "+bad)
			}
			for _, pi := range role.Repos {
				want := []string{"Repo"}
				if bc.Method == "MountBlob" && pi == 1 {
					want = []string{"FromRepo"}
				}
				check(pi, want, sprintf("repository#%d", pi))
			}
			sig := bc.Call.Common().Signature()
			for i := 0; i < sig.Params().Len(); i++ {
				if strings.HasSuffix(sig.Params().At(i).Type().String(), "go-digest.Digest") {
					check(i, []string{"Digest"}, "digest")
				}
			}
			if tp, ok := tagPos[bc.Method]; ok {
				check(tp, []string{"Tag"}, "tag")
			}
			// PushBlob: the descriptor's Digest field
			if bc.Method == "PushBlob" {
				n++
				ok := false
				if sv := facts.ResolveFree(args[2]); sv != nil {
					if u, isU := sv.(*ssa.UnOp); isU {
						if al, isAl := u.X.(*ssa.Alloc); isAl {
							for _, ref := range *al.Referrers() {
								if fa, isFA := ref.(*ssa.FieldAddr); isFA {
									if _, f2, _ := facts.FieldOf(fa); f2 == "Digest" {
										for _, st := range facts.StoresTo(fa) {
											if fld, isF := rreqField(st.Val, rreq); isF && fld == "Digest" {
												ok = true
											}
										}
									}
								}
							}
						}
					}
				}
				c.Check(ok, rule, key+"/descriptor-digest", bc.Call.Pos(), "descriptor digest is the validated request digest", "PushBlob's descriptor digest is not the classified request's Digest")
			}
		}
	}
	if n < 20 {
		c.Fail(rule, "handler-args/instance-floor", 0, sprintf("only %d namespace arguments examined in the handlers", n))
	}
}

// ---------------------------------------------------------------- R4 must-close

func isCloserIface(t types.Type) bool {
	return isNamed(t, "oci/ociregistry", "BlobReader") || isNamed(t, "oci/ociregistry", "BlobWriter")
}

func c06MustClose(c *core.Ctx, rule string) {
	n := 0
	for _, fn := range c.P.ModuleFunctions("ociserver") {
		for _, ci := range facts.CallsIn(fn) {
			call, ok := ci.(*ssa.Call)
			if !ok {
				continue
			}
			// an acquisition: the backend hands out a reader/writer, or a helper of
			// the server passes one on to its caller
			what := ""
			if call.Call.IsInvoke() {
				what = call.Call.Method.Name()
			} else if h := call.Call.StaticCallee(); h != nil && h.Blocks != nil && h.Pkg == fn.Pkg {
				what = "via " + fnName(h)
			}
			if what == "" {
				continue
			}
			res := call.Call.Signature().Results()
			if res.Len() != 2 || !isCloserIface(res.At(0).Type()) {
				continue
			}
			n++
			c.Analysed(facts.FuncName(fn))
			key := facts.FuncName(fn) + "/" + what + "/closed"
			// tracked resource and error values (with one level of phis)
			res0 := map[ssa.Value]bool{}
			err1 := map[ssa.Value]bool{}
			for _, ref := range *call.Referrers() {
				if ex, ok := ref.(*ssa.Extract); ok {
					set := res0
					if ex.Index == 1 {
						set = err1
					}
					set[ex] = true
					for _, r2 := range *ex.Referrers() {
						if ph, ok := r2.(*ssa.Phi); ok {
							set[ph] = true
						}
					}
				}
			}
			if len(res0) == 0 {
				c.Fail(rule, key, call.Pos(), "the reader/writer returned by the backend is discarded: it can never be closed")
				continue
			}
			isClose := func(in ssa.Instruction) bool {
				cc, ok := in.(ssa.CallInstruction)
				if !ok || !cc.Common().IsInvoke() || cc.Common().Method.Name() != "Close" {
					return false
				}
				return res0[facts.Resolve(cc.Common().Value)] || res0[cc.Common().Value]
			}
			edge := func(b *ssa.BasicBlock, idx int) bool {
				for _, cd := range facts.EdgeConds(b, idx) {
					if x, isNil, ok := facts.NilCheck(cd); ok && !isNil && (err1[x] || err1[facts.Resolve(x)]) {
						return false // err != nil: the resource is nil on this path
					}
				}
				return true
			}
			// returning the reader/writer hands the obligation to the caller (whose call of
			// this function is itself an acquisition, above)
			leakingExit := func(in ssa.Instruction) bool {
				if !facts.IsExit(in) {
					return false
				}
				if r, ok := in.(*ssa.Return); ok && len(r.Results) == 2 && fn.Signature.Results().Len() == 2 && isCloserIface(fn.Signature.Results().At(0).Type()) {
					v := facts.RetVal(r, 0)
					if res0[v] || res0[facts.Resolve(v)] {
						return false
					}
				}
				return true
			}
			if exit, leak := facts.ReachesWithout(call, leakingExit, isClose, edge); leak {
				c.Fail(rule, key, call.Pos(), "the "+res.At(0).Type().String()+" obtained here is not closed on the path reaching "+c.P.Pos(exit.Pos())+": the backend's reader/writer leaks once the response is complete")
			} else {
				c.OK(rule, key, call.Pos(), "closed (directly or by a deferred Close) on every path on which it is non-nil")
			}
		}
	}
	if n < 7 {
		c.Fail(rule, "must-close/instance-floor", 0, sprintf("only %d reader/writer acquisitions found in the server", n))
	}
}

// ---------------------------------------------------------------- R5 single error exit

func isResponseCommit(ci ssa.CallInstruction) bool {
	cc := ci.Common()
	if cc.IsInvoke() {
		if !strings.HasSuffix(cc.Value.Type().String(), "http.ResponseWriter") {
			return false
		}
		return cc.Method.Name() == "WriteHeader" || cc.Method.Name() == "Write"
	}
	name := facts.CalleeName(cc)
	if name == "net/http.Redirect" {
		return true
	}
	if name == "io.Copy" && len(cc.Args) == 2 && strings.HasSuffix(facts.Strip(cc.Args[0]).Type().String(), "http.ResponseWriter") {
		return true
	}
	return false
}

func c06SingleErrorExit(c *core.Ctx, rule string) {
	srv := c.P.NamedType("ociserver", "registry")
	if srv == nil {
		c.Fail(rule, "anchor/ociserver.registry", 0, "ociserver.registry not found")
		return
	}
	sh := c.P.Method(types.NewPointer(srv), "ServeHTTP")
	if sh == nil {
		c.Fail(rule, "anchor/ServeHTTP", 0, "(*registry).ServeHTTP not found")
		return
	}
	c.Analysed(facts.FuncName(sh))
	// ServeHTTP: an error returned by the dispatcher reaches opts.WriteError
	ok := false
	for _, ci := range facts.CallsIn(sh) {
		cc := ci.Common()
		if _, fld, isF := facts.FieldOf(cc.Value); isF && fld == "WriteError" && len(cc.Args) == 3 {
			if call, isCall := facts.Resolve(cc.Args[2]).(*ssa.Call); isCall && call.Call.StaticCallee() != nil && call.Parent() == sh {
				for _, cd := range facts.CondsAt(ci.Block()) {
					if x, isNil, okc := facts.NilCheck(cd); okc && !isNil && facts.Resolve(x) == ssa.Value(call) {
						ok = true
					}
				}
			}
		}
	}
	c.Check(ok, rule, "ServeHTTP/error-to-WriteError", sh.Pos(), "a non-nil dispatcher error is passed to opts.WriteError", "ServeHTTP does not route the dispatcher's non-nil error to opts.WriteError: failures would produce an empty 200 response")
	n := 0
	for fn := range handlerFns(c) {
		for _, ci := range facts.CallsIn(fn) {
			if !isResponseCommit(ci) {
				continue
			}
			n++
			failing := func(i ssa.Instruction) bool {
				r, ok := i.(*ssa.Return)
				if !ok || len(r.Results) == 0 {
					return false
				}
				return !facts.RetErrIsNil(r)
			}
			at, reach := facts.ReachesWithout(ci, failing, nil, nil)
			if reach {
				c.Fail(rule, facts.FuncName(fn)+"/no-error-after-commit", ci.Pos(), "after the response was started here an error return is still reachable ("+c.P.Pos(at.Pos())+"): WriteError would write a second status line / JSON body into a committed response")
			}
		}
		c.Analysed(facts.FuncName(fn))
	}
	if n < 15 {
		c.Fail(rule, "commit-points/instance-floor", 0, sprintf("only %d response commit points found", n))
	} else {
		c.OK(rule, "handlers/no-error-after-commit", 0, sprintf("%d response commit points; no error return reachable after any of them (failures reported above, if any)", n))
	}
}

// ---------------------------------------------------------------- R6 mandated headers

var mandated = map[string]map[int64][]string{
	"ReqBlobStartUpload":    {202: {"Location", "Range"}},
	"ReqBlobUploadInfo":     {204: {"Location", "Range"}},
	"ReqBlobUploadChunk":    {202: {"Location", "Range"}},
	"ReqBlobUploadBlob":     {201: {"Location", "Docker-Content-Digest"}},
	"ReqBlobCompleteUpload": {201: {"Location", "Docker-Content-Digest"}},
	"ReqBlobMount":          {201: {"Location"}},
	"ReqManifestPut":        {201: {"Location", "Docker-Content-Digest"}},
	"ReqBlobGet":            {200: {"Content-Length", "Docker-Content-Digest"}, 206: {"Content-Length", "Docker-Content-Digest", "Content-Range"}},
	"ReqBlobHead":           {200: {"Content-Length", "Docker-Content-Digest"}},
	"ReqManifestGet":        {200: {"Content-Type", "Content-Length", "Docker-Content-Digest?"}},
	"ReqManifestHead":       {200: {"Content-Type", "Content-Length", "Docker-Content-Digest?"}},
	"ReqTagsList":           {200: {"Content-Length"}},
	"ReqCatalogList":        {200: {"Content-Length"}},
	"ReqReferrersList":      {200: {"Content-Length"}},
}

func c06Headers(c *core.Ctx, rule string, m *serverModel) {
	// summary of the shared helper: every nil return is preceded by Set(Location) and Set(Docker-Content-Digest)
	var helper *ssa.Function
	for _, fn := range c.P.ModuleFunctions("ociserver") {
		if fnName(fn) == "setLocationHeader" {
			helper = fn
		}
	}
	headerFlow := func(fn *ssa.Function) (facts.FlowFuncs, map[*ssa.BasicBlock]facts.DNF) {
		ff := facts.FlowFuncs{
			Instr: func(in ssa.Instruction, t facts.Tokens) {
				ci, ok := in.(ssa.CallInstruction)
				if !ok {
					return
				}
				cc := ci.Common()
				name := facts.CalleeName(cc)
				if name == "(net/http.Header).Set" || name == "(net/http.Header).Add" {
					if s, ok := facts.ConstString(cc.Args[1]); ok {
						t["hdr:"+s] = true
					}
				}
				if helper != nil && cc.StaticCallee() == helper {
					t["hdr:Location"] = true
					t["hdr:Docker-Content-Digest"] = true
				}
			},
			Edge: func(b *ssa.BasicBlock, idx int, t facts.Tokens) bool {
				for _, cd := range facts.EdgeConds(b, idx) {
					// `err := f(); if err == nil { err = g() }; if err != nil { return err }`: what
					// the path already knows about the value the error variable holds on it
					if x, isNil, ok := facts.NilCheck(cd); ok {
						px := facts.PathValue(x)
						feeds := px != x
						if refs := px.Referrers(); refs != nil && !feeds {
							for _, r := range *refs {
								if _, isPhi := r.(*ssa.Phi); isPhi {
									feeds = true
								}
							}
						}
						if feeds && px.Parent() != nil {
							k := "ν:" + px.Parent().Name() + "." + px.Name()
							if (isNil && t[k+"=non"]) || (!isNil && t[k+"=nil"]) {
								return false // contradicts an earlier test on this path
							}
							if isNil {
								t[k+"=nil"] = true
							} else {
								t[k+"=non"] = true
							}
						}
					}
					// conditions on server options
					if base, fld, ok := facts.FieldOf(facts.Resolve(cd.V)); ok {
						if _, f0, ok2 := facts.FieldOf(base); ok2 && f0 == "opts" {
							t["opt:"+fld] = true
						}
					}
				}
				return true
			},
		}
		if fn == nil {
			return ff, nil
		}
		return ff, facts.PathFlow(fn, ff)
	}
	if helper == nil {
		c.Note("no setLocationHeader helper found; headers must be set inline")
	} else {
		c.Analysed(facts.FuncName(helper))
		ff, flow := headerFlow(helper)
		for _, r := range returnsOf(helper) {
			if !facts.RetErrIsNil(r) {
				continue
			}
			ok := facts.AllAt(ff, flow, r, func(t facts.Tokens) bool { return t["hdr:Location"] && t["hdr:Docker-Content-Digest"] })
			c.Check(ok, rule, "setLocationHeader/summary", r.Pos(), "sets Location and Docker-Content-Digest on every nil-returning path", "setLocationHeader can return nil without having set Location and Docker-Content-Digest: the summary used for the upload/put handlers does not hold")
		}
	}
	n := 0
	for kname, byStatus := range mandated {
		kv, ok := m.Kinds[kname]
		if !ok {
			c.Fail(rule, "kind/"+kname, 0, "request kind "+kname+" of the mandated-header table no longer exists")
			continue
		}
		h := m.Handlers[kv]
		if h == nil {
			continue // reported by R1
		}
		c.Analysed(facts.FuncName(h))
		// the status line may be written by the handler or by a same-package
		// helper it hands the ResponseWriter to: helpers are followed in the
		// context of each call, and the WriteHeader sites inside them are decided
		// under the facts (headers already set) of the calling path
		seenStatus := map[int64]bool{}
		type verdict struct {
			ok   bool
			pos  token.Pos
			name string
			st   int64
		}
		verdicts := map[string]*verdict{}
		var order []string
		var evalSites func(fn *ssa.Function, ff facts.FlowFuncs, flow map[*ssa.BasicBlock]facts.DNF)
		evalSites = func(fn *ssa.Function, ff facts.FlowFuncs, flow map[*ssa.BasicBlock]facts.DNF) {
			for _, ci := range facts.CallsIn(fn) {
				cc := ci.Common()
				if !cc.IsInvoke() || cc.Method.Name() != "WriteHeader" {
					continue
				}
				st, isC := facts.ConstInt(cc.Args[0])
				if !isC {
					c.Fail(rule, kname+"/status", ci.Pos(), "non-constant success status")
					continue
				}
				seenStatus[st] = true
				names, known := byStatus[st]
				if !known {
					if st/100 == 2 {
						c.Fail(rule, sprintf("%s/%d", kname, st), ci.Pos(), sprintf("handler for %s answers %d, which the mandated-header table does not list for this endpoint", kname, st))
					}
					continue
				}
				for _, name := range names {
					optional := strings.HasSuffix(name, "?")
					name = strings.TrimSuffix(name, "?")
					ok := facts.AllAt(ff, flow, ci, func(t facts.Tokens) bool {
						if t["hdr:"+name] {
							return true
						}
						if optional {
							for k := range t {
								if strings.HasPrefix(k, "opt:") {
									return true
								}
							}
						}
						return false
					})
					key := sprintf("%s/%d/%s", kname, st, name)
					if fn != h {
						key += "/in " + facts.FuncName(fn)
					}
					v := verdicts[key]
					if v == nil {
						v = &verdict{ok: true, pos: ci.Pos(), name: name, st: st}
						verdicts[key] = v
						order = append(order, key)
					}
					v.ok = v.ok && ok
				}
			}
		}
		ff, _ := headerFlow(nil)
		il := facts.NewInliner(&ff, func(g *ssa.Function) bool {
			if g.Pkg != h.Pkg || g == helper {
				return false
			}
			for _, other := range m.Handlers {
				if other == g {
					return false // a handler delegating to another handler: decided under that handler's own kind
				}
			}
			takesWriter := false
			for _, p := range g.Params {
				if strings.HasSuffix(p.Type().String(), "http.ResponseWriter") {
					takesWriter = true
				}
			}
			return takesWriter && helperTouches(g, 2, func(in ssa.Instruction) bool {
				ci, ok := in.(ssa.CallInstruction)
				if !ok {
					return false
				}
				cc := ci.Common()
				return cc.IsInvoke() && cc.Method.Name() == "WriteHeader" || facts.CalleeName(cc) == "(net/http.Header).Set"
			})
		})
		il.OnInlined = func(g *ssa.Function, flow map[*ssa.BasicBlock]facts.DNF) {
			c.Analysed(facts.FuncName(g))
			evalSites(g, ff, flow)
		}
		flow := facts.PathFlow(h, ff)
		evalSites(h, ff, flow)
		for _, key := range order {
			v := verdicts[key]
			n++
			c.Check(v.ok, rule, key, v.pos, v.name+" is set on every path to the status line", sprintf("%s answers %d on a path where the mandated header %s was not set", facts.FuncName(h), v.st, v.name))
		}
		for st := range byStatus {
			if !seenStatus[st] && !(kname == "ReqBlobUploadBlob" || kname == "ReqBlobGet") {
				c.Fail(rule, sprintf("%s/%d", kname, st), h.Pos(), sprintf("handler for %s never answers %d (the success status the distribution spec assigns)", kname, st))
			}
		}
	}
	if n < 25 {
		c.Fail(rule, "headers/instance-floor", 0, sprintf("only %d (status, header) obligations examined", n))
	}
}

// ---------------------------------------------------------------- R7 status follows code

func c06StatusFollowsCode(c *core.Ctx, rule string) {
	me := c.P.Func("", "MarshalError")
	if me == nil {
		c.Fail(rule, "anchor/MarshalError", 0, "ociregistry.MarshalError not found")
		return
	}
	c.Analysed("ociregistry.MarshalError")
	n := 0
	for _, ci := range statusDeciderCalls(c, me) {
		cc := ci.Common()
		if !cc.IsInvoke() || cc.Method.Name() != "StatusCode" {
			continue
		}
		n++
		miss := false
		em := loadErrModel(c)
		for _, cd := range facts.CondsAt(ci.Block()) {
			if em.isTableMiss(cd) {
				miss = true
			}
		}
		c.Check(miss, rule, "MarshalError/status-precedence", ci.Pos(), "an HTTPError's own status is used only when the code table has no entry", "MarshalError takes the status from the HTTPError on a path where the code table may have an entry: the status can disagree with the error code")
	}
	if n == 0 {
		c.Fail(rule, "MarshalError/status-precedence", me.Pos(), "MarshalError never consults HTTPError.StatusCode: codes without a table entry lose their own status")
	}
	// the status actually returned on the hit branch is the table's
	// parse-error switch covers every sentinel of ocirequest
	var sw *ssa.Function
	for _, fn := range c.P.ModuleFunctions("ociserver") {
		if fnName(fn) == "handlerErrorForRequestParseError" {
			sw = fn
		}
	}
	if sw == nil {
		c.Fail(rule, "anchor/handlerErrorForRequestParseError", 0, "parse-error mapping function not found in ociserver")
		return
	}
	c.Analysed(facts.FuncName(sw))
	rp := c.P.Pkg("internal/ocirequest")
	for name, mem := range rp.Members {
		g, ok := mem.(*ssa.Global)
		if !ok || g.Type().(*types.Pointer).Elem().String() != "error" || !strings.HasPrefix(name, "Err") {
			continue
		}
		covered := false
		for _, b := range sw.Blocks {
			for _, in := range b.Instrs {
				bo, ok := in.(*ssa.BinOp)
				if !ok || bo.Op != token.EQL {
					continue
				}
				for _, side := range []ssa.Value{bo.X, bo.Y} {
					if u, ok := facts.Strip(side).(*ssa.UnOp); ok && u.X == ssa.Value(g) {
						covered = true
					}
				}
			}
		}
		c.Check(covered, rule, "parse-error-switch/"+name, sw.Pos(), "sentinel "+name+" is mapped to an HTTP status", "ocirequest sentinel "+name+" has no case in the parse-error switch: such requests are answered 500 instead of a 4xx")
	}
}
