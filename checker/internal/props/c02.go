package props

import (
	"go/token"
	"go/types"
	"strings"

	"golang.org/x/tools/go/ssa"

	"ocivet/internal/core"
	"ocivet/internal/facts"
)

func init() {
	register(&Prop{
		ID:    "C02",
		Title: "In-memory registry follows the reference registry semantics",
		Run:   runC02,
		Explanation: "Model equivalence over histories is not a static fact; three structural clauses of it are decided. " +
			"R1 condition->code table (DESIGN A.6): in ocimem's Reader, Deleter and Lister methods, MountBlob and the lookup helpers they share, every return that is control-dependent on a lookup miss carries the documented code (repository map -> NAME_UNKNOWN, blobs -> BLOB_UNKNOWN, manifests/tags -> MANIFEST_UNKNOWN, invalid repository name -> NAME_INVALID) as the Err* value or wrapped with %w — in particular no miss is answered with a success; CheckDescriptor's digest/size mismatch returns carry DIGEST_INVALID / SIZE_INVALID and PushBlob wraps them with %w; " +
			"R2 reference-check coverage: PushManifest's store into manifests is dominated by checkManifest(...) == nil, whose switch on the reference kind has an arm for every kind constant, tests presence in blobs for blob references and in manifests for manifest references and does not test subjects; the media-type table has iterators for the OCI image manifest and image index types; " +
			"R3 listings are sorted snapshots: every slice reaching SliceSeq in ocimem was sorted after its last append (the lock discipline of the snapshot is decided under C08); " +
			"R4 all-or-nothing: once an operation has mutated tags, manifests or blobs no failure return is reachable, so a rejected push or delete leaves the content state (in particular tag bindings) as it was. " +
			"R2b validate-before-bind: in PushManifest every store into the manifests or tags map is dominated by a successful checkManifest (no short cut for content that is already stored). " +
			"R2c manifest JSON is decoded as a whole (json.Unmarshal, or a Decoder that is asked for more); R5 no repository is ever removed from Registry.repos. " +
			"R1b (shared with C01.R1) CheckDescriptor returns nil for data only after the digest and the size comparison, whatever the length of the data. " +
			"R6 (shared with C01.R5 / C01.R8 / C14.R6) the bytes stored for a digest are the registry's own copy and a stored blob is never modified. " +
			"R7 GetBlobRange treats only a negative upper bound as \"to the end\" (every comparison of o1 with 0 is < or >=). " +
			"R8 DeleteBlob / DeleteManifest answer DENIED (content reachable from a tag) only where the lookup of the digest has already succeeded: deleting what is not there stays *_UNKNOWN in immutable-tags mode.",
		NotDecided: "equivalence with the reference model over operation histories (found-until-deleted, last-tag-wins, referrers set equality, which histories succeed) is not decided.",
		Technique:  "static analysis: SSA dominance of lookup-miss conditions over returns, %w provenance of error values, switch exhaustiveness",
	})
}

var missCode = map[string]string{"repos": "ErrNameUnknown", "blobs": "ErrBlobUnknown", "manifests": "ErrManifestUnknown", "tags": "ErrManifestUnknown"}

// carriesCode: does error value v carry ociregistry.<code>? (the global itself,
// fmt.Errorf with %w of it, a package-level error built that way, a phi of
// such, or the error result of a module helper all of whose error returns carry it).
func carriesCode(v ssa.Value, code string, depth int) bool {
	if depth > 5 {
		return false
	}
	v = facts.Resolve(v)
	switch x := v.(type) {
	case *ssa.UnOp:
		if x.Op == token.MUL {
			if g, ok := x.X.(*ssa.Global); ok {
				if g.Name() == code {
					return true
				}
				// package-level error variable initialised in init
				if init, ok := onceInitOf(g); ok {
					return carriesCode(init, code, depth+1)
				}
			}
		}
	case *ssa.Call:
		name := facts.CalleeName(&x.Call)
		if name == "fmt.Errorf" {
			return errorfWraps(x, func(a ssa.Value) bool { return carriesCode(a, code, depth+1) })
		}
		return helperErrorsCarry(x, x.Call.Signature().Results().Len()-1, code, depth)
	case *ssa.Extract:
		if call, ok := x.Tuple.(*ssa.Call); ok {
			return helperErrorsCarry(call, x.Index, code, depth)
		}
	case *ssa.Phi:
		for _, e := range x.Edges {
			if !carriesCode(e, code, depth+1) {
				return false
			}
		}
		return len(x.Edges) > 0
	case *ssa.MakeInterface:
		return carriesCode(x.X, code, depth+1)
	case *ssa.ChangeInterface:
		return carriesCode(x.X, code, depth+1)
	}
	return false
}

// helperErrorsCarry: call is a call of a private helper whose result idx is an
// error; every non-nil error it can return carries the code.
func helperErrorsCarry(call *ssa.Call, idx int, code string, depth int) bool {
	h := call.Call.StaticCallee()
	if h == nil || h.Blocks == nil || len(privateCallSites(h)) == 0 || idx < 0 {
		return false
	}
	n := 0
	for _, r := range returnsOf(h) {
		if idx >= len(r.Results) {
			return false
		}
		ev := facts.RetVal(r, idx)
		if facts.IsNilConst(ev) {
			continue
		}
		n++
		if !carriesCode(ev, code, depth+1) {
			return false
		}
	}
	return n > 0
}

// errorfArgs returns the format string and variadic arguments of a fmt.Errorf call.
func errorfArgs(call *ssa.Call) (string, []ssa.Value, bool) {
	if len(call.Call.Args) < 1 {
		return "", nil, false
	}
	format, ok := facts.ConstString(call.Call.Args[0])
	if !ok {
		return "", nil, false
	}
	var args []ssa.Value
	if len(call.Call.Args) == 2 {
		if sl, ok := call.Call.Args[1].(*ssa.Slice); ok {
			if al, ok := sl.X.(*ssa.Alloc); ok {
				n, _ := derefArrayLen(al.Type())
				args = make([]ssa.Value, n)
				for _, ref := range *al.Referrers() {
					if ia, ok := ref.(*ssa.IndexAddr); ok {
						if idx, ok := facts.ConstInt(ia.Index); ok {
							for _, st := range facts.StoresTo(ia) {
								args[idx] = st.Val
							}
						}
					}
				}
			}
		}
	}
	return format, args, true
}

// verbs returns the verb letter consumed by each successive argument.
func formatVerbs(format string) []byte {
	var out []byte
	for i := 0; i < len(format); i++ {
		if format[i] != '%' {
			continue
		}
		i++
		for i < len(format) && strings.ContainsRune("+-# 0123456789.[]*", rune(format[i])) {
			i++
		}
		if i < len(format) && format[i] != '%' {
			out = append(out, format[i])
		}
	}
	return out
}

// errorfWraps: some argument formatted with %w satisfies pred.
func errorfWraps(call *ssa.Call, pred func(ssa.Value) bool) bool {
	format, args, ok := errorfArgs(call)
	if !ok {
		return false
	}
	vs := formatVerbs(format)
	for i, a := range args {
		if a == nil || i >= len(vs) || vs[i] != 'w' {
			continue
		}
		if pred(a) {
			return true
		}
	}
	return false
}

func runC02(c *core.Ctx) {
	reg := c.P.NamedType("ocimem", "Registry")
	if reg == nil {
		c.Fail("C02.R0", "anchor/ocimem.Registry", 0, "ocimem.Registry not found")
		return
	}
	c02MissCodes(c, reg)
	c02CheckDescriptorCodes(c)
	c02ReferenceChecks(c, reg)
	memManifestCheckedBeforeStore(c, "C02.R2")
	manifestsDecodedWhole(c, "C02.R2")
	// a push whose descriptor disagrees with its content is rejected: CheckDescriptor's nil only after both comparisons
	relabel(c, "C02.R1", func() { c01CheckDescriptor(c) })
	// what was pushed is what is found until deleted: the stored bytes are the registry's own (shared with C01.R5 / C14.R6)
	relabel(c, "C02.R6", func() { c01Immutability(c) })
	storedBlobDataNeverReassigned(c, "C02.R6")
	negativeMeansToTheEnd(c, "C02.R7", "ocimem")
	deniedOnlyForExistingContent(c, "C02.R8")
	reposNeverForgotten(c, "C02.R5")
	c05SortedIn(c, "C02.R3", []string{"ocimem"})
	// R4: a failed operation leaves tags/manifests/blobs untouched (a rejected
	// tagged push must not bind or move the tag).
	allOrNothing(c, "C02.R4", c.P.ModuleFunctions("ocimem"))
}

func c02MissCodes(c *core.Ctx, reg *types.Named) {
	ptr := types.NewPointer(reg)
	var fns []*ssa.Function
	for _, m := range ifaceMethods(c) {
		sub := subIfaceOf(c, m.Name())
		if sub == "Reader" || sub == "Deleter" || sub == "Lister" || m.Name() == "MountBlob" {
			if fn := declaredMethod(c, ptr, m.Name()); fn != nil {
				fns = append(fns, fn)
			}
		}
	}
	// shared helpers: unexported methods of *Registry whose last result is error
	// and that the read-side methods above call (directly or through each other);
	// helpers used only by the write side decide admission, not lookup results
	helpers := map[*ssa.Function]bool{}
	isHelper := func(fn *ssa.Function) bool {
		if fn == nil || fn.Blocks == nil || fn.Signature.Recv() == nil || fn.Object() == nil || fn.Object().Exported() {
			return false
		}
		if structName(fn.Signature.Recv().Type()) != "Registry" {
			return false
		}
		res := fn.Signature.Results()
		return res.Len() > 0 && res.At(res.Len()-1).Type().String() == "error"
	}
	work := append([]*ssa.Function{}, fns...)
	for len(work) > 0 {
		f := work[0]
		work = work[1:]
		for _, g := range facts.WithAnon(f) {
			for _, ci := range facts.CallsIn(g) {
				if h := ci.Common().StaticCallee(); isHelper(h) && !helpers[h] {
					helpers[h] = true
					fns = append(fns, h)
					work = append(work, h)
				}
			}
		}
	}
	n := 0
	for _, fn := range fns {
		c.Analysed(facts.FuncName(fn))
		for _, r := range returnsOf(fn) {
			// innermost miss condition dominating r
			var missMap, missWhat string
			infeasible := false
			for _, cd := range facts.CondsAt(r.Block()) {
				// a dominating successful helper call covering the repository lookup makes a later repos miss infeasible
				if x, isNil, ok := facts.NilCheck(cd); ok && isNil {
					if ex, ok := facts.Resolve(x).(*ssa.Extract); ok {
						if call, ok := ex.Tuple.(*ssa.Call); ok && call.Call.StaticCallee() != nil && helpers[call.Call.StaticCallee()] {
							if missMap == "repos" {
								infeasible = true
							}
						}
					}
				}
				if missMap != "" {
					continue
				}
				// comma-ok lookup false
				if ex, ok := cd.V.(*ssa.Extract); ok && ex.Index == 1 && !cd.Pos {
					if lk, ok := ex.Tuple.(*ssa.Lookup); ok && lk.CommaOk {
						if f, ok := memMapFieldAny(lk.X); ok {
							missMap, missWhat = f, "comma-ok lookup in "+f+" failed"
						}
					}
				}
				// plain lookup == nil
				if x, isNil, ok := facts.NilCheck(cd); ok && isNil {
					if lk, ok := facts.Resolve(x).(*ssa.Lookup); ok {
						if f, ok := memMapFieldAny(lk.X); ok {
							missMap, missWhat = f, "lookup in "+f+" returned nil"
						}
					}
				}
				// invalid repository name
				if call, ok := cd.V.(*ssa.Call); ok && !cd.Pos && strings.HasSuffix(facts.CalleeName(&call.Call), "ociref.IsValidRepository") {
					missMap, missWhat = "!valid", "repository name is invalid"
				}
			}
			if missMap == "" {
				continue
			}
			// a miss answered by creating the entry (makeRepo) is not a failed lookup
			created := false
			for _, b := range fn.Blocks {
				for _, in := range b.Instrs {
					if mu, ok := in.(*ssa.MapUpdate); ok && facts.Dominates(mu, r) {
						if f, ok := memMapFieldAny(mu.Map); ok && f == missMap {
							created = true
						}
					}
				}
			}
			if created {
				continue
			}
			if infeasible {
				c.Trivial("C02.R1", facts.FuncName(fn)+"/miss-"+missMap+"/infeasible", r.Pos(), "repository miss after a successful helper lookup of the same repository: unreachable")
				continue
			}
			n++
			want := missCode[missMap]
			if missMap == "!valid" {
				want = "ErrNameInvalid"
			}
			// the error value
			nres := len(r.Results)
			var ev ssa.Value
			if nres > 0 {
				ev = facts.RetVal(r, nres-1)
				if call, isCall := ev.(*ssa.Call); isCall && nres == 1 && hasSuffix(facts.CalleeName(&call.Call), "ociregistry.ErrorSeq") {
					ev = call.Call.Args[0]
				}
			}
			ok := ev != nil && carriesCode(ev, want, 0)
			c.Check(ok, "C02.R1", facts.FuncName(fn)+"/miss-"+missMap, r.Pos(), missWhat+" -> "+want,
				"a return reached because "+missWhat+" does not carry the documented code "+want+" (it returns success or an uncoded/other error): reads and listings disagree with the reference model, and over HTTP the failure is not the documented status")
		}
	}
	if n < 6 {
		c.Fail("C02.R1", "instance-floor", 0, sprintf("only %d miss-dependent returns found in ocimem", n))
	}
}

// memMapFieldAny: map field of repository or Registry.
func memMapFieldAny(v ssa.Value) (string, bool) {
	b, name, ok := facts.FieldOf(facts.Resolve(v))
	if !ok {
		return "", false
	}
	sn := structName(b.Type())
	if sn == "repository" || (sn == "Registry" && name == "repos") {
		if _, known := missCode[name]; known {
			return name, true
		}
	}
	return "", false
}

func c02CheckDescriptorCodes(c *core.Ctx) {
	cd := c.P.Func("ocimem", "CheckDescriptor")
	if cd == nil {
		c.Fail("C02.R1", "anchor/ocimem.CheckDescriptor", 0, "ocimem.CheckDescriptor not found")
		return
	}
	c.Analysed("ocimem.CheckDescriptor")
	seen := map[string]bool{}
	for _, r := range returnsOf(cd) {
		for _, cond := range facts.CondsAt(r.Block()) {
			x, op, y, ok := facts.Cmp(cond)
			if !ok || op != token.NEQ {
				continue
			}
			kind := ""
			for _, side := range []ssa.Value{x, y} {
				if call, isCall := facts.Resolve(side).(*ssa.Call); isCall && strings.HasSuffix(facts.CalleeName(&call.Call), "go-digest.FromBytes") {
					kind = "digest"
				}
				if _, fld, isF := facts.FieldOf(facts.Resolve(side)); isF && fld == "Size" {
					if kind == "" {
						kind = "size"
					}
				}
			}
			if kind == "" {
				continue
			}
			// only the mismatch against actual data (a len(data) / FromBytes(data) operand)
			isData := false
			for _, side := range []ssa.Value{x, y} {
				if sliceHas(side, func(v ssa.Value) bool { return argIsParam(v, cd, 1) }) {
					isData = true
				}
			}
			if !isData {
				continue
			}
			want := map[string]string{"digest": "ErrDigestInvalid", "size": "ErrSizeInvalid"}[kind]
			seen[kind] = true
			ok2 := carriesCode(facts.RetVal(r, 0), want, 0)
			c.Check(ok2, "C02.R1", "CheckDescriptor/"+kind+"-mismatch", r.Pos(), kind+" mismatch -> "+want, "a "+kind+" mismatch between descriptor and content is reported without the documented code "+want+": over HTTP a bad push is answered 500 instead of 400")
			break
		}
	}
	if !seen["digest"] || !seen["size"] {
		c.Fail("C02.R1", "CheckDescriptor/mismatch-returns", cd.Pos(), "CheckDescriptor no longer has a digest-mismatch and a size-mismatch return")
	}
	// PushBlob wraps CheckDescriptor's error with %w
	for _, fn := range c.P.ModuleFunctions("ocimem") {
		if fn.Name() != "PushBlob" || fn.Parent() != nil {
			continue
		}
		for _, ci := range facts.CallsIn(fn) {
			call, ok := ci.(*ssa.Call)
			if !ok || facts.CalleeName(&call.Call) != "fmt.Errorf" {
				continue
			}
			_, args, _ := errorfArgs(call)
			fromCheck := false
			for _, a := range args {
				if a == nil {
					continue
				}
				if inner, ok := facts.Resolve(a).(*ssa.Call); ok && inner.Call.StaticCallee() == cd {
					fromCheck = true
				}
			}
			if !fromCheck {
				continue
			}
			ok2 := errorfWraps(call, func(a ssa.Value) bool {
				inner, ok := facts.Resolve(a).(*ssa.Call)
				return ok && inner.Call.StaticCallee() == cd
			})
			c.Check(ok2, "C02.R1", "PushBlob/wraps-CheckDescriptor", call.Pos(), "CheckDescriptor's error is wrapped with %w", "PushBlob formats CheckDescriptor's error without %w: the DIGEST_INVALID / SIZE_INVALID code is lost")
		}
	}
}

func c02ReferenceChecks(c *core.Ctx, reg *types.Named) {
	ptr := types.NewPointer(reg)
	pm := declaredMethod(c, ptr, "PushManifest")
	cm := c.P.Method(ptr, "checkManifest")
	if pm == nil || cm == nil {
		c.Fail("C02.R2", "anchor/PushManifest", 0, "PushManifest / checkManifest not found on *ocimem.Registry")
		return
	}
	c.Analysed(facts.FuncName(cm))
	// (a) manifests store dominated by checkManifest == nil
	n := 0
	var scope []*ssa.Function
	for _, f := range withHelpers(pm) {
		if f != cm && f.Parent() == nil {
			scope = append(scope, f)
		}
	}
	for _, f := range scope {
		for _, b := range f.Blocks {
			for _, in := range b.Instrs {
				mu, ok := in.(*ssa.MapUpdate)
				if !ok {
					continue
				}
				if f, ok := memMapField(mu.Map); !ok || f != "manifests" {
					continue
				}
				n++
				guarded := false
				for _, cd := range condsAtUp(b, 2) {
					if x, isNil, ok := facts.NilCheck(cd); ok && isNil {
						if ex, ok := facts.Resolve(x).(*ssa.Extract); ok {
							if call, ok := ex.Tuple.(*ssa.Call); ok && call.Call.StaticCallee() == cm {
								guarded = true
							}
						}
					}
				}
				c.Check(guarded, "C02.R2", "PushManifest/store-after-check", in.Pos(), "manifest stored only after checkManifest succeeded", "a manifest is stored on a path where checkManifest may have failed or was not called: manifests with missing references are accepted")
			}
		}
	}
	if n == 0 {
		c.Fail("C02.R2", "PushManifest/store-after-check", pm.Pos(), "no store into the manifests map found")
	}
	// (b) the kind switch in checkManifest's callback
	kinds := map[string]int64{}
	tp := c.P.TypesPkg("ocimem")
	for _, name := range tp.Scope().Names() {
		if k, ok := tp.Scope().Lookup(name).(*types.Const); ok {
			if nt, ok := k.Type().(*types.Named); ok && canonTypeName(nt) == "refKind" {
				v, _ := constInt64(k)
				kinds[name] = v
			}
		}
	}
	if len(kinds) == 0 {
		c.Fail("C02.R2", "anchor/refKind", 0, "reference kind constants not found")
		return
	}
	var lit *ssa.Function
	for _, f := range facts.WithAnon(cm) {
		if f != cm && f.Signature.Params().Len() == 1 && strings.HasSuffix(f.Signature.Params().At(0).Type().String(), "descInfo") {
			lit = f
		}
	}
	if lit == nil {
		c.Fail("C02.R2", "checkManifest/callback", cm.Pos(), "checkManifest has no per-reference callback")
		return
	}
	armBlocks := map[int64][]*ssa.BasicBlock{}
	for _, b := range lit.Blocks {
		for _, cd := range facts.CondsAt(b) {
			if x, op, y, ok := facts.Cmp(cd); ok && op == token.EQL {
				if _, fld, isF := facts.FieldOf(facts.Resolve(x)); isF && fld == "kind" {
					if k, ok := facts.ConstInt(y); ok {
						armBlocks[k] = append(armBlocks[k], b)
					}
				}
			}
		}
	}
	testsMap := func(k int64, field string) bool {
		for _, b := range armBlocks[k] {
			for _, in := range b.Instrs {
				if lk, ok := in.(*ssa.Lookup); ok {
					if f, ok := memMapField(lk.X); ok && f == field {
						return true
					}
				}
			}
		}
		return false
	}
	for name, k := range kinds {
		_, has := armBlocks[k]
		if !has {
			c.Fail("C02.R2", "checkManifest/arm/"+name, lit.Pos(), "the reference-kind switch has no arm for "+name+": such references are not checked")
			continue
		}
		switch {
		case strings.Contains(strings.ToLower(name), "subject"):
			ok := !testsMap(k, "manifests") && !testsMap(k, "blobs")
			c.Check(ok, "C02.R2", "checkManifest/arm/"+name, lit.Pos(), "subject may dangle: no presence test", "the subject arm tests presence: a manifest with a dangling subject would be rejected")
		case strings.Contains(strings.ToLower(name), "manifest"):
			c.Check(testsMap(k, "manifests"), "C02.R2", "checkManifest/arm/"+name, lit.Pos(), "manifest references must exist in manifests", "the manifest-reference arm does not test presence in the repository's manifests")
		case strings.Contains(strings.ToLower(name), "blob"):
			c.Check(testsMap(k, "blobs"), "C02.R2", "checkManifest/arm/"+name, lit.Pos(), "blob references must exist in blobs", "the blob-reference arm does not test presence in the repository's blobs")
		}
	}
	// a failing arm stops and records an error: every `return false` in the callback is preceded by a store to the error result
	for _, r := range returnsOf(lit) {
		if cst, ok := facts.Resolve(r.Results[0]).(*ssa.Const); ok && cst.Value != nil && cst.Value.ExactString() == "false" {
			stored := false
			for _, in := range r.Block().Instrs {
				if st, ok := in.(*ssa.Store); ok && st.Val.Type().String() == "error" {
					stored = true
				}
			}
			c.Check(stored, "C02.R2", "checkManifest/stop-records-error", r.Pos(), "stopping the walk records an error", "the reference walk stops without recording an error: a manifest with a bad reference is accepted")
		}
	}
	// (c) media-type table
	var tbl *ssa.Global
	sp := c.P.Pkg("ocimem")
	for _, mem := range sp.Members {
		if g, ok := mem.(*ssa.Global); ok {
			if mt, ok := g.Type().(*types.Pointer).Elem().Underlying().(*types.Map); ok && mt.Key().String() == "string" {
				if _, isSig := mt.Elem().Underlying().(*types.Signature); isSig {
					tbl = g
				}
			}
		}
	}
	keysSeen := map[string]bool{}
	var anchorPos token.Pos
	if tbl != nil {
		anchorPos = tbl.Pos()
		for _, b := range sp.Func("init").Blocks {
			for _, in := range b.Instrs {
				if mu, ok := in.(*ssa.MapUpdate); ok {
					if s, ok := facts.ConstString(mu.Key); ok {
						keysSeen[s] = true
					}
				}
			}
		}
	} else if mr := c.P.Func("ocimem", "manifestReferences"); mr != nil {
		// no table: the dispatch is a switch on the media type parameter — an arm
		// `mediaType == K` that returns the result of a call (a decoder), not a literal
		anchorPos = mr.Pos()
		c.Analysed(facts.FuncName(mr))
		for _, r := range returnsOf(mr) {
			if _, isCall := facts.RetVal(r, 0).(*ssa.Extract); !isCall {
				if _, isCall2 := facts.RetVal(r, 0).(*ssa.Call); !isCall2 {
					continue
				}
			}
			for _, cd := range facts.CondsAt(r.Block()) {
				if x, op, y, ok := facts.Cmp(cd); ok && op == token.EQL {
					for _, pr := range [][2]ssa.Value{{x, y}, {y, x}} {
						if s, isS := facts.ConstString(pr[1]); isS && argIsParam(pr[0], mr, 0) {
							keysSeen[s] = true
						}
					}
				}
			}
		}
	} else {
		c.Fail("C02.R2", "anchor/manifestIterators", 0, "media type -> reference iterator dispatch (table or manifestReferences switch) not found")
		return
	}
	for _, mt := range []string{"application/vnd.oci.image.manifest.v1+json", "application/vnd.oci.image.index.v1+json"} {
		c.Check(keysSeen[mt], "C02.R2", "manifestIterators/"+mt, anchorPos, "references of "+mt+" are walked", "no reference iterator registered for "+mt+": manifests of that type are accepted without checking their references")
	}
}

func constInt64(k *types.Const) (int64, bool) {
	v, ok := facts.ConstIntOf(k.Val())
	return v, ok
}
