package props

import (
	"go/token"
	"go/types"
	"strings"

	"golang.org/x/tools/go/ssa"

	"ocivet/internal/core"
	"ocivet/internal/facts"
)

func init() {
	register(&Prop{
		ID:    "C13",
		Title: "Sub-registry view is confined to its prefix",
		Run:   runC13,
		Explanation: "For the concrete type returned by ocifilter.Sub: R1 every Interface method is declared on the wrapper and every backend call is the same-named method whose context argument is ctxMap(ctx) (the wrapper's scope-rewriting function applied to the method's own context); " +
			"R2 every repository-namespace argument of every backend call is nameMap(param) for the corresponding parameter, every other argument is the parameter unchanged, and nameMap returns \"\" for \"\" and otherwise a pure concatenation of the wrapper's prefix, a constant containing \"/\", and the name — no lexical normaliser (path.Join/Clean, filepath.*, strings.Trim*/Replace*/ToLower...) may touch the caller-supplied name; " +
			"R3 the start-after cursor passed to the backend's Repositories is derived from the prefix (translated into the backend namespace), not the caller's raw cursor; " +
			"R4 the listing yields only the stripped result of strings.CutPrefix(name, prefix+\"/\") under ok == true (or passes errors through); " +
			"R5 ctxMap rewrites the Resource of repository-typed scopes with nameMap and installs the rewritten scope in the returned context. " +
			"R0b the wrapper built by Sub holds exactly the registry and the prefix it was given. " +
			"R6 the Repositories iterator is re-runnable (as C05.R6). " +
			"R7 (shared with C09.R1c) the scope constructor that mapScopes relies on computes action bits only for scopes that passed isKnown().",
		NotDecided: "equality of behaviour with the restricted registry on values (e.g. which items a listing contains) is not decided; R2's confinement clause (no name escapes the prefix) is decided for the code as written.",
		Technique:  "static analysis: SSA argument provenance per Interface method, backward slice of the name-mapping function, dominance of the CutPrefix ok-test",
	})
}

// normalisers that must not touch a caller-supplied repository name.
func isLexicalNormaliser(name string) bool {
	for _, p := range []string{"path.", "path/filepath.", "net/url.", "strings.Trim", "strings.Replace", "strings.ToLower", "strings.ToUpper", "strings.Title", "strings.Map", "strings.Fields", "strings.Split", "(*strings.Replacer)"} {
		if strings.HasPrefix(name, p) {
			return true
		}
	}
	return false
}

func runC13(c *core.Ctx) {
	ctor := c.P.Func("ocifilter", "Sub")
	if ctor == nil {
		c.Fail("C13.R0", "anchor/ocifilter.Sub", 0, "anchor not found: ocifilter.Sub")
		return
	}
	ts := constructorResultTypes(ctor)
	if len(ts) != 1 {
		c.Fail("C13.R0", "anchor/Sub.result", ctor.Pos(), sprintf("Sub returns %d concrete wrapper types; expected one", len(ts)))
		return
	}
	T := ts[0]
	subConstructorStoresParams(c, "C13.R0")
	listingIteratorsRerunnable(c, "C13.R6", []string{"ocifilter"}, 1)
	knownActionOnlyForKnownScopes(c, "C13.R7")
	c.Note("wrapper type: %s", T)
	// helper roles by signature
	var nameMap, ctxMap *ssa.Function
	ms := c.P.SSA.MethodSets.MethodSet(T)
	strT := types.Typ[types.String]
	for i := 0; i < ms.Len(); i++ {
		sel := ms.At(i)
		if len(sel.Index()) != 1 {
			continue
		}
		sig := sel.Obj().Type().(*types.Signature)
		if sig.Params().Len() != 1 || sig.Results().Len() != 1 {
			continue
		}
		pt, rt := sig.Params().At(0).Type(), sig.Results().At(0).Type()
		switch {
		case types.Identical(pt, strT) && types.Identical(rt, strT):
			nameMap = c.P.SSA.MethodValue(sel)
		case pt.String() == "context.Context" && rt.String() == "context.Context":
			ctxMap = c.P.SSA.MethodValue(sel)
		}
	}
	if nameMap == nil {
		c.Fail("C13.R2", "anchor/nameMap", ctor.Pos(), "the wrapper has no func(string) string method: cannot identify the single name-mapping function")
		return
	}
	if ctxMap == nil {
		c.Fail("C13.R1", "anchor/ctxMap", ctor.Pos(), "the wrapper has no func(context.Context) context.Context method: auth scopes are not rewritten")
	}
	c.Analysed(facts.FuncName(nameMap))

	isMapCall := func(v ssa.Value, mapper *ssa.Function, root *ssa.Function, idx int) bool {
		rv := facts.ResolveFree(resolveUp(v, root, 3))
		// `ctx, repo = r.underlying(ctx, repo)`: one result of a private helper whose
		// single return maps its own parameters; the helper's parameter stands for
		// what this call passes
		if ex, isEx := rv.(*ssa.Extract); isEx && mapper != nil {
			if hc, isCall := ex.Tuple.(*ssa.Call); isCall {
				h := hc.Call.StaticCallee()
				if h != nil && h.Blocks != nil && h != mapper && len(privateCallSites(h)) > 0 {
					rets := returnsOf(h)
					if len(rets) == 1 && ex.Index < len(rets[0].Results) {
						if inner, isIC := facts.Resolve(facts.RetVal(rets[0], ex.Index)).(*ssa.Call); isIC && inner.Call.StaticCallee() == mapper && len(inner.Call.Args) == 2 {
							if q, isP := facts.Resolve(inner.Call.Args[1]).(*ssa.Parameter); isP && q.Parent() == h {
								for qi, hp := range h.Params {
									if hp == q && qi < len(hc.Call.Args) {
										return argIsParam(hc.Call.Args[qi], root, idx)
									}
								}
							}
						}
					}
				}
			}
		}
		call, ok := rv.(*ssa.Call)
		if !ok || mapper == nil || call.Call.StaticCallee() != mapper || len(call.Call.Args) != 2 {
			return false
		}
		return argIsParam(call.Call.Args[1], root, idx)
	}

	for _, m := range ifaceMethods(c) {
		name := m.Name()
		role, reviewed := roles[name]
		if !reviewed {
			c.Fail("C13.R1", "method/"+name, m.Pos(), "unreviewed Interface method "+name)
			continue
		}
		fn := declaredMethod(c, T, name)
		if fn == nil {
			c.Fail("C13.R1", "method/"+name, m.Pos(), "Interface method "+name+" is not declared on the sub-registry wrapper")
			continue
		}
		c.Analysed(facts.FuncName(fn))
		key := "sub." + name
		bcs := backendCallsDeep(fn)
		if len(bcs) == 0 {
			c.Fail("C13.R1", key+"/delegate", fn.Pos(), "no backend call")
			continue
		}
		isRepo := map[int]bool{}
		for _, pi := range role.Repos {
			isRepo[pi] = true
		}
		for _, bc := range bcs {
			cc := bc.Call.Common()
			if bc.Method != name {
				c.Fail("C13.R1", key+"/same-method", bc.Call.Pos(), "calls backend method "+bc.Method)
				continue
			}
			if len(cc.Args) != len(fn.Params)-1 {
				c.Fail("C13.R2", key+"/args", bc.Call.Pos(), "argument count differs from the method's parameters")
				continue
			}
			for j, a := range cc.Args {
				si := j + 1
				pname := fn.Params[si].Name()
				switch {
				case j == 0:
					ok := isMapCall(a, ctxMap, fn, si)
					c.Check(ok, "C13.R1", key+"/ctx", bc.Call.Pos(), "context argument is ctxMap(ctx)", "the backend receives a context whose auth scopes were not rewritten to the prefixed names (context argument is not ctxMap("+pname+"))")
				case isRepo[j]:
					ok := isMapCall(a, nameMap, fn, si)
					c.Check(ok, "C13.R2", key+"/name/"+pname, bc.Call.Pos(), "repository argument is nameMap("+pname+")", "repository argument "+pname+" reaches the backend without going through the name mapping (or mapped from a different parameter): the call can act outside the prefix")
				case role.Cursor == j:
					checkC13Cursor(c, fn, bc, a, si, nameMap, key)
				default:
					ok := argIsParam(a, fn, si)
					c.Check(ok, "C13.R2", key+"/arg/"+pname, bc.Call.Pos(), "passed unchanged", "argument "+pname+" is not passed to the backend unchanged")
				}
			}
			// results: returned unchanged, except the listing which is filtered
			if call, isCall := bc.Call.(*ssa.Call); isCall && (bc.In == fn || bc.In.Parent() == nil) {
				c.Check(resultsReach(fn, call, 2), "C13.R1", key+"/results", bc.Call.Pos(), "results returned unchanged", "results of the backend call are not returned unchanged")
			}
		}
		if name == "Repositories" {
			checkC13Listing(c, fn)
			checkFilterCallbackReturns(c, "C13.R4", "sub.Repositories", fn)
		}
	}
	checkC13NameMap(c, nameMap)
	if ctxMap != nil {
		c.Analysed(facts.FuncName(ctxMap))
		checkC13CtxMap(c, ctxMap, nameMap)
	}
}

// prefixDerived: does the backward slice of v (within the function tree)
// contain a load of a string field of the wrapper receiver, or a nameMap call?
// sliceHasUp is sliceHas that also looks through the parameters of private
// helpers: a parameter counts if EVERY call site of its helper passes a value
// whose slice has pred.
func sliceHasUp(v ssa.Value, pred func(ssa.Value) bool, depth int) bool {
	return sliceHas(v, func(x ssa.Value) bool {
		if pred(x) {
			return true
		}
		p, ok := x.(*ssa.Parameter)
		if !ok || depth <= 0 {
			return false
		}
		h := p.Parent()
		sites := privateCallSites(h)
		if len(sites) == 0 {
			return false
		}
		pi := -1
		for i, q := range h.Params {
			if q == p {
				pi = i
			}
		}
		for _, site := range sites {
			if pi < 0 || pi >= len(site.Common().Args) || !sliceHasUp(site.Common().Args[pi], pred, depth-1) {
				return false
			}
		}
		return true
	})
}

func sliceHas(v ssa.Value, pred func(ssa.Value) bool) bool {
	seen := map[ssa.Value]bool{}
	entered := map[*ssa.Function]*ssa.Call{} // helper -> the call through which the walk entered it
	var walk func(v ssa.Value, d int) bool
	walk = func(v ssa.Value, d int) bool {
		if v == nil || seen[v] || d > 30 {
			return false
		}
		seen[v] = true
		v2 := facts.ResolveFree(v)
		if pred(v2) || pred(v) {
			return true
		}
		switch x := v2.(type) {
		case *ssa.BinOp:
			return walk(x.X, d+1) || walk(x.Y, d+1)
		case *ssa.Phi:
			for _, e := range x.Edges {
				if walk(e, d+1) {
					return true
				}
			}
		case *ssa.Call:
			// a private helper: the slice continues through what it returns (and from
			// there, through its parameters, to the arguments) — not through arguments
			// the helper may ignore
			if h := x.Call.StaticCallee(); h != nil && h.Blocks != nil && len(privateCallSites(h)) > 0 {
				// context-sensitive: inside h, its parameters stand for THIS call's arguments
				key := h
				if o := h.Origin(); o != nil {
					key = o
				}
				prev, had := entered[key]
				entered[key] = x
				hit := false
				for _, r := range returnsOf(h) {
					for i := range r.Results {
						if !hit && walk(facts.RetVal(r, i), d+1) {
							hit = true
						}
					}
				}
				if had {
					entered[key] = prev
				} else {
					delete(entered, key)
				}
				return hit
			}
			for _, a := range x.Call.Args {
				if walk(a, d+1) {
					return true
				}
			}
		case *ssa.Parameter:
			// a parameter of a private helper: the arguments its callers bind to it
			if h := x.Parent(); h.Parent() == nil {
				key := h
				if o := h.Origin(); o != nil {
					key = o
				}
				if call, ok := entered[key]; ok {
					for i, q := range h.Params {
						if q == x && i < len(call.Call.Args) {
							// the visited set is per value: the same parameter may stand for
							// another argument in another context
							delete(seen, v)
							return walk(call.Call.Args[i], d+1)
						}
					}
					return false
				}
				for _, site := range privateCallSites(h) {
					for i, q := range h.Params {
						if q == x && i < len(site.Common().Args) && walk(site.Common().Args[i], d+1) {
							return true
						}
					}
				}
			}
		case *ssa.Extract:
			return walk(x.Tuple, d+1)
		case *ssa.UnOp:
			if x.Op == token.MUL {
				if al, ok := x.X.(*ssa.Alloc); ok {
					for _, st := range facts.StoresTo(al) {
						if walk(st.Val, d+1) {
							return true
						}
					}
				}
				if fv, ok := x.X.(*ssa.FreeVar); ok {
					if b := facts.Binding(fv); b != nil {
						if al, ok := b.(*ssa.Alloc); ok {
							for _, st := range facts.StoresTo(al) {
								if walk(st.Val, d+1) {
									return true
								}
							}
						}
					}
				}
			}
			return walk(x.X, d+1)
		case *ssa.Slice:
			return walk(x.X, d+1)
		case *ssa.Convert:
			return walk(x.X, d+1)
		case *ssa.Alloc:
			for _, st := range facts.StoresTo(x) {
				if walk(st.Val, d+1) {
					return true
				}
			}
			// a strings.Builder / bytes.Buffer: what is written into it
			if ts := x.Type().String(); ts == "*strings.Builder" || ts == "*bytes.Buffer" {
				for _, ref := range *x.Referrers() {
					if call, ok := ref.(*ssa.Call); ok && len(call.Call.Args) > 1 && call.Call.Args[0] == ssa.Value(x) {
						for _, a := range call.Call.Args[1:] {
							if walk(a, d+1) {
								return true
							}
						}
					}
				}
			}
			// array/struct temporaries (variadic argument packing): follow the element stores
			for _, ref := range *x.Referrers() {
				switch ra := ref.(type) {
				case *ssa.IndexAddr:
					for _, st := range facts.StoresTo(ra) {
						if walk(st.Val, d+1) {
							return true
						}
					}
				case *ssa.FieldAddr:
					for _, st := range facts.StoresTo(ra) {
						if walk(st.Val, d+1) {
							return true
						}
					}
				}
			}
		case *ssa.MakeInterface:
			return walk(x.X, d+1)
		case *ssa.Field:
			return walk(x.X, d+1)
		case *ssa.FieldAddr:
			return walk(x.X, d+1)
		case *ssa.ChangeType:
			return walk(x.X, d+1)
		}
		return false
	}
	return walk(v, 0)
}

func isRecvStringField(recv *ssa.Parameter) func(ssa.Value) bool {
	rt := facts.Term(recv)
	return func(v ssa.Value) bool {
		b, _, ok := facts.FieldOf(v)
		if !ok || facts.Term(b) != rt {
			return false
		}
		return isStringy(v.Type())
	}
}

func isStringy(t types.Type) bool {
	if p, ok := t.Underlying().(*types.Pointer); ok {
		t = p.Elem()
	}
	b, ok := t.Underlying().(*types.Basic)
	return ok && b.Info()&types.IsString != 0
}

func checkC13Cursor(c *core.Ctx, fn *ssa.Function, bc backendCall, a ssa.Value, si int, nameMap *ssa.Function, key string) {
	pname := fn.Params[si].Name()
	if argIsParam(a, fn, si) {
		c.Fail("C13.R3", key+"/cursor/"+pname, bc.Call.Pos(), "the caller's start-after cursor "+pname+" (a name in the sub-registry's namespace) is passed to the backend untranslated: listings from a start point are wrong (e.g. backend {a/b,a/c}, Sub(\"a\").Repositories(\"b\") yields nothing)")
		return
	}
	recv := recvOf(fn)
	hasPrefix := sliceHas(a, func(v ssa.Value) bool {
		if isRecvStringField(recv)(v) {
			return true
		}
		if call, ok := v.(*ssa.Call); ok && call.Call.StaticCallee() == nameMap {
			return true
		}
		return false
	})
	hasParam := sliceHas(a, func(v ssa.Value) bool { return argIsParam(v, fn, si) })
	c.Check(hasPrefix && hasParam, "C13.R3", key+"/cursor/"+pname, bc.Call.Pos(), "cursor is derived from the prefix and the caller's cursor", "the backend cursor is not derived from both the wrapper's prefix and the caller's cursor")
}

func checkC13Listing(c *core.Ctx, fn *ssa.Function) {
	recv := recvOf(fn)
	n := 0
	for _, f := range withHelpers(fn) {
		for _, ci := range facts.CallsIn(f) {
			if _, ok := isYieldCall(ci); !ok {
				continue
			}
			args := ci.Common().Args
			if len(args) != 2 {
				continue
			}
			if _, isConst := facts.Strip(args[0]).(*ssa.Const); isConst {
				continue
			}
			n++
			ok := false
			why := "yielded name is not the first result of strings.CutPrefix"
			pfxIs := func(v ssa.Value) bool {
				bo, isBo := facts.ResolveFree(resolveUp(v, fn, 3)).(*ssa.BinOp)
				if !isBo || bo.Op != token.ADD {
					return false
				}
				s, isS := facts.ConstString(bo.Y)
				return isS && strings.HasSuffix(s, "/") && isRecvStringField(recv)(facts.ResolveFree(bo.X))
			}
			// equivalent spelling: strings.HasPrefix(name, p) guarding name[len(p):]
			if sl, isSl := facts.Resolve(args[0]).(*ssa.Slice); isSl && sl.High == nil && sl.Low != nil {
				if _, isParam := facts.ResolveFree(sl.X).(*ssa.Parameter); isParam {
					lowOK, pv := false, ssa.Value(nil)
					if lc, isCall := facts.Resolve(sl.Low).(*ssa.Call); isCall {
						if bi, isB := lc.Call.Value.(*ssa.Builtin); isB && bi.Name() == "len" && pfxIs(lc.Call.Args[0]) {
							lowOK, pv = true, facts.ResolveFree(lc.Call.Args[0])
						}
					}
					guard := false
					for _, cd := range facts.CondsAtDeep(ci.Block()) {
						if call, isCall := cd.V.(*ssa.Call); isCall && cd.Pos && facts.CalleeName(&call.Call) == "strings.HasPrefix" && len(call.Call.Args) == 2 {
							if facts.ResolveFree(call.Call.Args[0]) == facts.ResolveFree(sl.X) && facts.ResolveFree(call.Call.Args[1]) == pv {
								guard = true
							}
						}
					}
					switch {
					case !lowOK:
						why = "the yielded name is not the backend's name with <wrapper prefix> + \"/\" cut off"
					case !guard:
						why = "yield is not dominated by strings.HasPrefix(name, prefix+\"/\")"
					default:
						ok = true
					}
				}
			}
			if ex, isEx := facts.Resolve(args[0]).(*ssa.Extract); isEx && ex.Index == 0 {
				if call, isCall := ex.Tuple.(*ssa.Call); isCall && facts.CalleeName(&call.Call) == "strings.CutPrefix" {
					// arg0 = backend-supplied name (callback parameter)
					_, isParam := facts.ResolveFree(call.Call.Args[0]).(*ssa.Parameter)
					// arg1 = <recv string field> + const ending in "/"
					pfxOK := false
					if bo, isBo := facts.ResolveFree(resolveUp(call.Call.Args[1], fn, 3)).(*ssa.BinOp); isBo && bo.Op == token.ADD {
						if s, isS := facts.ConstString(bo.Y); isS && strings.HasSuffix(s, "/") && isRecvStringField(recv)(facts.ResolveFree(bo.X)) {
							pfxOK = true
						}
					}
					// dominated by ok == true
					guard := false
					for _, cd := range facts.CondsAtDeep(ci.Block()) {
						if e2, isE := cd.V.(*ssa.Extract); isE && e2.Tuple == ex.Tuple && e2.Index == 1 && cd.Pos {
							guard = true
						}
					}
					switch {
					case !isParam:
						why = "CutPrefix is not applied to the backend-supplied name"
					case !pfxOK:
						why = "CutPrefix's prefix is not <wrapper prefix> + \"/\": sibling repositories sharing a textual prefix (foo vs fooey) would leak"
					case !guard:
						why = "yield is not dominated by CutPrefix's ok == true"
					default:
						ok = true
					}
				}
			}
			c.Check(ok, "C13.R4", "sub.Repositories/yield", ci.Pos(), "yields only CutPrefix(name, prefix+\"/\") results under ok", why)
		}
	}
	if n == 0 {
		c.Fail("C13.R4", "sub.Repositories/yield", fn.Pos(), "no item-yielding call found (instance floor)")
	}
}

// checkC13NameMap: the name mapping is "" -> "" and otherwise a pure
// concatenation involving the prefix field and the parameter.
func checkC13NameMap(c *core.Ctx, nm *ssa.Function) {
	key := "sub.nameMap"
	recv := recvOf(nm)
	param := nm.Params[1]
	// forbidden / unknown calls anywhere in the function that consume a value derived from the parameter
	for _, ci := range facts.CallsIn(nm) {
		cc := ci.Common()
		name := facts.CalleeName(cc)
		touches := false
		for _, a := range cc.Args {
			if sliceHas(a, func(v ssa.Value) bool { return v == ssa.Value(param) }) {
				touches = true
			}
		}
		if !touches {
			continue
		}
		switch {
		case isLexicalNormaliser(name):
			// allowed only when dominated by a successful validity check of the parameter
			valid := false
			for _, cd := range facts.CondsAt(ci.Block()) {
				if call, ok := cd.V.(*ssa.Call); ok && cd.Pos && strings.HasSuffix(facts.CalleeName(&call.Call), "ociref.IsValidRepository") && len(call.Call.Args) == 1 && facts.ResolveFree(call.Call.Args[0]) == ssa.Value(param) {
					valid = true
				}
			}
			c.Check(valid, "C13.R2", key+"/no-normaliser/"+name, ci.Pos(), "normaliser applied only to a validated name",
				"the caller-supplied repository name flows through "+name+", which cleans '.' and '..' segments: Sub(r, \"a\").ResolveBlob(ctx, \"../x\", d) reaches repository \"x\" outside the prefix")
		case name == "fmt.Sprintf" || name == "strings.Join" || strings.HasPrefix(name, "(*strings.Builder)") || name == "builtin:len" || name == "builtin:append":
			// pure concatenation helpers
		default:
			c.Undecided("C13.R2", key+"/unknown-call/"+name, ci.Pos(), "the caller-supplied name flows through "+name+", which the rule does not know to be a pure concatenation (failing closed)")
		}
	}
	nret := 0
	for _, r := range returnsOf(nm) {
		if len(r.Results) != 1 {
			continue
		}
		nret++
		v := r.Results[0]
		if s, isS := facts.ConstString(v); isS {
			// a constant result is only acceptable for the empty name
			emptyGuard := false
			for _, cd := range facts.CondsAt(r.Block()) {
				if x, isEmpty, ok := facts.EmptyTest(cd); ok && isEmpty && facts.ResolveFree(x) == ssa.Value(param) {
					emptyGuard = true
				}
			}
			c.Check(s == "" && emptyGuard, "C13.R2", key+"/return-const", r.Pos(), `"" returned only for the empty name`, "nameMap returns a constant for a non-empty name: distinct repositories would be conflated")
			continue
		}
		hasPrefix := sliceHas(v, isRecvStringField(recv))
		hasParam := sliceHas(v, func(x ssa.Value) bool { return x == ssa.Value(param) })
		hasSlash := sliceHas(v, func(x ssa.Value) bool {
			if s, ok := facts.ConstString(x); ok && strings.Contains(s, "/") {
				return true
			}
			k, isK := facts.ConstInt(x) // '/' written with WriteByte / WriteRune
			return isK && k == '/'
		}) ||
			sliceHas(v, func(x ssa.Value) bool {
				call, ok := x.(*ssa.Call)
				return ok && isLexicalNormaliser(facts.CalleeName(&call.Call))
			})
		c.Check(hasPrefix && hasParam && hasSlash, "C13.R2", key+"/return-concat", r.Pos(), "result is built from the prefix, a separator and the name", "nameMap's result is not built from the wrapper's prefix, a \"/\" separator and the caller's name")
	}
	if nret == 0 {
		c.Fail("C13.R2", key+"/return-concat", nm.Pos(), "nameMap has no return (instance floor)")
	}
}

// checkC13CtxMap: R5.
func checkC13CtxMap(c *core.Ctx, cm, nameMap *ssa.Function) {
	key := "sub.ctxMap"
	// (a) a nameMap call whose argument is a load of a field named Resource and whose result is stored back to a Resource field, guarded by ResourceType == TypeRepository.
	rewrote := false
	var rewritePos token.Pos
	for _, f := range withHelpers(cm) {
		for _, ci := range facts.CallsIn(f) {
			call, ok := ci.(*ssa.Call)
			if !ok || call.Call.StaticCallee() != nameMap || len(call.Call.Args) != 2 {
				continue
			}
			_, fld, isField := facts.FieldOf(facts.Resolve(call.Call.Args[1]))
			if !isField || fld != "Resource" {
				continue
			}
			stored := false
			for _, ref := range *call.Referrers() {
				if st, ok := ref.(*ssa.Store); ok {
					if _, f2, ok := facts.FieldOf(st.Addr); ok && f2 == "Resource" {
						stored = true
					}
				}
			}
			guard := false
			for _, cd := range facts.CondsAt(ci.Block()) {
				if x, op, y, ok := facts.Cmp(cd); ok && op == token.EQL {
					_, f3, isF := facts.FieldOf(facts.Resolve(x))
					if s, isS := facts.ConstString(y); isF && f3 == "ResourceType" && isS && s == "repository" {
						guard = true
					}
				}
			}
			if stored && guard {
				rewrote = true
				rewritePos = ci.Pos()
			}
		}
	}
	c.Check(rewrote, "C13.R5", key+"/rewrite", orPos(rewritePos, cm.Pos()), "Resource of repository scopes is rewritten with nameMap", "ctxMap does not rewrite the Resource of repository-typed scopes with nameMap (stored back, under ResourceType == \"repository\")")
	// (a2) must-pass-through: once a scope is known to be repository-typed, every
	// path to the end of the callback passes through the rewriting store — no
	// further condition may exempt a repository scope from the rewrite.
	for _, f := range withHelpers(cm) {
		for _, b := range f.Blocks {
			for idx := range b.Succs {
				isRepoEdge := false
				for _, cd := range facts.EdgeConds(b, idx) {
					if x, op, y, ok := facts.Cmp(cd); ok && op == token.EQL {
						_, f3, isF := facts.FieldOf(facts.Resolve(x))
						if s, isS := facts.ConstString(y); isF && f3 == "ResourceType" && isS && s == "repository" {
							isRepoEdge = true
						}
					}
				}
				if !isRepoEdge {
					continue
				}
				isRewrite := func(in ssa.Instruction) bool {
					st, ok := in.(*ssa.Store)
					if !ok {
						return false
					}
					if _, f2, ok := facts.FieldOf(st.Addr); !ok || f2 != "Resource" {
						return false
					}
					call, ok := facts.Resolve(st.Val).(*ssa.Call)
					return ok && call.Call.StaticCallee() == nameMap
				}
				exit, escapes := facts.ReachesFrom(b.Succs[idx], 0, facts.IsExit, isRewrite, nil)
				pos := b.Instrs[len(b.Instrs)-1].Pos()
				if escapes {
					c.Fail("C13.R5", key+"/rewrite-unconditional", orPos(exit.Pos(), pos), "a repository-typed scope can reach the end of the rewriting callback without its Resource being rewritten (an extra condition exempts some names): the backend sees a scope for a different repository than the one the call acts on")
				} else {
					c.OK("C13.R5", key+"/rewrite-unconditional", pos, "every repository-typed scope passes through the rewrite")
				}
			}
		}
	}
	// (b) every return is the parameter (nothing to rewrite) or ContextWithScope(ctx, NewScope(...)).
	// (a return of a variable that is the parameter on one incoming edge and the
	// rewritten context on the other is judged per edge)
	for _, vr := range virtualReturns(cm) {
		r := vr.Ret
		if len(vr.Vals) != 1 {
			continue
		}
		v := facts.Resolve(vr.Vals[0])
		if argIsParam(v, cm, 1) {
			// allowed only when the scope is empty
			empty := false
			for _, cd := range vr.Conds {
				cd = facts.FlattenOne(cd)
				if call, ok := cd.V.(*ssa.Call); ok && cd.Pos && strings.HasSuffix(facts.CalleeName(&call.Call), "ociauth.Scope).IsEmpty") {
					empty = true
				}
			}
			c.Check(empty, "C13.R5", key+"/return-unchanged", r.Pos(), "context returned unchanged only when it carries no scope", "ctxMap returns the caller's context unchanged on a path where it may carry a scope")
			continue
		}
		ok := false
		if call, isCall := v.(*ssa.Call); isCall && strings.HasSuffix(facts.CalleeName(&call.Call), "ociauth.ContextWithScope") && len(call.Call.Args) == 2 {
			if inner, isCall2 := facts.Resolve(call.Call.Args[1]).(*ssa.Call); isCall2 && strings.HasSuffix(facts.CalleeName(&inner.Call), "ociauth.NewScope") {
				ok = argIsParam(call.Call.Args[0], cm, 1)
			}
		}
		c.Check(ok, "C13.R5", key+"/return-rewritten", r.Pos(), "returns ContextWithScope(ctx, NewScope(rewritten...))", "ctxMap's result is not ContextWithScope(ctx, NewScope(...))")
	}
}

func orPos(a, b token.Pos) token.Pos {
	if a.IsValid() {
		return a
	}
	return b
}
