package props

import (
	"go/token"
	"go/types"

	"golang.org/x/tools/go/ssa"

	"ocivet/internal/core"
	"ocivet/internal/facts"
)

// Rules added after the seventh round of seeded changes (seeded/*-M, *-N).

// pushedBytesReachTheCheckNonNil (C01.R1c; seed C01-N): CheckDescriptor
// verifies digest and size only for non-nil data (nil means "no content given").
// Where the descriptor is the caller's, the bytes handed to it are therefore
// never re-derived through an operation that turns empty content into nil
// (append([]byte(nil), data...) of an empty slice is nil).
func pushedBytesReachTheCheckNonNil(c *core.Ctx, rule string) {
	cd := c.P.Func("ocimem", "CheckDescriptor")
	if cd == nil {
		return
	}
	n := 0
	for _, fn := range c.P.ModuleFunctions("ocimem") {
		for _, ci := range facts.CallsIn(fn) {
			if ci.Common().StaticCallee() != cd || len(ci.Common().Args) != 2 {
				continue
			}
			// only where the descriptor was supplied by the caller of an exported method
			root := outermost(fn)
			descFromCaller := false
			if p, ok := facts.ResolveFree(resolveUp(ci.Common().Args[0], root, 2)).(*ssa.Parameter); ok && p.Parent().Object() != nil && p.Parent().Object().Exported() {
				descFromCaller = true
			}
			if !descFromCaller {
				continue
			}
			n++
			data := facts.Resolve(ci.Common().Args[1])
			bad := false
			if call, ok := data.(*ssa.Call); ok {
				if bi, ok := call.Call.Value.(*ssa.Builtin); ok && bi.Name() == "append" && facts.IsNilConst(facts.Strip(call.Call.Args[0])) {
					bad = true
				}
			}
			c.Check(!bad, rule, fnName(root)+"/checked-bytes-not-nil-for-empty", ci.Pos(), "the bytes handed to CheckDescriptor are the bytes read (non-nil also when empty)", "the content handed to CheckDescriptor is append([]byte(nil), data...), which is nil when the content is empty; CheckDescriptor takes nil to mean \"no content to verify\", so an empty body is accepted under a descriptor that declares a non-empty blob (a retried push with a drained reader stores a 0-byte blob under the wrong digest)")
		}
	}
	if n == 0 {
		c.Note(rule + ": no CheckDescriptor call with a caller-supplied descriptor in ocimem")
	}
}

// negativeMeansToTheEnd (C02.R7 / C01.R9; seed C02-N): in GetBlobRange the
// upper bound o1 is "to the end" only when negative; 0 is a valid bound (the
// empty range). Any test of o1 against 0 is therefore strict: o1 < 0 / o1 >= 0.
func negativeMeansToTheEnd(c *core.Ctx, rule string, rels ...string) {
	n := 0
	for _, rel := range rels {
		for _, fn := range c.P.ModuleFunctions(rel) {
			if fn.Name() != "GetBlobRange" || fn.Signature.Recv() == nil || fn.Parent() != nil || len(fn.Params) != 6 {
				continue
			}
			o1 := fn.Params[5]
			for _, f := range facts.WithAnon(fn) {
				for _, b := range f.Blocks {
					for _, in := range b.Instrs {
						bo, ok := in.(*ssa.BinOp)
						if !ok {
							continue
						}
						x, op, y := bo.X, bo.Op, bo.Y
						if k, isK := facts.ConstInt(x); isK && k == 0 {
							x, y = y, x
							switch op {
							case token.LSS:
								op = token.GTR
							case token.LEQ:
								op = token.GEQ
							case token.GTR:
								op = token.LSS
							case token.GEQ:
								op = token.LEQ
							}
						}
						if k, isK := facts.ConstInt(y); !isK || k != 0 {
							continue
						}
						if facts.ResolveFree(x) != ssa.Value(o1) {
							continue
						}
						n++
						ok2 := op == token.LSS || op == token.GEQ
						c.Check(ok2, rule, fnName(fn)+"/negative-means-to-the-end", bo.Pos(), "o1 is compared with 0 strictly (o1 < 0 means to the end)", "GetBlobRange treats o1 == 0 like a negative bound: the empty range [o0, 0) is answered with the rest of the blob (or, for o0 > 0, with data instead of an error), unlike the other implementations of the interface")
					}
				}
			}
		}
	}
	if n == 0 {
		c.Note(rule + ": no comparison of GetBlobRange's upper bound with 0 found")
	}
}

// unifierResumeComparesMemberSizes (C04.R9 / C15.R8; seeds C04-N, C15-M):
// resuming a unified upload is refused unless both members report the same
// size — a comparison of Size() of the one member's writer with Size() of the
// other's dominates the success return.
func unifierResumeComparesMemberSizes(c *core.Ctx, rule string) {
	var resume *ssa.Function
	for _, fn := range c.P.ModuleFunctions("ociunify") {
		if fn.Name() == "PushBlobChunkedResume" && fn.Signature.Recv() != nil && fn.Parent() == nil && !isInstance(fn) {
			resume = fn
		}
	}
	if resume == nil {
		return
	}
	// the member a Size() call is made on: "r0"/"r1" of the both() results, by the
	// term of the value the writer was taken from
	owner := func(v ssa.Value) string {
		call, ok := facts.Resolve(v).(*ssa.Call)
		if !ok || !call.Call.IsInvoke() || call.Call.Method.Name() != "Size" {
			return ""
		}
		return facts.Term(facts.Resolve(call.Call.Value))
	}
	found := false
	var pos token.Pos
	for _, f := range withHelpers(resume) {
		if f.Parent() != nil {
			continue
		}
		for _, b := range f.Blocks {
			for _, in := range b.Instrs {
				bo, ok := in.(*ssa.BinOp)
				if !ok || (bo.Op != token.NEQ && bo.Op != token.EQL) {
					continue
				}
				a, bb := owner(bo.X), owner(bo.Y)
				if a == "" && bb == "" {
					continue
				}
				pos = bo.Pos()
				// one side may be a variable holding the other member's size
				if a == "" {
					a = owner(facts.Resolve(bo.X))
				}
				if bb == "" {
					bb = owner(facts.Resolve(bo.Y))
				}
				if a != "" && bb != "" && a != bb {
					found = true
				}
			}
		}
	}
	if !found && pos == token.NoPos {
		pos = resume.Pos()
	}
	c.Check(found, rule, "unifier.PushBlobChunkedResume/member-sizes-compared", pos, "the two members' upload sizes are compared before the resumed writer is handed out", "resuming a unified upload does not compare the size reported by the one member's writer with that of the other (the comparison is missing, or compares a member with itself): after one member missed a write the resume is accepted, data lands at the wrong offset on the lagging member, and the members diverge")
}

// mergedListingPlainOnlyWithoutError (C05.R9 / C15.R9; seed C05-N): mergeIter
// returns a plain (error-free) sequence only where both members' errors are
// known to be nil — in particular not on a short cut for "nothing to merge".
func mergedListingPlainOnlyWithoutError(c *core.Ctx, rule string) {
	mi := c.P.Func("ociunify", "mergeIter")
	if mi == nil {
		return
	}
	// the error results of the two All() calls
	var errs []ssa.Value
	for _, ci := range facts.CallsIn(mi) {
		if hasSuffix(facts.CalleeName(ci.Common()), "ociregistry.All") && ci.Value() != nil && ci.Value().Referrers() != nil {
			for _, ref := range *ci.Value().Referrers() {
				if ex, ok := ref.(*ssa.Extract); ok && ex.Index == 1 {
					errs = append(errs, ex)
				}
			}
		}
	}
	if len(errs) < 2 {
		return
	}
	var roots func(v ssa.Value, seen map[ssa.Value]bool, out map[ssa.Value]bool)
	roots = func(v ssa.Value, seen map[ssa.Value]bool, out map[ssa.Value]bool) {
		v = facts.Resolve(resolveUp(v, mi, 3))
		if seen[v] {
			return
		}
		seen[v] = true
		switch x := v.(type) {
		case *ssa.Phi:
			for _, e := range x.Edges {
				roots(e, seen, out)
			}
		case *ssa.UnOp:
			// a variable kept in a cell (captured by the yielding literal): every value stored to it
			if al, ok := x.X.(*ssa.Alloc); ok && x.Op == token.MUL {
				for _, st := range facts.StoresTo(al) {
					roots(st.Val, seen, out)
				}
				return
			}
			out[v] = true
		case *ssa.Extract:
			// a result of a private helper that passes the errors on
			if call, ok := x.Tuple.(*ssa.Call); ok {
				if h := call.Call.StaticCallee(); h != nil && h.Blocks != nil && len(privateCallSites(h)) > 0 {
					for _, r := range returnsOf(h) {
						if x.Index < len(r.Results) {
							rv := facts.RetVal(r, x.Index)
							if p, isP := rv.(*ssa.Parameter); isP {
								for i, q := range h.Params {
									if q == p && i < len(call.Call.Args) {
										roots(call.Call.Args[i], seen, out)
									}
								}
							} else if !facts.IsNilConst(rv) {
								roots(rv, seen, out)
							}
						}
					}
					return
				}
			}
			out[v] = true
		default:
			out[v] = true
		}
	}
	n := 0
	for _, f := range withHelpers(mi) {
		if f.Parent() != nil {
			continue
		}
		for _, r := range returnsOf(f) {
			if len(r.Results) != 1 {
				continue
			}
			call, ok := facts.Resolve(r.Results[0]).(*ssa.Call)
			if !ok || !hasSuffix(facts.CalleeName(&call.Call), "ociregistry.SliceSeq") {
				continue
			}
			if f != mi {
				continue // helpers that build sequences are judged at their use in mergeIter
			}
			n++
			covered := map[ssa.Value]bool{}
			for _, cd := range facts.CondsAt(r.Block()) {
				if x, isNil, okc := facts.NilCheck(cd); okc && isNil {
					roots(x, map[ssa.Value]bool{}, covered)
				}
			}
			ok2 := true
			for _, e := range errs {
				if !covered[e] {
					ok2 = false
				}
			}
			c.Check(ok2, rule, "mergeIter/plain-only-without-error", r.Pos(), "a plain sequence is returned only where both members' errors are known nil", "mergeIter returns an error-free sequence on a path where a member's listing error has not been ruled out (e.g. a short cut taken when both lists are empty): a member that failed before yielding anything makes the unified listing end empty and without an error")
		}
	}
	if n == 0 {
		c.Note(rule + ": mergeIter returns no plain SliceSeq")
	}
}

// undeliveredAnswerIsClosed (C16.R9; seed C16-M): in the goroutine that asks
// one member, every path from the member's answer to the end of the goroutine
// either delivers the answer (the send arm of the select) or closes it.
func undeliveredAnswerIsClosed(c *core.Ctx, rule string) {
	rrc := M.Fn("ociunify.runReadConcurrent")
	if rrc == nil {
		return
	}
	n := 0
	seen := map[*ssa.Function]bool{}
	for _, ci := range facts.CallsIn(rrc) {
		g, ok := ci.(*ssa.Go)
		if !ok {
			continue
		}
		sender, _ := spawnedFunc(g)
		if sender == nil || seen[sender] {
			continue
		}
		seen[sender] = true
		// the member call: a dynamic call of a parameter/captured callback returning the answer
		var ask *ssa.Call
		for _, cj := range facts.CallsIn(sender) {
			call, ok := cj.(*ssa.Call)
			if !ok || call.Call.IsInvoke() || call.Call.StaticCallee() != nil {
				continue
			}
			if _, isB := call.Call.Value.(*ssa.Builtin); isB {
				continue
			}
			if len(call.Call.Args) >= 2 {
				ask = call
			}
		}
		if ask == nil {
			continue
		}
		n++
		var sel *ssa.Select
		for _, b := range sender.Blocks {
			for _, in := range b.Instrs {
				if s, ok := in.(*ssa.Select); ok {
					sel = s
				}
			}
		}
		sendIdx := -1
		var idxV ssa.Value
		if sel != nil {
			for i, st := range sel.States {
				if st.Dir == types.SendOnly {
					sendIdx = i
				}
			}
			for _, ref := range *sel.Referrers() {
				if ex, ok := ref.(*ssa.Extract); ok && ex.Index == 0 {
					idxV = ex
				}
			}
		}
		isRet := func(in ssa.Instruction) bool { _, ok := in.(*ssa.Return); return ok }
		closes := func(in ssa.Instruction) bool {
			cj, ok := in.(ssa.CallInstruction)
			if !ok {
				return false
			}
			cc := cj.Common()
			if cc.IsInvoke() && methName(cc.Method.Name()) == "close" {
				return true
			}
			if sc := cc.StaticCallee(); sc != nil && methName(sc.Name()) == "close" {
				return true
			}
			return false
		}
		// the edge on which the select reports that the answer was sent is a delivery
		edge := func(b *ssa.BasicBlock, idx int) bool {
			for _, cd := range facts.EdgeConds(b, idx) {
				if x, op, y, ok := facts.Cmp(cd); ok && op == token.EQL && idxV != nil && x == idxV {
					if k, isK := facts.ConstInt(y); isK && int(k) == sendIdx {
						return false
					}
				}
			}
			return true
		}
		at, leak := facts.ReachesWithout(ask, isRet, closes, edge)
		pos := ask.Pos()
		if leak && at != nil {
			pos = at.Pos()
		}
		c.Check(!leak, rule, "runReadConcurrent.sender/undelivered-answer-closed", pos, "an answer that is not delivered is closed on every path", "the goroutine that asks a member can end without delivering the member's answer and without closing it (e.g. an early return when the caller's context is already done): a reader opened by a member that answered late is never closed")
	}
	if n == 0 {
		c.Note(rule + ": no member call found in the goroutines of runReadConcurrent")
	}
}

// unsupportedErrorAlwaysWrapped (C20.R5; seed C20-N): every error that the
// function table's fallback builds from ErrUnsupported wraps it (%w), so that
// errors.Is(err, ErrUnsupported) holds and the server answers 400 UNSUPPORTED.
func unsupportedErrorAlwaysWrapped(c *core.Ctx, rule string) {
	fs := c.P.NamedType("", "Funcs")
	if fs == nil {
		return
	}
	ne := declaredMethod(c, types.NewPointer(fs), "newError")
	if ne == nil {
		return
	}
	n := 0
	for _, f := range withHelpers(ne) {
		for _, ci := range facts.CallsIn(f) {
			call, ok := ci.(*ssa.Call)
			if !ok || facts.CalleeName(&call.Call) != "fmt.Errorf" {
				continue
			}
			mentions := false
			sliceHas(call.Call.Args[len(call.Call.Args)-1], func(v ssa.Value) bool {
				if errGlobalOf(v) == "ErrUnsupported" {
					mentions = true
				}
				return false
			})
			if !mentions {
				continue
			}
			n++
			okW := errorfWraps(call, func(a ssa.Value) bool { return errGlobalOf(a) == "ErrUnsupported" })
			c.Check(okW, rule, "Funcs.newError/unsupported-wrapped", call.Pos(), "ErrUnsupported is wrapped with %w", "the fallback error of the function table formats ErrUnsupported with a verb other than %w: errors.Is(err, ErrUnsupported) is false for an unset method, and a server in front of such a registry answers 500 instead of 400 UNSUPPORTED")
		}
	}
	if n == 0 {
		c.Fail(rule, "Funcs.newError/unsupported-wrapped", ne.Pos(), "the fallback of the function table never builds an error from ErrUnsupported")
	}
}
