package props

import (
	"go/token"
	"go/types"
	"sort"
	"strings"

	"golang.org/x/tools/go/callgraph"
	"golang.org/x/tools/go/ssa"

	"ocivet/internal/core"
	"ocivet/internal/facts"
	"ocivet/internal/load"
)

// E5: lockset analysis. Lock identity is type-based ("Registry.mu").

type lockAnalysis struct {
	c    *core.Ctx
	pkgs map[string]bool // package paths whose functions are analysed
	fns  []*ssa.Function
	// heldIn[f]: locks guaranteed held at entry of f (nil = TOP, not yet constrained)
	heldIn map[*ssa.Function]facts.Tokens
	top    map[*ssa.Function]bool
	flows  map[*ssa.Function]map[*ssa.BasicBlock]facts.Tokens
	cg     *callgraph.Graph
	// mutex-bearing struct -> mutex field name
	mutexOf map[string]string
}

func isMutexType(t types.Type) bool {
	s := t.String()
	return s == "sync.Mutex" || s == "sync.RWMutex"
}

func structName(t types.Type) string {
	if p, ok := t.Underlying().(*types.Pointer); ok {
		t = p.Elem()
	}
	if p, ok := t.(*types.Pointer); ok {
		t = p.Elem()
	}
	if n, ok := t.(*types.Named); ok {
		return canonTypeName(n)
	}
	return ""
}

// lockCall: is ci a Lock/Unlock/RLock/RUnlock on a mutex field? returns token and kind.
func lockCall(ci ssa.CallInstruction) (tok string, kind string, ok bool) {
	sc := ci.Common().StaticCallee()
	if sc == nil {
		return "", "", false
	}
	name := sc.String()
	switch name {
	case "(*sync.Mutex).Lock", "(*sync.RWMutex).Lock", "(*sync.RWMutex).RLock":
		kind = "lock"
	case "(*sync.Mutex).Unlock", "(*sync.RWMutex).Unlock", "(*sync.RWMutex).RUnlock":
		kind = "unlock"
	default:
		return "", "", false
	}
	base, fld, isField := facts.FieldOf(ci.Common().Args[0])
	if !isField {
		return "", "", false
	}
	sn := structName(base.Type())
	if sn == "" {
		return "", "", false
	}
	return sn + "." + fld, kind, true
}

func newLockAnalysis(c *core.Ctx, rels ...string) *lockAnalysis {
	la := &lockAnalysis{c: c, pkgs: map[string]bool{}, heldIn: map[*ssa.Function]facts.Tokens{}, top: map[*ssa.Function]bool{}, flows: map[*ssa.Function]map[*ssa.BasicBlock]facts.Tokens{}, mutexOf: map[string]string{}}
	for _, rel := range rels {
		path := load.Mod
		if rel != "" {
			path += "/" + rel
		}
		la.pkgs[path] = true
		la.fns = append(la.fns, c.P.ModuleFunctions(rel)...)
		if tp := c.P.TypesPkg(rel); tp != nil {
			for _, n := range tp.Scope().Names() {
				tn, ok := tp.Scope().Lookup(n).(*types.TypeName)
				if !ok {
					continue
				}
				st, ok := tn.Type().Underlying().(*types.Struct)
				if !ok {
					continue
				}
				for i := 0; i < st.NumFields(); i++ {
					if isMutexType(st.Field(i).Type()) {
						la.mutexOf[tn.Name()] = st.Field(i).Name()
					}
				}
			}
		}
	}
	// drop generic instances: the origin is analysed
	var fns []*ssa.Function
	for _, f := range la.fns {
		fns = append(fns, f)
	}
	la.fns = fns
	la.cg = c.P.CallGraph()
	la.solve()
	return la
}

func (la *lockAnalysis) flowFuncs() facts.FlowFuncs {
	return facts.FlowFuncs{
		Instr: func(in ssa.Instruction, t facts.Tokens) {
			ci, ok := in.(*ssa.Call)
			if !ok {
				return
			}
			if tok, kind, ok := lockCall(ci); ok {
				if kind == "lock" {
					t[tok] = true
				} else {
					delete(t, tok)
				}
			}
		},
	}
}

// heldAt: locks held just before instruction in (intraprocedural part only).
func (la *lockAnalysis) localHeldAt(in ssa.Instruction) facts.Tokens {
	fn := in.Parent()
	fl, ok := la.flows[fn]
	if !ok {
		fl = facts.MustFlow(fn, la.flowFuncs())
		la.flows[fn] = fl
	}
	t := facts.TokensAt(fn, la.flowFuncs(), fl, in)
	if t == nil {
		t = facts.Tokens{}
	}
	return t
}

// HeldAt: locks held at instruction in = entry locks + locally acquired.
func (la *lockAnalysis) HeldAt(in ssa.Instruction) facts.Tokens {
	t := la.localHeldAt(in)
	fn := in.Parent()
	if e := la.heldIn[fn]; e != nil {
		// a lock held at entry stays held unless released locally; conservative:
		// drop entry locks that the function unlocks anywhere.
		unlocked := map[string]bool{}
		for _, ci := range facts.CallsIn(fn) {
			if tok, kind, ok := lockCall(ci); ok && kind == "unlock" {
				unlocked[tok] = true
			}
		}
		for k := range e {
			if !unlocked[k] {
				t[k] = true
			}
		}
	}
	return t
}

func (la *lockAnalysis) inScope(fn *ssa.Function) bool {
	return la.pkgs[load.FuncPkgPath(fn)]
}

// solve computes heldIn by a greatest-fixpoint over the call graph.
func (la *lockAnalysis) solve() {
	// nodes: scope functions plus everything reachable from them (external
	// higher-order functions that call back into scope functions).
	reach := map[*ssa.Function]bool{}
	var work []*ssa.Function
	for _, f := range la.fns {
		reach[f] = true
		work = append(work, f)
	}
	for len(work) > 0 {
		f := work[len(work)-1]
		work = work[:len(work)-1]
		n := la.cg.Nodes[f]
		if n == nil {
			continue
		}
		for _, e := range n.Out {
			cal := e.Callee.Func
			if !reach[cal] && len(reach) < 20000 {
				reach[cal] = true
				work = append(work, cal)
			}
		}
	}
	isRoot := func(f *ssa.Function) bool {
		if !la.inScope(f) {
			return false
		}
		if f.Parent() != nil {
			return false
		}
		if f.Object() != nil && f.Object().Exported() {
			return true
		}
		return false
	}
	for f := range reach {
		if isRoot(f) {
			la.heldIn[f] = facts.Tokens{}
		} else {
			la.top[f] = true
		}
	}
	// greatest fixpoint: nil = TOP; a caller whose entry set is still TOP contributes nothing yet.
	changed := true
	for iter := 0; changed && iter < 100; iter++ {
		changed = false
		for f := range reach {
			if isRoot(f) {
				continue
			}
			n := la.cg.Nodes[f]
			if n == nil {
				continue
			}
			var meet facts.Tokens
			have := false
			for _, e := range n.In {
				caller := e.Caller.Func
				var at facts.Tokens
				switch site := e.Site.(type) {
				case nil:
					at = facts.Tokens{}
				case *ssa.Go:
					at = facts.Tokens{}
				default:
					if !reach[caller] {
						at = facts.Tokens{} // an unanalysed caller holds nothing of ours
						break
					}
					if la.heldIn[caller] == nil {
						continue // TOP
					}
					if d, isDefer := site.(*ssa.Defer); isDefer {
						if la.inScope(caller) {
							at = la.heldWhenDeferredRuns(d)
						} else {
							at = la.heldIn[caller]
						}
					} else if la.inScope(caller) {
						at = la.HeldAt(site)
					} else {
						at = la.heldIn[caller]
					}
				}
				if !have {
					meet = facts.Tokens{}
					for k := range at {
						meet[k] = true
					}
					have = true
				} else {
					for k := range meet {
						if !at[k] {
							delete(meet, k)
						}
					}
				}
			}
			if !have {
				continue
			}
			old := la.heldIn[f]
			if old == nil || len(old) != len(meet) {
				la.heldIn[f] = meet
				changed = true
			}
		}
	}
	// anything still unconstrained (no constrained caller) holds nothing
	for f := range reach {
		if la.heldIn[f] == nil {
			la.heldIn[f] = facts.Tokens{}
		}
	}
}

// MayHeldIn computes, for every scope function, the locks that MAY be held at
// its entry (union over call sites; used for the lock-order graph).
func (la *lockAnalysis) MayHeldIn() map[*ssa.Function]facts.Tokens {
	may := map[*ssa.Function]facts.Tokens{}
	changed := true
	for iter := 0; changed && iter < 50; iter++ {
		changed = false
		for _, n := range la.cg.Nodes {
			caller := n.Func
			if caller == nil {
				continue
			}
			callerIn := may[caller]
			if !la.inScope(caller) {
				// may-held facts are not pushed through external code: VTA/CHA edges
				// out of fmt, io etc. (Error/Write/String invokes) are too imprecise
				continue
			}
			for _, e := range n.Out {
				if _, isGo := e.Site.(*ssa.Go); isGo || e.Site == nil {
					continue
				}
				at := facts.Tokens{}
				if la.inScope(caller) {
					for k := range la.localHeldAt(e.Site) {
						at[k] = true
					}
				}
				for k := range callerIn {
					at[k] = true
				}
				if len(at) == 0 {
					continue
				}
				cal := e.Callee.Func
				if !la.inScope(cal) {
					continue
				}
				if may[cal] == nil {
					may[cal] = facts.Tokens{}
				}
				for k := range at {
					if !may[cal][k] {
						may[cal][k] = true
						changed = true
					}
				}
			}
		}
	}
	return may
}

// heldWhenDeferredRuns: locks still held when the deferred call registered at d runs.
func (la *lockAnalysis) heldWhenDeferredRuns(d *ssa.Defer) facts.Tokens {
	at := la.HeldAt(d)
	out := facts.Tokens{}
	for _, ci := range facts.CallsIn(d.Parent()) {
		dd, ok := ci.(*ssa.Defer)
		if !ok {
			continue
		}
		if tok, kind, ok := lockCall(dd); ok && kind == "unlock" && at[tok] && facts.Dominates(dd, d) {
			out[tok] = true
		}
	}
	return out
}

// ---------------------------------------------------------------- guarded accesses

type guardedAccess struct {
	In    ssa.Instruction
	Lock  string // required lock token
	What  string // e.g. "Registry.repos (map read)"
	Write bool
}

// mutableFields: for struct S, the fields stored to through a pointer that is
// not a freshly allocated literal of the same function (i.e. outside constructors).
func (la *lockAnalysis) mutableFields() map[string]map[string]bool {
	out := map[string]map[string]bool{}
	for _, fn := range la.fns {
		for _, b := range fn.Blocks {
			for _, in := range b.Instrs {
				st, ok := in.(*ssa.Store)
				if !ok {
					continue
				}
				base, fld, isF := facts.FieldOf(st.Addr)
				if !isF {
					continue
				}
				if _, fresh := facts.ResolveFree(base).(*ssa.Alloc); fresh {
					continue
				}
				sn := structName(base.Type())
				if sn == "" {
					continue
				}
				if out[sn] == nil {
					out[sn] = map[string]bool{}
				}
				out[sn][fld] = true
			}
		}
	}
	return out
}

func keys(m map[string]bool) []string {
	var ks []string
	for k := range m {
		ks = append(ks, k)
	}
	sort.Strings(ks)
	return ks
}

func describeTokens(t facts.Tokens) string {
	var ks []string
	for k := range t {
		ks = append(ks, k)
	}
	sort.Strings(ks)
	return "{" + strings.Join(ks, ",") + "}"
}

// isFreshBase: the struct pointer is a literal allocated in this function (constructor access).
func isFreshBase(base ssa.Value) bool {
	switch facts.ResolveFree(base).(type) {
	case *ssa.Alloc:
		return true
	}
	return false
}

var _ = token.MUL
