package props

import (
	"go/token"
	"go/types"
	"sort"
	"strings"

	"golang.org/x/tools/go/ssa"

	"ocivet/internal/bounds"
	"ocivet/internal/core"
	"ocivet/internal/facts"
)

func init() {
	register(&Prop{
		ID:    "C18",
		Title: "HTTP client survives any server response",
		Run:   runC18,
		Explanation: "R1 panic inventory over every function of ociclient (boundary: the http.RoundTripper): each index/slice/string index/type assertion/explicit panic/map store/division/dynamic call/documented-panicking external call/make() size is discharged by the bounds prover or by a machine-checked guard obligation — the page size stored in the client is >= 1 on every path of the only constructor (so a full page is non-empty before its last element is taken), the digest handed to digest.Algorithm()/Hash() is known non-empty and validated on every path to the blob-reader constructors (header digest accepted only under IsValidDigest, known digest of a digest-addressed request that was successfully constructed, digest computed from the body, or a HEAD fallback that requires a digest), the scope switch covers every request kind, request headers come from http.NewRequest, and the size of every make([]T, n, m) is a non-negative constant, a length, a proven len(x)-k, the caller's own argument or bounded by a constant — never a number parsed from a response (field-based flow through struct fields and private helpers); " +
			"R2 loop progress: every loop in the client is a range/counted loop over a finite value, or every cycle passes through a call that consumes a server response (client.do), or strictly shortens a string (the slice's low bound is proven >= 1); " +
			"R3 the status gate: (*http.Client).Do is called only from client.do, whose non-2xx/unexpected statuses become errors, and error bodies are read only through io.LimitReader. " +
			"R1b ociref.IsValidDigest answers true only when go-digest's Parse/Validate reported no error (so validated digests have an available algorithm). " +
			"R6 the same panic inventory over the challenge parser of the authorising transport (challengeFromResponse and the private helpers it reaches), whose input is a Www-Authenticate header chosen by the server; the bounds prover's loop invariants (counted loop: i <= len(s) after `for i < len(s)`; lockstep cursors: j - i never grows when j advances at most as fast as i) discharge the scanner loops and the unescape buffer. R4 the lock-order graph of ociclient is acyclic (no method takes a mutex that may already be held on the way to it). " +
			"R5 in the authorising transport's challenge parser, the buffer that receives the unescaped rest of a quoted string is at least len(s)-1 bytes (an unterminated string with one escape writes exactly that many). " +
			"R7 a private (*T, error) function of ociauth/ociclient whose result is dereferenced unchecked (directly, through a phi, or after being handed up unchanged) never returns a pointer that can be nil with a nil error (the nil constant, or a local pointer variable filled only through its address, e.g. by json.Unmarshal). " +
			"R8 a pointer returned by a fallible call is stored into a receiver field only under err == nil of that call (no nil left behind for the next method to dereference).",
		NotDecided: "the quality/wording of the returned errors is not decided.",
		Technique:  "static analysis: panic-site inventory with a difference-bound prover and guard obligations (disjunctive path facts), natural-loop progress classification",
	})
}

func runC18(c *core.Ctx) {
	m := loadServerModel(c)
	fns := c.P.ModuleFunctions("ociclient")
	total, _ := panicInventory(c, "C18.R1", fns, c18Discharger(c, m))
	if total < 15 {
		c.Fail("C18.R1", "instance-floor", 0, sprintf("only %d panic-capable sites enumerated in ociclient", total))
	}
	c18LoopProgress(c, fns)
	c18StatusGate(c)
	validDigestMeansParseable(c, "C18.R1")
	clientLocksAcyclic(c, "C18.R4")
	unescapeBufferHoldsTheRest(c, "C18.R5")
	pointerResultsNonNilOnSuccess(c, "C18.R7", "ociauth", "ociclient")
	fallibleResultStoredOnlyOnSuccess(c, "C18.R8", "ociclient", "ociauth")
	// R6: the challenge parser of the authorising transport sees a header chosen by the server
	if cfr := c.P.Func("ociauth", "challengeFromResponse"); cfr == nil {
		c.Fail("C18.R6", "anchor/ociauth.challengeFromResponse", 0, "ociauth.challengeFromResponse not found")
	} else {
		afns := []*ssa.Function{cfr}
		for h := range reachHelpers(cfr, 4) {
			if h != cfr {
				afns = append(afns, h)
			}
		}
		sort.Slice(afns, func(i, j int) bool { return afns[i].String() < afns[j].String() })
		total, _ := panicInventory(c, "C18.R6", afns, nil)
		if total < 8 {
			c.Fail("C18.R6", "instance-floor", 0, sprintf("only %d panic-capable sites enumerated in the challenge parser", total))
		}
	}
}

func c18Discharger(c *core.Ctx, m *serverModel) Discharger {
	pageOK, pageWhy := pageSizeAtLeastOne(c)
	digOK, digWhy := digestChain(c)
	weOK, weWhy := wireErrorsNonEmptyGuard(c)
	return func(fn *ssa.Function, s PanicSite) (bool, string) {
		name := roleName(fn)
		switch s.Kind {
		case "panic":
			if strings.HasSuffix(name, "scopeForRequest") {
				if ok, why := switchCoversKinds(fn, m); ok {
					return true, "default arm unreachable: the switch has a case for every declared Kind (" + why + ")"
				} else {
					return false, why
				}
			}
		case "map-store":
			mu := s.In.(*ssa.MapUpdate)
			if _, fld, isF := facts.FieldOf(facts.Resolve(mu.Map)); isF && fld == "Header" {
				fromNew := sliceHas(mu.Map, func(v ssa.Value) bool {
					call, ok := v.(*ssa.Call)
					if !ok {
						return false
					}
					n := facts.CalleeName(&call.Call)
					return strings.HasSuffix(n, "ociclient.newRequest") || strings.HasPrefix(n, "net/http.NewRequest")
				})
				if fromNew {
					return true, "Header map of a request built by http.NewRequest (never nil)"
				}
			}
		case "index":
			if strings.Contains(name, "client).pager") {
				if ia, ok := s.In.(*ssa.IndexAddr); ok {
					if ok2, why := pagerLastIndexGuard(ia, s.In); ok2 {
						if pageOK {
							return true, why + "; " + pageWhy
						}
						return false, pageWhy
					} else {
						return false, why
					}
				}
			}
			if strings.HasSuffix(name, "WireErrors).Error") && weOK {
				return true, weWhy
			}
		case "ext-panic":
			if strings.Contains(s.Expr, "go-digest.Digest).Algorithm") || strings.Contains(s.Expr, "go-digest.Algorithm).Hash") {
				if digOK {
					return true, digWhy
				}
				return false, digWhy
			}
		}
		return false, ""
	}
}

// pagerLastIndexGuard: items[len(items)-1] dominated by len(items) >= initialReq.ListN.
func pagerLastIndexGuard(ia *ssa.IndexAddr, at ssa.Instruction) (bool, string) {
	xs, ok := lastElemOf(&ssa.UnOp{Op: token.MUL, X: ia})
	_ = xs
	// lastElemOf wants the load; rebuild the check directly
	bo, isBo := ia.Index.(*ssa.BinOp)
	if !isBo || bo.Op != token.SUB {
		return false, "the indexed element is not the last one of the page"
	}
	if k, isK := facts.ConstInt(bo.Y); !isK || k != 1 {
		return false, "the indexed element is not the last one of the page"
	}
	_ = ok
	for _, cd := range facts.CondsAt(at.Block()) {
		x, op, y, okc := cmpLenFirst(cd)
		if !okc || op != token.GEQ {
			continue
		}
		lc, isCall := x.(*ssa.Call)
		if !isCall {
			continue
		}
		bi, isB := lc.Call.Value.(*ssa.Builtin)
		if !isB || bi.Name() != "len" || facts.Resolve(lc.Call.Args[0]) != facts.Resolve(ia.X) {
			continue
		}
		if _, fld, isF := facts.FieldOf(facts.Resolve(y)); isF && fld == "ListN" {
			return true, "the index is dominated by len(items) >= request.ListN"
		}
	}
	return false, "the last element of a page is taken without a dominating len(items) >= ListN"
}

// pageSizeAtLeastOne: in the only constructor of the client, listPageSize >= 1 at its store.
func pageSizeAtLeastOne(c *core.Ctx) (bool, string) {
	ctor := c.P.Func("ociclient", "New")
	if ctor == nil {
		return false, "ociclient.New not found"
	}
	// client values are only constructed in New, and listPageSize only stored there
	for _, fn := range c.P.ModuleFunctions("ociclient") {
		for _, b := range fn.Blocks {
			for _, in := range b.Instrs {
				if st, ok := in.(*ssa.Store); ok && outermost(fn) != ctor {
					if _, fld, isF := facts.FieldOf(st.Addr); isF && fld == "listPageSize" {
						return false, "client.listPageSize is assigned outside New (in " + facts.FuncName(fn) + ")"
					}
				}
				if al, ok := in.(*ssa.Alloc); ok && outermost(fn) != ctor && isNamed(al.Type().(*types.Pointer).Elem(), "ociregistry/ociclient", "client") {
					return false, "a client value is constructed outside New (in " + facts.FuncName(fn) + ")"
				}
			}
		}
	}
	isOptField := func(addr ssa.Value) bool {
		_, fld, ok := facts.FieldOf(addr)
		return ok && fld == "ListPageSize"
	}
	ff := facts.FlowFuncs{
		Instr: func(in ssa.Instruction, t facts.Tokens) {
			st, ok := in.(*ssa.Store)
			if !ok {
				return
			}
			if isOptField(st.Addr) {
				if k, isK := facts.ConstInt(st.Val); isK && k >= 1 {
					t["ge1"] = true
				} else {
					delete(t, "ge1")
				}
				return
			}
			// whole-struct assignment of the options copy
			if al, ok := st.Addr.(*ssa.Alloc); ok && strings.HasSuffix(al.Type().String(), "ociclient.Options") {
				delete(t, "ge1")
			}
		},
		Edge: func(b *ssa.BasicBlock, idx int, t facts.Tokens) bool {
			for _, cd := range facts.EdgeConds(b, idx) {
				x, op, y, ok := facts.Cmp(cd)
				if !ok {
					continue
				}
				u, isU := facts.Strip(x).(*ssa.UnOp)
				if !isU || !isOptField(u.X) {
					continue
				}
				k, isK := facts.ConstInt(y)
				if !isK {
					continue
				}
				if (op == token.GTR && k >= 0) || (op == token.GEQ && k >= 1) {
					t["ge1"] = true
				}
			}
			return true
		},
	}
	flow := facts.PathFlow(ctor, ff)
	n := 0
	for _, b := range ctor.Blocks {
		for _, in := range b.Instrs {
			st, ok := in.(*ssa.Store)
			if !ok {
				continue
			}
			if _, fld, isF := facts.FieldOf(st.Addr); !isF || fld != "listPageSize" {
				continue
			}
			n++
			u, isU := facts.Strip(st.Val).(*ssa.UnOp)
			if !isU || !isOptField(u.X) {
				if k, isK := facts.ConstInt(st.Val); isK && k >= 1 {
					continue
				}
				return false, "client.listPageSize is not set from the (defaulted) ListPageSize option"
			}
			if !facts.AllAt(ff, flow, u, func(t facts.Tokens) bool { return t["ge1"] }) {
				c.Fail("C18.R1", "ociclient.New/listPageSize-positive", st.Pos(), "the page size stored in the client can be <= 0 (only some non-positive values are defaulted): with ListPageSize -1 an empty listing page makes the pager index items[-1] and panic")
				return false, "the page size stored in the client can be <= 0"
			}
		}
	}
	if n == 0 {
		return false, "ociclient.New does not set listPageSize"
	}
	c.OK("C18.R1", "ociclient.New/listPageSize-positive", ctor.Pos(), "listPageSize >= 1 on every path of the only constructor")
	return true, "client.listPageSize >= 1 on every path of the only constructor, and every list request's ListN is that field (C03.R1)"
}

// digestChain: the digest given to the blob-reader constructors is non-empty and validated.
func digestChain(c *core.Ctx) (bool, string) {
	dfr := c.P.Func("ociclient", "descriptorFromResponse")
	nbr := c.P.Func("ociclient", "newBlobReader")
	nbu := c.P.Func("ociclient", "newBlobReaderUnverified")
	if dfr == nil || nbr == nil {
		return false, "descriptorFromResponse / newBlobReader not found"
	}
	allOK := true
	fail := func(key string, pos token.Pos, msg string) {
		allOK = false
		c.Fail("C18.R1", key, pos, msg)
	}
	// (1) descriptorFromResponse: a header digest is accepted only under IsValidDigest; with requireDigest an empty digest is an error
	// the header may be read, and validated, in a private helper whose error dfr forwards
	var hdrDigest ssa.Value
	hdrFn := dfr
	for _, f := range withHelpers(dfr) {
		for _, ci := range facts.CallsIn(f) {
			if facts.CalleeName(ci.Common()) == "(net/http.Header).Get" {
				if s, ok := facts.ConstString(ci.Common().Args[1]); ok && s == "Docker-Content-Digest" {
					hdrDigest = ci.Value()
					hdrFn = outermost(f)
				}
			}
		}
	}
	validated, requireChecked := false, false
	if hdrDigest != nil {
		// every way of succeeding has either found the header empty (the known digest
		// is used instead) or seen IsValidDigest(header) answer true
		fromHdr := func(v ssa.Value) bool {
			return sliceHas(v, func(x ssa.Value) bool { return x == hdrDigest })
		}
		ff := facts.FlowFuncs{
			Edge: func(b *ssa.BasicBlock, idx int, t facts.Tokens) bool {
				for _, cd := range facts.EdgeConds(b, idx) {
					if call, ok := cd.V.(*ssa.Call); ok && cd.Pos && strings.HasSuffix(facts.CalleeName(&call.Call), "ociref.IsValidDigest") && fromHdr(call.Call.Args[0]) {
						t["valid"] = true
					}
					if x, isEmpty, ok := facts.EmptyTest(cd); ok && isEmpty && fromHdr(x) {
						t["hdrEmpty"] = true
					}
				}
				return true
			},
		}
		flow := facts.PathFlow(hdrFn, ff)
		validated = true
		nOK := 0
		for _, r := range returnsOf(hdrFn) {
			if !facts.RetErrIsNil(r) {
				continue
			}
			nOK++
			if !facts.AllAt(ff, flow, r, func(t facts.Tokens) bool { return t["valid"] || t["hdrEmpty"] }) {
				validated = false
			}
		}
		if nOK == 0 {
			validated = false
		}
	}
	if validated && hdrFn != dfr {
		// the helper's refusal must be dfr's refusal
		forwarded := false
		for _, r := range returnsOf(dfr) {
			if len(r.Results) == 0 {
				continue
			}
			if ex, ok := facts.RetVal(r, len(r.Results)-1).(*ssa.Extract); ok {
				if call, ok := ex.Tuple.(*ssa.Call); ok && call.Call.StaticCallee() == hdrFn {
					for _, cd := range facts.CondsAt(r.Block()) {
						if x, isNil, ok := facts.NilCheck(cd); ok && !isNil && facts.Resolve(x) == ssa.Value(ex) {
							forwarded = true
						}
					}
				}
			}
		}
		validated = forwarded
	}
	for _, r := range returnsOf(dfr) {
		if facts.RetErrIsNil(r) {
			continue
		}
		for _, cd := range facts.CondsAt(r.Block()) {
			// require&requireDigest != 0, or == requireDigest
			if x, op, y, ok := facts.Cmp(cd); ok && (op == token.NEQ || op == token.EQL) {
				if bo, isBo := x.(*ssa.BinOp); isBo && bo.Op == token.AND {
					if k, isK := facts.ConstInt(bo.Y); isK && k == 2 {
						rhs, isR := facts.ConstInt(y)
						if (op == token.NEQ && isR && rhs == 0) || (op == token.EQL && isR && rhs == 2) {
							requireChecked = true
						}
					}
				}
			}
		}
	}
	if !validated {
		fail("descriptorFromResponse/header-digest-validated", dfr.Pos(), "descriptorFromResponse accepts the Docker-Content-Digest header without rejecting values that fail ociref.IsValidDigest: a malformed digest reaches digest.Algorithm() and panics")
	}
	if !requireChecked {
		fail("descriptorFromResponse/require-digest", dfr.Pos(), "descriptorFromResponse no longer fails when a digest is required but absent")
	}
	// value classification, looking through same-package helpers whose every
	// success return yields a known descriptor / digest
	var descKnownCall func(call *ssa.Call, idx int, d int) bool
	var digestKnown func(v ssa.Value, d int) bool
	helperRet := func(call *ssa.Call, idx int, d int, known func(v ssa.Value, d int) bool) bool {
		h := call.Call.StaticCallee()
		if h == nil || h.Blocks == nil || h.Pkg != dfr.Pkg || d <= 0 {
			return false
		}
		n := 0
		for _, r := range returnsOf(h) {
			if len(r.Results) <= idx {
				return false
			}
			if last := r.Results[len(r.Results)-1]; last.Type().String() == "error" && !facts.RetErrIsNil(r) {
				ev := facts.RetVal(r, len(r.Results)-1)
				forwarded := false
				if e1, ok := ev.(*ssa.Extract); ok {
					if e0, ok := facts.RetVal(r, idx).(*ssa.Extract); ok && e0.Tuple == e1.Tuple {
						forwarded = true // `return f(...)`: classified by f's own success value
					}
				}
				if !forwarded && facts.ProvablyNonNil(ev, r.Block()) {
					continue // an error return: the value is not used by the caller
				}
			}
			n++
			if !known(facts.RetVal(r, idx), d-1) {
				return false
			}
		}
		if n > 0 {
			c.Analysed(facts.FuncName(h))
		}
		return n > 0
	}
	descKnown := func(v ssa.Value, d int) bool {
		ex, ok := v.(*ssa.Extract)
		if !ok {
			return false
		}
		call, ok := ex.Tuple.(*ssa.Call)
		return ok && descKnownCall(call, ex.Index, d)
	}
	descKnownCall = func(call *ssa.Call, idx int, d int) bool {
		if call.Call.StaticCallee() == dfr {
			if idx != 0 {
				return false
			}
			if k, isK := facts.ConstInt(call.Call.Args[2]); isK && k&2 != 0 {
				return true
			}
			return knownDigestValidated(call.Call.Args[1], call)
		}
		return helperRet(call, idx, d, descKnown)
	}
	digestKnown = func(v ssa.Value, d int) bool {
		v = facts.Resolve(v)
		switch x := v.(type) {
		case *ssa.Call:
			if strings.HasSuffix(facts.CalleeName(&x.Call), "go-digest.FromBytes") {
				return true
			}
			return x.Call.Signature().Results().Len() == 1 && helperRet(x, 0, d, digestKnown)
		case *ssa.Extract:
			if call, ok := x.Tuple.(*ssa.Call); ok {
				return helperRet(call, x.Index, d, digestKnown)
			}
		}
		return false
	}
	// (2) every call of the constructors
	n := 0
	for _, fn := range c.P.ModuleFunctions("ociclient") {
		for _, ci := range facts.CallsIn(fn) {
			sc := ci.Common().StaticCallee()
			if sc == nil || (sc != nbr && sc != nbu) || fn == nbu {
				continue
			}
			n++
			descArg := ci.Common().Args[1]
			u, isU := facts.Strip(descArg).(*ssa.UnOp)
			var cell *ssa.Alloc
			if isU {
				cell, _ = u.X.(*ssa.Alloc)
			}
			if cell == nil {
				// a descriptor used straight from descriptorFromResponse
				okDirect := descKnown(facts.Resolve(descArg), 2)
				if okDirect {
					c.OK("C18.R1", facts.FuncName(fn)+"/digest-known", ci.Pos(), "the descriptor comes from a response for which the digest is required or is the validated digest of the request")
				} else {
					fail(facts.FuncName(fn)+"/digest-known", ci.Pos(), "a blob reader is constructed from a descriptor whose digest may be empty or unvalidated: digest.Algorithm() panics")
				}
				continue
			}
			isDescDigest := func(addr ssa.Value) bool {
				fa, ok := addr.(*ssa.FieldAddr)
				if !ok || fa.X != ssa.Value(cell) {
					return false
				}
				_, fld, _ := facts.FieldOf(fa)
				return fld == "Digest"
			}
			ff := facts.FlowFuncs{
				Instr: func(in ssa.Instruction, t facts.Tokens) {
					st, ok := in.(*ssa.Store)
					if !ok {
						return
					}
					if st.Addr == ssa.Value(cell) {
						delete(t, "known")
						if descKnown(st.Val, 2) {
							t["known"] = true
						}
						return
					}
					if isDescDigest(st.Addr) {
						if digestKnown(st.Val, 2) {
							t["known"] = true
						} else {
							delete(t, "known")
						}
					}
				},
				Edge: func(b *ssa.BasicBlock, idx int, t facts.Tokens) bool {
					for _, cd := range facts.EdgeConds(b, idx) {
						x, op, y, ok := facts.Cmp(cd)
						if !ok {
							continue
						}
						ux, isU := facts.Strip(x).(*ssa.UnOp)
						if !isU || !isDescDigest(ux.X) {
							continue
						}
						if s, isS := facts.ConstString(y); isS && s == "" && op == token.NEQ {
							t["known"] = true
						}
					}
					return true
				},
			}
			flow := facts.PathFlow(fn, ff)
			if !facts.AllAt(ff, flow, ci, func(t facts.Tokens) bool { return t["known"] }) {
				fail(facts.FuncName(fn)+"/digest-known", ci.Pos(), "a blob reader is constructed on a path where the descriptor's digest may be empty or unvalidated (not a validated header digest, not the known digest of a digest-addressed request, not computed from the body, and not obtained from a response for which a digest was required): digest.Algorithm() panics with `no ':' separator in digest \"\"`")
			} else {
				c.OK("C18.R1", facts.FuncName(fn)+"/digest-known", ci.Pos(), "the descriptor's digest is non-empty and validated on every path to the blob reader constructor")
			}
		}
	}
	if n < 2 {
		fail("blob-reader-constructions/instance-floor", 0, sprintf("only %d blob reader constructions found", n))
	}
	// (3) the reader's descriptor is never reassigned
	for _, fn := range c.P.ModuleFunctions("ociclient") {
		if fn == nbr || (nbu != nil && fn == nbu) {
			continue
		}
		for _, b := range fn.Blocks {
			for _, in := range b.Instrs {
				if st, ok := in.(*ssa.Store); ok {
					if base, fld, isF := facts.FieldOf(st.Addr); isF && fld == "desc" && structName(base.Type()) == "blobReader" {
						fail(facts.FuncName(fn)+"/reader-desc-reassigned", st.Pos(), "blobReader.desc is assigned outside its constructor")
					}
				}
			}
		}
	}
	if !allOK {
		return false, "the validated-digest chain in front of digest.Algorithm()/Hash() is broken (see the digest-known / descriptorFromResponse obligations)"
	}
	return true, "the digest is non-empty and validated on every path to the blob reader constructors (header digest under IsValidDigest, known digest of a constructed digest-addressed request, digest of the body, or required from the HEAD fallback)"
}

// knownDigestValidated: the knownDigest argument is the Digest of a digest-addressed
// request literal for which request construction succeeded before the call.
func knownDigestValidated(arg ssa.Value, at ssa.Instruction) bool {
	b, fld, ok := facts.FieldOf(facts.Resolve(arg))
	if !ok || fld != "Digest" {
		// not read back from the request: the very value the request literal was
		// built from (`Digest: string(d)` … `descriptorFromResponse(resp, d, …)`)
		unconv := func(v ssa.Value) ssa.Value {
			for i := 0; i < 6; i++ {
				v = facts.Resolve(v)
				switch x := v.(type) {
				case *ssa.ChangeType:
					v = x.X
				case *ssa.Convert:
					v = x.X
				default:
					return v
				}
			}
			return v
		}
		want := unconv(arg)
		for _, blk := range at.Parent().Blocks {
			for _, in := range blk.Instrs {
				al, isAl := in.(*ssa.Alloc)
				if !isAl {
					continue
				}
				pt, isP := al.Type().(*types.Pointer)
				if !isP || !isNamed(pt.Elem(), "internal/ocirequest", "Request") {
					continue
				}
				if dv, has := blobLiteralFieldOf(al, "Digest"); has && unconv(dv) == want {
					if validatedRequestLiteral(al, al, at, nil) {
						return true
					}
				}
			}
		}
		return false
	}
	var reqV ssa.Value = facts.Resolve(b)
	var ctorCall *ssa.Call
	al, ok := reqV.(*ssa.Alloc)
	if !ok {
		// the request literal is built by a small private constructor (`blobGetRequest(repo, digest)`)
		call, isCall := reqV.(*ssa.Call)
		if !isCall {
			return false
		}
		h := call.Call.StaticCallee()
		if h == nil || h.Blocks == nil || len(privateCallSites(h)) == 0 {
			return false
		}
		rets := returnsOf(h)
		if len(rets) != 1 || len(rets[0].Results) != 1 {
			return false
		}
		al, ok = facts.Resolve(rets[0].Results[0]).(*ssa.Alloc)
		if !ok {
			return false
		}
		ctorCall = call
	}
	return validatedRequestLiteral(al, reqV, at, ctorCall)
}

// validatedRequestLiteral: the request literal al (seen by its users as reqV)
// is of a kind whose URL needs a valid digest, and its successful
// construction dominates at.
func validatedRequestLiteral(al *ssa.Alloc, reqV ssa.Value, at ssa.Instruction, ctorCall *ssa.Call) bool {
	kv, has := blobLiteralFieldOf(al, "Kind")
	if !has {
		return false
	}
	// `digestRequest(ocirequest.ReqBlobGet, repo, d)`: the kind is what this call passes
	if p, isP := kv.(*ssa.Parameter); isP && ctorCall != nil {
		for i, q := range p.Parent().Params {
			if q == p && i < len(ctorCall.Call.Args) {
				kv = ctorCall.Call.Args[i]
			}
		}
	}
	kinds, _ := loadKindsFromValue(kv)
	if !kinds {
		return false
	}
	// a successful construction of that request dominates
	fn := at.Parent()
	for _, ci := range facts.CallsIn(fn) {
		n := facts.CalleeName(ci.Common())
		if !(strings.HasSuffix(n, "ociclient.newRequest") || strings.HasSuffix(n, "client).doRequest")) {
			continue
		}
		uses := false
		for _, a := range ci.Common().Args {
			if facts.Resolve(a) == reqV {
				uses = true
			}
		}
		if !uses || !facts.Dominates(ci, at) {
			continue
		}
		for _, cd := range facts.CondsAt(at.Block()) {
			if x, isNil, ok := facts.NilCheck(cd); ok && isNil {
				if ex, ok := facts.Resolve(x).(*ssa.Extract); ok && ex.Tuple == ci.Value() {
					return true
				}
			}
		}
	}
	return false
}

// loadKindsFromValue: the Kind constant is one whose URL form requires a valid digest.
func loadKindsFromValue(v ssa.Value) (bool, int64) {
	k, ok := facts.ConstInt(v)
	if !ok {
		return false, 0
	}
	// ReqBlobGet, ReqBlobHead, ReqBlobDelete are 1,2,3 by declaration order; resolve by name to be safe
	cst, isC := v.(*ssa.Const)
	if !isC {
		return false, 0
	}
	nt, isN := cst.Type().(*types.Named)
	if !isN {
		return false, 0
	}
	scope := nt.Obj().Pkg().Scope()
	for _, name := range []string{"ReqBlobGet", "ReqBlobHead", "ReqBlobDelete", "ReqReferrersList"} {
		if o, ok := scope.Lookup(name).(*types.Const); ok {
			if kv, ok := facts.ConstIntOf(o.Val()); ok && kv == k {
				return true, k
			}
		}
	}
	return false, k
}

// ---------------------------------------------------------------- R2 loops

func c18LoopProgress(c *core.Ctx, fns []*ssa.Function) {
	n := 0
	for _, fn := range fns {
		if isInstance(fn) {
			continue
		}
		for _, b := range fn.Blocks {
			for _, s := range b.Succs {
				if !(s.Dominates(b)) {
					continue // not a back edge
				}
				header := s
				n++
				key := facts.FuncName(fn) + sprintf("/loop@b%d", header.Index)
				why, ok := loopMakesProgress(fn, header, b)
				c.Check(ok, "C18.R2", key, header.Instrs[0].Pos(), why, "a loop in the client has no recognised progress argument ("+why+"): with finite server answers it can spin without progress")
				c.Analysed(facts.FuncName(fn))
			}
		}
	}
	if n < 3 {
		c.Fail("C18.R2", "loops/instance-floor", 0, sprintf("only %d loops found in ociclient", n))
	}
}

func inLoop(header, tail, b *ssa.BasicBlock) bool {
	// blocks dominated by header from which tail is reachable: approximate by dominance + index range
	return header.Dominates(b)
}

func loopMakesProgress(fn *ssa.Function, header, tail *ssa.BasicBlock) (string, bool) {
	// (a) range loops: a Next instruction, or a counted index phi compared with a length/constant
	for _, in := range header.Instrs {
		if _, ok := in.(*ssa.Next); ok {
			return "range over a map/string (finite)", true
		}
	}
	for _, in := range header.Instrs {
		ph, ok := in.(*ssa.Phi)
		if !ok || !isIntType(ph.Type()) {
			continue
		}
		inc := false
		for _, e := range ph.Edges {
			if bo, ok := e.(*ssa.BinOp); ok && bo.Op == token.ADD && bo.X == ssa.Value(ph) {
				if k, isK := facts.ConstInt(bo.Y); isK && k >= 1 {
					inc = true
				}
			}
		}
		if !inc {
			continue
		}
		// compared with a bound in the header (or its single successor chain)
		for _, ref := range *ph.Referrers() {
			if bo, ok := ref.(*ssa.BinOp); ok && (bo.Op == token.LSS || bo.Op == token.LEQ) && bo.X == ssa.Value(ph) {
				return "counted loop with a strictly increasing index tested against a bound", true
			}
		}
		// go/ssa range-over-slice form: the increment is tested
		for _, e := range ph.Edges {
			if bo, ok := e.(*ssa.BinOp); ok && bo.Op == token.ADD {
				for _, ref := range *bo.Referrers() {
					if cmp, ok := ref.(*ssa.BinOp); ok && cmp.Op == token.LSS && cmp.X == ssa.Value(bo) {
						return "range over a slice (index tested against its length)", true
					}
				}
			}
		}
	}
	// (b) every cycle passes through a response-consuming call
	isHeaderStart := func(in ssa.Instruction) bool { return in == header.Instrs[0] }
	consumes := func(in ssa.Instruction) bool { return consumesResponse(in, 2) }
	if _, free := facts.ReachesFrom(header, 1, isHeaderStart, consumes, nil); !free {
		// also the first instruction itself may be the consuming call; fine
		return "every iteration consumes one server response (client.do)", true
	}
	// (c) string shortening: a loop-carried string phi whose back-edge value is s[low:] with low >= 1 proven
	for _, in := range header.Instrs {
		ph, ok := in.(*ssa.Phi)
		if !ok {
			continue
		}
		if b, ok := ph.Type().Underlying().(*types.Basic); !ok || b.Info()&types.IsString == 0 {
			continue
		}
		all := true
		found := false
		for i, e := range ph.Edges {
			pred := header.Preds[i]
			if !header.Dominates(pred) {
				continue // entry edge
			}
			found = true
			sl, ok := e.(*ssa.Slice)
			if !ok || facts.Resolve(sl.X) != ssa.Value(ph) || sl.Low == nil {
				all = false
				continue
			}
			pv := bounds.New(fn)
			if ok2, _ := pv.LowAtLeastOne(sl); !ok2 {
				all = false
			}
		}
		if found && all {
			return "each iteration strictly shortens the scanned string (slice low bound proven >= 1)", true
		}
		if found {
			return "the scanned string is not provably shortened on every iteration (low bound of the re-slice may be 0)", false
		}
	}
	return "no finite range, no response consumed per iteration, no strictly shrinking string", false
}

// ---------------------------------------------------------------- R3

func c18StatusGate(c *core.Ctx) {
	n := 0
	for _, fn := range c.P.ModuleFunctions("ociclient") {
		for _, ci := range facts.CallsIn(fn) {
			if facts.CalleeName(ci.Common()) == "(*net/http.Client).Do" {
				n++
				c.Check(fnName(fn) == "do" && fn.Parent() == nil, "C18.R3", facts.FuncName(fn)+"/http-do-only-in-gate", ci.Pos(), "HTTP requests are sent only by client.do (the status gate)", "an HTTP request is sent outside client.do: its response bypasses the status gate")
			}
		}
	}
	if n == 0 {
		c.Fail("C18.R3", "http-do/instance-floor", 0, "no (*http.Client).Do call found in ociclient")
	}
	// client.do: a response is returned only for accepted statuses
	cl := c.P.NamedType("ociclient", "client")
	if cl != nil {
		if do := c.P.Method(types.NewPointer(cl), "do"); do != nil {
			c.Analysed(facts.FuncName(do))
			for _, r := range returnsOf(do) {
				if !facts.RetErrIsNil(r) {
					continue
				}
				gated := false
				for _, cd := range facts.CondsAt(r.Block()) {
					if x, op, _, ok := facts.Cmp(cd); ok && op == token.EQL {
						if _, fld, isF := facts.FieldOf(facts.Resolve(x)); isF && fld == "StatusCode" {
							gated = true
						}
					}
					// a boolean accumulated over the accepted statuses (`expected = expected || status == s`)
					if cd.Pos && trueImpliesStatusEq(cd.V, 4, map[ssa.Value]bool{}) {
						gated = true
					}
					// slices.Contains(<accepted statuses>, resp.StatusCode) holds
					if call, isCall := cd.V.(*ssa.Call); isCall && cd.Pos && facts.CalleeName(&call.Call) == "slices.Contains" && len(call.Call.Args) == 2 {
						if _, fld, isF := facts.FieldOf(facts.Resolve(call.Call.Args[1])); isF && fld == "StatusCode" {
							gated = true
						}
					}
					// a same-package predicate over the status holds, and it answers
					// true only under an equality test of that status
					if call, isCall := cd.V.(*ssa.Call); isCall && cd.Pos {
						if h := call.Call.StaticCallee(); h != nil && h.Pkg == do.Pkg && h.Blocks != nil {
							for i, a := range call.Call.Args {
								if _, fld, isF := facts.FieldOf(facts.Resolve(a)); isF && fld == "StatusCode" && trueOnlyUnderEquality(h, i) {
									c.Analysed(facts.FuncName(h))
									gated = true
								}
							}
						}
					}
				}
				c.Check(gated, "C18.R3", "client.do/status-gate", r.Pos(), "a response is returned only under an explicit status equality", "client.do returns a response as success on a path where its status was not compared with an accepted status")
			}
		}
	}
	// error bodies through LimitReader
	me := c.P.Func("ociclient", "makeError")
	if me == nil {
		c.Fail("C18.R3", "anchor/makeError", 0, "ociclient.makeError not found")
		return
	}
	c.Analysed("ociclient.makeError")
	for _, ci := range facts.CallsIn(me) {
		if facts.CalleeName(ci.Common()) != "io.ReadAll" {
			continue
		}
		lim := false
		if call, ok := facts.Resolve(ci.Common().Args[0]).(*ssa.Call); ok && facts.CalleeName(&call.Call) == "io.LimitReader" {
			lim = true
		}
		c.Check(lim, "C18.R3", "makeError/limited-body", ci.Pos(), "error bodies are read through io.LimitReader", "an error response body is read without a size limit: a huge body is buffered entirely")
	}
}

// trueOnlyUnderEquality: every return of the bool predicate h that can be true
// is under (or is) an equality test of parameter pi.
func trueOnlyUnderEquality(h *ssa.Function, pi int) bool {
	if pi >= len(h.Params) || h.Signature.Results().Len() != 1 {
		return false
	}
	isEq := func(cd facts.Cond) bool {
		if x, op, y, ok := facts.Cmp(cd); ok && op == token.EQL {
			return argIsParam(x, h, pi) || argIsParam(y, h, pi)
		}
		if call, ok := cd.V.(*ssa.Call); ok && cd.Pos && facts.CalleeName(&call.Call) == "slices.Contains" && len(call.Call.Args) == 2 {
			return argIsParam(call.Call.Args[1], h, pi)
		}
		return false
	}
	n := 0
	for _, r := range returnsOf(h) {
		type cand struct {
			v  ssa.Value
			at *ssa.BasicBlock
		}
		var cands []cand
		if ph, ok := r.Results[0].(*ssa.Phi); ok {
			for i, e := range ph.Edges {
				cands = append(cands, cand{facts.Resolve(e), ph.Block().Preds[i]})
			}
		} else {
			cands = append(cands, cand{facts.RetVal(r, 0), r.Block()})
		}
		for _, cd0 := range cands {
			if cst, ok := cd0.v.(*ssa.Const); ok && cst.Value != nil && cst.Value.ExactString() == "false" {
				continue
			}
			n++
			ok := false
			for _, cd := range append(append([]facts.Cond{}, facts.CondsAt(cd0.at)...), facts.Cond{V: cd0.v, Pos: true}) {
				if isEq(cd) {
					ok = true
				}
			}
			if !ok {
				return false
			}
		}
	}
	return n > 0
}

// trueImpliesStatusEq: the boolean v can be true only if some equality test of
// the response's StatusCode held: v is such a test, or a phi each of whose
// incoming values is false, such a value, or `true` from a block under such a test.
func trueImpliesStatusEq(v ssa.Value, depth int, seen map[ssa.Value]bool) bool {
	if depth < 0 {
		return false
	}
	if seen[v] {
		return true // a loop-carried value: judged by its other incoming values
	}
	seen[v] = true
	switch x := v.(type) {
	case *ssa.BinOp:
		if x.Op != token.EQL {
			return false
		}
		for _, o := range []ssa.Value{x.X, x.Y} {
			if _, fld, isF := facts.FieldOf(facts.Resolve(o)); isF && fld == "StatusCode" {
				return true
			}
		}
		return false
	case *ssa.Phi:
		for i, e := range x.Edges {
			if cst, isC := e.(*ssa.Const); isC && cst.Value != nil {
				if cst.Value.ExactString() == "false" {
					continue
				}
				ok := false
				for _, cd := range facts.CondsAt(x.Block().Preds[i]) {
					if cd.Pos && trueImpliesStatusEq(cd.V, depth-1, seen) {
						ok = true
					}
				}
				if !ok {
					return false
				}
				continue
			}
			if !trueImpliesStatusEq(e, depth-1, seen) {
				return false
			}
		}
		return len(x.Edges) > 0
	}
	return false
}

// consumesResponse: in is a call of client.do / doRequest / http.Client.Do, or
// of a private helper of the module every one of whose returns lies behind
// such a call (so calling it consumes one server response).
func consumesResponse(in ssa.Instruction, depth int) bool {
	ci, ok := in.(ssa.CallInstruction)
	if !ok {
		return false
	}
	n := facts.CalleeName(ci.Common())
	if strings.HasSuffix(n, "ociclient.client).do") || strings.HasSuffix(n, "ociclient.client).doRequest") || strings.HasSuffix(n, "http.Client).Do") {
		return true
	}
	h := ci.Common().StaticCallee()
	if h == nil || depth <= 0 || h.Blocks == nil || len(privateCallSites(h)) == 0 {
		return false
	}
	isRet := func(x ssa.Instruction) bool { _, ok := x.(*ssa.Return); return ok }
	inner := func(x ssa.Instruction) bool { return consumesResponse(x, depth-1) }
	if len(h.Blocks[0].Instrs) > 0 && inner(h.Blocks[0].Instrs[0]) {
		return true
	}
	_, free := facts.ReachesFrom(h.Blocks[0], 0, isRet, inner, nil)
	return !free
}
