package props

import (
	"go/token"
	"go/types"
	"strings"

	"golang.org/x/tools/go/ssa"

	"ocivet/internal/core"
	"ocivet/internal/facts"
	"ocivet/internal/load"
)

func init() {
	register(&Prop{
		ID:    "C11",
		Title: "Credentials stay confined and the auth flow is bounded and non-intrusive",
		Run:   runC11,
		Explanation: "R1-R5 confinement (source -> sink): every load of the configured password/username reaches only (*http.Request).SetBasicAuth; every load of the refresh token reaches only url.Values.Set(\"refresh_token\", .) (or an emptiness test, or is refreshed from a token response); access-token strings reach only Header.Set(\"Authorization\", \"Bearer \"+.) or the token cache; none of them reaches fmt/log/errors; SetBasicAuth on the registry request is dominated by 'a challenge has been seen' and 'its scheme is not bearer', hence never on a first unauthenticated request; SetBasicAuth and the refresh-token POST on a token request go to a URL derived from the challenge's realm parameter of the same per-host object; " +
			"R6 host keying: per-host state is looked up, created and stored under req.URL.Host; " +
			"R7 the caller's request is unmodified: the *http.Request parameter of RoundTrip is only read and cloned, every mutation and every forward uses the clone; " +
			"R8 the request body is closed on every path: the deferred body-close is registered before any return of RoundTrip and is disarmed only after a forward to the underlying transport (which then owns closing); " +
			"R9 at most two attempts: forwards to the underlying transport are not on a CFG cycle and no path contains more than two; " +
			"R10 a 401 answered to a freshly issued token is surfaced as 403: after the second forward the response is returned as-is only under status != 401 or no token was acquired, otherwise its status is set to 403. " +
			"R4b challengeFromResponse adopts a parsed header only on paths where its scheme is basic or bearer. " +
			"R4c the remembered per-host challenge is only ever a challenge parsed from a response; R11 (as C07.R8) returned responses still have their body. " +
			"R12 challenge parameters are stored under lower-cased names. " +
			"R13 after RoundTrip re-opened the request body (GetBody) every path to a return forwards the request or closes the body.",
		NotDecided: "correctness of the challenge parser on arbitrary header text, and the redirect behaviour of net/http's client for token requests (assumed not to forward Authorization across hosts), are not decided.",
		Technique:  "static analysis: source-to-sink confinement on SSA def-use chains, dominance guards, CFG cycle/count analysis",
	})
}

func runC11(c *core.Ctx) {
	st := c.P.NamedType("ociauth", "stdTransport")
	if st == nil {
		c.Fail("C11.R0", "anchor/ociauth.stdTransport", 0, "ociauth.stdTransport not found")
		return
	}
	rt := c.P.Method(types.NewPointer(st), "RoundTrip")
	if rt == nil {
		c.Fail("C11.R0", "anchor/stdTransport.RoundTrip", 0, "stdTransport.RoundTrip not found")
		return
	}
	c11Confinement(c)
	challengeSchemesFiltered(c, "C11.R4")
	challengeStateIsAParsedChallenge(c, "C11.R4")
	challengeParamsKeyedLowerCase(c, "C11.R12")
	returnedResponseBodyOpen(c, "C11.R11")
	hostKeying(c, "C11.R6")
	c11RequestUnmodified(c, rt)
	rewoundBodyIsForwardedOrClosed(c, "C11.R13", rt)
	c11BodyClosed(c, rt)
	c11Attempts(c, rt)
}

// usesOf follows the def-use chain of v (through phis, string concatenation,
// conversions, struct literal fields and slices) and reports each terminal
// use as (instruction, argIndex) via visit.
func usesOf(v ssa.Value, visit func(user ssa.Instruction, v ssa.Value)) {
	seen := map[ssa.Value]bool{}
	var walk func(v ssa.Value, d int)
	walk = func(v ssa.Value, d int) {
		if seen[v] || d > 8 || v.Referrers() == nil {
			return
		}
		seen[v] = true
		for _, ref := range *v.Referrers() {
			switch x := ref.(type) {
			case *ssa.DebugRef:
			case *ssa.Phi:
				walk(x, d+1)
			case *ssa.BinOp:
				if x.Op == token.ADD {
					walk(x, d+1)
				} else {
					visit(x, v)
				}
			case *ssa.ChangeType:
				walk(x, d+1)
			case *ssa.Convert:
				walk(x, d+1)
			case *ssa.MakeInterface:
				walk(x, d+1)
			case *ssa.Slice:
				walk(x, d+1)
			case *ssa.Store:
				if x.Val == v {
					visit(x, v)
				}
			case *ssa.Call:
				// handed to a private helper of the module: follow the parameter inside it
				h := x.Call.StaticCallee()
				if h != nil && h.Blocks != nil && load.InModule(h) && len(privateCallSites(h)) > 0 && len(h.Params) == len(x.Call.Args) {
					for i, a := range x.Call.Args {
						if a == v {
							walk(h.Params[i], d+1)
						}
					}
					continue
				}
				visit(ref, v)
			default:
				visit(ref, v)
			}
		}
	}
	walk(v, 0)
}

func c11Confinement(c *core.Ctx) {
	type src struct{ structName, field, what string }
	srcs := []src{{"userPass", "password", "password"}, {"userPass", "username", "username"}, {"registry", "refreshToken", "refresh token"}, {"scopedToken", "token", "access token"}}
	n := 0
	for _, fn := range c.P.ModuleFunctions("ociauth") {
		for _, b := range fn.Blocks {
			for _, in := range b.Instrs {
				u, ok := in.(*ssa.UnOp)
				if !ok || u.Op != token.MUL {
					continue
				}
				base, fld, isF := facts.FieldOf(u)
				if !isF {
					continue
				}
				sn := structName(base.Type())
				var s *src
				for i := range srcs {
					if srcs[i].structName == sn && srcs[i].field == fld {
						s = &srcs[i]
					}
				}
				if s == nil {
					continue
				}
				n++
				c.Analysed(facts.FuncName(fn))
				usesOf(u, func(user ssa.Instruction, v ssa.Value) {
					key := facts.FuncName(fn) + "/" + s.what + "-sink"
					switch x := user.(type) {
					case ssa.CallInstruction:
						name := facts.CalleeName(x.Common())
						args := x.Common().Args
						argIdx := -1
						for i, a := range args {
							if a == v {
								argIdx = i
							}
						}
						switch {
						case name == "(*net/http.Request).SetBasicAuth" && (s.what == "password" && argIdx == 2 || s.what == "username" && argIdx == 1):
							c.OK("C11.R1", key, x.Pos(), s.what+" -> SetBasicAuth")
						case name == "(net/url.Values).Set" && s.what == "refresh token" && argIdx == 2:
							k, _ := facts.ConstString(args[1])
							c.Check(k == "refresh_token", "C11.R2", key, x.Pos(), "refresh token -> Values.Set(\"refresh_token\")", "the refresh token is sent under form key "+k)
						case name == "(net/http.Header).Set" && s.what == "access token" && argIdx == 2:
							k, _ := facts.ConstString(args[1])
							c.Check(k == "Authorization", "C11.R3", key, x.Pos(), "access token -> Authorization header", "an access token is put into header "+k)
						default:
							c.Fail("C11.R1", key, x.Pos(), "the "+s.what+" flows into "+name+", which is not its only permitted sink: credentials may leak (logs, error texts, other requests)")
						}
					case *ssa.BinOp:
						// comparisons (== "", != "") are fine
						if x.Op == token.EQL || x.Op == token.NEQ {
							return
						}
						c.Fail("C11.R1", key, x.Pos(), "the "+s.what+" is used in an unexpected expression")
					case *ssa.Store:
						// storing into the same kind of field (refresh from response / literal construction) is fine
						if _, f2, ok := facts.FieldOf(x.Addr); ok && (f2 == s.field || f2 == "token") {
							return
						}
						if _, isAlloc := x.Addr.(*ssa.Alloc); isAlloc {
							return
						}
						if ia, isIA := x.Addr.(*ssa.IndexAddr); isIA && s.what == "access token" {
							// the sole operand of fmt.Sprintf("Bearer %s", tok) whose result is the
							// Authorization header value: the same sink as "Bearer "+tok
							if al, isAl := ia.X.(*ssa.Alloc); isAl {
								okSink := false
								for _, ref := range *al.Referrers() {
									sl, isSl := ref.(*ssa.Slice)
									if !isSl {
										continue
									}
									for _, r2 := range *sl.Referrers() {
										call, isCall := r2.(*ssa.Call)
										if !isCall || facts.CalleeName(&call.Call) != "fmt.Sprintf" {
											continue
										}
										if f0, isS := facts.ConstString(call.Call.Args[0]); !isS || f0 != "Bearer %s" {
											continue
										}
										for _, r3 := range *call.Referrers() {
											if hs, isHS := r3.(ssa.CallInstruction); isHS && facts.CalleeName(hs.Common()) == "(net/http.Header).Set" {
												if k, _ := facts.ConstString(hs.Common().Args[1]); k == "Authorization" {
													okSink = true
												}
											}
										}
									}
								}
								if okSink {
									c.OK("C11.R3", key, x.Pos(), "access token -> Authorization header (formatted)")
									return
								}
							}
						}
						if ia, isIA := x.Addr.(*ssa.IndexAddr); isIA {
							// element of a []string literal: fine if that literal is the value of
							// the form key "refresh_token" in a url.Values literal / map update
							if s.what == "refresh token" {
								if al, isAl := ia.X.(*ssa.Alloc); isAl {
									okForm, n := true, 0
									for _, ref := range *al.Referrers() {
										sl, isSl := ref.(*ssa.Slice)
										if !isSl {
											continue
										}
										for _, r2 := range *sl.Referrers() {
											mu, isMU := r2.(*ssa.MapUpdate)
											if !isMU || mu.Value != ssa.Value(sl) {
												if _, dbg := r2.(*ssa.DebugRef); !dbg {
													okForm = false
												}
												continue
											}
											n++
											k, _ := facts.ConstString(mu.Key)
											isValues := strings.HasSuffix(mu.Map.Type().String(), "url.Values") || mu.Map.Type().String() == "map[string][]string"
											if k != "refresh_token" || !isValues {
												okForm = false
											}
										}
									}
									if n > 0 {
										c.Check(okForm, "C11.R2", key, x.Pos(), "refresh token -> url.Values{\"refresh_token\": ...}", "the refresh token is placed in a form under a key other than refresh_token, or in something that is not the token request's form")
										return
									}
								}
							}
							// packed into a variadic argument array: find the consumer
							c.Fail("C11.R1", key, x.Pos(), "the "+s.what+" is passed as a variadic argument (formatting/logging)")
							return
						}
						c.Fail("C11.R1", key, x.Pos(), "the "+s.what+" is stored somewhere other than its own field")
					case *ssa.Return:
						// accessTokenForScope-style returns of the struct are not string returns; a string return is the acquisition result
					case *ssa.If:
					default:
						c.Fail("C11.R1", key, user.Pos(), sprintf("the %s has an unexpected use (%T)", s.what, user))
					}
				})
			}
		}
	}
	if n < 6 {
		c.Fail("C11.R1", "sources/instance-floor", 0, sprintf("only %d credential loads found in ociauth", n))
	}
	// guards on SetBasicAuth
	nBasic := 0
	for _, fn := range c.P.ModuleFunctions("ociauth") {
		for _, ci := range facts.CallsIn(fn) {
			if facts.CalleeName(ci.Common()) != "(*net/http.Request).SetBasicAuth" {
				continue
			}
			nBasic++
			reqV := facts.Resolve(ci.Common().Args[0])
			key := facts.FuncName(fn) + "/basic-auth-guard"
			if _, isParam := reqV.(*ssa.Parameter); isParam {
				// the registry request: needs challenge-seen and scheme != bearer
				seen, notBearer := false, false
				for _, cd := range facts.CondsAt(ci.Block()) {
					if x, isNil, ok := facts.NilCheck(cd); ok && !isNil {
						if _, fld, isF := facts.FieldOf(facts.Resolve(x)); isF && fld == "wwwAuthenticate" {
							seen = true
						}
					}
					if eq, ok := strConstCmp(cd, "scheme", "bearer"); ok && !eq {
						notBearer = true
					}
				}
				// or the challenge was just recorded from a parameter in this function
				for _, b := range fn.Blocks {
					for _, in := range b.Instrs {
						if st, ok := in.(*ssa.Store); ok && facts.Dominates(st, ci) {
							if _, fld, isF := facts.FieldOf(st.Addr); isF && fld == "wwwAuthenticate" {
								if _, isP := facts.Resolve(st.Val).(*ssa.Parameter); isP {
									seen = true
								}
							}
						}
					}
				}
				c.Check(seen && notBearer, "C11.R4", key, ci.Pos(), "Basic credentials on the registry request only after a non-bearer challenge", "the configured password is sent as Basic auth to the registry on a path where a challenge has not been seen or its scheme may be bearer: passwords reach a registry that never issued a Basic challenge (or on a first unauthenticated request)")
			} else {
				// a token request: its URL must derive from the challenge's realm
				fromRealm := sliceHasUp(reqV, func(v ssa.Value) bool {
					lk, ok := v.(*ssa.Lookup)
					if !ok {
						return false
					}
					s, isS := facts.ConstString(lk.Index)
					if !isS || s != "realm" {
						return false
					}
					return sliceHas(lk.X, func(v2 ssa.Value) bool {
						_, fld, isF := facts.FieldOf(v2)
						return isF && fld == "wwwAuthenticate"
					})
				}, 2)
				c.Check(fromRealm, "C11.R5", facts.FuncName(fn)+"/basic-auth-to-realm", ci.Pos(), "token-request credentials go to the challenge's realm", "Basic credentials are attached to a request whose URL is not derived from the realm of this host's own challenge")
			}
		}
	}
	if nBasic < 3 {
		c.Fail("C11.R4", "basic-auth/instance-floor", 0, sprintf("only %d SetBasicAuth sites found", nBasic))
	}
	// the refresh-token POST goes to the realm
	acq := authRegistryMethod(c, "acquireToken")
	if acq != nil {
		for _, ci := range facts.CallsIn(acq) {
			if facts.CalleeName(ci.Common()) != "net/http.NewRequestWithContext" {
				continue
			}
			a := ci.Common().Args
			fromRealm := sliceHas(a[2], func(v ssa.Value) bool {
				lk, ok := v.(*ssa.Lookup)
				if !ok {
					return false
				}
				s, isS := facts.ConstString(lk.Index)
				return isS && s == "realm"
			})
			c.Check(fromRealm, "C11.R5", "acquireToken/request-to-realm", ci.Pos(), "token requests are addressed to the challenge's realm", "a token request is addressed to a URL that does not derive from the challenge's realm parameter")
		}
	}
}

func c11RequestUnmodified(c *core.Ctx, rt *ssa.Function) { requestUnmodified(c, rt, "C11.R7") }

// requestUnmodified (C11.R7, C10.R8): RoundTrip works on a deep copy
// (Request.Clone) of the caller's request; the Authorization header is never
// written into the caller's own header map.
func requestUnmodified(c *core.Ctx, rt *ssa.Function, rule string) {
	req := rt.Params[1]
	bad := 0
	var visit func(v ssa.Value, d int)
	seen := map[ssa.Value]bool{}
	visit = func(v ssa.Value, d int) {
		if seen[v] || d > 6 || v.Referrers() == nil {
			return
		}
		seen[v] = true
		for _, ref := range *v.Referrers() {
			switch x := ref.(type) {
			case *ssa.DebugRef:
			case *ssa.FieldAddr:
				// reads through the field are fine; stores are mutations
				for _, r2 := range *x.Referrers() {
					switch y := r2.(type) {
					case *ssa.Store:
						if y.Addr == ssa.Value(x) {
							bad++
							c.Fail(rule, "RoundTrip/caller-request-mutated", y.Pos(), "a field of the caller's *http.Request is assigned")
						}
					case *ssa.UnOp:
						// a loaded map/pointer (Header, URL, Body): only reads are allowed on it
						if y.Type().String() == "net/http.Header" {
							for _, r3 := range *y.Referrers() {
								if ci, ok := r3.(ssa.CallInstruction); ok {
									n := facts.CalleeName(ci.Common())
									if strings.HasSuffix(n, "Header).Set") || strings.HasSuffix(n, "Header).Add") || strings.HasSuffix(n, "Header).Del") {
										bad++
										c.Fail(rule, "RoundTrip/caller-request-mutated", ci.Pos(), "a header of the caller's request is modified")
									}
								}
								if _, ok := r3.(*ssa.MapUpdate); ok {
									bad++
									c.Fail(rule, "RoundTrip/caller-request-mutated", r3.Pos(), "a header of the caller's request is modified")
								}
							}
						}
					}
				}
			case *ssa.Store:
				// spilled parameter cell: follow loads of the cell only up to the reassignment
				if al, ok := x.Addr.(*ssa.Alloc); ok && x.Val == v {
					for _, r2 := range *al.Referrers() {
						if u, ok := r2.(*ssa.UnOp); ok {
							if rv := facts.Resolve(u); rv == v {
								visit(u, d+1)
							}
						}
					}
				}
			case ssa.CallInstruction:
				cc := x.Common()
				name := facts.CalleeName(cc)
				if strings.HasSuffix(name, "http.Request).Clone") || strings.HasSuffix(name, "http.Request).Context") {
					continue
				}
				bad++
				c.Fail(rule, "RoundTrip/caller-request-passed", x.Pos(), "the caller's *http.Request (not its clone) is passed to "+name+": authorization headers / a rewound body are written into the caller's request")
			}
		}
	}
	visit(req, 0)
	// a clone must exist and be what is forwarded
	cloned := false
	for _, ci := range facts.CallsIn(rt) {
		if strings.HasSuffix(facts.CalleeName(ci.Common()), "http.Request).Clone") && argIsParam(ci.Common().Args[0], rt, 1) {
			cloned = true
		}
	}
	if !cloned {
		bad++
		c.Fail(rule, "RoundTrip/clone", rt.Pos(), "RoundTrip does not clone the caller's request")
	}
	for _, ci := range facts.CallsIn(rt) {
		cc := ci.Common()
		if cc.IsInvoke() && cc.Method.Name() == "RoundTrip" {
			call, ok := facts.Resolve(cc.Args[0]).(*ssa.Call)
			isClone := ok && strings.HasSuffix(facts.CalleeName(&call.Call), "http.Request).Clone")
			if !isClone {
				bad++
				c.Fail(rule, "RoundTrip/forward-clone", ci.Pos(), "the request forwarded to the underlying transport is not the clone")
			}
		}
	}
	if bad == 0 {
		c.OK(rule, "RoundTrip/caller-request-unmodified", rt.Pos(), "the caller's request is only read and cloned; every mutation and forward uses the clone")
	}
}

func c11BodyClosed(c *core.Ctx, rt *ssa.Function) {
	// the deferred body-closer
	var closer *ssa.Defer
	var flag *ssa.Alloc
	for _, ci := range facts.CallsIn(rt) {
		d, ok := ci.(*ssa.Defer)
		if !ok {
			continue
		}
		mc, ok := d.Call.Value.(*ssa.MakeClosure)
		if !ok {
			continue
		}
		lit := mc.Fn.(*ssa.Function)
		closes := false
		for _, cj := range facts.CallsIn(lit) {
			if cj.Common().IsInvoke() && cj.Common().Method.Name() == "Close" {
				closes = true
			}
		}
		if closes {
			closer = d
			for _, b := range mc.Bindings {
				if al, ok := b.(*ssa.Alloc); ok && al.Type().(*types.Pointer).Elem().String() == "bool" {
					flag = al
				}
			}
		}
	}
	if closer == nil {
		c.Fail("C11.R8", "RoundTrip/deferred-body-close", rt.Pos(), "RoundTrip registers no deferred close of the request body")
		return
	}
	bad := 0
	for _, r := range returnsOf(rt) {
		if !facts.Dominates(closer, r) {
			bad++
			c.Fail("C11.R8", "RoundTrip/close-before-return", r.Pos(), "RoundTrip can return here before the deferred body-close was registered: the request body is not closed on this path (e.g. when the per-host configuration lookup fails)")
		}
	}
	if bad == 0 {
		c.OK("C11.R8", "RoundTrip/close-before-return", closer.Pos(), "the deferred body-close is registered before every return")
	}
	if flag != nil {
		for _, st := range facts.StoresTo(flag) {
			cst, ok := st.Val.(*ssa.Const)
			if !ok || cst.Value == nil || cst.Value.ExactString() != "false" {
				continue
			}
			fwd := false
			for _, ci := range facts.CallsIn(rt) {
				if ci.Common().IsInvoke() && ci.Common().Method.Name() == "RoundTrip" && facts.Dominates(ci, st) {
					fwd = true
				}
			}
			// or under a flag handed back by a private helper that reports true only
			// after it has forwarded the request
			for _, cd := range facts.CondsAt(st.Block()) {
				ex, ok := facts.Resolve(cd.V).(*ssa.Extract)
				if !ok || !cd.Pos || ex.Type().String() != "bool" {
					continue
				}
				call, ok := ex.Tuple.(*ssa.Call)
				if !ok {
					continue
				}
				h := call.Call.StaticCallee()
				if h == nil || h.Blocks == nil || len(privateCallSites(h)) == 0 {
					continue
				}
				all, any := true, false
				for _, r := range returnsOf(h) {
					fv := facts.RetVal(r, ex.Index)
					if cst, isC := fv.(*ssa.Const); isC && cst.Value != nil && cst.Value.ExactString() == "false" {
						continue
					}
					any = true
					dominated := false
					for _, cj := range facts.CallsIn(h) {
						if cj.Common().IsInvoke() && cj.Common().Method.Name() == "RoundTrip" && facts.Dominates(cj, r) {
							dominated = true
						}
					}
					if !dominated {
						all = false
					}
				}
				if all && any {
					fwd = true
				}
			}
			c.Check(fwd, "C11.R8", "RoundTrip/disarm-after-forward", st.Pos(), "the body-close is disarmed only after a forward (the transport then owns closing)", "the deferred body-close is disarmed on a path where the request was not yet forwarded")
		}
	}
}

func c11Attempts(c *core.Ctx, rt *ssa.Function) {
	var fwds []ssa.CallInstruction
	for _, ci := range facts.CallsIn(rt) {
		if ci.Common().IsInvoke() && ci.Common().Method.Name() == "RoundTrip" {
			fwds = append(fwds, ci)
			continue
		}
		// a private helper that forwards (exactly one forward site, not on a cycle)
		// counts as the forward it contains
		if h := ci.Common().StaticCallee(); h != nil && h.Blocks != nil && len(privateCallSites(h)) > 0 && h.Parent() == nil {
			n := 0
			cyc := false
			for _, cj := range facts.CallsIn(h) {
				if cj.Common().IsInvoke() && cj.Common().Method.Name() == "RoundTrip" {
					n++
					isF := func(in ssa.Instruction) bool { return in == ssa.Instruction(cj) }
					if _, reach := facts.ReachesWithout(cj, isF, nil, nil); reach {
						cyc = true
					}
				}
			}
			if n == 1 && !cyc {
				fwds = append(fwds, ci)
			} else if n > 1 || cyc {
				c.Fail("C11.R9", "RoundTrip/forward-helper", ci.Pos(), "a helper called by RoundTrip forwards to the underlying transport more than once (or in a loop): the number of attempts is not bounded by the two forward sites")
			}
		}
	}
	if len(fwds) == 0 {
		c.Fail("C11.R9", "RoundTrip/forwards", rt.Pos(), "RoundTrip never forwards to the underlying transport")
		return
	}
	// no forward on a cycle: a forward must not reach itself
	okCycle := true
	for _, f := range fwds {
		isF := func(in ssa.Instruction) bool { return in == ssa.Instruction(f) }
		if _, reach := facts.ReachesWithout(f, isF, nil, nil); reach {
			okCycle = false
			c.Fail("C11.R9", "RoundTrip/forward-in-loop", f.Pos(), "a forward to the underlying transport lies on a CFG cycle: the number of attempts against the registry is unbounded")
		}
	}
	// longest chain of forwards
	maxChain := 0
	var depth func(f ssa.CallInstruction, seen map[ssa.CallInstruction]bool) int
	depth = func(f ssa.CallInstruction, seen map[ssa.CallInstruction]bool) int {
		if seen[f] {
			return 100
		}
		seen[f] = true
		best := 1
		for _, g := range fwds {
			if g == f {
				continue
			}
			isG := func(in ssa.Instruction) bool { return in == ssa.Instruction(g) }
			if _, reach := facts.ReachesWithout(f, isG, nil, nil); reach {
				if d := 1 + depth(g, seen); d > best {
					best = d
				}
			}
		}
		delete(seen, f)
		return best
	}
	for _, f := range fwds {
		if d := depth(f, map[ssa.CallInstruction]bool{}); d > maxChain {
			maxChain = d
		}
	}
	c.Check(okCycle && maxChain <= 2, "C11.R9", "RoundTrip/at-most-two-forwards", rt.Pos(), sprintf("%d forward sites, longest chain %d", len(fwds), maxChain), sprintf("a path through RoundTrip contains %d forwards to the underlying transport (more than two attempts)", maxChain))
	// R10: after the last forward
	var last ssa.CallInstruction
	for _, f := range fwds {
		isLast := true
		for _, g := range fwds {
			if g == f {
				continue
			}
			isG := func(in ssa.Instruction) bool { return in == ssa.Instruction(g) }
			if _, reach := facts.ReachesWithout(f, isG, nil, nil); reach {
				isLast = false
			}
		}
		if isLast && len(fwds) > 1 {
			last = f
		}
	}
	if last == nil {
		c.Fail("C11.R10", "RoundTrip/second-forward", rt.Pos(), "no second forward found")
		return
	}
	// the forward that is really the last one may sit in a private helper that the
	// second attempt was moved to: R10 is then judged inside that helper
	fn := rt
	for d := 0; d < 2; d++ {
		if last.Common().IsInvoke() {
			break
		}
		h := last.Common().StaticCallee()
		if h == nil {
			break
		}
		var inner ssa.CallInstruction
		for _, cj := range facts.CallsIn(h) {
			if cj.Common().IsInvoke() && cj.Common().Method.Name() == "RoundTrip" {
				inner = cj
			}
		}
		if inner == nil {
			break
		}
		c.Analysed(facts.FuncName(h))
		fn, last = h, inner
	}
	respV := ssa.Value(nil)
	for _, ref := range *last.Value().Referrers() {
		if ex, ok := ref.(*ssa.Extract); ok && ex.Index == 0 {
			respV = ex
		}
	}
	// rewrites403: in sets the StatusCode of resp to 403 — directly, or by
	// handing resp to a same-package helper that does so before every return
	// on which it reports no error.
	store403 := func(in ssa.Instruction, resp ssa.Value) bool {
		st, ok := in.(*ssa.Store)
		if !ok {
			return false
		}
		base, fld, isF := facts.FieldOf(st.Addr)
		if !isF || fld != "StatusCode" || facts.Resolve(base) != resp {
			return false
		}
		k, isK := facts.ConstInt(st.Val)
		return isK && k == 403
	}
	rewrites403 := func(in ssa.Instruction) bool {
		if store403(in, respV) {
			return true
		}
		call, ok := in.(*ssa.Call)
		if !ok {
			return false
		}
		h := call.Call.StaticCallee()
		if h == nil || h.Blocks == nil || h.Pkg != fn.Pkg {
			return false
		}
		for i, a := range call.Call.Args {
			if facts.Resolve(a) != respV || i >= len(h.Params) {
				continue
			}
			p := ssa.Value(h.Params[i])
			all, n := true, 0
			for _, r := range returnsOf(h) {
				if len(r.Results) > 0 && r.Results[len(r.Results)-1].Type().String() == "error" && !facts.RetErrIsNil(r) {
					continue
				}
				n++
				dom := false
				for _, b := range h.Blocks {
					for _, hin := range b.Instrs {
						if store403(hin, p) && facts.Dominates(hin, r) {
							dom = true
						}
					}
				}
				all = all && dom
			}
			if all && n > 0 {
				c.Analysed(facts.FuncName(h))
				return true
			}
		}
		return false
	}
	set403 := false
	for _, b := range fn.Blocks {
		for _, in := range b.Instrs {
			if rewrites403(in) {
				set403 = true
			}
		}
	}
	c.Check(set403, "C11.R10", "RoundTrip/401-becomes-403", last.Pos(), "the second response's status is rewritten to 403 on the fresh-token-401 path", "RoundTrip never rewrites the second response's status to 403")
	for _, r := range returnsOf(fn) {
		if !facts.Dominates(last, r) || len(r.Results) != 2 || facts.RetVal(r, 0) != respV {
			continue
		}
		// returning the second response: either status != 401 || !tokenAcquired is known, or the 403 rewrite dominates
		rewritten := false
		for _, b := range fn.Blocks {
			for _, in := range b.Instrs {
				if st, ok := in.(*ssa.Store); ok && facts.Dominates(st, r) {
					if _, fld, isF := facts.FieldOf(st.Addr); isF && fld == "StatusCode" {
						rewritten = true
					}
				}
				if _, isCall := in.(*ssa.Call); isCall && rewrites403(in) && facts.Dominates(in, r) {
					rewritten = true
				}
			}
		}
		if rewritten {
			continue
		}
		// the guarding If: cond (status != 401 || !tokenAcquired) compiled as two blocks; the return block must have a pred whose edge says status != 401, or !tokenAcquired
		okGuard := len(r.Block().Preds) > 0
		for _, p := range r.Block().Preds {
			for idx, s := range p.Succs {
				if s != r.Block() {
					continue
				}
				edgeOK := false
				for _, cd := range facts.EdgeConds(p, idx) {
					if x, op, y, ok := facts.Cmp(cd); ok && op == token.NEQ {
						if _, fld, isF := facts.FieldOf(facts.Resolve(x)); isF && fld == "StatusCode" {
							if k, isK := facts.ConstInt(y); isK && k == 401 {
								edgeOK = true
							}
						}
					}
					if ex, ok := cd.V.(*ssa.Extract); ok && !cd.Pos && ex.Index == 1 {
						edgeOK = true // !tokenAcquired
					}
				}
				if !edgeOK {
					okGuard = false
				}
			}
		}
		allPredsGuarded := okGuard
		c.Check(allPredsGuarded, "C11.R10", "RoundTrip/401-not-returned-after-fresh-token", r.Pos(), "the second response is returned unchanged only under status != 401 or no fresh token", "the second response can be returned unchanged although it is a 401 answered to a freshly acquired token")
	}
}
