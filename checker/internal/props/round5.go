package props

import (
	"go/token"
	"go/types"
	"strings"

	"golang.org/x/tools/go/ssa"

	"ocivet/internal/core"
	"ocivet/internal/facts"
)

// Rules added after the fifth round of seeded changes (seeded/*-I, *-J).

// digestComparedUnderItsOwnAlgorithm (C01.R3 / C03.R12; seed C03-J): a digest
// that is computed in order to be compared with an expected digest D is built
// with D's own algorithm: digest.NewDigest(D.Algorithm(), h) ==/!= D. Built
// with a fixed algorithm, content addressed by any other algorithm can never
// verify.
func digestComparedUnderItsOwnAlgorithm(c *core.Ctx, rule string, rels ...string) {
	n := 0
	for _, rel := range rels {
		for _, fn := range c.P.ModuleFunctions(rel) {
			if isInstance(fn) {
				continue
			}
			for _, b := range fn.Blocks {
				for _, in := range b.Instrs {
					bo, ok := in.(*ssa.BinOp)
					if !ok || (bo.Op != token.EQL && bo.Op != token.NEQ) {
						continue
					}
					for _, pr := range [][2]ssa.Value{{bo.X, bo.Y}, {bo.Y, bo.X}} {
						call, isCall := facts.Resolve(pr[0]).(*ssa.Call)
						if !isCall || !strings.HasSuffix(facts.CalleeName(&call.Call), "go-digest.NewDigest") {
							continue
						}
						n++
						want := strings.TrimPrefix(facts.Term(facts.Resolve(pr[1])), "*")
						ok := false
						if ac, isAC := facts.Resolve(call.Call.Args[0]).(*ssa.Call); isAC && strings.HasSuffix(facts.CalleeName(&ac.Call), "go-digest.Digest).Algorithm") && len(ac.Call.Args) == 1 {
							got := strings.TrimPrefix(facts.Term(facts.Resolve(ac.Call.Args[0])), "*")
							ok = got == want
						}
						c.Check(ok, rule, fnName(outermost(fn))+"/digest-under-expected-algorithm", bo.Pos(), "the computed digest is built with the expected digest's own algorithm", "a digest computed for comparison with an expected digest is not built with that digest's own algorithm (e.g. a fixed digest.Canonical): content addressed with any other algorithm never verifies, although the bytes are right")
					}
				}
			}
		}
	}
	if n == 0 {
		c.Fail(rule, "digest-under-expected-algorithm/instance-floor", 0, "no comparison of a computed digest (digest.NewDigest) with an expected one found")
	}
}

// pageCutOnlyAtTheRequestedSize (C05.R7c; seed C05-I): the value the collected
// page's length is compared with is the requested ListN itself; a constant
// stands in for it only when no positive n was requested.
func pageCutOnlyAtTheRequestedSize(c *core.Ctx, rule string) {
	nl := M.Fn("ociserver.nextListResults")
	if nl == nil {
		return
	}
	isListN := func(v ssa.Value) bool {
		_, fld, ok := facts.FieldOf(facts.ResolveFree(v))
		return ok && fld == "ListN"
	}
	for _, f := range facts.WithAnon(nl) {
		if f == nl {
			continue
		}
		for _, b := range f.Blocks {
			for _, in := range b.Instrs {
				bo, ok := in.(*ssa.BinOp)
				if !ok || (bo.Op != token.GEQ && bo.Op != token.GTR && bo.Op != token.LSS && bo.Op != token.LEQ && bo.Op != token.EQL) {
					continue
				}
				var limit ssa.Value
				for _, pr := range [][2]ssa.Value{{bo.X, bo.Y}, {bo.Y, bo.X}} {
					if call, isCall := facts.Resolve(pr[0]).(*ssa.Call); isCall {
						if bi, isB := call.Call.Value.(*ssa.Builtin); isB && bi.Name() == "len" {
							if _, isSl := call.Call.Args[0].Type().Underlying().(*types.Slice); isSl {
								limit = pr[1]
							}
						}
					}
				}
				if limit == nil {
					continue
				}
				lv := facts.ResolveFree(limit)
				if isListN(lv) {
					continue
				}
				// the candidate values of the limit, each with the block in which it is chosen
				type cand struct {
					v   ssa.Value
					at  *ssa.BasicBlock
					pos token.Pos
				}
				var cands []cand
				if ph, isPhi := lv.(*ssa.Phi); isPhi {
					for i, e := range ph.Edges {
						cands = append(cands, cand{e, ph.Block().Preds[i], ph.Pos()})
					}
				} else if u, isU := facts.Strip(limit).(*ssa.UnOp); isU && u.Op == token.MUL {
					// a captured variable assigned in the enclosing function
					if al, _, okc := cellOf(u); okc {
						for _, st := range facts.StoresTo(al) {
							cands = append(cands, cand{st.Val, st.Block(), st.Pos()})
						}
					}
				}
				for _, cd0 := range cands {
					e := cd0.v
					if isListN(e) {
						continue
					}
					if _, isK := facts.Resolve(e).(*ssa.Const); !isK {
						continue
					}
					// the constant replaces n: only where n <= 0
					okDefault := false
					for _, cd := range facts.CondsAt(cd0.at) {
						x, op, y, okc := facts.Cmp(cd)
						if !okc || !isListN(x) {
							continue
						}
						if k, isK := facts.ConstInt(y); isK && ((op == token.LEQ && k == 0) || (op == token.LSS && k <= 1) || (op == token.EQL && k == 0)) {
							okDefault = true
						}
					}
					c.Check(okDefault, rule, "nextListResults/page-limit-default-only-without-n", cd0.pos, "a constant page limit replaces n only when no positive n was requested", "the page limit is replaced by a server constant on a path where the client did request a positive n (e.g. n above an internal maximum is silently lowered): the client reads the shorter page as the end of the listing and the remaining items are lost")
				}
			}
		}
	}
}

// errorBodyTooLargeTestMatchesRead (C07.R5c; seed C07-I): the client reads at
// most R bytes of an error body (io.LimitReader(body, R)) and declares the body
// too large exactly when all R were there: len(data) > R-1 or len(data) >= R.
// Any other boundary either rejects a body that fits the limit (its code,
// message and detail are lost) or accepts a truncated one.
func errorBodyTooLargeTestMatchesRead(c *core.Ctx, rule string) {
	me := c.P.Func("ociclient", "makeError")
	if me == nil {
		return
	}
	var limits []int64
	fns := withHelpers(me)
	for _, f := range fns {
		for _, ci := range facts.CallsIn(f) {
			if facts.CalleeName(ci.Common()) != "io.LimitReader" {
				continue
			}
			if k, ok := facts.ConstInt(facts.Resolve(ci.Common().Args[1])); ok {
				limits = append(limits, k)
			}
		}
	}
	if len(limits) != 1 {
		return // C07.R5b reports a non-constant limit
	}
	R := limits[0]
	n := 0
	for _, f := range fns {
		for _, b := range f.Blocks {
			for _, in := range b.Instrs {
				bo, ok := in.(*ssa.BinOp)
				if !ok {
					continue
				}
				x, op, y := bo.X, bo.Op, bo.Y
				if _, isK := facts.ConstInt(x); isK {
					x, y = y, x
					switch op {
					case token.GTR:
						op = token.LSS
					case token.GEQ:
						op = token.LEQ
					case token.LSS:
						op = token.GTR
					case token.LEQ:
						op = token.GEQ
					}
				}
				k, isK := facts.ConstInt(y)
				call, isCall := facts.Resolve(x).(*ssa.Call)
				if !isK || !isCall {
					continue
				}
				bi, isB := call.Call.Value.(*ssa.Builtin)
				if !isB || bi.Name() != "len" {
					continue
				}
				if sl, isSl := call.Call.Args[0].Type().Underlying().(*types.Slice); !isSl || sl.Elem().String() != "byte" {
					continue
				}
				if k < R-2 || k > R+1 {
					continue // not about the body limit
				}
				var ok2 bool
				switch op {
				case token.GTR, token.LEQ:
					ok2 = k == R-1
				case token.GEQ, token.LSS:
					ok2 = k == R
				default:
					continue
				}
				n++
				c.Check(ok2, rule, "makeError/too-large-test-matches-read", bo.Pos(), sprintf("the too-large test separates len(data) < %d from len(data) >= %d, the number of bytes read at most", R, R), sprintf("the error body is read up to %d bytes but declared too large at a different boundary: a body that fits the limit exactly is rejected (its code, message and detail are lost on this hop), or a truncated body is accepted", R))
			}
		}
	}
	if n == 0 {
		c.Fail(rule, "makeError/too-large-test-matches-read", me.Pos(), "no too-large test on the error body found")
	}
}

// scopeStringGroupsOnlyRepositories (C09.R10; seed C09-I): when printing a
// scope, an item's action is appended to the previous item ("…:pull,push")
// only if both are repository scopes for the same repository.
func scopeStringGroupsOnlyRepositories(c *core.Ctx, rule string) {
	sc := c.P.NamedType("ociauth", "Scope")
	if sc == nil {
		return
	}
	str := declaredMethod(c, sc, "String")
	if str == nil {
		c.Fail(rule, "anchor/Scope.String", 0, "Scope.String not found")
		return
	}
	n := 0
	for _, f := range withHelpers(str) {
		for _, ci := range facts.CallsIn(f) {
			name := facts.CalleeName(ci.Common())
			isComma := false
			if strings.HasSuffix(name, ").WriteByte") || strings.HasSuffix(name, ").WriteRune") {
				if k, ok := facts.ConstInt(ci.Common().Args[len(ci.Common().Args)-1]); ok && k == ',' {
					isComma = true
				}
			}
			if strings.HasSuffix(name, ").WriteString") {
				if s, ok := facts.ConstString(ci.Common().Args[len(ci.Common().Args)-1]); ok && s == "," {
					isComma = true
				}
			}
			if !isComma {
				continue
			}
			n++
			base := func(v ssa.Value, want string) (string, bool) {
				b, fld, ok := facts.FieldOf(facts.Resolve(v))
				if !ok || fld != want {
					return "", false
				}
				return strings.TrimSuffix(strings.TrimPrefix(facts.Term(facts.Resolve(b)), "*"), "&"), true
			}
			isRepo := map[string]bool{}
			var typeEq, resEq [][2]string
			for _, cd := range facts.CondsAtDeep(ci.Block()) {
				x, op, y, ok := facts.Cmp(cd)
				if !ok || op != token.EQL {
					continue
				}
				if bx, okx := base(x, "ResourceType"); okx {
					if s, isS := facts.ConstString(y); isS && s == "repository" {
						isRepo[bx] = true
					}
					if by, oky := base(y, "ResourceType"); oky {
						typeEq = append(typeEq, [2]string{bx, by})
					}
				}
				if bx, okx := base(x, "Resource"); okx {
					if by, oky := base(y, "Resource"); oky && bx != by {
						resEq = append(resEq, [2]string{bx, by})
					}
				}
			}
			for _, p := range typeEq {
				if isRepo[p[0]] {
					isRepo[p[1]] = true
				}
				if isRepo[p[1]] {
					isRepo[p[0]] = true
				}
			}
			ok := false
			for _, p := range resEq {
				if isRepo[p[0]] && isRepo[p[1]] {
					ok = true
				}
			}
			c.Check(ok, rule, "Scope.String/group-only-repositories", ci.Pos(), "actions are joined with ',' only for two repository scopes of the same repository", "Scope.String joins an item's action onto the previous item without establishing that BOTH are repository scopes for the same repository: a non-repository scope with the same resource name absorbs the repository scope's actions, and parsing the printed text does not give the scope back")
		}
	}
	if n == 0 {
		c.Note(rule + ": Scope.String writes no ',' separator (no grouping of actions)")
	}
}

// challengeParamsKeyedLowerCase (C10.R9 / C11.R12; seed C10-J): the parameters
// of a parsed challenge are looked up by lower-case names ("realm", "service",
// "scope"); auth-param names are case-insensitive (RFC 7235), so they must be
// stored lower-cased.
func challengeParamsKeyedLowerCase(c *core.Ctx, rule string) {
	n := 0
	for _, fn := range c.P.ModuleFunctions("ociauth") {
		for _, b := range fn.Blocks {
			for _, in := range b.Instrs {
				mu, ok := in.(*ssa.MapUpdate)
				if !ok {
					continue
				}
				_, fld, isF := facts.FieldOf(facts.Resolve(mu.Map))
				if !isF {
					// the map handed to a private helper that fills it
					for _, cx := range contextsOf(b, 2) {
						if _, f2, ok := facts.FieldOf(facts.Resolve(cx.up(mu.Map))); ok {
							fld, isF = f2, true
						}
					}
				}
				if !isF {
					// a local map that becomes the challenge's params (`params := make(…); …; &authHeader{params: params}`)
					if mk, ok := facts.ResolveFree(mu.Map).(*ssa.MakeMap); ok && mk.Referrers() != nil {
						for _, ref := range *mk.Referrers() {
							if st, ok := ref.(*ssa.Store); ok && st.Val == ssa.Value(mk) {
								if _, f2, ok := facts.FieldOf(st.Addr); ok {
									fld, isF = f2, true
								}
							}
						}
					}
				}
				if !isF || fld != "params" {
					continue
				}
				n++
				lower := sliceHas(mu.Key, func(v ssa.Value) bool {
					call, ok := v.(*ssa.Call)
					return ok && facts.CalleeName(&call.Call) == "strings.ToLower"
				})
				if s, isS := facts.ConstString(mu.Key); isS && s == strings.ToLower(s) {
					lower = true
				}
				c.Check(lower, rule, fnName(fn)+"/params-keyed-lower-case", mu.Pos(), "challenge parameters are stored under their lower-cased names", "a challenge parameter is stored under the name exactly as the server spelt it, while it is looked up in lower case: `Scope=` or `Realm=` (legal, auth-param names are case-insensitive) is not found, the token request leaves out the challenge's scope and the token that comes back does not cover the request")
			}
		}
	}
	if n == 0 {
		c.Fail(rule, "ociauth/params-keyed-lower-case/instance-floor", 0, "no store into a challenge's params map found")
	}
}

// knownActionOnlyForKnownScopes (C09.R1c / C13.R7; seed C13-I): the bit for an
// action name is computed (parseKnownAction) only for a resource scope that
// passed isKnown(), or the result is itself compared with unknownAction.
// Otherwise an unknown action ("delete") sets the `unknown` bit in a
// repository entry instead of keeping the scope among the others.
func knownActionOnlyForKnownScopes(c *core.Ctx, rule string) {
	pka := c.P.Func("ociauth", "parseKnownAction")
	rs := c.P.NamedType("ociauth", "ResourceScope")
	if pka == nil || rs == nil {
		c.Fail(rule, "anchor/parseKnownAction", 0, "ociauth.parseKnownAction / ResourceScope not found")
		return
	}
	isKnown := declaredMethod(c, rs, "isKnown")
	// the variable a value lives in: a local cell is named by the cell (a load of
	// it is not resolved to what was stored), anything else by its term
	norm := func(v ssa.Value) string {
		if u, ok := v.(*ssa.UnOp); ok && u.Op == token.MUL {
			if al, ok := u.X.(*ssa.Alloc); ok {
				v = al
			}
		}
		if al, ok := v.(*ssa.Alloc); ok {
			return facts.Term(al)
		}
		return strings.TrimSuffix(strings.TrimPrefix(facts.Term(facts.Resolve(v)), "*"), "&")
	}
	n := 0
	for _, fn := range c.P.ModuleFunctions("ociauth") {
		if fn == isKnown || fn == pka {
			continue
		}
		for _, ci := range facts.CallsIn(fn) {
			call, ok := ci.(*ssa.Call)
			if !ok || call.Call.StaticCallee() != pka {
				continue
			}
			n++
			// (i) the result is tested against the unknown action (directly, or after
			// being merged with a default in a phi)
			tested := false
			var isTested func(v ssa.Value, d int)
			isTested = func(v ssa.Value, d int) {
				if v.Referrers() == nil || d > 2 {
					return
				}
				for _, ref := range *v.Referrers() {
					switch x := ref.(type) {
					case *ssa.BinOp:
						if x.Op == token.EQL || x.Op == token.NEQ {
							tested = true
						}
					case *ssa.Phi:
						isTested(x, d+1)
					}
				}
			}
			isTested(call, 0)
			// (ii) dominated by isKnown() on the scope whose Action is parsed — in
			// every calling context when the computation sits in a private helper
			guarded := false
			if b, fld, isF := facts.FieldOf(facts.Resolve(call.Call.Args[0])); isF && fld == "Action" {
				guarded = true
				for _, cx := range contextsOf(call.Block(), 3) {
					owner := norm(cx.up(b))
					okCx := false
					for _, cd := range cx.Conds {
						kc, ok := cd.V.(*ssa.Call)
						if !ok || !cd.Pos || isKnown == nil || kc.Call.StaticCallee() != isKnown || len(kc.Call.Args) == 0 {
							continue
						}
						if norm(kc.Call.Args[0]) == owner || norm(cx.up(kc.Call.Args[0])) == owner {
							okCx = true
						}
					}
					if !okCx {
						guarded = false
					}
				}
			}
			c.Check(tested || guarded, rule, fnName(outermost(fn))+"/known-action-only-for-known-scope", call.Pos(), "an action bit is computed only for a scope that passed isKnown (or the result is tested)", "an action name is turned into a bit for a resource scope that has not passed isKnown() and the result is not tested: an unknown action such as \"delete\" becomes the `unknown` bit of a repository entry, so the scope is no longer the set of triples it was built from (it prints as repository:<name>:unknown and no longer holds the original triple)")
		}
	}
	if n == 0 {
		c.Fail(rule, "ociauth/known-action/instance-floor", 0, "parseKnownAction is never called")
	}
}

// unescapeBufferHoldsTheRest (C18.R5; seed C18-I): the challenge parser copies
// a quoted string with escapes into a buffer allocated once, writing at most
// one byte per remaining input byte; the input after the opening quote has
// len(s) bytes of which at least one (the first backslash) is not copied, so
// len(s)-1 is the least size that cannot overflow — an unterminated string
// with a single escape fills it exactly.
func unescapeBufferHoldsTheRest(c *core.Ctx, rule string) {
	n := 0
	for _, fn := range c.P.ModuleFunctions("ociauth") {
		for _, b := range fn.Blocks {
			for _, in := range b.Instrs {
				ms, ok := in.(*ssa.MakeSlice)
				if !ok {
					continue
				}
				if sl, isSl := ms.Type().Underlying().(*types.Slice); !isSl || sl.Elem().String() != "byte" {
					continue
				}
				bo, isBo := facts.Resolve(ms.Len).(*ssa.BinOp)
				if !isBo || bo.Op != token.SUB {
					continue
				}
				k, isK := facts.ConstInt(bo.Y)
				lc, isCall := facts.Resolve(bo.X).(*ssa.Call)
				if !isK || !isCall {
					continue
				}
				if bi, isB := lc.Call.Value.(*ssa.Builtin); !isB || bi.Name() != "len" {
					continue
				}
				if bt, isBasic := lc.Call.Args[0].Type().Underlying().(*types.Basic); !isBasic || bt.Info()&types.IsString == 0 {
					continue
				}
				// the buffer is written byte by byte in a loop over that string
				written := false
				for _, ref := range *ms.Referrers() {
					if _, isIA := ref.(*ssa.IndexAddr); isIA {
						written = true
					}
				}
				if !written {
					continue
				}
				n++
				c.Check(k <= 1, rule, fnName(fn)+"/unescape-buffer-size", ms.Pos(), "the unescape buffer has room for every remaining byte but the escape character", sprintf("the buffer that receives the unescaped rest of a quoted string is len(s)-%d bytes long; an unterminated quoted string with a single escape writes len(s)-1 bytes into it: a Www-Authenticate header chosen by the server makes the transport panic (index out of range)", k))
			}
		}
	}
	if n == 0 {
		c.Note(rule + ": no byte buffer sized len(s)-k is filled index by index in ociauth")
	}
}

// passwordIsEverythingAfterTheFirstColon (C19.R5; seed C19-I): the decoded
// `auth` value is user:password where the password may itself contain ':'; a
// result of decodeAuth must not be one element of an unlimited split on ':'.
func passwordIsEverythingAfterTheFirstColon(c *core.Ctx, rule string) {
	da := c.P.Func("ociauth", "decodeAuth")
	if da == nil {
		return
	}
	n, bad := 0, 0
	for _, f := range withHelpers(da) {
		for _, ci := range facts.CallsIn(f) {
			call, ok := ci.(*ssa.Call)
			if !ok {
				continue
			}
			name := facts.CalleeName(&call.Call)
			unlimited := name == "strings.Split" || name == "strings.Fields" || name == "strings.FieldsFunc" || name == "bytes.Split"
			if name == "strings.SplitN" || name == "bytes.SplitN" {
				if k, isK := facts.ConstInt(call.Call.Args[2]); !isK || k != 2 {
					unlimited = true
				}
			}
			if name == "strings.Cut" || name == "strings.SplitN" || name == "strings.Index" || name == "strings.IndexByte" || name == "strings.Split" || name == "bytes.Cut" || name == "bytes.IndexByte" {
				n++
			}
			if !unlimited {
				continue
			}
			// is an element of the split returned (possibly trimmed)?
			for _, r := range returnsOf(da) {
				for _, rv := range r.Results {
					if rv.Type().String() != "string" {
						continue
					}
					if derivesFrom(rv, call, 8, map[ssa.Value]bool{}) {
						bad++
						c.Fail(rule, "decodeAuth/password-after-first-colon", call.Pos(), "decodeAuth returns one element of an unlimited split of user:password on ':': a password that itself contains ':' is silently cut short, and the credentials sent are not the configured ones")
					}
				}
			}
		}
	}
	if bad == 0 {
		if n == 0 {
			c.Fail(rule, "decodeAuth/password-after-first-colon", da.Pos(), "no separation of user and password found in decodeAuth")
		} else {
			c.OK(rule, "decodeAuth/password-after-first-colon", da.Pos(), "user and password are separated at the first ':' only")
		}
	}
}

// derivesFrom: v is computed from target through loads, indexing, slicing,
// conversions, phis, tuple extraction and calls of string helpers.
func derivesFrom(v ssa.Value, target ssa.Value, depth int, seen map[ssa.Value]bool) bool {
	if v == nil || depth <= 0 || seen[v] {
		return false
	}
	seen[v] = true
	if v == target {
		return true
	}
	rec := func(x ssa.Value) bool { return derivesFrom(x, target, depth-1, seen) }
	switch x := v.(type) {
	case *ssa.UnOp:
		if al, ok := x.X.(*ssa.Alloc); ok && x.Op == token.MUL {
			for _, st := range facts.StoresTo(al) {
				if rec(st.Val) {
					return true
				}
			}
			return false
		}
		return rec(x.X)
	case *ssa.IndexAddr:
		return rec(x.X)
	case *ssa.Index:
		return rec(x.X)
	case *ssa.Slice:
		return rec(x.X)
	case *ssa.Convert:
		return rec(x.X)
	case *ssa.ChangeType:
		return rec(x.X)
	case *ssa.Extract:
		return rec(x.Tuple)
	case *ssa.Phi:
		for _, e := range x.Edges {
			if rec(e) {
				return true
			}
		}
	case *ssa.Call:
		name := facts.CalleeName(&x.Call)
		if strings.HasPrefix(name, "strings.") || strings.HasPrefix(name, "bytes.") {
			for _, a := range x.Call.Args {
				if rec(a) {
					return true
				}
			}
		}
	}
	return false
}
