package props

import (
	"go/token"
	"go/types"
	"strings"

	"golang.org/x/tools/go/ssa"

	"ocivet/internal/core"
	"ocivet/internal/facts"
)

func init() {
	register(&Prop{
		ID:    "C15",
		Title: "Unified registry is the union view and replicates every write",
		Run:   runC15,
		Explanation: "R1 fan-out: every Writer and Deleter method of the type returned by ociunify.New, and Write/Close/Cancel/Commit of its blob writer, invokes the same-named method on BOTH members with its own arguments (through the verified `both` helper, which calls its function once per member and waits for both, or the explicit two-goroutine form) — never through the first-success read helpers; " +
			"R2 both-must-succeed: a success is reported only through bothResults (verified: returns its first argument only when both errors are nil), under (r0.err == nil) == (r1.err == nil), or after both errors were tested nil; " +
			"R3 reads: digest-addressed reads go through the first-success helpers with a literal calling the same method with the same arguments; tag reads consult both members, report a success from two successes only under equality of the two digests (a conflict is an error, never a silent choice) and close the reader that is not returned; " +
			"R4 listings go through mergeIter (sorted, de-duplicated: C05.R2), which forgives a member's name-unknown by clearing that same member's error, not the other's. " +
			"R5 the sequential read returns the first member's answer only when it succeeded; R6 a helper that cancels the member's context before returning is not used for answers that are still to be read (BlobReader). " +
			"R4b the merged listing is sorted by the unifier itself. " +
			"R0 the unifier holds its two members in two different fields. " +
			"R4c a member's listing error is cleared only when that very error is name-unknown. " +
			"R7 ID, Size and ChunkSize of the unified writer assign no field of the writer (no memoised answers). " +
			"R8 the unifier's PushBlobChunkedResume compares the two members' upload sizes; R9 mergeIter returns a plain sequence only where both members' errors are known nil.",
		NotDecided: "observable equality of the two members after arbitrary write histories, and equality of results of the two read policies on values, are not decided.",
		Technique:  "static analysis: delegation/fan-out shape on SSA, dominance of both-succeeded conditions, phi-edge pairing in mergeIter",
	})
}

func runC15(c *core.Ctx) {
	c15Visited = map[*ssa.Function]bool{}
	ctor := c.P.Func("ociunify", "New")
	if ctor == nil {
		c.Fail("C15.R0", "anchor/ociunify.New", 0, "ociunify.New not found")
		return
	}
	ts := constructorResultTypes(ctor)
	if len(ts) != 1 {
		c.Fail("C15.R0", "anchor/ociunify.New.result", ctor.Pos(), "cannot determine the unifier type")
		return
	}
	T := ts[0]
	both := c.P.Func("ociunify", "both")
	br := c.P.Func("ociunify", "bothResults")
	if both == nil || br == nil {
		c.Fail("C15.R0", "anchor/ociunify.both", 0, "helpers both / bothResults not found")
		return
	}
	c15VerifyBoth(c, both)
	c15VerifyBothResults(c, br)
	isHelper := func(ci ssa.CallInstruction, h *ssa.Function) bool {
		sc := ci.Common().StaticCallee()
		if sc == nil {
			return false
		}
		return sc == h || sc.Origin() == h
	}
	// the first-success helpers: the two read policies (found by role) and every
	// package-level function of ociunify that reaches one of them
	readHelpers := map[string]bool{}
	readFns := map[*ssa.Function]bool{}
	for _, k := range []string{"ociunify.runReadSequential", "ociunify.runReadConcurrent", "ociunify.runReadWithCancel"} {
		if f := M.Fn(k); f != nil {
			readFns[f] = true
		}
	}
	for changed := true; changed; {
		changed = false
		for _, f := range c.P.ModuleFunctions("ociunify") {
			if f.Parent() != nil || f.Signature.Recv() != nil || isInstance(f) || readFns[f] || f == both || f == br {
				continue
			}
			for _, ci := range facts.CallsIn(f) {
				sc := ci.Common().StaticCallee()
				if sc == nil {
					continue
				}
				if o := sc.Origin(); o != nil {
					sc = o
				}
				if readFns[sc] {
					readFns[f] = true
					changed = true
					break
				}
			}
		}
	}
	for f := range readFns {
		readHelpers[f.Name()] = true
	}
	calleeName := func(ci ssa.CallInstruction) string {
		sc := ci.Common().StaticCallee()
		if sc == nil {
			return ""
		}
		if o := sc.Origin(); o != nil {
			return o.Name()
		}
		return sc.Name()
	}
	for _, m := range ifaceMethods(c) {
		name := m.Name()
		sub := subIfaceOf(c, name)
		fn := declaredMethod(c, T, name)
		if fn == nil {
			c.Fail("C15.R1", "unifier."+name, m.Pos(), name+" is not declared on the unifier")
			continue
		}
		c.Analysed(facts.FuncName(fn))
		key := "unifier." + name
		bcs := backendCalls(fn)
		var mine []backendCall
		for _, bc := range bcs {
			if bc.Method == name {
				mine = append(mine, bc)
			}
		}
		if len(mine) == 0 {
			c.Fail("C15.R1", key+"/delegate", fn.Pos(), "no call of the members' "+name)
			continue
		}
		// arguments = own parameters (ids[i] for the per-member upload id)
		for _, bc := range mine {
			root := outermost(bc.In)
			argsOK := root == fn
			cc := bc.Call.Common()
			for j, a := range cc.Args {
				if argIsParam(a, fn, j+1) {
					continue
				}
				if name == "PushBlobChunkedResume" && j == 2 {
					continue // per-member upload id decoded from the composite id
				}
				if name == "PushBlob" && j == 3 {
					continue // per-member pipe reader fed from the caller's reader
				}
				if j == 0 && sub != "Writer" && sub != "Deleter" && strings.Contains(a.Type().String(), "context.Context") {
					continue // reads pass the per-member cancellable context
				}
				argsOK = false
			}
			c.Check(argsOK, "C15.R1", key+"/args", bc.Call.Pos(), "members are called with the method's own arguments", "a member's "+name+" is not called with the unifier method's own arguments")
		}
		// which helper carries the call?
		usesBoth, usesRead := false, false
		for _, ci := range facts.CallsIn(fn) {
			if isHelper(ci, both) {
				usesBoth = true
			}
			if readHelpers[calleeName(ci)] {
				usesRead = true
			}
		}
		twoGoroutines := false
		if !usesBoth {
			// explicit form: the literal containing the member call is started once per member
			starts := map[string]bool{}
			for _, ci := range facts.CallsIn(fn) {
				if g, ok := ci.(*ssa.Go); ok {
					for _, a := range g.Call.Args {
						if _, fld, isF := facts.FieldOf(facts.Resolve(a)); isF && (fld == "r0" || fld == "r1") {
							starts[fld] = true
						}
					}
				}
			}
			twoGoroutines = starts["r0"] && starts["r1"]
		}
		switch {
		case sub == "Writer" || sub == "Deleter":
			c.Check((usesBoth || twoGoroutines) && !usesRead, "C15.R1", key+"/fan-out", fn.Pos(), "the write is applied to both members", "the unifier's "+name+" is not applied to both members (it goes through a first-success read helper, or reaches only one member): members that start equal diverge and a failing member's error is hidden")
			c15BothSucceed(c, fn, key, br, both)
		case sub == "Lister":
			usesMerge := false
			for _, ci := range facts.CallsIn(fn) {
				if calleeName(ci) == "mergeIter" {
					usesMerge = true
				}
			}
			c.Check(usesBoth && usesMerge, "C15.R4", key+"/merge", fn.Pos(), "both members are listed and merged", "the unifier's "+name+" does not list both members and merge the results with mergeIter")
		case name == "GetTag" || name == "ResolveTag":
			c.Check(usesBoth && !usesRead, "C15.R3", key+"/both-consulted", fn.Pos(), "a tag read consults both members", "a tag read does not consult both members: a conflicting tag would silently resolve to one of them")
			c15TagRead(c, fn, key)
		default:
			c.Check(usesRead && !usesBoth, "C15.R3", key+"/first-success", fn.Pos(), "digest-addressed read through the first-success helper", "a digest-addressed read does not go through the first-success helpers")
		}
	}
	c15Writer(c, both, br)
	// the merged listing is sorted by the unifier itself (members promise no order for referrers)
	wrapperHoldsItsRegistries(c, "C15.R0", "ociunify", "New")
	c05SortedIn(c, "C15.R4", []string{"ociunify"})
	sequentialFallsBackOnAnyFailure(c, "C15.R5")
	cancelBeforeReturnNotForReaders(c, "C15.R6")
	c15MergeIter(c)
	unifiedWriterGettersArePure(c, "C15.R7")
	unifierResumeComparesMemberSizes(c, "C15.R8")
	mergedListingPlainOnlyWithoutError(c, "C15.R9")
}

func c15VerifyBoth(c *core.Ctx, both *ssa.Function) {
	c.Analysed("ociunify.both")
	members := map[string]bool{}
	for _, f := range facts.WithAnon(both) {
		for _, ci := range facts.CallsIn(f) {
			cc := ci.Common()
			if cc.IsInvoke() || cc.StaticCallee() != nil {
				continue
			}
			if _, root, isP := rootParam(cc.Value); !isP || root != both {
				continue
			}
			for _, a := range cc.Args {
				if _, fld, isF := facts.FieldOf(facts.ResolveFree(a)); isF && (fld == "r0" || fld == "r1") {
					members[fld] = true
				}
			}
		}
	}
	c.Check(members["r0"] && members["r1"], "C15.R1", "both/calls-each-member", both.Pos(), "both calls its function once with each member", "the `both` helper does not call its function with each of the two members")
	// returns both received results
	for _, r := range returnsOf(both) {
		ok := len(r.Results) == 2
		for _, v := range r.Results {
			if u, isU := facts.Resolve(v).(*ssa.UnOp); !isU || u.Op != token.ARROW {
				ok = false
			}
		}
		c.Check(ok, "C15.R1", "both/returns-both", r.Pos(), "both waits for and returns both results", "the `both` helper does not return the two results received from the two members")
	}
}

func c15VerifyBothResults(c *core.Ctx, br *ssa.Function) {
	c.Analysed("ociunify.bothResults")
	n := 0
	for _, r := range returnsOf(br) {
		if !argIsParam(facts.RetVal(r, 0), br, 0) && !argIsParam(facts.RetVal(r, 0), br, 1) {
			// an error result built with mkErr
			if call, ok := facts.RetVal(r, 0).(*ssa.Call); ok && call.Call.IsInvoke() && methName(call.Call.Method.Name()) == "mkErr" {
				continue
			}
			c.Fail("C15.R2", "bothResults/returns", r.Pos(), "bothResults returns something that is neither one of its arguments nor an error built by mkErr")
			continue
		}
		n++
		nilErr := map[int]bool{}
		for _, cd := range facts.CondsAt(r.Block()) {
			if x, isNil, ok := facts.NilCheck(cd); ok && isNil {
				if call, isCall := facts.Resolve(x).(*ssa.Call); isCall && call.Call.IsInvoke() && methName(call.Call.Method.Name()) == "error" {
					if argIsParam(call.Call.Value, br, 0) {
						nilErr[0] = true
					}
					if argIsParam(call.Call.Value, br, 1) {
						nilErr[1] = true
					}
				}
			}
		}
		c.Check(nilErr[0] && nilErr[1], "C15.R2", "bothResults/success-needs-both", r.Pos(), "a member's result is passed on only when both members succeeded", "bothResults passes on a member's result on a path where the other member may have failed: a write is reported successful although one member rejected it")
	}
	if n == 0 {
		c.Fail("C15.R2", "bothResults/success-needs-both", br.Pos(), "bothResults never returns a success")
	}
}

var c15Visited = map[*ssa.Function]bool{}

// resultHelper: the returned error (or the whole result tuple) is the result of
// a static call to a helper of package ociunify other than both/bothResults.
func resultHelper(ev ssa.Value, r *ssa.Return, br, both *ssa.Function) *ssa.Function {
	var call *ssa.Call
	switch x := ev.(type) {
	case *ssa.Call:
		call = x
	case *ssa.Extract:
		call, _ = x.Tuple.(*ssa.Call)
	}
	if call == nil {
		return nil
	}
	sc := call.Call.StaticCallee()
	if sc == nil || sc.Blocks == nil || sc.Signature.Recv() != nil {
		return nil
	}
	o := sc
	if sc.Origin() != nil {
		o = sc.Origin()
	}
	if o == br || o == both || !strings.HasSuffix(facts.FuncName(o), o.Name()) || !strings.Contains(o.String(), "ociunify.") {
		return nil
	}
	if strings.HasPrefix(o.Name(), "runRead") || o.Name() == "mk1" || o.Name() == "mk2" {
		return nil
	}
	return o
}

// c15BothSucceed: every success return of a writer/deleter method is justified.
func c15BothSucceed(c *core.Ctx, fn *ssa.Function, key string, br, both *ssa.Function) {
	fromHelper := func(v ssa.Value, h *ssa.Function) bool {
		return sliceHas(v, func(x ssa.Value) bool {
			call, ok := x.(*ssa.Call)
			if !ok {
				return false
			}
			sc := call.Call.StaticCallee()
			return sc != nil && (sc == h || sc.Origin() == h)
		})
	}
	for _, r := range returnsOf(fn) {
		n := len(r.Results)
		if n == 0 {
			continue
		}
		ev := facts.RetVal(r, n-1)
		// error provably non-nil?
		if call, ok := ev.(*ssa.Call); ok && facts.CalleeName(&call.Call) == "fmt.Errorf" {
			continue
		}
		if !facts.IsNilConst(ev) && facts.ProvablyNonNil(ev, r.Block()) {
			continue
		}
		// the result is produced by a package-local helper: the obligation moves into the helper
		if h := resultHelper(ev, r, br, both); h != nil {
			if !c15Visited[h] {
				c15Visited[h] = true
				c.Analysed(facts.FuncName(h))
				c15BothSucceed(c, h, key+"/via "+h.Name(), br, both)
			}
			continue
		}
		ok := false
		why := ""
		switch {
		case fromHelper(ev, br) || (n > 1 && fromHelper(facts.RetVal(r, 0), br)):
			ok = true
		default:
			// conditions at the return
			bothNil := map[string]bool{}
			bothFailed := map[string]bool{}
			eqForm := false
			for _, cd := range facts.CondsAt(r.Block()) {
				if x, isNil, okc := facts.NilCheck(cd); okc && isNil {
					if b, fld, isF := facts.FieldOf(facts.Resolve(x)); isF && fld == "err" {
						bothNil[errOwner(b)] = true
					}
					// a private helper reported no error: what that implies about its arguments
					var hcall *ssa.Call
					switch y := facts.Resolve(x).(type) {
					case *ssa.Call:
						hcall = y
					case *ssa.Extract:
						if c2, isCall := y.Tuple.(*ssa.Call); isCall && y.Index == c2.Call.Signature().Results().Len()-1 {
							hcall = c2
						}
					}
					if hcall != nil {
						for tm := range errNilImpliedBy(hcall, br) {
							bothNil[tm] = true
						}
					}
				}
				if x, isNil, okc := facts.NilCheck(cd); okc && !isNil {
					if b, fld, isF := facts.FieldOf(facts.Resolve(x)); isF && fld == "err" {
						bothFailed[errOwner(b)] = true
					}
				}
				if bo, isBo := cd.V.(*ssa.BinOp); isBo && (bo.Op == token.EQL || bo.Op == token.NEQ) {
					// (a ==/!= nil) ==/!= (b ==/!= nil): the members fail or succeed alike when the
					// number of negations (operator, polarities, branch taken) is even
					l, okl := bo.X.(*ssa.BinOp)
					rr, okr := bo.Y.(*ssa.BinOp)
					nilCmp := func(b *ssa.BinOp) bool {
						return (b.Op == token.EQL || b.Op == token.NEQ) && facts.IsNilConst(b.Y) && !facts.IsNilConst(b.X)
					}
					if okl && okr && nilCmp(l) && nilCmp(rr) && facts.Term(l.X) != facts.Term(rr.X) {
						neg := 0
						for _, n := range []bool{bo.Op == token.NEQ, l.Op == token.NEQ, rr.Op == token.NEQ, !cd.Pos} {
							if n {
								neg++
							}
						}
						if neg%2 == 0 {
							eqForm = true
						}
					}
				}
			}
			if len(bothNil) >= 2 || eqForm || len(bothFailed) >= 2 {
				ok = true // both succeeded, both failed, or "succeeded alike"
			} else {
				why = "a success can be reported on a path where it is not established that both members succeeded"
			}
		}
		c.Check(ok, "C15.R2", key+"/success-needs-both", r.Pos(), "success reported only when both members succeeded (or both failed alike)", "in the unifier's "+fn.Name()+" "+why)
	}
}

func c15TagRead(c *core.Ctx, fn *ssa.Function, key string) {
	// a success return under "both succeeded" needs the digest comparison
	n := 0
	for _, r := range returnsOf(fn) {
		nilErrs := 0
		digestEq := false
		for _, cd := range facts.CondsAt(r.Block()) {
			if x, isNil, ok := facts.NilCheck(cd); ok && isNil {
				if _, fld, isF := facts.FieldOf(facts.Resolve(x)); isF && fld == "err" {
					nilErrs++
				}
			}
			if x, op, y, ok := facts.Cmp(cd); ok && op == token.EQL {
				isDigest := func(v ssa.Value) bool {
					return sliceHas(v, func(z ssa.Value) bool {
						_, fld, isF := facts.FieldOf(z)
						return isF && fld == "Digest"
					})
				}
				if isDigest(x) && isDigest(y) && facts.Term(x) != facts.Term(y) {
					digestEq = true
				}
			}
		}
		if nilErrs < 2 {
			continue
		}
		n++
		ev := facts.RetVal(r, len(r.Results)-1)
		isErr := false
		if call, ok := ev.(*ssa.Call); ok && facts.CalleeName(&call.Call) == "fmt.Errorf" {
			isErr = true
		}
		if isErr {
			continue
		}
		c.Check(digestEq, "C15.R3", key+"/agree-on-digest", r.Pos(), "two successes yield a success only when the digests agree", "when both members resolve the tag a success is returned on a path where their digests were not compared equal: a conflicting tag silently resolves to one member's content")
	}
	if n == 0 {
		c.Fail("C15.R3", key+"/agree-on-digest", fn.Pos(), "no return handles the case where both members resolve the tag")
	}
	// GetTag: the reader not returned is closed
	if fn.Name() == "GetTag" {
		closes := 0
		for _, ci := range facts.CallsIn(fn) {
			cc := ci.Common()
			if cc.IsInvoke() && cc.Method.Name() == "Close" {
				closes++
			}
			if sc := cc.StaticCallee(); sc != nil && (methName(sc.Name()) == "close" || (sc.Origin() != nil && methName(sc.Origin().Name()) == "close")) {
				closes++
			}
		}
		c.Check(closes >= 3, "C15.R3", key+"/unreturned-reader-closed", fn.Pos(), "the reader that is not returned is closed (agreement: one; conflict: both)", "GetTag does not close the readers it does not return")
	}
}

func c15Writer(c *core.Ctx, both, br *ssa.Function) {
	w := c.P.NamedType("ociunify", "unifiedBlobWriter")
	if w == nil {
		c.Fail("C15.R1", "anchor/unifiedBlobWriter", 0, "ociunify.unifiedBlobWriter not found")
		return
	}
	for _, name := range []string{"Write", "Close", "Cancel", "Commit"} {
		fn := c.P.Method(types.NewPointer(w), name)
		if fn == nil {
			c.Fail("C15.R1", "writer."+name, 0, name+" not declared on the unified writer")
			continue
		}
		c.Analysed(facts.FuncName(fn))
		usesBoth, usesBR := false, false
		// a private fan-out helper (`onBothWriters(w, op)`) that applies a callback to
		// each member writer through both/bothResults stands for both of them
		var fanOut *ssa.Function
		fanOutCb := -1
		for _, ci := range facts.CallsIn(fn) {
			if sc := ci.Common().StaticCallee(); sc != nil {
				if sc == both || sc.Origin() == both {
					usesBoth = true
				}
				if sc == br || sc.Origin() == br {
					usesBR = true
				}
				h := sc
				if o := h.Origin(); o != nil {
					h = o
				}
				if cb, ok := writerFanOutHelper(h, both, br); ok {
					usesBoth, usesBR = true, true
					fanOut, fanOutCb = h, cb
				}
			}
		}
		delegates := false
		if fanOut != nil {
			for _, ci := range facts.CallsIn(fn) {
				sc := ci.Common().StaticCallee()
				if sc == nil || !(sc == fanOut || sc.Origin() == fanOut) || fanOutCb >= len(ci.Common().Args) {
					continue
				}
				var lit *ssa.Function
				switch cb := facts.Resolve(ci.Common().Args[fanOutCb]).(type) {
				case *ssa.MakeClosure:
					lit = cb.Fn.(*ssa.Function)
				case *ssa.Function:
					lit = cb // a literal that captures nothing
				}
				if lit == nil {
					continue
				}
				for _, cj := range facts.CallsIn(lit) {
					cc := cj.Common()
					if !cc.IsInvoke() || cc.Method.Name() != name || !isNamed(cc.Value.Type(), "oci/ociregistry", "BlobWriter") {
						continue
					}
					p, isP := facts.ResolveFree(cc.Value).(*ssa.Parameter)
					argsOK := isP && p.Parent() == lit
					for j, a := range cc.Args {
						if !argIsParam(a, fn, j+1) {
							argsOK = false
						}
					}
					delegates = delegates || argsOK
				}
			}
		}
		for _, f := range facts.WithAnon(fn) {
			for _, ci := range facts.CallsIn(f) {
				cc := ci.Common()
				if cc.IsInvoke() && cc.Method.Name() == name && isNamed(cc.Value.Type(), "oci/ociregistry", "BlobWriter") {
					// w.w[i] with i the per-member index parameter
					argsOK := true
					for j, a := range cc.Args {
						if !argIsParam(a, fn, j+1) {
							argsOK = false
						}
					}
					idxOK := false
					if u, ok := facts.Strip(cc.Value).(*ssa.UnOp); ok {
						if ia, ok := u.X.(*ssa.IndexAddr); ok {
							if p, ok := facts.ResolveFree(ia.Index).(*ssa.Parameter); ok && p.Parent() == f {
								idxOK = true
							}
						}
					}
					if ix, ok := facts.Strip(cc.Value).(*ssa.Index); ok {
						if p, ok := facts.ResolveFree(ix.Index).(*ssa.Parameter); ok && p.Parent() == f {
							idxOK = true
						}
					}
					delegates = delegates || (argsOK && idxOK)
				}
			}
		}
		c.Check(usesBoth && usesBR && delegates, "C15.R1", "writer."+name+"/fan-out", fn.Pos(), name+" is applied to both member writers and succeeds only if both do", "the unified writer's "+name+" is not applied to both member writers through both/bothResults with its own arguments")
	}
}

func c15MergeIter(c *core.Ctx) { mergeIterForgiveness(c, "C15.R4") }

// mergeIterForgiveness (C15.R4, C05.R8): in mergeIter a member's error is
// cleared only on a path where that same error is established to be
// name-unknown; every other error ends the merged listing.
func mergeIterForgiveness(c *core.Ctx, rule string) {
	mi := c.P.Func("ociunify", "mergeIter")
	if mi == nil {
		c.Fail(rule, "anchor/ociunify.mergeIter", 0, "ociunify.mergeIter not found")
		return
	}
	c.Analysed("ociunify.mergeIter")
	n := 0
	// mergeIter and the private helpers the error handling may have moved to
	var scope []*ssa.Function
	for _, f := range withHelpers(mi) {
		if f.Parent() == nil {
			scope = append(scope, f)
		}
	}
	for _, sf := range scope {
		for _, b := range sf.Blocks {
			for _, in := range b.Instrs {
				ph, ok := in.(*ssa.Phi)
				if !ok || ph.Type().String() != "error" {
					continue
				}
				for i, e := range ph.Edges {
					if !facts.IsNilConst(e) {
						continue
					}
					// the other incoming value(s): the error variable being cleared
					var others []ssa.Value
					for j, e2 := range ph.Edges {
						if j != i && !facts.IsNilConst(e2) {
							others = append(others, e2)
						}
					}
					pred := b.Preds[i]
					var forgiven ssa.Value
					for _, cd := range facts.CondsAt(pred) {
						if call, ok := cd.V.(*ssa.Call); ok && cd.Pos && facts.CalleeName(&call.Call) == "errors.Is" {
							if errGlobalOf(call.Call.Args[1]) == "ErrNameUnknown" {
								forgiven = call.Call.Args[0]
							}
						}
					}
					if forgiven == nil {
						// an error variable is cleared without its own name-unknown test in force
						real := false
						for _, o := range others {
							switch rootErr(o).(type) {
							case *ssa.Extract, *ssa.Parameter:
								real = true
							}
						}
						if real {
							c.Fail(rule, "mergeIter/forgive-only-name-unknown", ph.Pos(), "a member's listing error is cleared on a path where it is not established that this very error is name-unknown (e.g. because the OTHER member reported name-unknown): the member's real failure is dropped and the merged listing ends early without an error")
						}
						continue
					}
					n++
					same := false
					for _, o := range others {
						if rootErr(o) == rootErr(forgiven) {
							same = true
						}
					}
					c.Check(same, rule, "mergeIter/forgive-own-error", ph.Pos(), "a member's name-unknown clears that member's own error", "mergeIter forgives one member's name-unknown error by clearing the OTHER member's error variable: a listing of a repository known to only one member ends with a name-unknown error (or hides the other member's real error)")
				}
			}
		}
	}
	if n < 2 {
		c.Fail(rule, "mergeIter/forgive-own-error", mi.Pos(), sprintf("only %d name-unknown forgiveness sites found in mergeIter", n))
	}
}

// rootErr follows phis back to the originating error value.
func rootErr(v ssa.Value) ssa.Value {
	for d := 0; d < 6; d++ {
		v = facts.Resolve(v)
		ph, ok := v.(*ssa.Phi)
		if !ok {
			return v
		}
		var next ssa.Value
		for _, e := range ph.Edges {
			if !facts.IsNilConst(e) {
				next = e
				break
			}
		}
		if next == nil {
			return v
		}
		v = next
	}
	return v
}

// errNilImpliedBy: call is a call of a private helper returning a sole error;
// the result is the set of `<x>.err` terms (in the caller's vocabulary) that
// are known nil on EVERY path on which the helper returns a nil error.
func errNilImpliedBy(call *ssa.Call, br *ssa.Function) map[string]bool {
	h := call.Call.StaticCallee()
	if h == nil || h.Blocks == nil || len(privateCallSites(h)) == 0 {
		return nil
	}
	res := h.Signature.Results()
	if res.Len() == 0 || res.At(res.Len()-1).Type().String() != "error" {
		return nil
	}
	var inter map[string]bool
	withParams(h, call, func() {
		for _, r := range returnsOf(h) {
			ev := facts.RetVal(r, len(r.Results)-1)
			if !facts.IsNilConst(ev) && facts.ProvablyNonNil(ev, r.Block()) {
				continue
			}
			here := map[string]bool{}
			if !facts.IsNilConst(ev) {
				// the combined error of bothResults(a, b) is nil only if both a and b
				// succeeded (C15.R2 bothResults/success-needs-both)
				known := false
				if b, fld, isF := facts.FieldOf(ev); isF && fld == "err" {
					bv := facts.Resolve(b)
					if al, isAl := bv.(*ssa.Alloc); isAl {
						if sts := facts.StoresTo(al); len(sts) == 1 {
							bv = facts.Resolve(sts[0].Val)
						}
					}
					if bc, isCall := bv.(*ssa.Call); isCall && br != nil && len(bc.Call.Args) == 2 {
						if sc := bc.Call.StaticCallee(); sc != nil && (sc == br || sc.Origin() == br) {
							here[errOwner(bc.Call.Args[0])] = true
							here[errOwner(bc.Call.Args[1])] = true
							known = true
						}
					}
				}
				if !known {
					// may be nil, and nothing is known then
					inter = map[string]bool{}
					return
				}
			}
			for _, cd := range facts.CondsAt(r.Block()) {
				if x, isNil, ok := facts.NilCheck(cd); ok && isNil {
					if b, fld, isF := facts.FieldOf(facts.Resolve(x)); isF && fld == "err" {
						here[errOwner(b)] = true
					}
				}
			}
			if inter == nil {
				inter = here
			} else {
				for k := range inter {
					if !here[k] {
						delete(inter, k)
					}
				}
			}
		}
	})
	return inter
}

// errOwner names the result carrier whose err field is meant, independently of
// how it is accessed: a parameter spilled to a local cell, a load of that cell
// and the parameter itself all give the parameter's term (bound to the call's
// argument while a helper is summarised).
func errOwner(b ssa.Value) string {
	for d := 0; d < 6; d++ {
		b = facts.Resolve(b)
		switch x := b.(type) {
		case *ssa.UnOp:
			if x.Op == token.MUL {
				b = x.X
				continue
			}
		case *ssa.Alloc:
			if sts := facts.StoresTo(x); len(sts) == 1 {
				b = sts[0].Val
				continue
			}
		}
		break
	}
	return facts.Term(b)
}

// writerFanOutHelper: h calls both and bothResults and, in the literal it hands
// to both, calls one of its own parameters (a callback) with the member writer
// selected by the literal's index parameter; returns that parameter's index.
func writerFanOutHelper(h, both, br *ssa.Function) (int, bool) {
	if h == nil || h.Blocks == nil || len(privateCallSites(h)) == 0 {
		return -1, false
	}
	usesBoth, usesBR := false, false
	for _, ci := range facts.CallsIn(h) {
		if sc := ci.Common().StaticCallee(); sc != nil {
			if sc == both || sc.Origin() == both {
				usesBoth = true
			}
			if sc == br || sc.Origin() == br {
				usesBR = true
			}
		}
	}
	if !usesBoth || !usesBR {
		return -1, false
	}
	for _, f := range facts.WithAnon(h) {
		if f == h {
			continue
		}
		for _, ci := range facts.CallsIn(f) {
			cc := ci.Common()
			if cc.IsInvoke() || cc.StaticCallee() != nil || len(cc.Args) == 0 {
				continue
			}
			p, ok := facts.ResolveFree(cc.Value).(*ssa.Parameter)
			if !ok || p.Parent() != h {
				continue
			}
			// the argument: w.w[i] with i the literal's own parameter
			idxOK := false
			switch a := facts.Strip(cc.Args[0]).(type) {
			case *ssa.UnOp:
				if ia, ok := a.X.(*ssa.IndexAddr); ok {
					if q, ok := facts.ResolveFree(ia.Index).(*ssa.Parameter); ok && q.Parent() == f {
						idxOK = true
					}
				}
			case *ssa.Index:
				if q, ok := facts.ResolveFree(a.Index).(*ssa.Parameter); ok && q.Parent() == f {
					idxOK = true
				}
			}
			if !idxOK {
				continue
			}
			for i, q := range h.Params {
				if q == p {
					return i, true
				}
			}
		}
	}
	return -1, false
}
