package props

import (
	"go/token"
	"go/types"
	"regexp/syntax"
	"strings"

	"golang.org/x/tools/go/ssa"

	"ocivet/internal/core"
	"ocivet/internal/facts"
)

// Rules added after the sixth round of seeded changes (seeded/*-K, *-L).

// knownDigestWhenHeaderAbsent (C01.R7; seed C01-K): when the response carries
// no Docker-Content-Digest header, the descriptor's digest is the digest the
// caller asked for — unconditionally. Otherwise a digest-addressed read without
// the header is verified against the digest of whatever was received.
func knownDigestWhenHeaderAbsent(c *core.Ctx, rule string) {
	dfr := c.P.Func("ociclient", "descriptorFromResponse")
	if dfr == nil {
		return
	}
	var hdr ssa.Value
	hdrFn := dfr
	for _, f := range withHelpers(dfr) {
		for _, ci := range facts.CallsIn(f) {
			if facts.CalleeName(ci.Common()) == "(net/http.Header).Get" {
				if s, ok := facts.ConstString(ci.Common().Args[1]); ok && s == "Docker-Content-Digest" {
					hdr = ci.Value()
					hdrFn = outermost(f)
				}
			}
		}
	}
	if hdr == nil {
		c.Fail(rule, "descriptorFromResponse/known-digest-when-header-absent", dfr.Pos(), "the Docker-Content-Digest header is never read")
		return
	}
	fromHdr := func(v ssa.Value) bool { return sliceHas(v, func(x ssa.Value) bool { return x == hdr }) }
	hdrEmptyAt := func(b *ssa.BasicBlock) bool {
		for _, cd := range facts.CondsAt(b) {
			if x, isEmpty, ok := facts.EmptyTest(cd); ok && isEmpty && fromHdr(x) {
				return true
			}
		}
		return false
	}
	isKnownParam := func(v ssa.Value) bool {
		p, ok := facts.Resolve(resolveUp(v, dfr, 3)).(*ssa.Parameter)
		return ok && p.Parent() == dfr && strings.HasSuffix(p.Type().String(), "go-digest.Digest")
	}
	n := 0
	for _, b := range hdrFn.Blocks {
		for _, in := range b.Instrs {
			switch x := in.(type) {
			case *ssa.Phi:
				// the digest variable: one edge from the header, the others chosen where it is empty
				anyHdr := false
				for _, e := range x.Edges {
					if fromHdr(e) {
						anyHdr = true
					}
				}
				if !anyHdr || !(strings.HasSuffix(x.Type().String(), "go-digest.Digest") || x.Type().String() == "string") {
					continue
				}
				for i, e := range x.Edges {
					if !hdrEmptyAt(b.Preds[i]) {
						continue
					}
					n++
					c.Check(isKnownParam(e), rule, "descriptorFromResponse/known-digest-when-header-absent", x.Pos(), "without the header the descriptor carries the digest that was asked for", "on a path where the response has no Docker-Content-Digest header the descriptor's digest is not the known digest of the request (e.g. the fallback is applied only when a digest is required): a digest-addressed read is then verified against the digest of whatever bytes arrived, so wrong or truncated content is delivered with a clean EOF")
				}
			case *ssa.Return:
				if hdrFn == dfr || len(x.Results) == 0 || !hdrEmptyAt(b) || !facts.RetErrIsNil(x) {
					continue
				}
				if !strings.HasSuffix(x.Results[0].Type().String(), "go-digest.Digest") {
					continue
				}
				n++
				c.Check(isKnownParam(facts.RetVal(x, 0)), rule, "descriptorFromResponse/known-digest-when-header-absent", x.Pos(), "without the header the known digest is returned", "on a path where the response has no Docker-Content-Digest header the helper does not return the known digest of the request")
			}
		}
	}
	if n == 0 {
		c.Fail(rule, "descriptorFromResponse/known-digest-when-header-absent", dfr.Pos(), "no place found where the known digest stands in for an absent Docker-Content-Digest header")
	}
}

// storedBlobDataNeverReassigned (C01.R8; seed C01-L): the bytes of a stored
// blob are set when the blob value is built and never again: the same *blob
// can be shared between repositories (MountBlob) and between readers.
func storedBlobDataNeverReassigned(c *core.Ctx, rule string) {
	n := 0
	for _, fn := range c.P.ModuleFunctions("ocimem") {
		for _, b := range fn.Blocks {
			for _, in := range b.Instrs {
				st, ok := in.(*ssa.Store)
				if !ok {
					continue
				}
				base, fld, isF := facts.FieldOf(st.Addr)
				if !isF || structName(base.Type()) != "blob" || (fld != "data" && fld != "mediaType") {
					continue
				}
				n++
				c.Check(isFreshBase(base), rule, facts.FuncName(fn)+"/blob-"+fld+"-set-once", st.Pos(), "a blob's content is set only while the blob value is being built", "a field of an already stored blob ("+fld+") is assigned: the *blob may be shared with another repository (MountBlob) or handed to a reader, so the content served for that digest changes or vanishes there too")
			}
		}
	}
	if n == 0 {
		c.Fail(rule, "ocimem/blob-set-once/instance-floor", 0, "no construction of an ocimem blob found")
	}
}

// routerSplitsAtTheLastKeyword (C03.R13 / C17.R8; seed C03-L): a repository
// name may itself contain "/blobs/uploads", "/manifests/", "/tags/", … as path
// elements, so the router separates it from the request path with suffix or
// last-occurrence operations only — never at the FIRST occurrence of a keyword.
func routerSplitsAtTheLastKeyword(c *core.Ctx, rule string) {
	parse := M.Fn("ocirequest.parse")
	if parse == nil {
		parse = c.P.Func("internal/ocirequest", "parse")
	}
	if parse == nil {
		c.Fail(rule, "anchor/ocirequest.parse", 0, "ocirequest.parse not found")
		return
	}
	keyword := func(s string) bool {
		for _, k := range []string{"/blobs", "/manifests", "/tags", "/referrers", "/uploads"} {
			if strings.Contains(s, k) {
				return true
			}
		}
		return false
	}
	n := 0
	for _, f := range withHelpers(parse) {
		for _, ci := range facts.CallsIn(f) {
			name := facts.CalleeName(ci.Common())
			a := ci.Common().Args
			var sep string
			okSep := false
			first := false
			switch name {
			case "strings.Cut", "strings.Index", "strings.Split", "strings.SplitN", "strings.SplitAfter", "strings.SplitAfterN", "strings.CutPrefix":
				if len(a) >= 2 {
					sep, okSep = facts.ConstString(a[1])
				}
				first = name != "strings.CutPrefix"
			case "strings.LastIndex", "strings.CutSuffix", "strings.HasSuffix", "strings.TrimSuffix":
				if len(a) >= 2 {
					sep, okSep = facts.ConstString(a[1])
				}
			default:
				continue
			}
			if !okSep || !keyword(sep) {
				continue
			}
			n++
			c.Check(!first, rule, "ocirequest.parse/split-at-last-keyword", ci.Pos(), "the path is split at a suffix / the last occurrence of the keyword", "the router splits the request path at the FIRST occurrence of "+sep+": a valid repository name that contains that path element (e.g. myorg"+sep+"/cache) is cut in the middle and its requests are answered 404, although the registry behind serves it")
		}
	}
	if n == 0 {
		c.Note(rule + ": the router does not separate repository names with string operations on path keywords")
	}
}

// failedMethodLeavesState (C04.R8; seed C04-K): a method that reports failure
// has assigned no field of its receiver on that path — generalised from
// C04.R6 to any (type, method); used for the HTTP client's blobWriter.Write.
func failedMethodLeavesState(c *core.Ctx, rule, rel, typeName, method string) {
	T := c.P.NamedType(rel, typeName)
	if T == nil {
		return
	}
	m := declaredMethod(c, types.NewPointer(T), method)
	if m == nil {
		c.Fail(rule, "anchor/"+typeName+"."+method, 0, typeName+"."+method+" not found")
		return
	}
	recv := recvOf(m)
	isFieldStore := func(in ssa.Instruction) bool {
		st, ok := in.(*ssa.Store)
		if !ok {
			return false
		}
		base, _, isF := facts.FieldOf(st.Addr)
		return isF && structName(base.Type()) == typeName && facts.Term(facts.Resolve(base)) == facts.Term(recv)
	}
	n := 0
	for _, r := range returnsOf(m) {
		if facts.RetErrIsNil(r) {
			continue
		}
		n++
		// is there a field store on some path from the entry to this return?
		bad := false
		var pos token.Pos
		for _, b := range m.Blocks {
			for _, in := range b.Instrs {
				if !isFieldStore(in) {
					continue
				}
				isRet := func(x ssa.Instruction) bool { return x == ssa.Instruction(r) }
				if _, reach := facts.ReachesWithout(in, isRet, nil, nil); reach {
					bad = true
					pos = in.Pos()
				}
			}
		}
		if bad {
			c.Fail(rule, typeName+"."+method+"/refusal-leaves-state", pos, typeName+"."+method+" assigns a field of the writer on a path that ends in an error return: the caller is told nothing was written (0, err) while the data stays buffered, so a retried Write uploads it twice and a resume at the reported size is refused")
		}
	}
	if n == 0 {
		c.Note(rule + ": " + typeName + "." + method + " has no error return")
	} else {
		c.OK(rule, typeName+"."+method+"/refusal-leaves-state/checked", m.Pos(), sprintf("%d error returns examined", n))
	}
}

// statusFoundThroughTheErrorChain (C07.R9; seed C07-K): on the way from an
// error to the HTTP status line (MarshalError, WriteError and their helpers)
// an error is never type-asserted to one of the module's error interfaces:
// errors.As finds a wrapped HTTPError, a type assertion only an unwrapped one.
func statusFoundThroughTheErrorChain(c *core.Ctx, rule string) {
	var roots []*ssa.Function
	for _, n := range []string{"MarshalError", "WriteError"} {
		if f := c.P.Func("", n); f != nil {
			roots = append(roots, f)
		}
	}
	if len(roots) == 0 {
		return
	}
	seen := map[*ssa.Function]bool{}
	n := 0
	for _, r := range roots {
		for _, f := range withHelpers(r) {
			if seen[f] {
				continue
			}
			seen[f] = true
			for _, b := range f.Blocks {
				for _, in := range b.Instrs {
					ta, ok := in.(*ssa.TypeAssert)
					if !ok || ta.X.Type().String() != "error" {
						continue
					}
					it, isIface := ta.AssertedType.Underlying().(*types.Interface)
					if !isIface || it.NumMethods() == 0 {
						continue
					}
					if !strings.Contains(ta.AssertedType.String(), "oci/ociregistry.") {
						continue
					}
					n++
					c.Fail(rule, fnName(outermost(f))+"/status-through-error-chain", ta.Pos(), "an error is type-asserted to "+shortType(ta.AssertedType)+" on the way to the status line: a wrapped error (fmt.Errorf(\"…: %w\", NewHTTPError(…))) is not recognised and is answered with 500 instead of its own status, on this hop and every later one; errors.As looks through the chain")
				}
			}
		}
	}
	if n == 0 {
		c.OK(rule, "MarshalError/status-through-error-chain", roots[0].Pos(), "no type assertion of an error to a module error interface on the status path")
	}
}

// commitHashesUnderTheLock (C08.R9; seed C08-K): the bytes whose digest gates
// `committed = true` are read from the buffer in the same critical section:
// no unlock lies between the read of buf that is hashed and the store.
func commitHashesUnderTheLock(c *core.Ctx, rule string) {
	n := 0
	isUnlock := func(i ssa.Instruction) bool {
		ci, ok := i.(*ssa.Call)
		if !ok {
			return false
		}
		_, kind, ok := lockCall(ci)
		return ok && kind == "unlock"
	}
	for _, fn := range c.P.ModuleFunctions("ocimem") {
		for _, b := range fn.Blocks {
			for _, in := range b.Instrs {
				st, ok := in.(*ssa.Store)
				if !ok {
					continue
				}
				base, fld, isF := facts.FieldOf(st.Addr)
				if !isF || structName(base.Type()) != "Buffer" || fld != "committed" || isFreshBase(base) {
					continue
				}
				if cst, isC := st.Val.(*ssa.Const); isC && cst.Value != nil && cst.Value.ExactString() == "false" {
					continue
				}
				// the FromBytes calls of this function and its helpers: each hashed value
				// must be a load of buf with no unlock between that load and the store
				for _, f := range withHelpers(fn) {
					for _, ci := range facts.CallsIn(f) {
						call, isCall := ci.(*ssa.Call)
						if !isCall || !strings.HasSuffix(facts.CalleeName(&call.Call), "go-digest.FromBytes") {
							continue
						}
						n++
						arg := call.Call.Args[0]
						// the load of Buffer.buf the argument comes from
						var load ssa.Instruction
						sliceHas(arg, func(v ssa.Value) bool {
							if u, ok := v.(*ssa.UnOp); ok && u.Op == token.MUL {
								if _, f2, isF2 := facts.FieldOf(u); isF2 && f2 == "buf" {
									load = u
								}
							}
							return false
						})
						if load == nil {
							c.Fail(rule, facts.FuncName(fn)+"/hash-under-lock", call.Pos(), "the digest that gates the commit is not computed from the upload buffer")
							continue
						}
						bad := false
						if load.Parent() == st.Parent() {
							isStore := func(i ssa.Instruction) bool { return i == ssa.Instruction(st) }
							if _, reach := facts.ReachesWithout(load, isUnlock, isStore, nil); reach {
								bad = true
							}
						}
						c.Check(!bad, rule, facts.FuncName(fn)+"/hash-under-lock", call.Pos(), "the hashed bytes are read in the critical section that marks the upload committed", "the upload's bytes are read, the lock is released, and only then are they hashed and the upload marked committed: a Write that lands in between is accepted, so the blob stored under the verified digest contains extra bytes (no data race is reported: every access is locked)")
					}
				}
			}
		}
	}
	if n == 0 {
		c.Note(rule + ": no digest computation found next to a `committed = true` store")
	}
}

// unifiedWriterGettersArePure (C15.R7; seed C15-K): ID, Size and ChunkSize of
// the unified writer are functions of the members' current state: they assign
// no field of the writer (a memoised ID goes stale when a member's upload ID
// changes after a chunk).
func unifiedWriterGettersArePure(c *core.Ctx, rule string) {
	n := 0
	for _, fn := range c.P.ModuleFunctions("ociunify") {
		if fn.Signature.Recv() == nil || fn.Parent() != nil {
			continue
		}
		switch fn.Name() {
		case "ID", "Size", "ChunkSize":
		default:
			continue
		}
		rt := structName(fn.Signature.Recv().Type())
		if rt == "" {
			continue
		}
		n++
		bad := false
		for _, f := range withHelpers(fn) {
			for _, b := range f.Blocks {
				for _, in := range b.Instrs {
					st, ok := in.(*ssa.Store)
					if !ok {
						continue
					}
					base, fld, isF := facts.FieldOf(st.Addr)
					if isF && structName(base.Type()) == rt && !isFreshBase(base) {
						bad = true
						c.Fail(rule, rt+"."+fn.Name()+"/getter-is-pure", st.Pos(), "the unified writer's "+fn.Name()+" assigns its field "+fld+": the answer is remembered, so after a member's state has moved on (an upload ID that changes with every chunk) the unified writer reports a stale value and a resume through the unifier is refused by healthy, equal members")
					}
				}
			}
		}
		if !bad {
			c.OK(rule, rt+"."+fn.Name()+"/getter-is-pure", fn.Pos(), "assigns no field of the writer")
		}
	}
	if n == 0 {
		c.Note(rule + ": no ID/Size/ChunkSize methods found in ociunify")
	}
}

// cancelFuncNeverNil (C16.R8; seed C16-L): every function of ociunify that
// hands back a cancel function (a `func()` result) hands back a non-nil one on
// every return: its callers call it unconditionally.
func cancelFuncNeverNil(c *core.Ctx, rule string) {
	n := 0
	for _, fn := range c.P.ModuleFunctions("ociunify") {
		if isInstance(fn) || fn.Parent() != nil {
			continue
		}
		res := fn.Signature.Results()
		for i := 0; i < res.Len(); i++ {
			sig, ok := res.At(i).Type().Underlying().(*types.Signature)
			if !ok || sig.Params().Len() != 0 || sig.Results().Len() != 0 {
				continue
			}
			for _, r := range returnsOf(fn) {
				if i >= len(r.Results) {
					continue
				}
				n++
				v := facts.RetVal(r, i)
				c.Check(!facts.IsNilConst(facts.Strip(v)), rule, fnName(fn)+"/cancel-never-nil", r.Pos(), "a cancel function is returned", "a nil cancel function is returned; the callers (runRead, the blob reader's Close) call it unconditionally, so the read panics instead of returning the error")
			}
		}
	}
	if n == 0 {
		c.Note(rule + ": no function of ociunify returns a func()")
	}
}

// captureGroupsCannotBeEmpty (C17.R9; seed C17-K): ParseRelative decides
// "was a tag / digest / host given" by whether the capture is non-empty, so no
// capture group of the reference pattern may match the empty string: "repo:"
// would otherwise parse like "repo" and the printed reference would not parse
// back to what was written.
func captureGroupsCannotBeEmpty(c *core.Ctx, rule string) {
	n := 0
	for _, fn := range c.P.ModuleFunctions("ociref") {
		for _, ci := range facts.CallsIn(fn) {
			if facts.CalleeName(ci.Common()) != "(*regexp.Regexp).FindStringSubmatch" {
				continue
			}
			pat, ok := regexpPattern(c, ci.Common().Args[0])
			if !ok {
				continue
			}
			re, err := syntax.Parse(pat, syntax.Perl)
			if err != nil {
				continue
			}
			var walk func(r *syntax.Regexp)
			walk = func(r *syntax.Regexp) {
				if r.Op == syntax.OpCapture {
					n++
					c.Check(minMatchLen(r.Sub[0]) >= 1, rule, sprintf("%s/capture-%d-non-empty", fnName(fn), r.Cap), ci.Pos(), sprintf("capture %d cannot match the empty string", r.Cap), sprintf("capture group %d of the reference pattern can match the empty string, while the parser takes a non-empty capture to mean that the part was given: a reference with an empty part (\"repo:\") is accepted as if the part were absent, and printing the parsed reference does not give the input back", r.Cap))
				}
				for _, s := range r.Sub {
					walk(s)
				}
			}
			walk(re)
		}
	}
	if n == 0 {
		c.Note(rule + ": no constant reference pattern with capture groups found in ociref")
	}
}

func minMatchLen(r *syntax.Regexp) int {
	switch r.Op {
	case syntax.OpLiteral:
		return len(r.Rune)
	case syntax.OpCharClass, syntax.OpAnyChar, syntax.OpAnyCharNotNL:
		return 1
	case syntax.OpCapture, syntax.OpPlus:
		return minMatchLen(r.Sub[0])
	case syntax.OpRepeat:
		return r.Min * minMatchLen(r.Sub[0])
	case syntax.OpConcat:
		t := 0
		for _, s := range r.Sub {
			t += minMatchLen(s)
		}
		return t
	case syntax.OpAlternate:
		best := -1
		for _, s := range r.Sub {
			if m := minMatchLen(s); best < 0 || m < best {
				best = m
			}
		}
		if best < 0 {
			return 0
		}
		return best
	}
	return 0 // star, quest, empty match, anchors
}

// pointerResultsNonNilOnSuccess (C18.R7; seed C18-K): a private function of
// the client side that returns (*T, error) and whose callers use the pointer
// without a nil test returns, on every nil-error path, a pointer that cannot
// be nil (the address of a variable). Decoding JSON into a *T leaves nil for
// the body `null`.
func pointerResultsNonNilOnSuccess(c *core.Ctx, rule string, rels ...string) {
	n := 0
	for _, rel := range rels {
		for _, fn := range c.P.ModuleFunctions(rel) {
			if isInstance(fn) || fn.Parent() != nil {
				continue
			}
			res := fn.Signature.Results()
			if res.Len() != 2 || res.At(1).Type().String() != "error" {
				continue
			}
			pt, isPtr := res.At(0).Type().Underlying().(*types.Pointer)
			if !isPtr {
				continue
			}
			if _, isStruct := pt.Elem().Underlying().(*types.Struct); !isStruct {
				continue
			}
			sites := privateCallSites(fn)
			if len(sites) == 0 {
				continue
			}
			// does some caller (possibly after handing the pointer up unchanged)
			// dereference the result without a nil test?
			deref := pointerResultDereferenced(fn, 3)
			if !deref {
				continue
			}
			for _, r := range returnsOf(fn) {
				if !facts.RetErrIsNil(r) {
					continue
				}
				n++
				v := facts.RetVal(r, 0)
				ok := true
				// the shapes that can be nil with a nil error: the nil constant, and a
				// local pointer variable that is only ever filled in through its address
				// (json.Unmarshal(data, &p), Decode(&p)) or not at all
				if facts.IsNilConst(facts.Strip(v)) {
					ok = false
				}
				if u, isU := v.(*ssa.UnOp); isU && u.Op == token.MUL {
					if al, isAl := u.X.(*ssa.Alloc); isAl {
						assigned := false
						for _, st := range facts.StoresTo(al) {
							if facts.ProvablyNonNil(st.Val, st.Block()) && facts.Dominates(st, r) {
								assigned = true
							}
						}
						ok = assigned
					}
				}
				c.Check(ok, rule, fnName(fn)+"/pointer-non-nil-on-success", r.Pos(), "the pointer returned with a nil error is the address of a value", fnName(fn)+" can return (nil, nil) — e.g. the result is decoded into a pointer, which the JSON body `null` leaves nil — and its caller dereferences the result without a nil test: a response chosen by the server makes the client panic")
			}
		}
	}
	if n == 0 {
		c.Note(rule + ": no private (*T, error) function whose result is dereferenced unchecked")
	}
}

// pointerResultDereferenced: result 0 of private function fn is used at some
// call site as the base of a field access without a dominating nil test, or is
// returned unchanged by a private caller of which the same holds.
func pointerResultDereferenced(fn *ssa.Function, depth int) bool {
	if depth <= 0 {
		return false
	}
	for _, s := range privateCallSites(fn) {
		v := s.Value()
		if v == nil || v.Referrers() == nil {
			continue
		}
		for _, ref := range *v.Referrers() {
			ex, ok := ref.(*ssa.Extract)
			if !ok || ex.Index != 0 || ex.Referrers() == nil {
				continue
			}
			for _, use := range *ex.Referrers() {
				switch u := use.(type) {
				case *ssa.FieldAddr:
					if !nonNilGuardedUp(u.Block(), ex, 1) {
						return true
					}
				case *ssa.Phi:
					// `tok, err := f(a); if err != nil { tok, err = f(b) }; tok.X`
					if u.Referrers() != nil {
						for _, use2 := range *u.Referrers() {
							if fa, ok := use2.(*ssa.FieldAddr); ok && !nonNilGuardedUp(fa.Block(), u, 1) {
								return true
							}
						}
					}
				case *ssa.Return:
					if len(u.Results) > 0 && u.Results[0] == ssa.Value(ex) && pointerResultDereferenced(outermost(u.Parent()), depth-1) {
						return true
					}
				}
			}
		}
	}
	return false
}

// authKeysKeepThePort (C19.R6; seed C19-K): URL-form keys of the auths table
// are reduced to host[:port] — the form in which registries are looked up
// (req.URL.Host); the key normalisation never drops the port.
func authKeysKeepThePort(c *core.Ctx, rule string) {
	dec := c.P.Func("ociauth", "decodeConfigFile")
	if dec == nil {
		return
	}
	bad := 0
	for _, f := range withHelpers(dec) {
		for _, ci := range facts.CallsIn(f) {
			name := facts.CalleeName(ci.Common())
			if name == "(*net/url.URL).Hostname" || name == "net.SplitHostPort" {
				bad++
				c.Fail(rule, "decodeConfigFile/auth-key-keeps-port", ci.Pos(), "a URL-form key of the auths table is reduced with "+name+", which drops the port: the entry for https://host:5000/v2/ is filed under \"host\", a lookup of host:5000 finds nothing, and two ports of one host collide")
			}
		}
	}
	if bad == 0 {
		c.OK(rule, "decodeConfigFile/auth-key-keeps-port", dec.Pos(), "auth-file keys are not reduced to a bare host name")
	}
}

// rewoundBodyIsForwardedOrClosed (C11.R13; seed C11-L): after RoundTrip has
// re-opened the request body (req.GetBody) every path to a return forwards the
// request (the transport then owns the body) or closes the body.
func rewoundBodyIsForwardedOrClosed(c *core.Ctx, rule string, rt *ssa.Function) {
	n := 0
	for _, ci := range facts.CallsIn(rt) {
		call, ok := ci.(*ssa.Call)
		if !ok || call.Call.IsInvoke() || call.Call.StaticCallee() != nil {
			continue
		}
		if _, fld, isF := facts.FieldOf(facts.Resolve(call.Call.Value)); !isF || fld != "GetBody" {
			continue
		}
		n++
		var errV ssa.Value
		for _, ref := range *call.Referrers() {
			if ex, ok := ref.(*ssa.Extract); ok && ex.Index == 1 {
				errV = ex
			}
		}
		isRet := func(in ssa.Instruction) bool { _, ok := in.(*ssa.Return); return ok }
		discharges := func(in ssa.Instruction) bool {
			cj, ok := in.(ssa.CallInstruction)
			if !ok {
				return false
			}
			cc := cj.Common()
			if cc.IsInvoke() && cc.Method.Name() == "RoundTrip" {
				return true
			}
			if cc.IsInvoke() && cc.Method.Name() == "Close" {
				if _, fld, isF := facts.FieldOf(facts.Resolve(cc.Value)); isF && fld == "Body" {
					if b, _, _ := facts.FieldOf(facts.Resolve(cc.Value)); b != nil && !strings.Contains(b.Type().String(), "Response") {
						return true
					}
				}
			}
			// a private helper that forwards
			if h := cc.StaticCallee(); h != nil && len(privateCallSites(h)) > 0 {
				for _, ck := range facts.CallsIn(h) {
					if ck.Common().IsInvoke() && ck.Common().Method.Name() == "RoundTrip" {
						return true
					}
				}
			}
			return false
		}
		// not along the edge on which GetBody itself failed (nothing was opened)
		edge := func(b *ssa.BasicBlock, idx int) bool {
			for _, cd := range facts.EdgeConds(b, idx) {
				if x, isNil, ok := facts.NilCheck(cd); ok && !isNil && errV != nil && facts.Resolve(x) == errV {
					return false
				}
			}
			return true
		}
		_, leak := facts.ReachesWithout(call, isRet, discharges, edge)
		c.Check(!leak, rule, "RoundTrip/rewound-body-forwarded-or-closed", call.Pos(), "a re-opened request body is forwarded or closed on every path", "RoundTrip re-opens the request body (GetBody) and can then return without forwarding the request or closing that body (e.g. when the challenge cannot be met): the freshly opened body is never closed")
	}
	if n == 0 {
		c.Note(rule + ": RoundTrip never calls req.GetBody")
	}
}
