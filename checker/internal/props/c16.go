package props

import (
	"go/token"
	"go/types"
	"strings"

	"golang.org/x/tools/go/ssa"

	"ocivet/internal/core"
	"ocivet/internal/facts"
	"ocivet/internal/load"
)

func init() {
	register(&Prop{
		ID:    "C16",
		Title: "Concurrent unified reads are leak-free for every answer order and cancellation",
		Run:   runC16,
		Explanation: "R1 goroutine/channel shape: in the concurrent read the `done` channel is closed by a defer registered before any return, and every channel operation of a spawned sender is an arm of a select that also waits on `done`; in `both` and PushBlob every send of a spawned goroutine is matched by a receive that lies on every path of the spawner after the go statements (so no goroutine stays blocked once both members have returned); " +
			"R2 loser disposal: on the `done` arm the sender both closes its result and cancels its context, and result.close really closes (the type assertion to io.Closer is applied to the carried value and Close is called under ok); " +
			"R3 receiver discipline: every result received from a member is either returned together with its own cancel function (never after that cancel was called) or its cancel is called on every path; a success is returned as soon as it is received; " +
			"R4 cancel ownership: runRead calls the returned cancel before returning; the blob-reader variant calls it on the error path and otherwise stores it in the returned reader, whose Close closes the underlying reader and then calls it; " +
			"R5 an error that was not received from a member is returned only on the `<-ctx.Done()` arm. " +
			"R4b blobReader.Close cancels on every path; every caller of runReadWithCancel cancels, hands the cancel to the returned reader, or returns it; R6 (as C15.R6). " +
			"R7 inside a read helper's callback every member call uses the context handed to the callback. " +
			"R1b the channel the member goroutines send their answers on is unbuffered. " +
			"R8 every function of ociunify that returns a cancel function returns a non-nil one on every return. " +
			"R9 in the goroutine that asks a member, every path from the answer to the end delivers the answer (send arm) or closes it.",
		NotDecided: "wall-clock behaviour of slow members and actual goroutine scheduling are not decided; the rules decide the shape that makes every answer order and cancellation point leak-free.",
		Technique:  "static analysis: goroutine/channel shape on SSA (select arms, deferred close), typestate of received results, dominance",
	})
}

func unifyFunc(c *core.Ctx, name string) *ssa.Function {
	return c.P.Func("ociunify", name)
}

// chanCell: the Alloc cell (or value) a channel operand is loaded from, resolved through closure captures.
func chanIdent(v ssa.Value) ssa.Value {
	v = facts.Strip(v)
	if u, ok := v.(*ssa.UnOp); ok && u.Op == token.MUL {
		if al, _, ok := cellOf(u); ok {
			return al
		}
		return u.X
	}
	return facts.ResolveFree(v)
}

func runC16(c *core.Ctx) {
	rrc := unifyFunc(c, "runReadConcurrent")
	if rrc == nil {
		c.Fail("C16.R0", "anchor/ociunify.runReadConcurrent", 0, "ociunify.runReadConcurrent not found")
		return
	}
	c.Analysed("ociunify.runReadConcurrent")
	c16Shape(c, rrc)
	c16Receiver(c, rrc)
	c16CancelOwnership(c)
	cancelBeforeReturnNotForReaders(c, "C16.R6")
	readerCloseAlwaysCancels(c, "C16.R4")
	memberCallsUseMemberContext(c, "C16.R7")
	resultChannelUnbuffered(c, "C16.R1")
	cancelFuncNeverNil(c, "C16.R8")
	undeliveredAnswerIsClosed(c, "C16.R9")
	c16Both(c)
}

func c16Shape(c *core.Ctx, rrc *ssa.Function) {
	// deferred close(done)
	var doneCh ssa.Value
	var deferClose *ssa.Defer
	for _, ci := range facts.CallsIn(rrc) {
		d, ok := ci.(*ssa.Defer)
		if !ok {
			continue
		}
		if bi, ok := d.Call.Value.(*ssa.Builtin); ok && bi.Name() == "close" {
			deferClose = d
			doneCh = chanIdent(d.Call.Args[0])
		}
	}
	if deferClose == nil {
		c.Fail("C16.R1", "runReadConcurrent/defer-close-done", rrc.Pos(), "no deferred close of a `done` channel: losing senders are never released")
	} else {
		ok := true
		for _, r := range returnsOf(rrc) {
			if !facts.Dominates(deferClose, r) {
				ok = false
			}
		}
		c.Check(ok, "C16.R1", "runReadConcurrent/defer-close-done", deferClose.Pos(), "`done` is closed by a defer registered before every return", "a return of runReadConcurrent is not covered by the deferred close(done)")
	}
	// spawned senders
	nGo := 0
	for _, ci := range facts.CallsIn(rrc) {
		g, ok := ci.(*ssa.Go)
		if !ok {
			continue
		}
		nGo++
		sender, bind := spawnedFunc(g)
		if sender == nil {
			c.Fail("C16.R1", "runReadConcurrent/sender", g.Pos(), "spawned function is neither a local closure nor a function of the module")
			continue
		}
		c.Analysed(facts.FuncName(sender))
		c16Sender(c, sender, doneCh, bind)
	}
	c.Check(nGo == 2, "C16.R1", "runReadConcurrent/two-senders", rrc.Pos(), "one sender per member", sprintf("%d goroutines are spawned; expected one per member", nGo))
}

// spawnedFunc: the function a go statement runs — a local closure, or a
// function of the module called with arguments — and the map from a value of
// that function to the spawner's value it stands for (a captured variable, or
// the argument bound to a parameter).
func spawnedFunc(g *ssa.Go) (*ssa.Function, func(ssa.Value) ssa.Value) {
	if mc, ok := facts.Resolve(g.Call.Value).(*ssa.MakeClosure); ok {
		return mc.Fn.(*ssa.Function), func(v ssa.Value) ssa.Value { return v }
	}
	sc := g.Call.StaticCallee()
	if sc == nil || !load.InModule(sc) {
		return nil, nil
	}
	if o := sc.Origin(); o != nil && (sc.Blocks == nil || sc.Synthetic != "") {
		sc = o // an instantiation (wrapper) of a generic function: judge the generic body
	}
	if sc.Blocks == nil || len(sc.Params) != len(g.Call.Args) {
		return nil, nil
	}
	args := g.Call.Args
	return sc, func(v ssa.Value) ssa.Value {
		r := v
		for d := 0; d < 4; d++ {
			if ct, ok := r.(*ssa.ChangeType); ok {
				r = ct.X
				continue
			}
			break
		}
		if p, ok := facts.Resolve(r).(*ssa.Parameter); ok {
			for i, q := range sc.Params {
				if q == p {
					a := args[i]
					for d := 0; d < 4; d++ {
						if ct, ok := a.(*ssa.ChangeType); ok {
							a = ct.X
							continue
						}
						break
					}
					return a
				}
			}
		}
		return v
	}
}

func c16Sender(c *core.Ctx, sender *ssa.Function, doneCh ssa.Value, bind func(ssa.Value) ssa.Value) {
	key := "runReadConcurrent.sender"
	var sel *ssa.Select
	bad := 0
	for _, b := range sender.Blocks {
		for _, in := range b.Instrs {
			switch x := in.(type) {
			case *ssa.Send:
				bad++
				c.Fail("C16.R1", key+"/bare-send", x.Pos(), "the sender sends its result outside a select on `done`: if the receiver has already returned the goroutine blocks forever")
			case *ssa.UnOp:
				if x.Op == token.ARROW {
					bad++
					c.Fail("C16.R1", key+"/bare-receive", x.Pos(), "the sender receives outside a select")
				}
			case *ssa.Select:
				sel = x
			}
		}
	}
	if sel == nil {
		c.Fail("C16.R1", key+"/select", sender.Pos(), "the sender has no select: its result is not offered together with waiting on `done`")
		return
	}
	doneIdx, sendIdx := -1, -1
	doneMatches := false
	for i, st := range sel.States {
		if st.Dir == types.RecvOnly {
			doneIdx = i
			if doneCh != nil && chanIdent(bind(st.Chan)) == doneCh {
				doneMatches = true
			}
		}
		if st.Dir == types.SendOnly {
			sendIdx = i
		}
	}
	c.Check(sel.Blocking && doneIdx >= 0 && doneMatches && sendIdx >= 0 && bad == 0, "C16.R1", key+"/select-on-done", sel.Pos(), "the result is offered in a select that also waits on `done`", "the sender's select does not have both a send arm and a receive arm on the `done` channel that the spawner closes on return")
	if doneIdx < 0 {
		return
	}
	// R2: on the done arm: close the result and cancel the context
	var idxV ssa.Value
	for _, ref := range *sel.Referrers() {
		if ex, ok := ref.(*ssa.Extract); ok && ex.Index == 0 {
			idxV = ex
		}
	}
	// the value produced by f and the cancel func
	var cancelV ssa.Value
	for _, ci := range facts.CallsIn(sender) {
		if facts.CalleeName(ci.Common()) == "context.WithCancel" {
			for _, ref := range *ci.Value().Referrers() {
				if ex, ok := ref.(*ssa.Extract); ok && ex.Index == 1 {
					cancelV = ex
				}
			}
		}
	}
	closed, cancelled := false, false
	for _, b := range sender.Blocks {
		onDone := false
		for _, cd := range facts.CondsAt(b) {
			if x, op, y, ok := facts.Cmp(cd); ok && op == token.EQL && x == idxV {
				if k, isK := facts.ConstInt(y); isK && int(k) == doneIdx {
					onDone = true
				}
			}
		}
		if !onDone {
			continue
		}
		for _, in := range b.Instrs {
			ci, ok := in.(ssa.CallInstruction)
			if !ok {
				continue
			}
			cc := ci.Common()
			if cc.IsInvoke() && methName(cc.Method.Name()) == "close" {
				closed = true
			}
			if sc := cc.StaticCallee(); sc != nil && methName(sc.Name()) == "close" {
				closed = true
			}
			if cancelV != nil && facts.Resolve(cc.Value) == cancelV {
				cancelled = true
			}
		}
	}
	c.Check(closed && cancelled, "C16.R2", key+"/loser-closed-and-cancelled", sel.Pos(), "on the `done` arm the unclaimed result is closed and its context cancelled", "on the `done` arm the sender does not both close its result and cancel its context: a reader opened on the member that was not chosen leaks")
	// the context passed to f is the cancellable one
	okCtx := false
	for _, ci := range facts.CallsIn(sender) {
		cc := ci.Common()
		if cc.IsInvoke() || cc.StaticCallee() != nil {
			continue
		}
		if p, ok := facts.ResolveFree(cc.Value).(*ssa.Parameter); ok && p.Parent() == sender && len(cc.Args) >= 1 {
			if ex, ok := facts.Resolve(cc.Args[0]).(*ssa.Extract); ok && ex.Index == 0 {
				if call, ok := ex.Tuple.(*ssa.Call); ok && facts.CalleeName(&call.Call) == "context.WithCancel" {
					okCtx = true
				}
			}
		}
	}
	c.Check(okCtx, "C16.R2", key+"/member-gets-cancellable-context", sender.Pos(), "the member is called with the per-sender cancellable context", "the member is not called with the context that the sender's cancel function cancels")
	// result.close implementations really close
	seenClose := map[string]bool{}
	for _, fn := range c.P.ModuleFunctions("ociunify") {
		if methName(fn.Name()) != "close" || fn.Signature.Recv() == nil {
			continue
		}
		if seenClose[c.P.Pos(fn.Pos())] {
			continue // one instance per source method
		}
		hasAssert := false
		okAssert := false
		for _, b := range fn.Blocks {
			for _, in := range b.Instrs {
				ta, ok := in.(*ssa.TypeAssert)
				if !ok {
					continue
				}
				hasAssert = true
				// operand: MakeInterface of field x of the receiver
				if _, fld, isF := facts.FieldOf(facts.Resolve(ta.X)); isF && fld == "x" {
					okAssert = true
				}
				if mi, ok := ta.X.(*ssa.MakeInterface); ok {
					if _, fld, isF := facts.FieldOf(facts.Resolve(mi.X)); isF && fld == "x" {
						okAssert = true
					}
				}
			}
		}
		if !hasAssert {
			continue // t1.close: nothing to close
		}
		seenClose[c.P.Pos(fn.Pos())] = true
		callsClose := false
		for _, ci := range facts.CallsIn(fn) {
			if ci.Common().IsInvoke() && ci.Common().Method.Name() == "Close" {
				callsClose = true
			}
		}
		c.Check(okAssert && callsClose, "C16.R2", facts.FuncName(fn)+"/closes-carried-value", fn.Pos(), "close asserts io.Closer on the carried value and closes it", "result.close does not apply the io.Closer assertion to the carried value (field x) or never calls Close: closing an unclaimed result silently does nothing")
	}
}

// receivedResults: cells holding a value received from the result channel.
type recvCell struct {
	cell *ssa.Alloc
	at   ssa.Instruction // the store of the received value
}

func c16Receiver(c *core.Ctx, rrc *ssa.Function) {
	var cells []recvCell
	for _, b := range rrc.Blocks {
		for _, in := range b.Instrs {
			st, ok := in.(*ssa.Store)
			if !ok {
				continue
			}
			ex, ok := st.Val.(*ssa.Extract)
			if !ok {
				continue
			}
			if _, isSel := ex.Tuple.(*ssa.Select); !isSel || ex.Index < 2 {
				continue
			}
			if al, ok := st.Addr.(*ssa.Alloc); ok {
				cells = append(cells, recvCell{al, st})
			}
		}
	}
	if len(cells) == 1 {
		// one receive site visited once per member: it lies on a cycle of the CFG
		st := cells[0].at
		isSame := func(in ssa.Instruction) bool { return in == st }
		if _, again := facts.ReachesWithout(st, isSame, nil, nil); !again {
			c.Fail("C16.R3", "runReadConcurrent/receives", rrc.Pos(), "only 1 receive of member results found, and not in a loop: the second member's answer is never awaited")
			return
		}
	} else if len(cells) < 2 {
		c.Fail("C16.R3", "runReadConcurrent/receives", rrc.Pos(), sprintf("only %d receives of member results found", len(cells)))
		return
	}
	fieldOfCell := func(v ssa.Value, cell *ssa.Alloc, name string) bool {
		v = facts.Strip(v)
		u, ok := v.(*ssa.UnOp)
		if !ok || u.Op != token.MUL {
			return false
		}
		fa, ok := u.X.(*ssa.FieldAddr)
		if !ok || fa.X != ssa.Value(cell) {
			return false
		}
		_, f, _ := facts.FieldOf(fa)
		if f == name {
			return true
		}
		// the carrier is a struct local to the function: its fields are told apart
		// by type (the cancel function is the func() field, the answer the other one)
		if pt, ok := fa.X.Type().Underlying().(*types.Pointer); ok {
			if st, ok := pt.Elem().Underlying().(*types.Struct); ok && st.NumFields() == 2 && fa.Field < st.NumFields() {
				_, isFunc := st.Field(fa.Field).Type().Underlying().(*types.Signature)
				if name == "cancel" {
					return isFunc
				}
				if name == "r" {
					return !isFunc
				}
			}
		}
		return false
	}
	for i, rc := range cells {
		key := sprintf("runReadConcurrent/received#%d", i+1)
		isCancelCall := func(in ssa.Instruction) bool {
			ci, ok := in.(ssa.CallInstruction)
			return ok && fieldOfCell(ci.Common().Value, rc.cell, "cancel")
		}
		returnsPair := func(in ssa.Instruction) bool {
			r, ok := in.(*ssa.Return)
			if !ok || len(r.Results) != 2 {
				return false
			}
			return fieldOfCell(facts.RetVal(r, 0), rc.cell, "r") && fieldOfCell(facts.RetVal(r, 1), rc.cell, "cancel")
		}
		disposed := func(in ssa.Instruction) bool { return isCancelCall(in) || returnsPair(in) }
		undisposedExit := func(in ssa.Instruction) bool { return facts.IsExit(in) && !disposed(in) }
		if at, leak := facts.ReachesWithout(rc.at, undisposedExit, disposed, nil); leak {
			c.Fail("C16.R3", key+"/disposed", rc.at.Pos(), "a result received from a member can reach "+c.P.Pos(at.Pos())+" without being returned with its cancel function and without its cancel being called: the member's context is never cancelled")
		} else {
			c.OK("C16.R3", key+"/disposed", rc.at.Pos(), "returned with its own cancel, or cancelled, on every path")
		}
		// returning the result's value requires returning its own cancel, not cancelled before
		for _, r := range returnsOf(rrc) {
			if len(r.Results) != 2 || !fieldOfCell(facts.RetVal(r, 0), rc.cell, "r") {
				continue
			}
			okPair := fieldOfCell(facts.RetVal(r, 1), rc.cell, "cancel")
			cancelledBefore := false
			for _, b := range rrc.Blocks {
				for _, in := range b.Instrs {
					if isCancelCall(in) && facts.Dominates(in, r) {
						cancelledBefore = true
					}
					if isCancelCall(in) && in.Block() == r.Block() {
						cancelledBefore = true
					}
				}
			}
			c.Check(okPair && !cancelledBefore, "C16.R3", key+"/returned-with-live-cancel", r.Pos(), "the chosen member's result is returned with its own, still uncalled, cancel function", "a member's result is returned without its own cancel function, or after that cancel was already called: the context given to the chosen member is dead before the returned reader is used (or is never cancelled)")
		}
	}
	// first receive: success returned immediately
	first := cells[0]
	immediate := false
	for _, r := range returnsOf(rrc) {
		if len(r.Results) == 2 && fieldOfCell(facts.RetVal(r, 0), first.cell, "r") {
			conds := facts.CondsAt(r.Block())
			// `if last || r.error() == nil { return … }`: one of the edges into the
			// returning block is the success test
			for _, p := range r.Block().Preds {
				for idx, sb := range p.Succs {
					if sb == r.Block() {
						conds = append(conds, facts.EdgeConds(p, idx)...)
					}
				}
			}
			for _, cd := range conds {
				if x, isNil, ok := facts.NilCheck(cd); ok && isNil {
					if call, isCall := facts.Resolve(x).(*ssa.Call); isCall && call.Call.IsInvoke() && methName(call.Call.Method.Name()) == "error" {
						immediate = true
					}
				}
			}
		}
	}
	c.Check(immediate, "C16.R3", "runReadConcurrent/first-success-returned", first.at.Pos(), "a successful first answer is returned at once", "the first answer is not returned when it is a success")
	// R5: errors not from a member only on the ctx.Done() arm
	n := 0
	for _, r := range returnsOf(rrc) {
		if len(r.Results) != 2 {
			continue
		}
		v := facts.RetVal(r, 0)
		isMkErr := func(v ssa.Value) bool {
			call, ok := v.(*ssa.Call)
			return ok && call.Call.IsInvoke() && methName(call.Call.Method.Name()) == "mkErr"
		}
		synth := isMkErr(v)
		if ex, isEx := v.(*ssa.Extract); isEx && !synth {
			// or produced by a private helper that does nothing but build such an error
			if hc, isCall := ex.Tuple.(*ssa.Call); isCall {
				h := hc.Call.StaticCallee()
				if h != nil && h.Origin() != nil {
					h = h.Origin() // the generic body
				}
				if h != nil && h.Blocks != nil && len(privateCallSites(h)) > 0 {
					all, k := true, 0
					for _, hr := range returnsOf(h) {
						k++
						if ex.Index >= len(hr.Results) || !isMkErr(facts.RetVal(hr, ex.Index)) {
							all = false
						}
					}
					synth = all && k > 0
				}
			}
		}
		if !synth {
			continue
		}
		n++
		onDone := false
		for _, cd := range facts.CondsAt(r.Block()) {
			x, op, y, okc := facts.Cmp(cd)
			if !okc || op != token.EQL {
				continue
			}
			ex, isEx := x.(*ssa.Extract)
			if !isEx {
				continue
			}
			sel, isSel := ex.Tuple.(*ssa.Select)
			k, isK := facts.ConstInt(y)
			if !isSel || !isK || int(k) >= len(sel.States) {
				continue
			}
			if dc, isCall := facts.Resolve(sel.States[k].Chan).(*ssa.Call); isCall && dc.Call.IsInvoke() && dc.Call.Method.Name() == "Done" {
				onDone = true
			}
		}
		c.Check(onDone, "C16.R5", "runReadConcurrent/ctx-error-only-on-done", r.Pos(), "a synthesised error is returned only on the <-ctx.Done() arm", "an error that did not come from a member is returned on a path other than the <-ctx.Done() arm")
	}
	if n == 0 {
		c.Fail("C16.R5", "runReadConcurrent/ctx-error-only-on-done", rrc.Pos(), "no cancellation return found")
	}
}

func c16CancelOwnership(c *core.Ctx) {
	rwc := unifyFunc(c, "runReadWithCancel")
	if rwc == nil {
		c.Fail("C16.R4", "anchor/runReadWithCancel", 0, "runReadWithCancel not found")
		return
	}
	// every function that obtains the winner's cancel function from
	// runReadWithCancel owns it: on each of its returns the cancel has been
	// called, or travels with the returned reader (its `cancel` field), or is
	// itself returned to the caller (who then owns it and is checked the same way)
	nOwners, nCarried := 0, 0
	for _, fn := range c.P.ModuleFunctions("ociunify") {
		if isInstance(fn) || fn == rwc {
			continue
		}
		for _, ci := range facts.CallsIn(fn) {
			sc := ci.Common().StaticCallee()
			if sc == nil || !(sc == rwc || (sc.Origin() != nil && sc.Origin() == rwc)) || ci.Value() == nil {
				continue
			}
			var cv ssa.Value
			for _, ref := range *ci.Value().Referrers() {
				if ex, ok := ref.(*ssa.Extract); ok && ex.Index == 1 {
					cv = ex
				}
			}
			key := fnName(fn)
			if fn.Parent() != nil {
				key = fnName(outermost(fn)) + "$lit"
			}
			if cv == nil {
				c.Fail("C16.R4", key+"/cancel", ci.Pos(), "the cancel function returned by runReadWithCancel is discarded: the chosen member's context leaks")
				continue
			}
			nOwners++
			c.Analysed(facts.FuncName(fn))
			for _, r := range returnsOf(fn) {
				if !facts.Dominates(ci, r) {
					continue
				}
				called := false
				for _, cj := range facts.CallsIn(fn) {
					if facts.Resolve(cj.Common().Value) == cv && facts.Dominates(cj, r) {
						called = true
					}
				}
				carried, forwarded := false, false
				for i := range r.Results {
					v := facts.RetVal(r, i)
					if v == cv {
						forwarded = true
					}
					if mi, isMI := v.(*ssa.MakeInterface); isMI {
						v = mi.X
					}
					if u, isU := v.(*ssa.UnOp); isU {
						v = u.X
					}
					if al, isAl := v.(*ssa.Alloc); isAl {
						if cf, has := blobLiteralFieldOf(al, "cancel"); has && facts.Resolve(cf) == cv {
							carried = true
						}
					}
				}
				if carried {
					nCarried++
					// only a success may hand the live context on
					c.Check(facts.RetErrIsNil(r), "C16.R4", key+"/reader-owns-cancel", r.Pos(), "the returned reader carries the winner's cancel function", "a reader carrying the cancel function is returned together with an error")
					continue
				}
				c.Check(called || forwarded, "C16.R4", key+"/cancels-before-return", r.Pos(), "the winner's context is cancelled (or its cancel function handed on) before returning", fnName(fn)+" returns without calling the cancel function it was given by runReadWithCancel (and without handing it on): the chosen member's context leaks")
			}
		}
	}
	if nOwners < 2 || nCarried == 0 {
		c.Fail("C16.R4", "cancel-owners/instance-floor", rwc.Pos(), sprintf("only %d callers of runReadWithCancel take its cancel function, %d of them hand it to a returned reader", nOwners, nCarried))
	}
	// blobReader.Close: closes the underlying reader and calls cancel
	br := c.P.NamedType("ociunify", "blobReader")
	if br == nil {
		c.Fail("C16.R4", "anchor/ociunify.blobReader", 0, "ociunify.blobReader not found")
		return
	}
	cl := c.P.Method(br, "Close")
	if cl == nil {
		c.Fail("C16.R4", "blobReader.Close", 0, "blobReader.Close not declared")
		return
	}
	closes, cancels := false, false
	for _, ci := range facts.CallsIn(cl) {
		cc := ci.Common()
		if cc.IsInvoke() && cc.Method.Name() == "Close" {
			closes = true
		}
		if _, fld, isF := facts.FieldOf(facts.Resolve(cc.Value)); isF && fld == "cancel" {
			cancels = true
		}
	}
	c.Check(closes && cancels, "C16.R4", "blobReader.Close/closes-and-cancels", cl.Pos(), "Close closes the underlying reader and cancels the member's context", "blobReader.Close does not both close the underlying reader and call cancel: the chosen member's context is never cancelled after the reader is closed")
}

// c16Both: `both` and PushBlob — every send of a spawned goroutine is matched by an unconditional receive.
func c16Both(c *core.Ctx) {
	for _, fn := range c.P.ModuleFunctions("ociunify") {
		if fn.Parent() != nil || isInstance(fn) || fnName(fn) == "runReadConcurrent" {
			continue
		}
		var gos []*ssa.Go
		for _, ci := range facts.CallsIn(fn) {
			if g, ok := ci.(*ssa.Go); ok {
				gos = append(gos, g)
			}
		}
		if len(gos) == 0 {
			continue
		}
		c.Analysed(facts.FuncName(fn))
		// sends per channel in spawned functions
		sends := map[ssa.Value]int{}
		for _, g := range gos {
			var lit *ssa.Function
			if mc, ok := facts.Resolve(g.Call.Value).(*ssa.MakeClosure); ok {
				lit = mc.Fn.(*ssa.Function)
			}
			if lit == nil {
				continue
			}
			for _, b := range lit.Blocks {
				for _, in := range b.Instrs {
					if s, ok := in.(*ssa.Send); ok {
						sends[chanIdent(s.Chan)]++
					}
				}
			}
		}
		for ch, k := range sends {
			// k distinct receives, each on every path from the last go to an exit
			last := gos[len(gos)-1]
			n := 0
			for _, b := range fn.Blocks {
				for _, in := range b.Instrs {
					u, ok := in.(*ssa.UnOp)
					if !ok || u.Op != token.ARROW || chanIdent(u.X) != ch {
						continue
					}
					isThis := func(i ssa.Instruction) bool { return i == ssa.Instruction(u) }
					if _, miss := facts.ReachesWithout(last, facts.IsExit, isThis, nil); !miss {
						n++
					}
				}
			}
			// a buffered channel of sufficient capacity also works
			capOK := false
			if mc, ok := resolveChanMake(ch); ok {
				if kcap, isK := facts.ConstInt(mc.Size); isK && int(kcap) >= k {
					capOK = true
				}
			}
			c.Check(n >= k || capOK, "C16.R1", facts.FuncName(fn)+"/sends-matched", last.Pos(), sprintf("%d goroutine send(s) matched by %d unconditional receive(s)", k, n), sprintf("%d send(s) from spawned goroutines but only %d receive(s) on every path of the spawner: a goroutine can stay blocked after both members have returned", k, n))
		}
	}
}

func resolveChanMake(ch ssa.Value) (*ssa.MakeChan, bool) {
	if mc, ok := ch.(*ssa.MakeChan); ok {
		return mc, true
	}
	if al, ok := ch.(*ssa.Alloc); ok {
		for _, st := range facts.StoresTo(al) {
			if mc, ok := st.Val.(*ssa.MakeChan); ok {
				return mc, true
			}
		}
	}
	return nil, false
}

var _ = strings.HasPrefix
