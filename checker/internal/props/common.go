// Package props maps each property to its rule instances.
package props

import (
	"fmt"
	"go/token"
	"go/types"
	"sort"
	"strings"

	"golang.org/x/tools/go/ssa"

	"ocivet/internal/core"
	"ocivet/internal/facts"
	"ocivet/internal/load"
)

// Prop is one property's checker.
type Prop struct {
	ID          string
	Title       string
	Run         func(c *core.Ctx)
	Explanation string
	NotDecided  string // clauses of the property this check does not decide
	Technique   string
	DesignRef   string
}

var Registry = map[string]*Prop{}

func register(p *Prop) { Registry[p.ID] = p }

func IDs() []string {
	var ids []string
	for id := range Registry {
		ids = append(ids, id)
	}
	sort.Strings(ids)
	return ids
}

// ---------------------------------------------------------------- Interface model

// ifaceType returns ociregistry.Interface.
func ifaceType(c *core.Ctx) *types.Interface {
	n := c.P.NamedType("", "Interface")
	if n == nil {
		return nil
	}
	it, _ := n.Underlying().(*types.Interface)
	return it
}

// ifaceMethods returns the exported methods of ociregistry.Interface sorted by name.
func ifaceMethods(c *core.Ctx) []*types.Func {
	it := ifaceType(c)
	if it == nil {
		return nil
	}
	var out []*types.Func
	for i := 0; i < it.NumMethods(); i++ {
		m := it.Method(i)
		if m.Exported() {
			out = append(out, m)
		}
	}
	sort.Slice(out, func(i, j int) bool { return out[i].Name() < out[j].Name() })
	return out
}

// subIfaceOf returns which of Reader/Writer/Deleter/Lister declares method name.
func subIfaceOf(c *core.Ctx, name string) string {
	for _, s := range []string{"Reader", "Writer", "Deleter", "Lister"} {
		n := c.P.NamedType("", s)
		if n == nil {
			continue
		}
		it, _ := n.Underlying().(*types.Interface)
		if it == nil {
			continue
		}
		for i := 0; i < it.NumMethods(); i++ {
			if it.Method(i).Name() == name {
				return s
			}
		}
	}
	return ""
}

// Role table (DESIGN appendix A.1): which parameter indexes (0 = ctx) are in
// the repository namespace. A method absent from this table is reported as
// unreviewed by every wrapper rule.
type methodRole struct {
	Repos  []int // repository-namespace params
	Cursor int   // index of a repository-namespace cursor (Repositories.startAfter), 0 = none
}

var roles = map[string]methodRole{
	"GetBlob": {Repos: []int{1}}, "GetBlobRange": {Repos: []int{1}}, "GetManifest": {Repos: []int{1}},
	"GetTag": {Repos: []int{1}}, "ResolveBlob": {Repos: []int{1}}, "ResolveManifest": {Repos: []int{1}},
	"ResolveTag": {Repos: []int{1}}, "PushBlob": {Repos: []int{1}}, "PushBlobChunked": {Repos: []int{1}},
	"PushBlobChunkedResume": {Repos: []int{1}}, "PushManifest": {Repos: []int{1}},
	"MountBlob":  {Repos: []int{1, 2}},
	"DeleteBlob": {Repos: []int{1}}, "DeleteManifest": {Repos: []int{1}}, "DeleteTag": {Repos: []int{1}},
	"Tags": {Repos: []int{1}}, "Referrers": {Repos: []int{1}},
	"Repositories": {Cursor: 1},
}

// ---------------------------------------------------------------- wrapper analysis

// constructorResultType finds the concrete (non-interface) type of the values
// returned by constructor fn, looking through MakeInterface. If several
// different types are returned it returns all of them.
func constructorResultTypes(fn *ssa.Function) []types.Type {
	var out []types.Type
	seen := map[string]bool{}
	for _, b := range fn.Blocks {
		for _, in := range b.Instrs {
			ret, ok := in.(*ssa.Return)
			if !ok || len(ret.Results) == 0 {
				continue
			}
			v := ret.Results[0]
			var visit func(v ssa.Value, d int)
			visit = func(v ssa.Value, d int) {
				if d > 5 {
					return
				}
				switch x := v.(type) {
				case *ssa.MakeInterface:
					t := x.X.Type()
					if !seen[t.String()] {
						seen[t.String()] = true
						out = append(out, t)
					}
				case *ssa.Phi:
					for _, e := range x.Edges {
						visit(e, d+1)
					}
				case *ssa.ChangeInterface:
					visit(x.X, d+1)
				case *ssa.Call:
					if cal := x.Call.StaticCallee(); cal != nil && cal.Blocks != nil {
						for _, t := range constructorResultTypes(cal) {
							if !seen[t.String()] {
								seen[t.String()] = true
								out = append(out, t)
							}
						}
					}
				}
			}
			visit(v, 0)
		}
	}
	return out
}

// declaredMethod returns the SSA function for method name declared directly
// on T (or *T), or nil if the method is promoted / missing.
func declaredMethod(c *core.Ctx, T types.Type, name string) *ssa.Function {
	if !token.IsExported(name) {
		if f := c.P.Method(T, name); f != nil {
			return f
		}
	}
	ms := c.P.SSA.MethodSets.MethodSet(T)
	for i := 0; i < ms.Len(); i++ {
		sel := ms.At(i)
		if sel.Obj().Name() != name {
			continue
		}
		if len(sel.Index()) != 1 {
			return nil // promoted through an embedded field
		}
		return c.P.SSA.MethodValue(sel)
	}
	return nil
}

// rootParam: if v (in fn or a closure nested in it) resolves to a parameter
// of the outermost enclosing function, return that function's param index.
func rootParam(v ssa.Value) (idx int, root *ssa.Function, ok bool) {
	v = facts.ResolveFree(v)
	p, isp := v.(*ssa.Parameter)
	if !isp {
		return -1, nil, false
	}
	fn := p.Parent()
	for i, q := range fn.Params {
		if q == p {
			return i, fn, true
		}
	}
	return -1, nil, false
}

// backendCall describes a call made on an ociregistry.Interface-typed value.
type backendCall struct {
	Call   ssa.CallInstruction
	In     *ssa.Function // function containing the call (may be a closure)
	Method string
	Recv   ssa.Value
}

// isIfaceNamed reports whether t is the named interface type mod.name.
func isNamed(t types.Type, pkgSuffix, name string) bool {
	n, ok := t.(*types.Named)
	if !ok {
		if a, ok2 := t.(*types.Alias); ok2 {
			return isNamed(types.Unalias(a), pkgSuffix, name)
		}
		return false
	}
	o := n.Obj()
	return canonTypeName(n) == name && o.Pkg() != nil && strings.HasSuffix(o.Pkg().Path(), pkgSuffix)
}

// backendCalls lists every invoke of an Interface / sub-interface method on a
// value of (named) interface type ociregistry.{Interface,Reader,Writer,Deleter,Lister},
// in fn and its nested closures.
func backendCalls(fn *ssa.Function) []backendCall {
	var out []backendCall
	for _, f := range facts.WithAnon(fn) {
		for _, ci := range facts.CallsIn(f) {
			cc := ci.Common()
			if !cc.IsInvoke() {
				continue
			}
			t := cc.Value.Type()
			ok := false
			for _, n := range []string{"Interface", "Reader", "Writer", "Deleter", "Lister", "ReadWriter"} {
				if isNamed(t, "oci/ociregistry", n) {
					ok = true
				}
			}
			if !ok {
				continue
			}
			out = append(out, backendCall{Call: ci, In: f, Method: cc.Method.Name(), Recv: cc.Value})
		}
	}
	return out
}

// argIsParam reports whether call argument arg is exactly parameter idx of
// the outermost method root (receiver is param 0 of an SSA method, so
// interface-signature index i maps to SSA index i+1 for methods with receivers).
func argIsParam(arg ssa.Value, root *ssa.Function, idx int) bool {
	i, r, ok := rootParam(arg)
	if ok && r != root && root != nil {
		// a parameter of a private helper that root (transitively) calls: it is
		// root's parameter idx if every such call binds it to that parameter
		i, r, ok = rootParam(resolveUp(arg, root, 3))
	}
	return ok && r == root && i == idx
}

// reachHelpers: root plus the private helpers statically reachable from root's
// tree (closures included), to the given depth.
func reachHelpers(root *ssa.Function, depth int) map[*ssa.Function]bool {
	out := map[*ssa.Function]bool{root: true}
	frontier := []*ssa.Function{root}
	for d := 0; d < depth && len(frontier) > 0; d++ {
		var next []*ssa.Function
		for _, f := range frontier {
			for _, g := range facts.WithAnon(f) {
				for _, ci := range facts.CallsIn(g) {
					h := ci.Common().StaticCallee()
					if h == nil || out[h] || h.Blocks == nil || len(privateCallSites(h)) == 0 {
						continue
					}
					if o := h.Origin(); o != nil {
						h = o
					}
					out[h] = true
					next = append(next, h)
				}
			}
		}
		frontier = next
	}
	return out
}

// resolveUp: if v denotes a parameter of a private helper reachable from root,
// and every call of that helper made from root's tree (or from other such
// helpers) binds the parameter to one and the same value, that value
// (resolved further up); otherwise v.
func resolveUp(v ssa.Value, root *ssa.Function, depth int) ssa.Value {
	r := facts.ResolveFree(v)
	p, ok := r.(*ssa.Parameter)
	if !ok || depth <= 0 || root == nil {
		return v
	}
	h := p.Parent()
	if h == root || h.Parent() != nil {
		return v
	}
	sites := privateCallSites(h)
	if len(sites) == 0 {
		return v
	}
	reach := reachHelpers(root, 3)
	pi := -1
	for i, q := range h.Params {
		if q == p {
			pi = i
		}
	}
	var val ssa.Value
	n := 0
	for _, s := range sites {
		if !reach[outermost(s.Parent())] || pi < 0 || pi >= len(s.Common().Args) {
			continue
		}
		n++
		a := facts.ResolveFree(resolveUp(s.Common().Args[pi], root, depth-1))
		if val == nil {
			val = a
		} else if val != a {
			return v
		}
	}
	if n == 0 || val == nil {
		return v
	}
	return val
}

// backendCallsDeep: backendCalls of fn and of the private helpers it reaches.
func backendCallsDeep(fn *ssa.Function) []backendCall {
	out := backendCalls(fn)
	var hs []*ssa.Function
	for h := range reachHelpers(fn, 2) {
		if h != fn {
			hs = append(hs, h)
		}
	}
	sort.Slice(hs, func(i, j int) bool { return hs[i].String() < hs[j].String() })
	for _, h := range hs {
		out = append(out, backendCalls(h)...)
	}
	return out
}

// resultsReach: the results of call (made in fn or in a private helper fn
// reaches) are what fn returns: some return of the function containing the
// call returns them unchanged, and, if that function is a helper, fn (or the
// helper in between) returns the helper call's results unchanged.
func resultsReach(fn *ssa.Function, call *ssa.Call, depth int) bool {
	in := call.Parent()
	found := false
	for _, r := range returnsOf(in) {
		if resultsFromCall(r, call) {
			found = true
		}
	}
	if !found {
		return false
	}
	if in == fn {
		return true
	}
	if depth <= 0 || in.Parent() != nil {
		return false
	}
	reach := reachHelpers(fn, 3)
	n := 0
	for _, site := range privateCallSites(in) {
		if !reach[outermost(site.Parent())] {
			continue
		}
		sc, ok := site.(*ssa.Call)
		if !ok || !resultsReach(fn, sc, depth-1) {
			return false
		}
		n++
	}
	return n > 0
}

func outermost(fn *ssa.Function) *ssa.Function {
	for fn.Parent() != nil {
		fn = fn.Parent()
	}
	return fn
}

// returnsOf lists the Return instructions of fn.
func returnsOf(fn *ssa.Function) []*ssa.Return {
	var out []*ssa.Return
	for _, b := range fn.Blocks {
		if b == fn.Recover {
			continue // synthetic block run only when a deferred call recovers from a panic
		}
		for _, in := range b.Instrs {
			if r, ok := in.(*ssa.Return); ok {
				out = append(out, r)
			}
		}
	}
	return out
}

// resultsFromCall reports whether ret returns exactly the results of call,
// in order and unchanged.
func resultsFromCall(ret *ssa.Return, call *ssa.Call) bool {
	n := call.Call.Signature().Results().Len()
	if len(ret.Results) != n {
		return false
	}
	if n == 1 {
		return facts.Resolve(ret.Results[0]) == ssa.Value(call)
	}
	for i, r := range ret.Results {
		e, ok := facts.Resolve(r).(*ssa.Extract)
		if !ok || e.Tuple != ssa.Value(call) || e.Index != i {
			return false
		}
	}
	return true
}

// isZero reports whether v is the zero value of its type (nil const, zero
// const, empty struct literal materialised as a zero Alloc load).
func isZero(v ssa.Value) bool {
	v = facts.Strip(v)
	switch x := v.(type) {
	case *ssa.Const:
		if x.Value == nil {
			return true
		}
		s := x.Value.ExactString()
		return s == "0" || s == `""` || s == "false"
	case *ssa.UnOp:
		if x.Op == token.MUL {
			if a, ok := x.X.(*ssa.Alloc); ok {
				return len(facts.StoresTo(a)) == 0 && onlyLoads(a)
			}
		}
	}
	return false
}

func onlyLoads(a *ssa.Alloc) bool {
	for _, r := range *a.Referrers() {
		switch r := r.(type) {
		case *ssa.UnOp:
		case *ssa.DebugRef:
		default:
			_ = r
			return false
		}
	}
	return true
}

func methodKey(fn *ssa.Function) string { return facts.FuncName(fn) }

func fmtPos(c *core.Ctx, p token.Pos) string { return c.P.Pos(p) }

func sprintf(f string, a ...any) string { return fmt.Sprintf(f, a...) }

// recvOf returns the receiver parameter of a method (SSA param 0).
func recvOf(fn *ssa.Function) *ssa.Parameter {
	if fn.Signature.Recv() == nil || len(fn.Params) == 0 {
		return nil
	}
	return fn.Params[0]
}

// nonNilGuarded reports whether at block b the value with term tm is known non-nil.
func nonNilGuarded(b *ssa.BasicBlock, tm string) bool {
	for _, cd := range facts.CondsAt(b) {
		if x, isNil, ok := facts.NilCheck(cd); ok && !isNil && facts.Term(x) == tm {
			return true
		}
	}
	return false
}

// nonNilGuardedUp: v is guarded by `!= nil` on all paths to block b — in b's
// function, or, when that function is a private helper (unexported, only ever
// called statically), at every one of its call sites, the helper's parameters
// standing for the call's arguments.
func nonNilGuardedUp(b *ssa.BasicBlock, v ssa.Value, depth int) bool {
	if nonNilGuarded(b, facts.Term(v)) {
		return true
	}
	h := b.Parent()
	if depth <= 0 || h.Parent() != nil {
		return false
	}
	sites := privateCallSites(h)
	if len(sites) == 0 {
		return false
	}
	for _, site := range sites {
		ok := false
		withParams(h, site, func() {
			tm := facts.Term(v)
			if nonNilGuarded(site.Block(), tm) {
				ok = true
				return
			}
			// the term is now expressed in the caller's values: climb further
			g := site.Parent()
			if depth > 1 && g.Parent() == nil {
				up := privateCallSites(g)
				if len(up) > 0 {
					all := true
					for _, s2 := range up {
						hit := false
						withParams(g, s2, func() { hit = nonNilGuarded(s2.Block(), facts.Term(v)) })
						all = all && hit
					}
					ok = all
				}
			}
		})
		if !ok {
			return false
		}
	}
	return true
}

// withParams runs f with h's parameters bound to the terms of site's arguments.
func withParams(h *ssa.Function, site ssa.CallInstruction, f func()) {
	args := site.Common().Args
	if len(args) != len(h.Params) {
		f()
		return
	}
	terms := make([]string, len(args))
	for i, a := range args {
		terms[i] = facts.Term(a)
	}
	type sv struct {
		s   string
		had bool
	}
	saved := make([]sv, len(args))
	for i, p := range h.Params {
		s0, had := facts.ParamSubst[p]
		saved[i] = sv{s0, had}
		facts.ParamSubst[p] = terms[i]
	}
	defer func() {
		for i, p := range h.Params {
			if saved[i].had {
				facts.ParamSubst[p] = saved[i].s
			} else {
				delete(facts.ParamSubst, p)
			}
		}
	}()
	f()
}

// program-wide index of static call sites and of functions used as values
type progIndex struct {
	callers map[*ssa.Function][]ssa.CallInstruction
	asValue map[*ssa.Function]bool
	invoked map[string]bool // method names called through an interface
	// stores to a struct field anywhere in the module, keyed "<struct type>#<field index>"
	fieldStores map[string][]*ssa.Store
}

var pIdx *progIndex

func fieldKey(fa *ssa.FieldAddr) string {
	pt, ok := fa.X.Type().Underlying().(*types.Pointer)
	if !ok {
		return ""
	}
	return sprintf("%s#%d", pt.Elem().String(), fa.Field)
}

func buildProgIndex(c *core.Ctx) {
	ix := &progIndex{callers: map[*ssa.Function][]ssa.CallInstruction{}, asValue: map[*ssa.Function]bool{}, invoked: map[string]bool{}, fieldStores: map[string][]*ssa.Store{}}
	origin := func(f *ssa.Function) *ssa.Function {
		if o := f.Origin(); o != nil {
			return o
		}
		return f
	}
	wrapped := map[*ssa.Function][]*ssa.Function{}
	for _, fn := range c.P.AllFunctions() {
		if !load.InModule(fn) {
			continue
		}
		for _, b := range fn.Blocks {
			for _, in := range b.Instrs {
				var callee ssa.Value
				if st, ok := in.(*ssa.Store); ok && !isInstance(fn) {
					if fa, ok := st.Addr.(*ssa.FieldAddr); ok {
						if k := fieldKey(fa); k != "" {
							ix.fieldStores[k] = append(ix.fieldStores[k], st)
						}
					}
				}
				if ci, ok := in.(ssa.CallInstruction); ok {
					cc := ci.Common()
					if cc.IsInvoke() {
						ix.invoked[cc.Method.Name()] = true
					} else {
						callee = cc.Value
						if sc := cc.StaticCallee(); sc != nil {
							if fn.Synthetic != "" && fn.Synthetic != "package initializer" {
								wrapped[fn] = append(wrapped[fn], origin(sc))
							} else if !isInstance(fn) {
								ix.callers[origin(sc)] = append(ix.callers[origin(sc)], ci)
							}
						}
					}
				}
				for _, op := range in.Operands(nil) {
					if op == nil || *op == nil || *op == callee {
						continue
					}
					if f, ok := (*op).(*ssa.Function); ok {
						ix.asValue[origin(f)] = true
					}
				}
			}
		}
	}
	// a synthetic wrapper (pointer-receiver wrapper, bound-method closure, thunk) makes
	// the method it wraps dynamically callable only if the wrapper itself is used as a
	// value somewhere; interface dispatch is covered by `invoked`
	for w, ms := range wrapped {
		if ix.asValue[w] || ix.asValue[origin(w)] {
			for _, m := range ms {
				ix.asValue[m] = true
			}
		}
	}
	pIdx = ix
}

// privateCallSites: the static call sites of h if h is a private helper — an
// unexported package-level function or method of the module that is never used
// as a value nor callable through an interface; nil otherwise.
func privateCallSites(h *ssa.Function) []ssa.CallInstruction {
	if pIdx == nil || h == nil || h.Parent() != nil || h.Object() == nil || h.Object().Exported() || !load.InModule(h) {
		return nil
	}
	if o := h.Origin(); o != nil {
		h = o
	}
	if pIdx.asValue[h] {
		return nil
	}
	if h.Signature.Recv() != nil && pIdx.invoked[h.Name()] {
		return nil
	}
	return pIdx.callers[h]
}

// checkFilterCallbackReturns: in every callback literal with signature
// func(T, error) bool nested in fn (the consumer handed to an inner
// iterator), each return must be the constant true (continue), the result of
// a yield call (propagating the outer consumer's decision), or the constant
// false after an error has been delivered to the outer consumer on that path.
// Anything else can end the inner iteration early without an error: a
// silently shortened listing.
func checkFilterCallbackReturns(c *core.Ctx, rule, key string, fn *ssa.Function) {
	isBoolRes := func(f *ssa.Function) bool {
		if f.Signature.Results().Len() != 1 {
			return false
		}
		b, ok := f.Signature.Results().At(0).Type().Underlying().(*types.Basic)
		return ok && b.Kind() == types.Bool
	}
	seen := map[*ssa.Function]bool{}
	var checkBody func(f *ssa.Function, depth int)
	checkBody = func(f *ssa.Function, depth int) {
		if seen[f] {
			return
		}
		seen[f] = true
		for _, r := range returnsOf(f) {
			v := facts.Resolve(r.Results[0])
			ok := false
			why := "callback returns a computed value that is neither `true`, a yield result, nor `false` after delivering an error: the inner iteration can stop early and the listing is silently shortened"
			switch x := v.(type) {
			case *ssa.Const:
				if x.Value != nil && x.Value.ExactString() == "true" {
					ok = true
				} else {
					// false: must be dominated by a yield(_, err) with non-nil-able err, or by an error having been recorded
					for _, ci := range facts.CallsIn(f) {
						if _, isY := isYieldCall(ci); !isY {
							continue
						}
						args := ci.Common().Args
						if len(args) == 2 && !facts.IsNilConst(facts.Strip(args[1])) && facts.Dominates(ci, r) {
							ok = true
						}
					}
					if !ok {
						// `if !yield(item, nil) { return false }`: the consumer itself declined
						for _, cd := range facts.CondsAt(r.Block()) {
							if call, isCall := cd.V.(*ssa.Call); isCall && !cd.Pos {
								if _, isY := isYieldCall(call); isY {
									ok = true
								}
							}
						}
					}
					if !ok {
						// accept the "record the error in a captured variable and stop" idiom
						for _, b := range f.Blocks {
							for _, in := range b.Instrs {
								if st, isSt := in.(*ssa.Store); isSt && st.Val.Type().String() == "error" && facts.Dominates(st, r) {
									ok = true
								}
							}
						}
					}
					why = "callback returns false (stop) on a path where no error was delivered to the consumer: the listing is silently shortened"
				}
			case *ssa.Call:
				if _, isY := isYieldCall(x); isY {
					ok = true
				} else if h := x.Call.StaticCallee(); h != nil && h.Blocks != nil && depth > 0 && isBoolRes(h) && len(privateCallSites(h)) > 0 {
					// the decision is delegated to a private helper: it is held to the same rule
					c.Analysed(facts.FuncName(h))
					checkBody(h, depth-1)
					ok = true
				}
			case *ssa.Phi:
				// e.g. `ok := yield(...); if ok {...}; return ok`
				ok = true
				for _, e := range x.Edges {
					ev := facts.Resolve(e)
					if call, isCall := ev.(*ssa.Call); isCall {
						if _, isY := isYieldCall(call); isY {
							continue
						}
					}
					if cst, isC := ev.(*ssa.Const); isC && cst.Value != nil && cst.Value.ExactString() == "true" {
						continue
					}
					ok = false
				}
			}
			k := key + "/callback-return"
			if f.Parent() == nil {
				k = key + "/callback-return/in " + facts.FuncName(f)
			}
			c.Check(ok, rule, k, r.Pos(), "callback continues, propagates the consumer's decision, or stops after delivering an error", why)
		}
	}
	for _, f := range withHelpers(fn) {
		if f == fn || f.Parent() == nil || f.Signature.Params().Len() != 2 || !isBoolRes(f) {
			continue
		}
		if f.Signature.Params().At(1).Type().String() != "error" {
			continue
		}
		checkBody(f, 2)
	}
}

// helperTouches: h, or a same-package function it calls statically (to the
// given depth), contains an instruction satisfying pred. Used to decide which
// extracted helpers a path rule follows (facts.Inliner).
func helperTouches(h *ssa.Function, depth int, pred func(ssa.Instruction) bool) bool {
	if h == nil || depth < 0 {
		return false
	}
	for _, f := range facts.WithAnon(h) {
		for _, b := range f.Blocks {
			for _, in := range b.Instrs {
				if pred(in) {
					return true
				}
				if ci, ok := in.(ssa.CallInstruction); ok {
					if sc := ci.Common().StaticCallee(); sc != nil && sc != h && sc.Pkg == h.Pkg && sc.Blocks != nil && helperTouches(sc, depth-1, pred) {
						return true
					}
				}
			}
		}
	}
	return false
}

// mapEntry is one key/value pair of a package-level map literal.
type mapEntry struct {
	Key, Val ssa.Value
	Pos      token.Pos
}

// globalMapEntries: the entries with which the package-level map g is
// initialised (its composite literal, evaluated in the package initialiser),
// and whether that is the only place the map is ever assigned or updated.
func globalMapEntries(c *core.Ctx, g *ssa.Global) (entries []mapEntry, frozen bool) {
	if g == nil || g.Pkg == nil {
		return nil, false
	}
	init := g.Pkg.Func("init")
	if init == nil {
		return nil, false
	}
	var mk ssa.Value
	nStores := 0
	for _, b := range init.Blocks {
		for _, in := range b.Instrs {
			if st, ok := in.(*ssa.Store); ok && st.Addr == ssa.Value(g) {
				mk = st.Val
				nStores++
			}
		}
	}
	if mk == nil || nStores != 1 {
		return nil, false
	}
	for _, b := range init.Blocks {
		for _, in := range b.Instrs {
			if mu, ok := in.(*ssa.MapUpdate); ok && mu.Map == mk {
				entries = append(entries, mapEntry{mu.Key, mu.Value, mu.Pos()})
			}
		}
	}
	frozen = true
	for _, fn := range c.P.AllFunctions() {
		if fn == init || !load.InModule(fn) || load.FuncPkgPath(fn) != g.Pkg.Pkg.Path() {
			continue
		}
		for _, b := range fn.Blocks {
			for _, in := range b.Instrs {
				switch x := in.(type) {
				case *ssa.Store:
					if x.Addr == ssa.Value(g) {
						frozen = false
					}
				case *ssa.MapUpdate:
					if u, ok := x.Map.(*ssa.UnOp); ok && u.X == ssa.Value(g) {
						frozen = false
					}
				case *ssa.Call:
					if bi, ok := x.Call.Value.(*ssa.Builtin); ok && (bi.Name() == "delete" || bi.Name() == "clear") && len(x.Call.Args) > 0 {
						if u, ok := x.Call.Args[0].(*ssa.UnOp); ok && u.X == ssa.Value(g) {
							frozen = false
						}
					}
				}
			}
		}
	}
	return entries, frozen
}

// loadedGlobal: v is a load of a package-level variable.
func loadedGlobal(v ssa.Value) *ssa.Global {
	if u, ok := v.(*ssa.UnOp); ok && u.Op == token.MUL {
		g, _ := u.X.(*ssa.Global)
		return g
	}
	return nil
}

// withHelpers: fn, its function literals, and the private helpers it reaches
// (with their literals) — the code that a refactoring may have split fn into.
func withHelpers(fn *ssa.Function) []*ssa.Function {
	var hs []*ssa.Function
	for h := range reachHelpers(fn, 2) {
		if h != fn {
			hs = append(hs, h)
		}
	}
	sort.Slice(hs, func(i, j int) bool { return hs[i].String() < hs[j].String() })
	out := facts.WithAnon(fn)
	for _, h := range hs {
		out = append(out, facts.WithAnon(h)...)
	}
	return out
}

// vret is one way a function can return: the returned values, and the branch
// conditions known when they are returned. A `return x` whose x is a phi of the
// returning block (`err := f(); if err == nil { err = g() }; return err`) is
// split into one vret per incoming edge.
type vret struct {
	Ret   *ssa.Return
	Vals  []ssa.Value
	Conds []facts.Cond
	// NonNil: values known non-nil when returned (from the conditions, with a
	// test of a phi credited to the incoming value this vret stands for)
	NonNil map[ssa.Value]bool
}

func (v *vret) nonNil(x ssa.Value) bool {
	x = facts.Resolve(x)
	if v.NonNil[x] {
		return true
	}
	for _, cd := range v.Conds {
		if y, isNil, ok := facts.NilCheck(cd); ok && !isNil && facts.Resolve(y) == x {
			return true
		}
	}
	return false
}

func virtualReturns(fn *ssa.Function) []vret {
	var out []vret
	for _, r := range returnsOf(fn) {
		b := r.Block()
		var phis []*ssa.Phi
		for i := range r.Results {
			if ph, ok := facts.RetVal(r, i).(*ssa.Phi); ok && ph.Block() == b {
				phis = append(phis, ph)
			}
		}
		if len(phis) == 0 {
			vals := make([]ssa.Value, len(r.Results))
			for i := range r.Results {
				vals[i] = facts.RetVal(r, i)
			}
			// an error result that is a phi of an EARLIER block (`err := f(); if err == nil
			// { err = g() }; if err != nil { return zero, err }`): one vret per incoming
			// value, a `phi != nil` test at the return counting for that value
			n := len(vals)
			if ph, ok := vals[n-1].(*ssa.Phi); ok && n > 0 && vals[n-1].Type().String() == "error" {
				phiNonNil := false
				for _, cd := range facts.CondsAt(b) {
					if y, isNil, ok := facts.NilCheck(cd); ok && !isNil && y == ssa.Value(ph) {
						phiNonNil = true
					}
				}
				for pi, pred := range ph.Block().Preds {
					vs := append([]ssa.Value{}, vals...)
					vs[n-1] = facts.Resolve(ph.Edges[pi])
					conds := append([]facts.Cond{}, facts.CondsAt(pred)...)
					for si, s := range pred.Succs {
						if s == ph.Block() {
							conds = append(conds, facts.EdgeConds(pred, si)...)
						}
					}
					vr := vret{Ret: r, Vals: vs, Conds: conds, NonNil: map[ssa.Value]bool{}}
					if phiNonNil {
						vr.NonNil[vs[n-1]] = true
					}
					out = append(out, vr)
				}
				continue
			}
			out = append(out, vret{Ret: r, Vals: vals, Conds: facts.CondsAt(b)})
			continue
		}
		for pi, pred := range b.Preds {
			vals := make([]ssa.Value, len(r.Results))
			for i := range r.Results {
				v := facts.RetVal(r, i)
				if ph, ok := v.(*ssa.Phi); ok && ph.Block() == b {
					v = facts.Resolve(ph.Edges[pi])
				}
				vals[i] = v
			}
			conds := append([]facts.Cond{}, facts.CondsAt(pred)...)
			for si, s := range pred.Succs {
				if s == b {
					conds = append(conds, facts.EdgeConds(pred, si)...)
				}
			}
			out = append(out, vret{Ret: r, Vals: vals, Conds: conds})
		}
	}
	return out
}

// valsFromCall: the returned values are exactly the results of call, in order.
func valsFromCall(vals []ssa.Value, call *ssa.Call) bool {
	n := call.Call.Signature().Results().Len()
	if len(vals) != n {
		return false
	}
	if n == 1 {
		return facts.Resolve(vals[0]) == ssa.Value(call)
	}
	for i, v := range vals {
		e, ok := facts.Resolve(v).(*ssa.Extract)
		if !ok || e.Tuple != ssa.Value(call) || e.Index != i {
			return false
		}
	}
	return true
}

// condsAtUp: the branch conditions that hold on entry to b — in b's function
// (and, for a literal, where it was created), and, when that function is a
// private helper, additionally those that hold at EVERY one of its call sites
// (compared by term and polarity).
func condsAtUp(b *ssa.BasicBlock, depth int) []facts.Cond {
	out := facts.CondsAtDeep(b)
	h := outermost(b.Parent())
	if depth <= 0 {
		return out
	}
	sites := privateCallSites(h)
	if len(sites) == 0 {
		return out
	}
	key := func(cd facts.Cond) string {
		if cd.Pos {
			return "+" + facts.Term(cd.V)
		}
		return "-" + facts.Term(cd.V)
	}
	var common []facts.Cond
	for i, s := range sites {
		cs := condsAtUp(s.Block(), depth-1)
		if i == 0 {
			common = cs
			continue
		}
		have := map[string]bool{}
		for _, cd := range cs {
			have[key(cd)] = true
		}
		var keep []facts.Cond
		for _, cd := range common {
			if have[key(cd)] {
				keep = append(keep, cd)
			}
		}
		common = keep
	}
	return append(out, common...)
}

// constIntsOf: the integer constants v can be: itself a constant, a phi of
// such, or the result of a private helper all of whose returns (for that
// result) are such. ok is false if any possibility is not a constant.
func constIntsOf(v ssa.Value, depth int) (vals []int64, ok bool) {
	v = facts.Resolve(v)
	if k, isK := facts.ConstInt(v); isK {
		return []int64{k}, true
	}
	if depth <= 0 {
		return nil, false
	}
	switch x := v.(type) {
	case *ssa.Phi:
		for _, e := range x.Edges {
			vs, okE := constIntsOf(e, depth-1)
			if !okE {
				return nil, false
			}
			vals = append(vals, vs...)
		}
		return vals, len(vals) > 0
	case *ssa.Call:
		return helperConstResults(x, 0, depth)
	case *ssa.Extract:
		if call, isCall := x.Tuple.(*ssa.Call); isCall {
			return helperConstResults(call, x.Index, depth)
		}
	case *ssa.ChangeType:
		return constIntsOf(x.X, depth)
	case *ssa.Convert:
		return constIntsOf(x.X, depth)
	}
	return nil, false
}

func helperConstResults(call *ssa.Call, idx int, depth int) ([]int64, bool) {
	h := call.Call.StaticCallee()
	if h == nil || h.Blocks == nil || len(privateCallSites(h)) == 0 {
		return nil, false
	}
	var vals []int64
	for _, r := range returnsOf(h) {
		if idx >= len(r.Results) {
			return nil, false
		}
		vs, ok := constIntsOf(facts.RetVal(r, idx), depth-1)
		if !ok {
			return nil, false
		}
		vals = append(vals, vs...)
	}
	return vals, len(vals) > 0
}

// origin is a value a helper result can stand for, with the binding of the
// helper's parameters at the call that produced it.
type origin struct {
	V    ssa.Value
	bind map[*ssa.Parameter]ssa.Value
}

// up: x, or the caller's argument if x is a parameter of the helper the origin lives in.
func (o origin) up(x ssa.Value) ssa.Value {
	for d := 0; d < 4; d++ {
		p, ok := facts.Resolve(x).(*ssa.Parameter)
		if !ok {
			return x
		}
		a, ok := o.bind[p]
		if !ok {
			return x
		}
		x = a
	}
	return x
}

// helperResultOrigins: if v is result i of a call of a private helper, the
// non-zero values that helper can return as result i (recursively, depth
// bounded); otherwise v itself.
func helperResultOrigins(v ssa.Value, depth int) []origin {
	return originsOf(v, depth, map[*ssa.Parameter]ssa.Value{})
}

func originsOf(v ssa.Value, depth int, bind map[*ssa.Parameter]ssa.Value) []origin {
	r := facts.Resolve(v)
	var call *ssa.Call
	idx := 0
	switch x := r.(type) {
	case *ssa.Extract:
		call, _ = x.Tuple.(*ssa.Call)
		idx = x.Index
	case *ssa.Call:
		call = x
	}
	if call == nil || depth <= 0 {
		return []origin{{r, bind}}
	}
	h := call.Call.StaticCallee()
	if h == nil || h.Blocks == nil || len(privateCallSites(h)) == 0 || len(call.Call.Args) != len(h.Params) {
		return []origin{{r, bind}}
	}
	nb := map[*ssa.Parameter]ssa.Value{}
	for k, val := range bind {
		nb[k] = val
	}
	for i, p := range h.Params {
		nb[p] = call.Call.Args[i]
	}
	var out []origin
	for _, ret := range returnsOf(h) {
		if idx >= len(ret.Results) {
			continue
		}
		rv := facts.RetVal(ret, idx)
		if isZero(rv) {
			continue
		}
		out = append(out, originsOf(rv, depth-1, nb)...)
	}
	return out
}

// callCtx is one calling context of a block: the branch conditions that hold
// there (in its function, in the literal's creator, and up the chain of private
// helpers to the caller), and what each helper parameter on the way is bound to.
type callCtx struct {
	Conds []facts.Cond
	Bind  map[*ssa.Parameter]ssa.Value
}

// up: v with helper parameters (also through the spill cell of a struct-valued
// parameter) replaced by the arguments of this context.
func (cx callCtx) up(v ssa.Value) ssa.Value {
	for d := 0; d < 5; d++ {
		r := facts.ResolveFree(v)
		if u, ok := r.(*ssa.UnOp); ok && u.Op == token.MUL {
			if al, ok := u.X.(*ssa.Alloc); ok {
				if p := facts.SpillOfParam(al); p != nil {
					r = p
				}
			}
		}
		if al, ok := r.(*ssa.Alloc); ok {
			if p := facts.SpillOfParam(al); p != nil {
				r = p
			}
		}
		p, ok := r.(*ssa.Parameter)
		if !ok {
			return v
		}
		a, ok := cx.Bind[p]
		if !ok {
			return v
		}
		v = a
	}
	return v
}

// contextsOf enumerates the calling contexts of block b: one if b's function
// is not a private helper, otherwise one per chain of call sites (depth
// bounded; beyond the bound the helper's own conditions are all that is known).
func contextsOf(b *ssa.BasicBlock, depth int) []callCtx {
	own := facts.CondsAtDeep(b)
	h := outermost(b.Parent())
	sites := privateCallSites(h)
	if depth <= 0 || len(sites) == 0 {
		return []callCtx{{Conds: own, Bind: map[*ssa.Parameter]ssa.Value{}}}
	}
	var out []callCtx
	for _, s := range sites {
		if len(s.Common().Args) != len(h.Params) {
			continue
		}
		for _, up := range contextsOf(s.Block(), depth-1) {
			cx := callCtx{Bind: map[*ssa.Parameter]ssa.Value{}}
			cx.Conds = append(append(cx.Conds, own...), up.Conds...)
			for k, v := range up.Bind {
				cx.Bind[k] = v
			}
			for i, p := range h.Params {
				cx.Bind[p] = s.Common().Args[i]
			}
			out = append(out, cx)
			if len(out) > 64 {
				return out
			}
		}
	}
	if len(out) == 0 {
		return []callCtx{{Conds: own, Bind: map[*ssa.Parameter]ssa.Value{}}}
	}
	return out
}

// withPhiImplied: conds plus what a test on a phi implies: `ph != K` (or the
// false branch of `ph == K`) rules out the edges that carry the constant K; if
// exactly one edge remains, the conditions under which the phi took that edge
// hold too.
func withPhiImplied(conds []facts.Cond) []facts.Cond {
	out := conds
	for _, cd := range conds {
		x, op, y, ok := facts.Cmp(cd)
		if !ok || op != token.NEQ {
			continue
		}
		ph, isPhi := facts.Resolve(x).(*ssa.Phi)
		k, isK := facts.Resolve(y).(*ssa.Const)
		if !isPhi || !isK || k.Value == nil {
			continue
		}
		var left []int
		for i, e := range ph.Edges {
			if ec, ok := facts.Resolve(e).(*ssa.Const); ok && ec.Value != nil && ec.Value.ExactString() == k.Value.ExactString() {
				continue
			}
			left = append(left, i)
		}
		if len(left) == 1 {
			out = append(out, facts.CondsAt(ph.Block().Preds[left[0]])...)
		}
	}
	return out
}

// forEachCondImplied calls f for every condition known on entry to b: the
// dominating branch conditions and — when one of them says that a private
// helper returned a nil error (or true) — the conditions that hold at EVERY
// such return of that helper (compared by term and polarity), evaluated with
// the helper's parameters standing for the call's arguments, recursively.
func forEachCondImplied(b *ssa.BasicBlock, depth int, f func(cd facts.Cond)) {
	for _, cd := range facts.CondsAt(b) {
		f(cd)
		if depth <= 0 {
			continue
		}
		var call *ssa.Call
		idx := 0
		wantNil, wantTrue, wantFalse := false, false, false
		if x, isNil, ok := facts.NilCheck(cd); ok && isNil {
			switch y := facts.Resolve(x).(type) {
			case *ssa.Call:
				call = y
			case *ssa.Extract:
				call, _ = y.Tuple.(*ssa.Call)
				idx = y.Index
			}
			wantNil = true
		} else {
			switch y := facts.Resolve(cd.V).(type) {
			case *ssa.Call:
				call = y
			case *ssa.Extract:
				call, _ = y.Tuple.(*ssa.Call)
				idx = y.Index
			}
			if cd.Pos {
				wantTrue = true
			} else {
				wantFalse = true
			}
			if call != nil && idx < call.Call.Signature().Results().Len() {
				if bt, ok := call.Call.Signature().Results().At(idx).Type().Underlying().(*types.Basic); !ok || bt.Kind() != types.Bool {
					call = nil
				}
			}
		}
		if call == nil {
			continue
		}
		h := call.Call.StaticCallee()
		if h == nil || h.Blocks == nil || len(privateCallSites(h)) == 0 || len(call.Call.Args) != len(h.Params) {
			continue
		}
		key := func(cd facts.Cond) string {
			if cd.Pos {
				return "+" + facts.Term(cd.V)
			}
			return "-" + facts.Term(cd.V)
		}
		var common map[string]facts.Cond
		n := 0
		for _, r := range returnsOf(h) {
			if idx >= len(r.Results) {
				continue
			}
			rv := facts.RetVal(r, idx)
			if wantNil {
				if facts.ProvablyNonNil(rv, r.Block()) {
					continue // not a nil return
				}
			}
			if wantTrue {
				if cst, ok := rv.(*ssa.Const); ok && cst.Value != nil && cst.Value.ExactString() == "false" {
					continue
				}
			}
			if wantFalse {
				if cst, ok := rv.(*ssa.Const); ok && cst.Value != nil && cst.Value.ExactString() == "true" {
					continue
				}
			}
			n++
			here := map[string]facts.Cond{}
			forEachCondImplied(r.Block(), depth-1, func(c2 facts.Cond) { here[key(c2)] = c2 })
			if common == nil {
				common = here
			} else {
				for k := range common {
					if _, ok := here[k]; !ok {
						delete(common, k)
					}
				}
			}
		}
		if n == 0 || len(common) == 0 {
			continue
		}
		var ks []string
		for k := range common {
			ks = append(ks, k)
		}
		sort.Strings(ks)
		withParams(h, call, func() {
			for _, k := range ks {
				f(common[k])
			}
		})
	}
}

// forEachCallContext calls f once per calling context of block b with the
// branch conditions known there (b's own, and up the chain of private helpers
// those at each call site); while f runs the helpers' parameters render as the
// terms of the arguments of that chain of calls (ParamSubst), so that terms of
// the helper's values can be compared with terms of the caller's.
func forEachCallContext(b *ssa.BasicBlock, depth int, f func(conds []facts.Cond)) {
	own := facts.CondsAtDeep(b)
	h := outermost(b.Parent())
	sites := privateCallSites(h)
	if depth <= 0 || len(sites) == 0 {
		f(own)
		return
	}
	for _, s := range sites {
		s := s
		forEachCallContext(s.Block(), depth-1, func(up []facts.Cond) {
			withParams(h, s, func() {
				f(append(append([]facts.Cond{}, own...), up...))
			})
		})
	}
}

// normTerm: a term with the decorations of "address of the spill cell of" and
// "load of" removed, for comparing a helper's view of a struct-valued
// parameter with the caller's variable.
func normTerm(v ssa.Value) string {
	t := facts.Term(v)
	for i := 0; i < 4; i++ {
		switch {
		case strings.HasPrefix(t, "&(") && strings.HasSuffix(t, ")"):
			t = t[2 : len(t)-1]
		case strings.HasPrefix(t, "*"):
			t = t[1:]
		default:
			return t
		}
	}
	return t
}

// flushRequestBuilder: the function that builds the request blobWriter.flush
// sends: flush itself, or the private helper (reached from flush) that assigns
// the request's ContentLength.
func flushRequestBuilder(flush *ssa.Function) *ssa.Function {
	setsCL := func(f *ssa.Function) bool {
		for _, b := range f.Blocks {
			for _, in := range b.Instrs {
				if st, ok := in.(*ssa.Store); ok {
					if _, fld, isF := facts.FieldOf(st.Addr); isF && fld == "ContentLength" {
						return true
					}
				}
			}
		}
		return false
	}
	if setsCL(flush) {
		return flush
	}
	for _, f := range withHelpers(flush) {
		if f.Parent() == nil && f != flush && setsCL(f) {
			return f
		}
	}
	return flush
}

// cmpLenFirst is facts.Cmp with a len(...) operand moved to the left
// (`n > len(xs)` reads `len(xs) < n`).
func cmpLenFirst(cd facts.Cond) (ssa.Value, token.Token, ssa.Value, bool) {
	x, op, y, ok := facts.Cmp(cd)
	if !ok {
		return nil, 0, nil, false
	}
	isLen := func(v ssa.Value) bool {
		call, ok := facts.Resolve(v).(*ssa.Call)
		if !ok {
			return false
		}
		bi, ok := call.Call.Value.(*ssa.Builtin)
		return ok && bi.Name() == "len"
	}
	if !isLen(x) && isLen(y) {
		x, y = y, x
		switch op {
		case token.LSS:
			op = token.GTR
		case token.LEQ:
			op = token.GEQ
		case token.GTR:
			op = token.LSS
		case token.GEQ:
			op = token.LEQ
		}
	}
	return facts.Resolve(x), op, y, true
}
