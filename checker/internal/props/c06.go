package props

import (
	"go/token"
	"go/types"
	"strings"

	"golang.org/x/tools/go/ssa"

	"ocivet/internal/core"
	"ocivet/internal/facts"
	"ocivet/internal/load"
)

func init() {
	register(&Prop{
		ID:    "C06",
		Title: "Server is total and protocol-conformant on arbitrary HTTP requests",
		Run:   runC06,
		Explanation: "R1 panic inventory over every function of ociserver, internal/ocirequest, ociref and the root package (error marshalling): each index, slice, string index, single-value type assertion, explicit panic, map store, integer division, call through a func value and call of an external function documented to panic is discharged by the bounds prover (difference-bound reasoning over dominating conditions and library axioms), by a machine-checked guard obligation (dispatch table complete and indexed only by declared request kinds; WriteError defaulted in the only constructor; regexps compile and have the indexed capture groups; the page-truncation flag implies a non-empty page; exhaustive switch over request kinds), or by a recorded assumption about an external party; " +
			"R2 validated fields: on every path to a successful classification each of Repo, FromRepo, Digest and Tag holding a non-constant value passed the corresponding ociref.IsValid* predicate (disjunctive path facts); " +
			"R3 every repository/digest/tag argument of a backend call in a handler is a field of the classified request (or a constant), so R2 and R3 give 'no backend call with a syntactically invalid name, tag or digest'; " +
			"R4 must-close: every BlobReader/BlobWriter obtained from the backend is closed on every path on which it is non-nil; " +
			"R5 single error exit: ServeHTTP routes a non-nil handler error to WriteError, and after the first WriteHeader/Write/io.Copy/Redirect in a handler no error return is reachable; " +
			"R6 mandated headers: every path to a success WriteHeader passes through Header().Set of the names the distribution spec mandates for that endpoint (table A.4); " +
			"R7 status follows code: MarshalError uses an HTTPError's status only when the code table misses, and the parse-error switch covers every sentinel of ocirequest. " +
			"R8 where a stored range bound is set to a limit, the guarding comparison is on the bound itself or on the bound shifted towards the limit, never shifted away from it (end-1 > size lets size+1 through).",
		NotDecided: "Content-Length numerically equal to the body for blob bodies (supplied by the backend's descriptor), and JSON well-formedness of bodies produced by encoding/json, are not decided.",
		Technique:  "static analysis: panic-site inventory with a difference-bound prover, disjunctive path facts, typestate (must-close), must-pass-through for headers, table exhaustiveness",
	})
}

func c06Scope(c *core.Ctx) []*ssa.Function {
	var fns []*ssa.Function
	for _, rel := range []string{"ociserver", "internal/ocirequest", "ociref", "."} {
		fns = append(fns, c.P.ModuleFunctions(rel)...)
	}
	return fns
}

func runC06(c *core.Ctx) {
	m := loadServerModel(c)
	for _, p := range m.problems {
		c.Fail("C06.R0", "anchor/server-model", 0, p)
	}
	if !m.hasDispatch() {
		return
	}
	total, proven := panicInventory(c, "C06.R1", c06Scope(c), c06Discharger(c, m, "C06.R1"))
	c.Note("panic inventory: %d sites, %d discharged", total, proven)
	if total < 40 {
		c.Fail("C06.R1", "instance-floor", 0, sprintf("only %d panic-capable sites enumerated in the server closure", total))
	}
	c06ValidatedFields(c, "C06.R2")
	c06HandlerArgs(c, "C06.R3")
	c06MustClose(c, "C06.R4")
	c06SingleErrorExit(c, "C06.R5")
	c06Headers(c, "C06.R6", m)
	c06StatusFollowsCode(c, "C06.R7")
	clampTestsWhatItClamps(c, "C06.R8", "ociserver")
}

// ---------------------------------------------------------------- R1 dischargers

func c06Discharger(c *core.Ctx, m *serverModel, rule string) Discharger {
	assumed := map[string]bool{}
	assume := func(s string) {
		if !assumed[s] {
			assumed[s] = true
			c.Assume(s)
		}
	}
	tableOK, tableWhy := dispatchTableComplete(c, m, rule)
	kindsOK, kindsWhy := kindStoresAreConstants(c, m, rule)
	return func(fn *ssa.Function, s PanicSite) (bool, string) {
		name := roleName(fn)
		switch s.Kind {
		case "ext-panic":
			if s.Expr == "regexp.MustCompile" {
				call := s.In.(ssa.CallInstruction)
				if pat, ok := facts.ConstString(call.Common().Args[0]); ok {
					if _, err := compilesAsGoRegexp(pat); err == nil {
						return true, "constant pattern compiles"
					} else {
						return false, "pattern does not compile: " + err.Error()
					}
				}
				// the pattern is the parameter of a private constructor: every call passes a constant that compiles
				if prm, isP := facts.ResolveFree(call.Common().Args[0]).(*ssa.Parameter); isP {
					h := prm.Parent()
					sites := privateCallSites(h)
					pi := -1
					for i, q := range h.Params {
						if q == prm {
							pi = i
						}
					}
					if len(sites) > 0 && pi >= 0 {
						for _, st := range sites {
							pat, ok := facts.ConstString(st.Common().Args[pi])
							if !ok {
								return false, "a pattern handed to " + fnName(h) + " is not a constant"
							}
							if _, err := compilesAsGoRegexp(pat); err != nil {
								return false, "pattern does not compile: " + err.Error()
							}
						}
						return true, sprintf("every pattern handed to %s (%d call sites) is a constant that compiles", fnName(h), len(sites))
					}
				}
				return false, ""
			}
			if strings.HasSuffix(s.Expr, "Request).MustConstruct") {
				assume("a backend's BlobWriter.ID() is non-empty valid UTF-8, so the upload-info request for it can be constructed (MustConstruct in locationForUploadID)")
				return true, "assumption on the backend's BlobWriter.ID()"
			}
		case "panic":
			switch {
			case strings.HasSuffix(name, "Request).MustConstruct"):
				assume("a backend's BlobWriter.ID() is non-empty valid UTF-8, so the upload-info request for it can be constructed (MustConstruct in locationForUploadID)")
				return true, "MustConstruct's documented panic; callers discharged separately"
			case m.Dispatcher != nil && fn == m.Dispatcher:
				if !tableOK || !kindsOK {
					return false, tableWhy + "; " + kindsWhy
				}
				if ok, why := switchCoversKinds(fn, m); ok {
					return true, "reached only for a kind without an arm: " + tableWhy + "; " + kindsWhy + " (" + why + ")"
				} else {
					return false, why
				}
			case strings.HasSuffix(name, "Request).construct"):
				if ok, why := switchCoversKinds(fn, m); ok {
					return true, "default arm unreachable: the switch has a case for every declared Kind (" + why + ")"
				} else {
					return false, why
				}
			case strings.HasSuffix(name, "ociregistry.MarshalError") || onlyCalledFrom(fn, "ociregistry.MarshalError", 2):
				// panic only under json.Marshal error
				for _, cd := range facts.CondsAt(s.In.Block()) {
					if x, isNil, ok := facts.NilCheck(cd); ok && !isNil {
						if ex, ok := facts.Resolve(x).(*ssa.Extract); ok {
							if call, ok := ex.Tuple.(*ssa.Call); ok && facts.CalleeName(&call.Call) == "encoding/json.Marshal" {
								assume("an Error's Detail() is valid JSON when non-empty (documented precondition of MarshalError; json.Marshal of WireErrors cannot fail otherwise)")
								return true, "reachable only if json.Marshal fails, i.e. Detail() is invalid JSON (documented precondition)"
							}
						}
					}
				}
			}
		case "dyn-call":
			call := s.In.(ssa.CallInstruction).Common()
			v := facts.Resolve(call.Value)
			// (a) iterator returned by a backend Interface method
			if bc, ok := v.(*ssa.Call); ok && bc.Call.IsInvoke() && isSeqType(bc.Type()) {
				assume("Interface implementations return non-nil iterators from Repositories/Tags/Referrers (Funcs returns ErrorSeq)")
				return true, "iterator returned by the backend (contract: non-nil)"
			}
			// (b) package-level func var initialised once
			if u, ok := call.Value.(*ssa.UnOp); ok && u.Op == token.MUL {
				if g, ok := u.X.(*ssa.Global); ok {
					if init, ok := onceInitOf(g); ok {
						if once, _, ok := onceCallOf(init); ok {
							return true, "package-level func variable assigned exactly once (in init) from " + facts.CalleeName(&once.Call)
						}
					}
				}
			}
			// (c) element of the dispatch table
			if isDispatchElem(call.Value, m) {
				if tableOK && kindsOK {
					return true, "dispatch table: " + tableWhy + "; " + kindsWhy
				}
				return false, tableWhy + "; " + kindsWhy
			}
			// (d) opts.WriteError
			if _, fld, ok := facts.FieldOf(call.Value); ok && fld == "WriteError" {
				if ok, why := writeErrorDefaulted(c); ok {
					return true, why
				} else {
					return false, why
				}
			}
		case "index":
			switch x := s.In.(type) {
			case *ssa.IndexAddr:
				if isDispatchTable(x.X, m) {
					_, fld, isF := facts.FieldOf(facts.Resolve(x.Index))
					fromParse := sliceHas(x.Index, func(v ssa.Value) bool {
						call, ok := v.(*ssa.Call)
						return ok && strings.HasSuffix(facts.CalleeName(&call.Call), "ocirequest.Parse")
					})
					if isF && fld == "Kind" && fromParse && tableOK && kindsOK {
						return true, "index is the Kind of a request classified by ocirequest.Parse: " + kindsWhy + "; " + tableWhy
					}
					return false, "dispatch table indexed by something other than a classified request's Kind, or: " + tableWhy + "; " + kindsWhy
				}
				if ok, why := regexpSubmatchIndex(c, x.X, x.Index, s.In); ok {
					return true, why
				}
				if strings.HasSuffix(name, "registry).nextListResults") {
					if ok, why := truncationImpliesNonEmpty(x, s.In); ok {
						return true, why
					} else {
						return false, why
					}
				}
				if strings.HasSuffix(name, "WireErrors).Error") {
					if ok, why := wireErrorsNonEmptyGuard(c); ok {
						assume("a *WireErrors value obtained from outside the module (e.g. a custom backend) holds at least one error (documented: 'It should always contain at least one error')")
						return true, why
					} else {
						return false, why
					}
				}
			}
		case "slice":
			if strings.HasSuffix(name, "WireErrors).Error") {
				if ok, why := wireErrorsNonEmptyGuard(c); ok {
					return true, why
				} else {
					return false, why
				}
			}
		}
		return false, ""
	}
}

func isDispatchTable(v ssa.Value, m *serverModel) bool {
	u, ok := v.(*ssa.UnOp)
	return ok && m.Global != nil && u.Op == token.MUL && u.X == ssa.Value(m.Global)
}

func isDispatchElem(v ssa.Value, m *serverModel) bool {
	u, ok := v.(*ssa.UnOp)
	if !ok || u.Op != token.MUL {
		return false
	}
	ia, ok := u.X.(*ssa.IndexAddr)
	return ok && isDispatchTable(ia.X, m)
}

// dispatchTableComplete: every declared Kind has a non-nil handler and fits the table.
func dispatchTableComplete(c *core.Ctx, m *serverModel, rule string) (bool, string) {
	if len(m.Kinds) == 0 {
		return false, "no ocirequest.Kind constants found"
	}
	if !m.hasDispatch() {
		return false, "no dispatch found"
	}
	for name, k := range m.Kinds {
		if m.Global != nil && (k < 0 || k >= m.TableLen) {
			c.Fail(rule, "dispatch/"+name, m.Global.Pos(), sprintf("request kind %s (%d) is outside the dispatch table (len %d): the server panics on such a request", name, k, m.TableLen))
			return false, "kind " + name + " outside the table"
		}
		if m.Handlers[k] == nil {
			c.Fail(rule, "dispatch/"+name, m.anchorPos(), "request kind "+name+" has no handler in the dispatch (table or switch): the server calls a nil function, or panics, for such a request")
			return false, "kind " + name + " has no handler"
		}
		c.OK(rule, "dispatch/"+name, m.Handlers[k].Pos(), "handled by "+facts.FuncName(m.Handlers[k]))
	}
	if m.Dispatcher != nil {
		return true, sprintf("the dispatch switch in %s has an arm calling a handler for each of the %d declared kinds", facts.FuncName(m.Dispatcher), len(m.Kinds))
	}
	return true, sprintf("table of %d entries has a non-nil handler for each of the %d declared kinds", m.TableLen, len(m.Kinds))
}

// kindStoresAreConstants: in ocirequest every store to Request.Kind is a declared constant.
func kindStoresAreConstants(c *core.Ctx, m *serverModel, rule string) (bool, string) {
	n := 0
	for _, fn := range c.P.ModuleFunctions("internal/ocirequest") {
		for _, b := range fn.Blocks {
			for _, in := range b.Instrs {
				st, ok := in.(*ssa.Store)
				if !ok {
					continue
				}
				base, fld, isF := facts.FieldOf(st.Addr)
				if !isF || fld != "Kind" || structName(base.Type()) != "Request" {
					continue
				}
				n++
				ks, isC := constIntsOf(st.Val, 3)
				if !isC {
					c.Fail(rule, "kind-store/"+facts.FuncName(fn), st.Pos(), "a non-constant value is stored into Request.Kind")
					return false, "non-constant Kind store in " + facts.FuncName(fn)
				}
				for _, k := range ks {
					if _, known := m.KindNames[k]; !known {
						c.Fail(rule, "kind-store/"+facts.FuncName(fn), st.Pos(), sprintf("undeclared kind value %d stored into Request.Kind", k))
						return false, "undeclared Kind value stored"
					}
				}
			}
		}
	}
	if _, ok := m.KindNames[0]; !ok {
		return false, "the zero Kind is not a declared kind"
	}
	return n > 0, sprintf("all %d stores to Request.Kind in ocirequest are declared constants", n)
}

// switchCoversKinds: the function compares its Kind against every declared constant.
func switchCoversKinds(fn *ssa.Function, m *serverModel) (bool, string) {
	seen := map[int64]bool{}
	for _, b := range fn.Blocks {
		for _, in := range b.Instrs {
			// kinds served from a frozen package-level table indexed by the Kind
			if lk, ok := in.(*ssa.Lookup); ok && m.c != nil {
				if _, fld, isF := facts.FieldOf(facts.Resolve(lk.Index)); isF && fld == "Kind" {
					if g := loadedGlobal(lk.X); g != nil {
						if entries, frozen := globalMapEntries(m.c, g); frozen {
							for _, e := range entries {
								if k, ok := facts.ConstInt(e.Key); ok {
									seen[k] = true
								}
							}
						}
					}
				}
			}
			bo, ok := in.(*ssa.BinOp)
			if !ok || bo.Op != token.EQL {
				continue
			}
			if _, fld, isF := facts.FieldOf(facts.Resolve(bo.X)); !isF || fld != "Kind" {
				continue
			}
			if k, ok := facts.ConstInt(bo.Y); ok {
				seen[k] = true
			}
		}
	}
	var missing []string
	for name, k := range m.Kinds {
		if !seen[k] {
			missing = append(missing, name)
		}
	}
	if len(missing) > 0 {
		return false, "switch over Request.Kind has no case for " + strings.Join(missing, ", ") + ": constructing such a request panics"
	}
	return true, sprintf("%d kinds", len(m.Kinds))
}

// writeErrorDefaulted: the only constructor of ociserver.registry leaves opts.WriteError non-nil.
func writeErrorDefaulted(c *core.Ctx) (bool, string) {
	ctor := c.P.Func("ociserver", "New")
	if ctor == nil {
		return false, "ociserver.New not found"
	}
	// (a) registry values are only created in New
	for _, fn := range c.P.ModuleFunctions("ociserver") {
		for _, b := range fn.Blocks {
			for _, in := range b.Instrs {
				if al, ok := in.(*ssa.Alloc); ok && isNamed(al.Type().(*types.Pointer).Elem(), "ociregistry/ociserver", "registry") && outermost(fn) != ctor {
					return false, "a registry value is constructed outside New (in " + facts.FuncName(fn) + ")"
				}
				if st, ok := in.(*ssa.Store); ok && outermost(fn) != ctor {
					if _, fld, isF := facts.FieldOf(st.Addr); isF && (fld == "WriteError" || fld == "opts") {
						return false, "opts/WriteError is assigned outside New (in " + facts.FuncName(fn) + ")"
					}
				}
			}
		}
	}
	isWE := func(addr ssa.Value) bool {
		_, fld, ok := facts.FieldOf(addr)
		return ok && fld == "WriteError"
	}
	ff := facts.FlowFuncs{
		Instr: func(in ssa.Instruction, t facts.Tokens) {
			st, ok := in.(*ssa.Store)
			if !ok {
				return
			}
			if isWE(st.Addr) {
				switch facts.Resolve(st.Val).(type) {
				case *ssa.MakeClosure, *ssa.Function:
					t["nn"] = true
				default:
					delete(t, "nn")
				}
				return
			}
			if _, fld, ok := facts.FieldOf(st.Addr); ok && fld == "opts" {
				delete(t, "nn")
			}
		},
		Edge: func(b *ssa.BasicBlock, idx int, t facts.Tokens) bool {
			for _, cd := range facts.EdgeConds(b, idx) {
				if x, isNil, ok := facts.NilCheck(cd); ok && !isNil {
					if u, ok := x.(*ssa.UnOp); ok && isWE(u.X) {
						t["nn"] = true
					}
				}
			}
			return true
		},
	}
	flow := facts.PathFlow(ctor, ff)
	for _, r := range returnsOf(ctor) {
		if !facts.AllAt(ff, flow, r, func(t facts.Tokens) bool { return t["nn"] }) {
			return false, "ociserver.New can return a registry whose opts.WriteError is nil: every error response panics"
		}
	}
	return true, "opts.WriteError is non-nil on every return of the only constructor (ociserver.New) and assigned nowhere else"
}

// regexpSubmatchIndex: m[k] where m = re.FindStringSubmatch(s), m != nil, k <= NumSubexp(pattern).
func regexpSubmatchIndex(c *core.Ctx, x, idx ssa.Value, at ssa.Instruction) (bool, string) {
	call, ok := facts.Resolve(x).(*ssa.Call)
	if !ok || facts.CalleeName(&call.Call) != "(*regexp.Regexp).FindStringSubmatch" {
		return false, ""
	}
	k, ok := facts.ConstInt(idx)
	if !ok || k < 0 {
		return false, ""
	}
	pat, ok := regexpPattern(c, call.Call.Args[0])
	if !ok {
		return false, "cannot resolve the regexp to a constant pattern"
	}
	n, err := compilesAsGoRegexp(pat)
	if err != nil {
		return false, "pattern does not compile"
	}
	nonNil := false
	for _, cd := range facts.CondsAt(at.Block()) {
		if v, isNil, ok := facts.NilCheck(cd); ok && !isNil && facts.Resolve(v) == ssa.Value(call) {
			nonNil = true
		}
	}
	if !nonNil {
		return false, "submatch slice is indexed without a dominating m != nil"
	}
	if int(k) > n {
		return false, sprintf("index %d exceeds the %d capture groups of the pattern", k, n)
	}
	return true, sprintf("m != nil and the constant pattern has %d capture groups (len(m) = %d > %d)", n, n+1, k)
}

// truncationImpliesNonEmpty: items[len(items)-1] under `truncated`, where truncated is
// only set under len(items) >= N && N > 0 and items only grows.
func truncationImpliesNonEmpty(ia *ssa.IndexAddr, at ssa.Instruction) (bool, string) {
	// the page and its flag handed back by a private helper: `items, truncated, err := collect(…)`
	if ex, ok := facts.Resolve(ia.X).(*ssa.Extract); ok {
		call, isCall := ex.Tuple.(*ssa.Call)
		if !isCall {
			return false, "indexed slice is not a captured variable"
		}
		h := call.Call.StaticCallee()
		if h == nil || h.Blocks == nil || !load.InModule(h) {
			return false, "indexed slice is the result of a call outside the module"
		}
		fi := -1
		for _, cd := range facts.CondsAt(at.Block()) {
			if fx, ok := facts.Resolve(cd.V).(*ssa.Extract); ok && cd.Pos && fx.Tuple == ex.Tuple && fx.Type().String() == "bool" {
				fi = fx.Index
			}
		}
		if fi < 0 {
			return false, "index is not dominated by the truncation flag returned with the page"
		}
		n := 0
		for _, r := range returnsOf(h) {
			fv := facts.RetVal(r, fi)
			if cst, ok := fv.(*ssa.Const); ok && cst.Value != nil && cst.Value.ExactString() == "false" {
				continue
			}
			fu, ok1 := fv.(*ssa.UnOp)
			iu, ok2 := facts.RetVal(r, ex.Index).(*ssa.UnOp)
			if !ok1 || !ok2 {
				return false, "the helper returns a page or a flag that is not one of its variables"
			}
			fa, ok1 := fu.X.(*ssa.Alloc)
			ia2, ok2 := iu.X.(*ssa.Alloc)
			if !ok1 || !ok2 {
				return false, "the helper returns a page or a flag that is not one of its variables"
			}
			n++
			if ok, why := truncationCellsOK(ia2, fa, r); !ok {
				return false, why
			}
		}
		if n == 0 {
			return false, "the helper never returns a set flag"
		}
		return true, "the helper sets truncated only under len(items) >= n > 0 and items only grows, so a truncated page is non-empty"
	}
	itemsLoad, ok := ia.X.(*ssa.UnOp)
	if !ok {
		return false, "indexed slice is not a captured variable"
	}
	items, ok := itemsLoad.X.(*ssa.Alloc)
	if !ok {
		return false, "indexed slice is not a captured variable"
	}
	// the dominating flag
	var flag *ssa.Alloc
	for _, cd := range facts.CondsAt(at.Block()) {
		if u, ok := cd.V.(*ssa.UnOp); ok && u.Op == token.MUL && cd.Pos {
			if al, ok := u.X.(*ssa.Alloc); ok && al.Type().(*types.Pointer).Elem().String() == "bool" {
				flag = al
			}
		}
	}
	if flag == nil {
		return false, "index is not dominated by a boolean truncation flag"
	}
	return truncationCellsOK(items, flag, at)
}

// truncationCellsOK: flag is set only under len(items) >= N && N > 0, and items
// only grows (any other assignment cannot reach `at`).
func truncationCellsOK(items, flag *ssa.Alloc, at ssa.Instruction) (bool, string) {
	// every store of a non-false value to the flag is dominated by len(items) >= N and N > 0
	selfStore := func(st *ssa.Store, cell *ssa.Alloc) bool {
		// `return items, truncated, nil` with heap-allocated named results is compiled to x = x
		u, ok := st.Val.(*ssa.UnOp)
		return ok && u.Op == token.MUL && u.X == ssa.Value(cell)
	}
	for _, st := range facts.StoresTo(flag) {
		if cst, ok := st.Val.(*ssa.Const); ok && cst.Value != nil && cst.Value.ExactString() == "false" {
			continue
		}
		if selfStore(st, flag) {
			continue
		}
		lenGE, posN := false, false
		var nTerm string
		for _, cd := range facts.CondsAt(st.Block()) {
			x, op, y, ok := facts.Cmp(cd)
			if !ok {
				continue
			}
			if _, xIsCall := x.(*ssa.Call); !xIsCall {
				if _, yIsCall := y.(*ssa.Call); yIsCall {
					// n <= len(items)  ==  len(items) >= n
					x, y = y, x
					switch op {
					case token.LEQ:
						op = token.GEQ
					case token.LSS:
						op = token.GTR
					case token.GEQ:
						op = token.LEQ
					case token.GTR:
						op = token.LSS
					}
				}
			}
			if lc, isCall := x.(*ssa.Call); isCall && op == token.GEQ {
				if bi, isB := lc.Call.Value.(*ssa.Builtin); isB && bi.Name() == "len" {
					if u, ok := lc.Call.Args[0].(*ssa.UnOp); ok && cellBehind(u) == items {
						lenGE = true
						nTerm = facts.Term(y)
					}
				}
			}
		}
		for _, cd := range facts.CondsAt(st.Block()) {
			x, op, y, ok := facts.Cmp(cd)
			if ok && op == token.GTR && facts.Term(x) == nTerm {
				if k, isK := facts.ConstInt(y); isK && k >= 0 {
					posN = true
				}
			}
		}
		if !lenGE || !posN {
			return false, "the truncation flag is set on a path where len(items) >= n with n > 0 is not established: an empty page can be marked truncated and items[len(items)-1] panics"
		}
	}
	// items only grows: every store is append(load of items, ...)
	for _, st := range facts.StoresTo(items) {
		if selfStore(st, items) {
			continue
		}
		grows := false
		if call, ok := st.Val.(*ssa.Call); ok {
			if bi, ok := call.Call.Value.(*ssa.Builtin); ok && bi.Name() == "append" {
				if u, ok := call.Call.Args[0].(*ssa.UnOp); ok && cellBehind(u) == items {
					grows = true
				}
			}
		}
		if grows {
			continue
		}
		// any other assignment must not be able to reach the index (e.g. the
		// result-clearing stores on the error-return paths)
		if st.Parent() != at.Parent() {
			return false, "the page slice is assigned something other than append(items, ...) inside a closure"
		}
		isAt := func(in ssa.Instruction) bool { return in == at }
		if _, reach := facts.ReachesWithout(st, isAt, nil, nil); reach {
			return false, "the page slice can be re-assigned (not by append) on a path to the index"
		}
	}
	return true, "truncated is set only under len(items) >= n > 0 and items only grows, so a truncated page is non-empty"
}

// cellBehind: the Alloc a load reads (through closure captures).
func cellBehind(u *ssa.UnOp) *ssa.Alloc {
	if al, _, ok := cellOf(u); ok {
		return al
	}
	return nil
}

// wireErrorsNonEmptyGuard: inside the module a *WireErrors becomes an error only when non-empty.
func wireErrorsNonEmptyGuard(c *core.Ctx) (bool, string) {
	n := 0
	for _, fn := range c.P.ModuleFunctions("") {
		if isInstance(fn) {
			continue
		}
		for _, b := range fn.Blocks {
			for _, in := range b.Instrs {
				mi, ok := in.(*ssa.MakeInterface)
				if !ok {
					continue
				}
				p, ok := mi.X.Type().(*types.Pointer)
				if !ok || !isNamed(p.Elem(), "oci/ociregistry", "WireErrors") {
					continue
				}
				// only conversions to an error-like interface (not e.g. `any` for json.Unmarshal)
				if it, ok := mi.Type().Underlying().(*types.Interface); !ok || !hasMethod(it, "Error") {
					continue
				}
				n++
				// literal with at least one element, or dominated by len(x.Errors) != 0
				guarded := false
				for _, cd := range facts.CondsAt(b) {
					x, op, y, okc := facts.Cmp(cd)
					if !okc {
						continue
					}
					lc, isCall := x.(*ssa.Call)
					if !isCall {
						continue
					}
					bi, isB := lc.Call.Value.(*ssa.Builtin)
					if !isB || bi.Name() != "len" {
						continue
					}
					if _, fld, isF := facts.FieldOf(facts.Resolve(lc.Call.Args[0])); !isF || fld != "Errors" {
						continue
					}
					k, isK := facts.ConstInt(y)
					if isK && ((op == token.NEQ && k == 0) || (op == token.GTR && k == 0) || (op == token.GEQ && k >= 1)) {
						guarded = true
					}
				}
				if !guarded && !wireErrorsLiteralNonEmpty(mi.X) {
					c.Fail("C06.R1", "wire-errors-nonempty/"+facts.FuncName(fn), mi.Pos(), "a *WireErrors is converted to an error without a dominating len(Errors) != 0: its Error method indexes Errors[0]")
					return false, "unguarded *WireErrors -> error conversion in " + facts.FuncName(fn)
				}
			}
		}
	}
	return true, sprintf("all %d *WireErrors -> error conversions in the module are dominated by len(Errors) != 0 or are non-empty literals", n)
}

func wireErrorsLiteralNonEmpty(v ssa.Value) bool {
	al, ok := v.(*ssa.Alloc)
	if !ok {
		return false
	}
	for _, ref := range *al.Referrers() {
		fa, ok := ref.(*ssa.FieldAddr)
		if !ok {
			continue
		}
		for _, st := range facts.StoresTo(fa) {
			if sl, ok := st.Val.(*ssa.Slice); ok {
				if n, ok := derefArrayLen(sl.X.Type()); ok && n >= 1 {
					return true
				}
			}
		}
	}
	return false
}

func derefArrayLen(t types.Type) (int64, bool) {
	if p, ok := t.Underlying().(*types.Pointer); ok {
		if a, ok := p.Elem().Underlying().(*types.Array); ok {
			return a.Len(), true
		}
	}
	return 0, false
}

func hasMethod(it *types.Interface, name string) bool {
	for i := 0; i < it.NumMethods(); i++ {
		if it.Method(i).Name() == name {
			return true
		}
	}
	return false
}

// onlyCalledFrom: fn is a private helper every call site of which lies in the
// function named by suffix (or in another such helper).
func onlyCalledFrom(fn *ssa.Function, suffix string, depth int) bool {
	sites := privateCallSites(fn)
	if len(sites) == 0 || depth <= 0 {
		return false
	}
	for _, s := range sites {
		caller := outermost(s.Parent())
		if strings.HasSuffix(roleName(caller), suffix) {
			continue
		}
		if !onlyCalledFrom(caller, suffix, depth-1) {
			return false
		}
	}
	return true
}
