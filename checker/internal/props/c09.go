package props

import (
	"go/token"
	"go/types"
	"strings"

	"golang.org/x/tools/go/ssa"

	"ocivet/internal/core"
	"ocivet/internal/facts"
)

func init() {
	register(&Prop{
		ID:    "C09",
		Title: "Auth scopes behave as finite sets of (type, resource, action)",
		Run:   runC09,
		Explanation: "The algebraic laws are value-level; three structural clauses that the representation depends on are decided. " +
			"R1 in-band sentinel exclusivity: Scope stores the constant \"\" in `repositories` to mean the registry catalog scope, so (a) the predicate that admits a resource scope into that representation (isKnown) answers true for a repository-typed scope only on paths that established Resource != \"\"; (b) in NewScope a non-constant name is appended only under isKnown() and not-registry-typed, and the constant \"\" only under registry-typed; (c) every search of `repositories` keyed by the constant \"\" is dominated by `r == CatalogScope`, and every search keyed by a caller-supplied name is dominated by ResourceType == repository and Resource != \"\" — otherwise a repository scope with an empty name is the catalog scope, or any registry-typed scope is; " +
			"R2 Union returns its receiver itself, UnlimitedScope(), or the freshly built value — the receiver after the build only under built.Equal(receiver), the built value only under its negation; " +
			"R3 in Holds and Contains no `return false` is reachable while the receiver is unlimited (every false answer is dominated by !receiver.IsUnlimited()), so the unlimited scope contains everything. " +
			"R6 the iterator returned by Scope.Iter assigns to no variable of the enclosing call (it can be run again). " +
			"R7 scope operations never append to a slice belonging to an argument scope. " +
			"R8 Contains compares the argument's action bits as a subset of the receiver's ((a&b) != b or b&^a != 0), never as an overlap; R9 a scope's actions are read at an index that is also used with the same scope's repositories. " +
			"R10 Scope.String joins actions with a comma only under (both repository scopes, same repository); R1c an action name becomes a bit (parseKnownAction) only for a resource scope that passed isKnown(), or the result is tested. " +
			"R7b also: a slice handed to an exported constructor (NewScope(rss...)), and what slices.Compact/Delete/Clip make of it, is the caller's — it is never appended to, nor kept as a field that is appended to. " +
			"R11 NewScope compacts its sorted input, or compares every entry with the previous one before appending it to repositories (no scope is stored twice); R12 inside Scope.Iter the raw consumer is called directly only with elements of `others`: entries of the compact part go through the wrapper that first emits the pending unknown scopes.",
		NotDecided: "all algebraic laws over sets of triples (union/containment/membership/equality/length agree with the set model), strict ordering of Iter and the print/parse round trip are value-level and not decided.",
		Technique:  "static analysis: SSA dominance of sentinel guards, predicate path analysis, return provenance",
	})
}

func scopeMethod(c *core.Ctx, name string) *ssa.Function {
	t := c.P.NamedType("ociauth", "Scope")
	if t == nil {
		return nil
	}
	return c.P.Method(t, name)
}

// isFieldOfParam: v is a load of field fld of parameter index pi of fn (value or pointer receiver).
func isFieldOfParam(v ssa.Value, fn *ssa.Function, pi int, fld string) bool {
	v = facts.Resolve(v)
	b, f, ok := facts.FieldOf(v)
	if !ok || f != fld {
		return false
	}
	b = facts.ResolveFree(b)
	if argIsParam(b, fn, pi) {
		return true
	}
	// value parameters are spilled: the base is the cell holding the parameter
	if al, ok := b.(*ssa.Alloc); ok {
		for _, st := range facts.StoresTo(al) {
			if argIsParam(st.Val, fn, pi) {
				return true
			}
		}
	}
	return false
}

func runC09(c *core.Ctx) {
	tp := c.P.TypesPkg("ociauth")
	if tp == nil {
		c.Fail("C09.R0", "anchor/ociauth", 0, "package ociauth not found")
		return
	}
	rs := c.P.NamedType("ociauth", "ResourceScope")
	if rs == nil || scopeMethod(c, "Holds") == nil {
		c.Fail("C09.R0", "anchor/ociauth.Scope", 0, "ociauth.Scope / ResourceScope not found")
		return
	}
	c09Sentinel(c, rs)
	c09Union(c)
	c09Unlimited(c)
	iteratorsAreRerunnable(c, "C09.R6")
	noAppendToParameterSlice(c, "C09.R7")
	actionSubsetTest(c, "C09.R8")
	parallelSlicesIndexedAlike(c, "C09.R9")
	scopeStringGroupsOnlyRepositories(c, "C09.R10")
	knownActionOnlyForKnownScopes(c, "C09.R1")
	constructorDeduplicatesInput(c, "C09.R11")
	iterYieldsInOrderThroughTheWrapper(c, "C09.R12")
}

func strConstCmp(cd facts.Cond, fld string, want string) (eq bool, ok bool) {
	if want == "" {
		// x == "", len(x) == 0, len(x) > 0, ...
		if x, isEmpty, okE := facts.EmptyTest(cd); okE {
			if _, f, isF := facts.FieldOf(facts.Resolve(x)); isF && f == fld {
				return isEmpty, true
			}
		}
	}
	x, op, y, okc := facts.Cmp(cd)
	if !okc {
		return false, false
	}
	for _, pr := range [][2]ssa.Value{{x, y}, {y, x}} {
		if _, f, isF := facts.FieldOf(facts.Resolve(pr[0])); isF && f == fld {
			if s, isS := facts.ConstString(pr[1]); isS && s == want {
				if op == token.EQL {
					return true, true
				}
				if op == token.NEQ {
					return false, true
				}
			}
		}
	}
	return false, false
}

func c09Sentinel(c *core.Ctx, rs *types.Named) {
	isKnown := c.P.Method(rs, "isKnown")
	if isKnown == nil {
		// by role: unexported bool predicate on ResourceScope
		c.Fail("C09.R1", "anchor/ResourceScope.isKnown", 0, "the predicate admitting a resource scope into the compact representation (ResourceScope.isKnown) was not found")
		return
	}
	c.Analysed(facts.FuncName(isKnown))
	// (a) every may-true return in the repository arm is under Resource != ""
	n := 0
	for _, r := range returnsOf(isKnown) {
		// possible-true edges of the returned value
		type edge struct {
			b *ssa.BasicBlock
		}
		var blocks []*ssa.BasicBlock
		v := facts.Resolve(r.Results[0])
		switch x := v.(type) {
		case *ssa.Const:
			if x.Value != nil && x.Value.ExactString() == "false" {
				continue
			}
			blocks = append(blocks, r.Block())
		case *ssa.Phi:
			for i, e := range x.Edges {
				if cst, ok := e.(*ssa.Const); ok && cst.Value != nil && cst.Value.ExactString() == "false" {
					continue
				}
				blocks = append(blocks, x.Block().Preds[i])
			}
		default:
			blocks = append(blocks, r.Block())
		}
		for _, b := range blocks {
			isRepo, nonEmpty := false, false
			for _, cd := range facts.CondsAt(b) {
				if eq, ok := strConstCmp(cd, "ResourceType", "repository"); ok && eq {
					isRepo = true
				}
				if eq, ok := strConstCmp(cd, "Resource", ""); ok && !eq {
					nonEmpty = true
				}
			}
			isReg := false
			for _, cd := range facts.CondsAt(b) {
				if eq, ok := strConstCmp(cd, "ResourceType", "registry"); ok && eq {
					isReg = true
				}
			}
			if isReg {
				// the registry arm may answer true only for the catalog scope itself
				okCat := false
				var cmp *ssa.BinOp
				if bo, ok := v.(*ssa.BinOp); ok {
					cmp = bo
				}
				if ph, ok := v.(*ssa.Phi); ok {
					for _, e := range ph.Edges {
						if bo, ok := e.(*ssa.BinOp); ok {
							cmp = bo
						}
					}
				}
				if cmp != nil && cmp.Op == token.EQL {
					for _, side := range []ssa.Value{cmp.X, cmp.Y} {
						if u, ok := facts.Strip(side).(*ssa.UnOp); ok {
							if g, ok := u.X.(*ssa.Global); ok && g.Name() == "CatalogScope" {
								okCat = true
							}
						}
					}
				}
				c.Check(okCat, "C09.R1", "isKnown/registry-only-catalog", r.Pos(), "a registry-typed scope is admitted only if it equals CatalogScope", "a registry-typed scope other than registry:catalog:* is admitted into the compact representation, where every registry entry is stored as the catalog sentinel: holding registry:metrics:read would confer the catalog scope")
			}
			if !isRepo {
				continue
			}
			n++
			c.Check(nonEmpty, "C09.R1", "isKnown/repository-needs-name", r.Pos(), "a repository-typed scope is admitted only with a non-empty name", "a repository-typed resource scope with an empty name is admitted into the compact representation, where the empty name means the registry catalog: NewScope({repository, \"\", pull}).Holds(CatalogScope) is true (and the reverse)")
		}
	}
	if n == 0 {
		c.Fail("C09.R1", "isKnown/repository-needs-name", isKnown.Pos(), "isKnown has no repository arm that can answer true")
	}
	// (b) NewScope appends
	ns := c.P.Func("ociauth", "NewScope")
	if ns == nil {
		c.Fail("C09.R1", "anchor/ociauth.NewScope", 0, "ociauth.NewScope not found")
		return
	}
	c.Analysed("ociauth.NewScope")
	nApp := 0
	for _, f := range withHelpers(ns) {
		for _, ci := range facts.CallsIn(f) {
			bi, ok := ci.Common().Value.(*ssa.Builtin)
			if !ok || bi.Name() != "append" {
				continue
			}
			if _, fld, isF := facts.FieldOf(facts.Resolve(ci.Common().Args[0])); !isF || fld != "repositories" {
				continue
			}
			// the appended element(s)
			var elems []ssa.Value
			if sl, ok := ci.Common().Args[1].(*ssa.Slice); ok {
				if al, ok := sl.X.(*ssa.Alloc); ok {
					for _, ref := range *al.Referrers() {
						if ia, ok := ref.(*ssa.IndexAddr); ok {
							for _, st := range facts.StoresTo(ia) {
								elems = append(elems, st.Val)
							}
						}
					}
				}
			}
			// judged in every calling context (the append may sit in a private helper
			// that is handed the element and is called under the checks)
			for _, cx := range contextsOf(ci.Block(), 3) {
				nApp++
				elemConstEmpty := false
				for _, e := range elems {
					if s, isS := facts.ConstString(cx.up(e)); isS && s == "" {
						elemConstEmpty = true
					}
				}
				known, registry, notRegistry := false, false, false
				for _, cd := range cx.Conds {
					if call, ok := cd.V.(*ssa.Call); ok && cd.Pos && call.Call.StaticCallee() != nil && fnName(call.Call.StaticCallee()) == "isKnown" {
						known = true
					}
					if eq, ok := strConstCmp(cd, "ResourceType", "registry"); ok {
						if eq {
							registry = true
						} else {
							notRegistry = true
						}
					}
				}
				if elemConstEmpty {
					c.Check(known && registry, "C09.R1", "NewScope/sentinel-append", ci.Pos(), "the catalog sentinel is stored only for a known registry-typed scope", "the catalog sentinel \"\" is appended to repositories on a path that is not (isKnown and registry-typed)")
				} else {
					c.Check(known && notRegistry, "C09.R1", "NewScope/name-append", ci.Pos(), "names are stored only for known, non-registry scopes", "a caller-supplied name is appended to repositories on a path where isKnown() (hence Resource != \"\") or not-registry-typed is not established")
				}
			}
		}
	}
	if nApp < 2 {
		c.Fail("C09.R1", "NewScope/appends", ns.Pos(), "NewScope no longer appends both the sentinel and names to repositories")
	}
	// (c) searches in `repositories`
	nSearch := 0
	for _, fn := range c.P.ModuleFunctions("ociauth") {
		for _, ci := range facts.CallsIn(fn) {
			if facts.CalleeName(ci.Common()) != "slices.BinarySearch" {
				continue
			}
			a := ci.Common().Args
			if _, fld, isF := facts.FieldOf(facts.Resolve(a[0])); !isF || fld != "repositories" {
				continue
			}
			nSearch++
			c.Analysed(facts.FuncName(fn))
			conds := withPhiImplied(condsAtUp(ci.Block(), 2))
			if s, isS := facts.ConstString(a[1]); isS && s == "" {
				okCat := false
				for _, cd := range conds {
					if bo, ok := cd.V.(*ssa.BinOp); ok && bo.Op == token.EQL && cd.Pos {
						for _, side := range []ssa.Value{bo.X, bo.Y} {
							if u, ok := facts.Strip(side).(*ssa.UnOp); ok {
								if g, ok := u.X.(*ssa.Global); ok && g.Name() == "CatalogScope" {
									okCat = true
								}
							}
						}
					}
				}
				c.Check(okCat, "C09.R1", facts.FuncName(fn)+"/sentinel-search", ci.Pos(), "the sentinel is searched only for r == CatalogScope", "repositories is searched for the catalog sentinel on a path where the queried scope is not known to equal CatalogScope: any registry-typed scope is answered as if it were the catalog scope")
			} else {
				isRepo, nonEmpty := false, false
				for _, cd := range conds {
					if eq, ok := strConstCmp(cd, "ResourceType", "repository"); ok && eq {
						isRepo = true
					}
					if eq, ok := strConstCmp(cd, "Resource", ""); ok && !eq {
						nonEmpty = true
					}
				}
				c.Check(isRepo && nonEmpty, "C09.R1", facts.FuncName(fn)+"/name-search", ci.Pos(), "names are searched only for repository-typed scopes with a non-empty name", "repositories is searched with a caller-supplied name on a path where ResourceType == repository and Resource != \"\" are not both established: an empty repository name finds the catalog sentinel")
			}
		}
	}
	if nSearch < 2 {
		c.Fail("C09.R1", "searches/instance-floor", 0, sprintf("only %d searches of Scope.repositories found", nSearch))
	}
}

func c09Union(c *core.Ctx) {
	un := scopeMethod(c, "Union")
	if un == nil {
		c.Fail("C09.R2", "anchor/Scope.Union", 0, "Scope.Union not found")
		return
	}
	c.Analysed(facts.FuncName(un))
	// receiver value: parameter 0 (a struct value; spilled to a cell)
	isRecv := func(v ssa.Value) bool {
		v = facts.Resolve(v)
		if argIsParam(v, un, 0) {
			return true
		}
		if u, ok := v.(*ssa.UnOp); ok && u.Op == token.MUL {
			if al, ok := u.X.(*ssa.Alloc); ok {
				for _, st := range facts.StoresTo(al) {
					if argIsParam(st.Val, un, 0) {
						return true
					}
				}
			}
		}
		return false
	}
	// the built value: a local Scope cell that has field stores (composite literal)
	var built *ssa.Alloc
	for _, b := range un.Blocks {
		for _, in := range b.Instrs {
			if al, ok := in.(*ssa.Alloc); ok && isNamed(al.Type().(*types.Pointer).Elem(), "ociregistry/ociauth", "Scope") && al.Comment == "complit" {
				built = al
			}
			if al, ok := in.(*ssa.Alloc); ok && built == nil && isNamed(al.Type().(*types.Pointer).Elem(), "ociregistry/ociauth", "Scope") && al.Comment == "r" {
				built = al
			}
		}
	}
	equalCond := func(b *ssa.BasicBlock) (pos bool, found bool) {
		for _, cd := range facts.CondsAt(b) {
			call, ok := cd.V.(*ssa.Call)
			if !ok || call.Call.StaticCallee() == nil || call.Call.StaticCallee().Name() != "Equal" {
				continue
			}
			a := call.Call.Args
			if len(a) == 2 && built != nil {
				isBuilt := func(v ssa.Value) bool {
					u, ok := facts.Strip(v).(*ssa.UnOp)
					return ok && u.X == ssa.Value(built)
				}
				if (isBuilt(a[0]) && isRecv(a[1])) || (isRecv(a[0]) && isBuilt(a[1])) {
					return cd.Pos, true
				}
			}
		}
		return false, false
	}
	afterBuild := func(r *ssa.Return) bool {
		if built == nil {
			return false
		}
		return facts.Dominates(built, r)
	}
	n := 0
	for _, r := range returnsOf(un) {
		v := facts.RetVal(r, 0)
		n++
		switch {
		case isRecv(r.Results[0]) || isRecv(v):
			if !afterBuild(r) {
				c.OK("C09.R2", "Union/return-receiver-early", r.Pos(), "receiver returned before anything was built (cheap short-cut)")
				continue
			}
			pos, found := equalCond(r.Block())
			c.Check(found && pos, "C09.R2", "Union/return-receiver-after-build", r.Pos(), "receiver returned after the merge only under built.Equal(receiver)", "after merging, Union returns its receiver on a path where the merged scope is not known to Equal the receiver (e.g. judged by lengths only): a union that adds an action to an already-listed repository silently drops it")
		default:
			if call, ok := v.(*ssa.Call); ok && strings.HasSuffix(facts.CalleeName(&call.Call), "ociauth.UnlimitedScope") {
				c.OK("C09.R2", "Union/return-unlimited", r.Pos(), "UnlimitedScope()")
				continue
			}
			isBuiltVal := false
			if u, ok := facts.Strip(r.Results[0]).(*ssa.UnOp); ok && built != nil && u.X == ssa.Value(built) {
				isBuiltVal = true
			}
			if u, ok := v.(*ssa.UnOp); ok && built != nil && u.X == ssa.Value(built) {
				isBuiltVal = true
			}
			if !isBuiltVal {
				c.Fail("C09.R2", "Union/return-other", r.Pos(), "Union returns something that is neither its receiver, UnlimitedScope() nor the merged value")
				continue
			}
			pos, found := equalCond(r.Block())
			c.Check(found && !pos, "C09.R2", "Union/return-built", r.Pos(), "merged value returned only when it differs from the receiver", "Union returns the merged value on a path where it may equal the receiver: the receiver's original text would be lost")
		}
	}
	if n < 3 {
		c.Fail("C09.R2", "Union/returns", un.Pos(), "Union has fewer than three returns")
	}
}

func c09Unlimited(c *core.Ctx) {
	for _, name := range []string{"Holds", "Contains"} {
		fn := scopeMethod(c, name)
		if fn == nil {
			c.Fail("C09.R3", "anchor/Scope."+name, 0, "Scope."+name+" not found")
			continue
		}
		c.Analysed(facts.FuncName(fn))
		n := 0
		for _, r := range returnsOf(fn) {
			v := facts.RetVal(r, 0)
			if cst, ok := v.(*ssa.Const); ok && cst.Value != nil && cst.Value.ExactString() == "true" {
				continue
			}
			n++
			ok := false
			for _, cd := range facts.CondsAt(r.Block()) {
				call, isCall := cd.V.(*ssa.Call)
				if !isCall || cd.Pos || call.Call.StaticCallee() == nil || call.Call.StaticCallee().Name() != "IsUnlimited" {
					continue
				}
				// on the receiver
				a := call.Call.Args[0]
				if argIsParam(a, fn, 0) {
					ok = true
				}
				if u, isU := facts.Strip(a).(*ssa.UnOp); isU {
					if al, isAl := u.X.(*ssa.Alloc); isAl {
						for _, st := range facts.StoresTo(al) {
							if argIsParam(st.Val, fn, 0) {
								ok = true
							}
						}
					}
				}
			}
			c.Check(ok, "C09.R3", name+"/non-true-answer-not-unlimited", r.Pos(), "an answer other than true is given only for a limited receiver", "Scope."+name+" can answer something other than true on a path where the receiver may be the unlimited scope: the unlimited scope would not contain everything")
		}
		if n == 0 {
			c.Fail("C09.R3", name+"/returns", fn.Pos(), name+" has no non-true return")
		}
	}
}
