package props

import (
	"go/token"
	"go/types"
	"strings"

	"golang.org/x/tools/go/ssa"

	"ocivet/internal/core"
	"ocivet/internal/facts"
)

// Rules added after the fourth round of seeded changes (a fresh sample drawn
// with the first round's prompt; DESIGN §14).

// prefixUsedAsBuilt (C07.R6c; seed C07-G): the status prefix that the shared
// helper builds reaches the message untouched: between the helper and the
// separator nothing trims, replaces or re-slices it (the trimmer rebuilds the
// helper's exact output).
func prefixUsedAsBuilt(c *core.Ctx, rule string) {
	he := c.P.NamedType("", "httpError")
	trim := c.P.Func("", "trimErrorCodePrefix")
	if he == nil || trim == nil {
		return
	}
	heErr := c.P.Method(types.NewPointer(he), "Error")
	if heErr == nil {
		return
	}
	// helpers of the package that both the writer and the trimmer call
	shared := map[*ssa.Function]bool{}
	callsOf := func(fn *ssa.Function) map[*ssa.Function]bool {
		out := map[*ssa.Function]bool{}
		for _, f := range withHelpers(fn) {
			for _, ci := range facts.CallsIn(f) {
				if sc := ci.Common().StaticCallee(); sc != nil && sc.Pkg == fn.Pkg && sc.Blocks != nil {
					out[sc] = true
				}
			}
		}
		return out
	}
	tc := callsOf(trim)
	for f := range callsOf(heErr) {
		if tc[f] && f != trim {
			shared[f] = true
		}
	}
	n := 0
	for _, fn := range []*ssa.Function{heErr, trim} {
		for _, ci := range facts.CallsIn(fn) {
			sc := ci.Common().StaticCallee()
			if sc == nil || !shared[sc] || ci.Value() == nil {
				continue
			}
			n++
			ok := true
			var offender string
			for _, ref := range *ci.Value().Referrers() {
				switch x := ref.(type) {
				case *ssa.Call:
					if bi, isB := x.Call.Value.(*ssa.Builtin); isB && (bi.Name() == "append" || bi.Name() == "len") {
						continue
					}
					if shared[x.Call.StaticCallee()] {
						continue
					}
					ok = false
					offender = facts.CalleeName(&x.Call)
				case *ssa.Slice:
					// buf[:0] to reuse the buffer is fine; any other re-slicing of the prefix is not
					if x.Low != nil || x.High == nil {
						ok = false
						offender = "a re-slice"
					} else if k, isK := facts.ConstInt(x.High); !isK || k != 0 {
						ok = false
						offender = "a re-slice"
					}
				}
			}
			c.Check(ok, rule, fnName(fn)+"/prefix-used-as-built/"+fnName(sc), ci.Pos(), "the helper's output is appended to / converted as it is", fnName(fn)+" passes the prefix built by "+fnName(sc)+" through "+offender+" before using it: the other side of the writer/trimmer pair still uses the helper's exact output, so the prefixes no longer match and messages grow by a prefix per hop")
		}
	}
	if n == 0 {
		c.Note("C07.R6c: writer and trimmer share no prefix helper (judged by formatting primitives, C07.R6)")
	}
}

// actionSubsetTest (C09.R8 / C10.R2b; seeds C09-G, C10-H): in Scope.Contains the
// actions of a repository present in both scopes are compared as a SUBSET test
// of the argument's actions in the receiver's — `(a&b) != b` or `b&^a != 0`
// decides "not contained" — never as an overlap test.
func actionSubsetTest(c *core.Ctx, rule string) {
	fn := scopeMethod(c, "Contains")
	if fn == nil {
		return
	}
	c.Analysed(facts.FuncName(fn))
	isActionsOf := func(v ssa.Value, pi int) bool {
		// element of <param pi>.actions
		u, ok := facts.Resolve(v).(*ssa.UnOp)
		if !ok {
			return false
		}
		ia, ok := u.X.(*ssa.IndexAddr)
		if !ok {
			return false
		}
		b, fld, isF := facts.FieldOf(facts.Resolve(ia.X))
		if !isF || fld != "actions" {
			return false
		}
		return scopeOwnerIs(b, fn, pi)
	}
	n := 0
	for _, b := range fn.Blocks {
		for _, in := range b.Instrs {
			cmp, ok := in.(*ssa.BinOp)
			if !ok || (cmp.Op != token.EQL && cmp.Op != token.NEQ) {
				continue
			}
			inner, ok := facts.Resolve(cmp.X).(*ssa.BinOp)
			if !ok || (inner.Op != token.AND && inner.Op != token.AND_NOT) {
				continue
			}
			var recvSide, argSide ssa.Value
			for _, o := range []ssa.Value{inner.X, inner.Y} {
				if isActionsOf(o, 0) {
					recvSide = o
				}
				if isActionsOf(o, 1) {
					argSide = o
				}
			}
			if recvSide == nil || argSide == nil {
				continue
			}
			n++
			good := false
			switch inner.Op {
			case token.AND:
				// (a & b) != b  /  == b : compared with the ARGUMENT's actions
				good = isActionsOf(cmp.Y, 1)
			case token.AND_NOT:
				// b &^ a != 0 / == 0 : the argument's actions minus the receiver's
				k, isK := facts.ConstInt(cmp.Y)
				good = isK && k == 0 && isActionsOf(inner.X, 1) && isActionsOf(inner.Y, 0)
			}
			c.Check(good, rule, "Contains/action-subset-test", cmp.Pos(), "containment compares the argument's actions as a subset of the receiver's", "Scope.Contains does not test that the argument's actions on a shared repository are a SUBSET of the receiver's (it tests for an overlap, or compares with the wrong side): a pull-only scope \"contains\" a pull,push scope, so a cached pull token is reused for a push")
		}
	}
	if n == 0 {
		c.Fail(rule, "Contains/action-subset-test", fn.Pos(), "no comparison of the two scopes' action bits found in Scope.Contains")
	}
}

// scopeOwnerIs: b (the base of a field access) is parameter pi of fn (value
// receivers and parameters are spilled to local cells).
func scopeOwnerIs(b ssa.Value, fn *ssa.Function, pi int) bool {
	for d := 0; d < 4; d++ {
		b = facts.Resolve(b)
		switch x := b.(type) {
		case *ssa.Parameter:
			return pi < len(fn.Params) && fn.Params[pi] == x
		case *ssa.UnOp:
			b = x.X
		case *ssa.Alloc:
			sts := facts.StoresTo(x)
			if len(sts) != 1 {
				return false
			}
			b = sts[0].Val
		default:
			return false
		}
	}
	return false
}

// parallelSlicesIndexedAlike (C09.R9; seed C09-H): a scope's `actions` slice
// is parallel to its `repositories` slice: wherever actions[i] of some scope is
// read, repositories[i] of the SAME scope with the same index is read in that
// function too (an index of the other operand picks another repository's bits).
func parallelSlicesIndexedAlike(c *core.Ctx, rule string) {
	n, bad := 0, 0
	for _, fn := range c.P.ModuleFunctions("ociauth") {
		type acc struct {
			owner string
			idx   string
		}
		var actions []struct {
			a   acc
			pos token.Pos
		}
		repos := map[acc]bool{}
		for _, b := range fn.Blocks {
			for _, in := range b.Instrs {
				ia, ok := in.(*ssa.IndexAddr)
				if !ok {
					continue
				}
				base, fld, isF := facts.FieldOf(facts.Resolve(ia.X))
				if !isF || structName(base.Type()) != "Scope" {
					continue
				}
				a := acc{errOwner(base), facts.Term(ia.Index)}
				switch fld {
				case "actions":
					// only reads matter (appends build the slices in step)
					isRead := false
					for _, ref := range *ia.Referrers() {
						if u, isU := ref.(*ssa.UnOp); isU && u.Op == token.MUL {
							isRead = true
						}
					}
					if isRead {
						actions = append(actions, struct {
							a   acc
							pos token.Pos
						}{a, ia.Pos()})
					}
				case "repositories":
					repos[a] = true
				}
			}
		}
		for _, x := range actions {
			// does the function index this owner's repositories at all? (lookups by binary search use the found index)
			ownerIndexed := false
			for r := range repos {
				if r.owner == x.a.owner {
					ownerIndexed = true
				}
			}
			if !ownerIndexed {
				continue
			}
			n++
			if !repos[x.a] {
				bad++
				c.Fail(rule, fnName(outermost(fn))+"/actions-index-matches-repositories", x.pos, "a scope's actions are read at an index that is never used with the same scope's repositories in this function (e.g. the other operand's cursor): the action bits of a different repository are merged or compared")
			}
		}
	}
	if bad == 0 {
		if n == 0 {
			c.Fail(rule, "scope/parallel-slices/instance-floor", 0, "no indexed read of Scope.actions next to Scope.repositories found")
		} else {
			c.OK(rule, "scope/parallel-slices", 0, sprintf("%d indexed reads of actions use the index used with the same scope's repositories", n))
		}
	}
}

// resultChannelUnbuffered (C16.R1b; seed C16-G): the channel on which the two
// senders hand over their answers is unbuffered, so that a sender either hands
// its answer to the receiver or observes `done` and disposes of it; a buffered
// channel lets a late answer be parked where nobody will ever close it.
func resultChannelUnbuffered(c *core.Ctx, rule string) {
	rrc := M.Fn("ociunify.runReadConcurrent")
	if rrc == nil {
		return
	}
	n := 0
	for _, b := range rrc.Blocks {
		for _, in := range b.Instrs {
			mk, ok := in.(*ssa.MakeChan)
			if !ok {
				continue
			}
			// the channel the senders send on
			sentOn := false
			type scope struct {
				fn   *ssa.Function
				bind func(ssa.Value) ssa.Value
			}
			var scopes []scope
			for _, f := range facts.WithAnon(rrc) {
				scopes = append(scopes, scope{f, func(v ssa.Value) ssa.Value { return v }})
			}
			// senders that are functions of the module, spawned with the channel as an argument
			for _, ci := range facts.CallsIn(rrc) {
				if g, isGo := ci.(*ssa.Go); isGo {
					if _, isMC := facts.Resolve(g.Call.Value).(*ssa.MakeClosure); isMC {
						continue
					}
					if f, bind := spawnedFunc(g); f != nil {
						scopes = append(scopes, scope{f, bind})
					}
				}
			}
			for _, sc := range scopes {
				for _, fb := range sc.fn.Blocks {
					for _, fin := range fb.Instrs {
						switch x := fin.(type) {
						case *ssa.Send:
							if facts.ResolveFree(sc.bind(x.Chan)) == ssa.Value(mk) {
								sentOn = true
							}
						case *ssa.Select:
							for _, st := range x.States {
								if st.Dir == types.SendOnly && facts.ResolveFree(sc.bind(st.Chan)) == ssa.Value(mk) {
									sentOn = true
								}
							}
						}
					}
				}
			}
			if !sentOn {
				continue
			}
			n++
			k, isK := facts.ConstInt(mk.Size)
			c.Check(isK && k == 0, rule, "runReadConcurrent/result-channel-unbuffered", mk.Pos(), "the answer channel is unbuffered", "the channel the member goroutines send their answers on is buffered: an answer that arrives after the call has returned can be parked in the buffer instead of taking the `done` arm, so its reader is never closed and its context never cancelled")
		}
	}
	if n == 0 {
		c.Fail(rule, "runReadConcurrent/result-channel-unbuffered", rrc.Pos(), "no channel that the member goroutines send on found")
	}
}

// authDecodedWithStdAlphabet (C19.R4; seed C19-H): the `auth` field of a config
// entry is standard base64 (docker writes it with StdEncoding); decoding with
// another alphabet rejects credentials whose encoding contains '+' or '/'.
func authDecodedWithStdAlphabet(c *core.Ctx, rule string) {
	n := 0
	for _, fn := range c.P.ModuleFunctions("ociauth") {
		for _, ci := range facts.CallsIn(fn) {
			name := facts.CalleeName(ci.Common())
			if !strings.HasPrefix(name, "(*encoding/base64.Encoding).Decode") {
				continue
			}
			n++
			g := loadedGlobal(ci.Common().Args[0])
			ok := g != nil && g.String() == "encoding/base64.StdEncoding"
			c.Check(ok, rule, facts.FuncName(fn)+"/std-base64", ci.Pos(), "credentials are decoded with base64.StdEncoding", "the auth field is decoded with an alphabet other than base64.StdEncoding: credentials whose standard encoding contains '+' or '/' fail to decode and the whole config file is rejected")
		}
	}
	if n == 0 {
		c.Fail(rule, "ociauth/std-base64/instance-floor", 0, "no base64 decoding found in ociauth")
	}
}
