package props

import (
	"go/constant"
	"go/token"
	"go/types"

	"golang.org/x/tools/go/ssa"

	"ocivet/internal/core"
	"ocivet/internal/facts"
)

func init() {
	register(&Prop{
		ID:    "C12",
		Title: "Access-checking/selecting wrappers never let a rejected repository through",
		Run:   runC12,
		Explanation: "For the concrete type returned by ocifilter.AccessChecker: R1 every Interface method is declared on the wrapper (none promoted from the embedded Funcs or the backend); " +
			"R2 every backend call is the same-named method with the method's own parameters in order and its results are returned unchanged; " +
			"R3 for every repository-typed parameter (both names of MountBlob) the backend call is dominated by check(param, kind) == nil with kind = read/write/delete/list by the sub-interface (mount: read on the source, write on the target), Repositories by check(\"*\", list), and every non-delegating return carries the error of a check call on its non-nil branch; " +
			"R4 in Repositories every yield(name, nil) is dominated by check(name, AccessRead) == nil for the backend-supplied name; " +
			"R5 Select's policy returns nil only under allow(name) or (list and \"*\"), ErrDenied exactly under write, ErrNameUnknown otherwise. " +
			"R0b AccessChecker wraps exactly the registry and the policy it was given.",
		NotDecided: "none, assuming the policy function is pure (stated in the property) and the backend honours the Interface contract.",
		Technique:  "static analysis: SSA dominance of policy checks over backend calls, argument/result provenance, go/types method-set resolution",
	})
}

type accessKinds struct {
	T                         *types.Named
	Read, Write, Delete, List int64
	ok                        bool
}

func loadAccessKinds(c *core.Ctx) accessKinds {
	var ak accessKinds
	tp := c.P.TypesPkg("ocifilter")
	if tp == nil {
		return ak
	}
	get := func(n string) (int64, bool) {
		o, _ := tp.Scope().Lookup(n).(*types.Const)
		if o == nil {
			return 0, false
		}
		v, ok := constant.Int64Val(o.Val())
		if nt, isN := o.Type().(*types.Named); isN {
			ak.T = nt
		}
		return v, ok
	}
	var o1, o2, o3, o4 bool
	ak.Read, o1 = get("AccessRead")
	ak.Write, o2 = get("AccessWrite")
	ak.Delete, o3 = get("AccessDelete")
	ak.List, o4 = get("AccessList")
	ak.ok = o1 && o2 && o3 && o4 && ak.T != nil
	return ak
}

// checkCallInfo: is v the result of a call to the wrapper's policy function
// (a func-typed field of the receiver with signature (string, AccessKind) error)?
func policyCall(v ssa.Value, recvTerm string, ak accessKinds) (call *ssa.Call, ok bool) {
	call, isCall := facts.Resolve(v).(*ssa.Call)
	if !isCall || call.Call.IsInvoke() || call.Call.StaticCallee() != nil {
		return nil, false
	}
	base, _, isField := facts.FieldOf(call.Call.Value)
	if !isField || facts.Term(base) != recvTerm {
		return nil, false
	}
	sig := call.Call.Signature()
	if sig.Params().Len() != 2 || sig.Results().Len() != 1 {
		return nil, false
	}
	if !types.Identical(sig.Params().At(1).Type(), ak.T) {
		return nil, false
	}
	return call, true
}

// passFact: check(<arg>, kind) is known to have returned nil.
type passFact struct {
	kind int64
	arg  ssa.Value // in the caller's values
}

// policyPassesImpliedBy: call is a call of a private helper of the wrapper
// whose last result is an error; the result lists the policy checks that have
// passed on EVERY path on which the helper returns nil (a helper that returns
// the result of a policy call returns nil only if that check passed).
func policyPassesImpliedBy(call *ssa.Call, ak accessKinds) []passFact {
	h := call.Call.StaticCallee()
	if h == nil || h.Blocks == nil || len(privateCallSites(h)) == 0 || h.Signature.Recv() == nil || len(h.Params) != len(call.Call.Args) {
		return nil
	}
	res := h.Signature.Results()
	if res.Len() == 0 || res.At(res.Len()-1).Type().String() != "error" {
		return nil
	}
	recvTerm := facts.Term(h.Params[0])
	type key struct {
		kind int64
		pi   int
	}
	var inter map[key]bool
	for _, r := range returnsOf(h) {
		ev := facts.RetVal(r, len(r.Results)-1)
		here := map[key]bool{}
		add := func(pc *ssa.Call) {
			k, isC := facts.ConstInt(pc.Call.Args[1])
			if !isC {
				return
			}
			for i := range h.Params {
				if argIsParam(pc.Call.Args[0], h, i) {
					here[key{k, i}] = true
				}
			}
		}
		for _, cd := range facts.CondsAt(r.Block()) {
			if x, isNil, ok := facts.NilCheck(cd); ok && isNil {
				if pc, isPol := policyCall(x, recvTerm, ak); isPol {
					add(pc)
				}
			}
		}
		switch {
		case facts.IsNilConst(ev):
		case facts.ProvablyNonNil(ev, r.Block()):
			continue
		default:
			pc, isPol := policyCall(ev, recvTerm, ak)
			if !isPol {
				return nil // may return nil for reasons we cannot see
			}
			add(pc)
		}
		if inter == nil {
			inter = here
		} else {
			for k := range inter {
				if !here[k] {
					delete(inter, k)
				}
			}
		}
	}
	var out []passFact
	for k := range inter {
		out = append(out, passFact{k.kind, call.Call.Args[k.pi]})
	}
	return out
}

// helperReturnsPolicyErrors: every error the private helper can return is the
// result of a policy check.
func helperReturnsPolicyErrors(call *ssa.Call, ak accessKinds) bool {
	h := call.Call.StaticCallee()
	if h == nil || h.Blocks == nil || len(privateCallSites(h)) == 0 || h.Signature.Recv() == nil {
		return false
	}
	recvTerm := facts.Term(h.Params[0])
	n := 0
	for _, r := range returnsOf(h) {
		ev := facts.RetVal(r, len(r.Results)-1)
		if facts.IsNilConst(ev) {
			continue
		}
		n++
		if _, isPol := policyCall(ev, recvTerm, ak); !isPol {
			return false
		}
	}
	return n > 0
}

func runC12(c *core.Ctx) {
	ctor := c.P.Func("ocifilter", "AccessChecker")
	ak := loadAccessKinds(c)
	if ctor == nil || !ak.ok {
		c.Fail("C12.R0", "anchor/ocifilter.AccessChecker", 0, "anchor not found: ocifilter.AccessChecker or the AccessKind constants")
		return
	}
	accessCheckerConstructorStoresParams(c, "C12.R0")
	ts := constructorResultTypes(ctor)
	if len(ts) != 1 {
		c.Fail("C12.R0", "anchor/AccessChecker.result", ctor.Pos(), sprintf("AccessChecker returns %d concrete types; expected exactly one wrapper type", len(ts)))
		return
	}
	T := ts[0]
	c.Note("wrapper type: %s", T)
	wantKind := map[string]int64{"Reader": ak.Read, "Writer": ak.Write, "Deleter": ak.Delete, "Lister": ak.List}
	kindName := map[int64]string{ak.Read: "AccessRead", ak.Write: "AccessWrite", ak.Delete: "AccessDelete", ak.List: "AccessList"}

	for _, m := range ifaceMethods(c) {
		name := m.Name()
		role, reviewed := roles[name]
		if !reviewed {
			c.Fail("C12.R1", "method/"+name, m.Pos(), "unreviewed Interface method "+name+": no role table entry, cannot vouch for the wrapper")
			continue
		}
		fn := declaredMethod(c, T, name)
		if fn == nil {
			c.Fail("C12.R1", "method/"+name, m.Pos(), "Interface method "+name+" is not declared on the access-checking wrapper (it would be promoted / fall through unchecked)")
			continue
		}
		c.OK("C12.R1", "method/"+name, fn.Pos(), "declared on the wrapper")
		c.Analysed(facts.FuncName(fn))
		sub := subIfaceOf(c, name)
		recv := recvOf(fn)
		recvTerm := facts.Term(recv)
		key := "wrapper." + name
		bcs := backendCalls(fn)
		if len(bcs) == 0 {
			c.Fail("C12.R2", key+"/delegate", fn.Pos(), "no backend call: allowed calls would not behave as on the wrapped registry")
		}
		vrets := virtualReturns(fn)
		delegV := map[int]bool{}
		for _, bc := range bcs {
			cc := bc.Call.Common()
			// receiver of the backend call: a field of the wrapper
			if b, _, ok := facts.FieldOf(facts.ResolveFree(cc.Value)); !ok || facts.Term(b) != recvTerm {
				c.Fail("C12.R2", key+"/backend-value", bc.Call.Pos(), "backend call is not made on a field of the wrapper")
			}
			if bc.Method != name {
				c.Fail("C12.R2", key+"/same-method", bc.Call.Pos(), "wrapper method "+name+" calls backend method "+bc.Method)
				continue
			}
			argsOK := len(cc.Args) == len(fn.Params)-1
			if argsOK {
				for j, a := range cc.Args {
					if !argIsParam(a, fn, j+1) {
						argsOK = false
					}
				}
			}
			c.Check(argsOK, "C12.R2", key+"/args", bc.Call.Pos(), "backend receives the method's parameters in order", "backend call arguments are not the method's own parameters in order")

			// R3 guards
			conds := facts.CondsAtDeep(bc.Call.Block())
			guardedBy := func(argOK func(ssa.Value) bool, kind int64) bool {
				for _, cd := range conds {
					x, isNil, ok := facts.NilCheck(cd)
					if !ok || !isNil {
						continue
					}
					pc, ok := policyCall(x, recvTerm, ak)
					if !ok {
						// a private helper that bundles checks reported no error
						if hc, isCall := facts.Resolve(x).(*ssa.Call); isCall {
							for _, pf := range policyPassesImpliedBy(hc, ak) {
								if pf.kind == kind && argOK(pf.arg) {
									return true
								}
							}
						}
						continue
					}
					k, isC := facts.ConstInt(pc.Call.Args[1])
					if isC && k == kind && argOK(pc.Call.Args[0]) {
						return true
					}
				}
				return false
			}
			// path-based fallback: the check's result may travel through a reassigned
			// variable (`err := check(a); if err == nil { err = check(b) }; if err != nil
			// { return }`), which dominance over SSA values cannot see
			guardedOnPaths := func(argOK func(ssa.Value) bool, kind int64) bool {
				if bc.In != fn {
					return false
				}
				ff := facts.FlowFuncs{
					Edge: func(b *ssa.BasicBlock, idx int, t facts.Tokens) bool {
						for _, cd := range facts.EdgeConds(b, idx) {
							x, isNil, ok := facts.NilCheck(cd)
							if !ok {
								continue
							}
							pv := facts.PathValue(x)
							pc, ok := policyCall(pv, recvTerm, ak)
							if !ok {
								continue
							}
							// one SSA value has one outcome: a path that has seen it both nil and non-nil is infeasible
							tm := facts.Term(pv) + "#" + pv.Name()
							if (isNil && t["nonnil:"+tm]) || (!isNil && t["nil:"+tm]) {
								return false
							}
							if isNil {
								t["nil:"+tm] = true
							} else {
								t["nonnil:"+tm] = true
							}
							k, isC := facts.ConstInt(pc.Call.Args[1])
							if isC && k == kind && argOK(pc.Call.Args[0]) {
								if isNil {
									t["passed"] = true
								} else {
									t["rejected"] = true
								}
							}
						}
						return true
					},
				}
				flow := facts.PathFlow(fn, ff)
				return facts.AllAt(ff, flow, bc.Call, func(t facts.Tokens) bool { return t["passed"] && !t["rejected"] })
			}
			guarded := func(argOK func(ssa.Value) bool, kind int64) bool {
				return guardedBy(argOK, kind) || guardedOnPaths(argOK, kind)
			}
			if name == "Repositories" {
				ok := guardedBy(func(v ssa.Value) bool { s, isS := facts.ConstString(v); return isS && s == "*" }, ak.List)
				c.Check(ok, "C12.R3", key+"/guard/*", bc.Call.Pos(), `dominated by check("*", AccessList) == nil`, `backend Repositories is not dominated by check("*", AccessList) == nil`)
			}
			for _, pi := range role.Repos {
				kind := wantKind[sub]
				if name == "MountBlob" {
					if pi == 1 {
						kind = ak.Read
					} else {
						kind = ak.Write
					}
				}
				si := pi + 1 // SSA parameter index (receiver is param 0)
				pname := fn.Params[si].Name()
				ok := guarded(func(v ssa.Value) bool { return argIsParam(v, fn, si) }, kind)
				c.Check(ok, "C12.R3", key+"/guard/"+pname, bc.Call.Pos(),
					"dominated by check("+pname+", "+kindName[kind]+") == nil",
					"backend call is NOT dominated by check("+pname+", "+kindName[kind]+") == nil: a rejected repository reaches the wrapped registry")
			}
			// results returned unchanged (non-iterator shape)
			if call, isCall := bc.Call.(*ssa.Call); isCall && bc.In == fn {
				found := false
				for i, vr := range vrets {
					if valsFromCall(vr.Vals, call) {
						delegV[i] = true
						found = true
					}
				}
				c.Check(found, "C12.R2", key+"/results", bc.Call.Pos(), "results returned unchanged", "results of the backend call are not returned unchanged")
			}
		}
		// R3b: every other return carries a policy error on its non-nil branch
		// (or, for Repositories, is the filtering iterator literal).
		for i, vr := range vrets {
			if delegV[i] {
				continue
			}
			r := vr.Ret
			if name == "Repositories" && len(vr.Vals) == 1 {
				if _, isMC := facts.Resolve(vr.Vals[0]).(*ssa.MakeClosure); isMC {
					continue
				}
			}
			ok := false
			if n := len(vr.Vals); n > 0 {
				ev := facts.Resolve(vr.Vals[n-1])
				if call, isCall := ev.(*ssa.Call); isCall && n == 1 && len(call.Call.Args) == 1 && hasSuffix(facts.CalleeName(&call.Call), "ociregistry.ErrorSeq") {
					ev = facts.Resolve(call.Call.Args[0])
				}
				if _, isPol := policyCall(ev, recvTerm, ak); isPol && vr.nonNil(ev) {
					ok = true
				}
				if hc, isCall := ev.(*ssa.Call); isCall && !ok && vr.nonNil(ev) && helperReturnsPolicyErrors(hc, ak) {
					ok = true
				}
				for _, v := range vr.Vals[:n-1] {
					if !isZero(v) {
						ok = false
					}
				}
			}
			c.Check(ok, "C12.R3", key+"/reject-return", r.Pos(), "rejection returns the policy's error", "a non-delegating return does not return the policy's error from the failing check")
		}
		if name == "Repositories" {
			checkC12Listing(c, fn, recvTerm, ak)
			checkFilterCallbackReturns(c, "C12.R4", "wrapper.Repositories", fn)
		}
	}
	checkC12Select(c, ak)
}

func hasSuffix(s, suf string) bool { return len(s) >= len(suf) && s[len(s)-len(suf):] == suf }

// isYieldCall: a dynamic call whose callee is a func(..) bool parameter of an
// enclosing function literal (the consumer of a Seq).
func isYieldCall(ci ssa.CallInstruction) (*ssa.Parameter, bool) {
	cc := ci.Common()
	if cc.IsInvoke() || cc.StaticCallee() != nil {
		return nil, false
	}
	p, ok := facts.ResolveFree(cc.Value).(*ssa.Parameter)
	if !ok {
		return nil, false
	}
	sig, ok := p.Type().Underlying().(*types.Signature)
	if !ok || sig.Results().Len() != 1 {
		return nil, false
	}
	if b, ok := sig.Results().At(0).Type().Underlying().(*types.Basic); !ok || b.Kind() != types.Bool {
		return nil, false
	}
	return p, true
}

func checkC12Listing(c *core.Ctx, fn *ssa.Function, recvTerm string, ak accessKinds) {
	n := 0
	for _, f := range withHelpers(fn) {
		for _, ci := range facts.CallsIn(f) {
			if _, ok := isYieldCall(ci); !ok {
				continue
			}
			args := ci.Common().Args
			if len(args) != 2 {
				continue
			}
			if _, isConst := facts.Strip(args[0]).(*ssa.Const); isConst {
				continue // error pass-through: yield("", err)
			}
			n++
			// name must be the callback's own (backend-supplied) parameter, unchanged
			np, isParam := facts.ResolveFree(args[0]).(*ssa.Parameter)
			ok := false
			if isParam {
				for _, cd := range facts.CondsAtDeep(ci.Block()) {
					x, isNil, okc := facts.NilCheck(cd)
					if !okc || !isNil {
						continue
					}
					pc, okp := policyCall(x, recvTerm, ak)
					if !okp {
						continue
					}
					k, isC := facts.ConstInt(pc.Call.Args[1])
					if isC && k == ak.Read && facts.ResolveFree(pc.Call.Args[0]) == ssa.Value(np) {
						ok = true
					}
				}
			}
			c.Check(ok, "C12.R4", "wrapper.Repositories/yield-guard", ci.Pos(), "yield(name, nil) dominated by check(name, AccessRead) == nil", "a repository name is yielded without a dominating check(name, AccessRead) == nil: rejected repositories appear in listings")
		}
	}
	if n == 0 {
		c.Fail("C12.R4", "wrapper.Repositories/yield-guard", fn.Pos(), "no item-yielding call found in Repositories (instance floor)")
	}
}

func checkC12Select(c *core.Ctx, ak accessKinds) {
	sel := c.P.Func("ocifilter", "Select")
	if sel == nil {
		c.Fail("C12.R5", "anchor/ocifilter.Select", 0, "ocifilter.Select not found")
		return
	}
	c.Analysed("ocifilter.Select")
	// Select must delegate to AccessChecker with a policy function: a literal
	// capturing `allow`, or a bound method of a value converted from `allow`.
	var pol *ssa.Function
	isAllow := func(v ssa.Value) bool { return false }
	for _, ci := range facts.CallsIn(sel) {
		if hasSuffix(facts.CalleeName(ci.Common()), "ocifilter.AccessChecker") && len(ci.Common().Args) == 2 {
			polArg := facts.Resolve(ci.Common().Args[1])
			var viaHelper *ssa.Call
			if hc, isCall := polArg.(*ssa.Call); isCall {
				// a private constructor of the policy: func(allow) func(name, access) error
				if h := hc.Call.StaticCallee(); h != nil && h.Blocks != nil && len(privateCallSites(h)) > 0 {
					if rs := returnsOf(h); len(rs) == 1 {
						if mc2, isMC := facts.RetVal(rs[0], 0).(*ssa.MakeClosure); isMC {
							polArg, viaHelper = mc2, hc
						}
					}
				}
			}
			if mc, ok := polArg.(*ssa.MakeClosure); ok && viaHelper != nil {
				fn := mc.Fn.(*ssa.Function)
				h := viaHelper.Call.StaticCallee()
				for i, a := range viaHelper.Call.Args {
					if idx, root, isP := rootParam(a); isP && root == sel && idx == 1 {
						hi := i
						pol = fn
						isAllow = func(v ssa.Value) bool {
							j, r2, isP2 := rootParam(v)
							return isP2 && r2 == h && j == hi
						}
					}
				}
			} else if mc, ok := polArg.(*ssa.MakeClosure); ok {
				fn := mc.Fn.(*ssa.Function)
				if fn.Synthetic == "" {
					pol = fn
					isAllow = func(v ssa.Value) bool {
						idx, root, isP := rootParam(v)
						return isP && root == sel && idx == 1
					}
				} else if m := resolveThunk(mc); m != nil && m != fn && len(mc.Bindings) == 1 {
					// bound method: the receiver is (a conversion of) Select's allow parameter
					if idx, root, isP := rootParam(mc.Bindings[0]); isP && root == sel && idx == 1 {
						pol = m
						isAllow = func(v ssa.Value) bool { return argIsParam(v, m, 0) }
					}
				}
			}
			if !argIsParam(ci.Common().Args[0], sel, 0) {
				c.Fail("C12.R5", "Select/backend", ci.Pos(), "Select does not wrap its own registry argument")
			}
		}
	}
	if pol == nil {
		c.Fail("C12.R5", "Select/policy", sel.Pos(), "Select does not pass a policy function (a literal or a bound method over `allow`) to AccessChecker")
		return
	}
	c.Analysed(facts.FuncName(pol))
	// parameter roles in the policy: the repository name (string) and the access kind
	nameIdx, accIdx := -1, -1
	for i, p := range pol.Params {
		if types.Identical(p.Type(), ak.T) {
			accIdx = i
		} else if p.Type().String() == "string" && nameIdx < 0 {
			nameIdx = i
		}
	}
	if nameIdx < 0 || accIdx < 0 {
		c.Fail("C12.R5", "Select/policy", pol.Pos(), "the policy function does not take (name string, access AccessKind)")
		return
	}
	errGlobal := func(v ssa.Value) string {
		u, ok := facts.Resolve(v).(*ssa.UnOp)
		if !ok || u.Op != token.MUL {
			return ""
		}
		g, ok := u.X.(*ssa.Global)
		if !ok {
			return ""
		}
		return g.Name()
	}
	seenDenied, seenUnknown := false, false
	for _, r := range returnsOf(pol) {
		if len(r.Results) != 1 {
			continue
		}
		conds := facts.CondsAt(r.Block())
		allowTrue, allowFalse := false, false
		accessIs := map[int64]bool{}
		accessNot := map[int64]bool{}
		star := false
		for _, cd := range conds {
			if call, ok := cd.V.(*ssa.Call); ok {
				// allow(repoName): dynamic call on the allow function with the policy's name parameter
				if isAllow(call.Call.Value) && len(call.Call.Args) == 1 && argIsParam(call.Call.Args[0], pol, nameIdx) {
					if cd.Pos {
						allowTrue = true
					} else {
						allowFalse = true
					}
				}
				continue
			}
			// a failed comma-ok lookup in a frozen table indexed by the access kind:
			// the access kind is none of the table's keys
			if e2, isE := cd.V.(*ssa.Extract); isE && e2.Index == 1 && !cd.Pos {
				if lk, isLk := e2.Tuple.(*ssa.Lookup); isLk && lk.CommaOk && argIsParam(lk.Index, pol, accIdx) {
					if g := loadedGlobal(lk.X); g != nil {
						if entries, frozen := globalMapEntries(c, g); frozen {
							for _, e := range entries {
								if k, isK := facts.ConstInt(e.Key); isK {
									accessNot[k] = true
								}
							}
						}
					}
				}
				continue
			}
			if x, op, y, ok := facts.Cmp(cd); ok {
				if argIsParam(x, pol, accIdx) {
					if k, isC := facts.ConstInt(y); isC {
						if op == token.EQL {
							accessIs[k] = true
						} else if op == token.NEQ {
							accessNot[k] = true
						}
					}
				}
				if argIsParam(x, pol, nameIdx) {
					if s, isS := facts.ConstString(y); isS && s == "*" && op == token.EQL {
						star = true
					}
				}
			}
		}
		judge := func(v ssa.Value, accessIs, accessNot map[int64]bool) {
			switch {
			case facts.IsNilConst(facts.Strip(v)):
				ok := allowTrue || (accessIs[ak.List] && star)
				c.Check(ok, "C12.R5", "Select.policy/return-nil", r.Pos(), "nil only under allow(name) or (list and \"*\")", "Select's policy returns nil (allowed) on a path where allow(name) is not known true and it is not the (list, \"*\") case")
			case errGlobal(v) == "ErrDenied":
				seenDenied = true
				ok := allowFalse && accessIs[ak.Write]
				c.Check(ok, "C12.R5", "Select.policy/return-denied", r.Pos(), "ErrDenied exactly under !allow and write", "ErrDenied returned on a path that is not (!allow(name) and access == AccessWrite)")
			case errGlobal(v) == "ErrNameUnknown":
				seenUnknown = true
				ok := allowFalse && accessNot[ak.Write]
				c.Check(ok, "C12.R5", "Select.policy/return-unknown", r.Pos(), "ErrNameUnknown under !allow and not write", "ErrNameUnknown returned on a path where access may be AccessWrite or allow(name) may hold")
			default:
				c.Fail("C12.R5", "Select.policy/return-other", r.Pos(), "Select's policy returns something other than nil, ErrDenied or ErrNameUnknown")
			}
		}
		v := r.Results[0]
		// the error comes from a frozen table indexed by the access kind, under a
		// successful comma-ok lookup: one outcome per entry
		if ex, isEx := facts.Resolve(v).(*ssa.Extract); isEx && ex.Index == 0 {
			if lk, isLk := ex.Tuple.(*ssa.Lookup); isLk && lk.CommaOk && argIsParam(lk.Index, pol, accIdx) {
				hit := false
				for _, cd := range conds {
					if e2, isE := cd.V.(*ssa.Extract); isE && e2.Tuple == ex.Tuple && e2.Index == 1 && cd.Pos {
						hit = true
					}
				}
				if g := loadedGlobal(lk.X); g != nil && hit {
					if entries, frozen := globalMapEntries(c, g); frozen && len(entries) > 0 {
						for _, e := range entries {
							k, isK := facts.ConstInt(e.Key)
							if !isK {
								c.Fail("C12.R5", "Select.policy/return-other", e.Pos, "non-constant key in the policy's error table")
								continue
							}
							judge(e.Val, map[int64]bool{k: true}, map[int64]bool{})
						}
						continue
					}
				}
			}
		}
		judge(v, accessIs, accessNot)
	}
	c.Check(seenDenied && seenUnknown, "C12.R5", "Select.policy/both-errors", pol.Pos(), "policy has an ErrDenied and an ErrNameUnknown rejection", "Select's policy lacks the ErrDenied (write) or ErrNameUnknown (read/list/delete) rejection")
}
