package props

import (
	"go/constant"
	"go/token"
	"go/types"
	"sort"
	"strings"

	"golang.org/x/tools/go/ssa"

	"ocivet/internal/bounds"
	"ocivet/internal/facts"
	"ocivet/internal/load"
)

// Allocation sizes (E6 inventory, kind "make-size"). make([]T, n, m) panics
// when n or m is negative or too large. A size is discharged when every value
// it can be computed from is a non-negative constant, a length, a difference
// len(x)-k whose index k-1 is proven valid, or an argument of the exported API
// (the caller's own choice); it stays open when it can be computed from the
// result of a call outside the module (a number parsed from a header, a
// decoded field): that number is chosen by the peer, and nothing in reach
// bounds it unless the allocation is dominated by a comparison against a
// constant.

type sizeSource struct {
	Kind string // const | len | param | extern | unknown
	Desc string
}

// sizeSources collects the origins of the integer v.
func sizeSources(v ssa.Value) []sizeSource {
	var out []sizeSource
	seen := map[ssa.Value]bool{}
	seenField := map[string]bool{}
	add := func(k, d string) { out = append(out, sizeSource{k, d}) }
	var walk func(v ssa.Value, depth int)
	walk = func(v ssa.Value, depth int) {
		if v == nil {
			return
		}
		if seen[v] {
			return
		}
		seen[v] = true
		if depth <= 0 || len(seen) > 400 {
			add("unknown", "analysis bound reached")
			return
		}
		switch x := v.(type) {
		case *ssa.Const:
			if k, ok := facts.ConstInt(x); ok && k < 0 {
				add("unknown", "negative constant")
			} else {
				add("const", x.String())
			}
		case *ssa.Phi:
			for _, e := range x.Edges {
				walk(e, depth)
			}
		case *ssa.Convert:
			walk(x.X, depth)
		case *ssa.ChangeType:
			walk(x.X, depth)
		case *ssa.BinOp:
			walk(x.X, depth)
			walk(x.Y, depth)
		case *ssa.Parameter:
			fn := x.Parent()
			sites := privateCallSites(fn)
			if len(sites) == 0 {
				add("param", x.Name()+" of "+facts.FuncName(fn))
				return
			}
			pi := -1
			for i, q := range fn.Params {
				if q == x {
					pi = i
				}
			}
			for _, s := range sites {
				if pi >= 0 && pi < len(s.Common().Args) {
					walk(s.Common().Args[pi], depth-1)
				}
			}
		case *ssa.FreeVar:
			r := facts.ResolveFree(x)
			if r == v {
				add("unknown", "captured variable "+x.Name())
				return
			}
			walk(r, depth)
		case *ssa.UnOp:
			if x.Op != token.MUL {
				walk(x.X, depth)
				return
			}
			// a load: a local cell, or a field
			if al, ok := x.X.(*ssa.Alloc); ok {
				for _, st := range facts.StoresTo(al) {
					walk(st.Val, depth)
				}
				return
			}
			if fa, ok := x.X.(*ssa.FieldAddr); ok {
				walkField(fa, seenField, func(val ssa.Value) { walk(val, depth-1) }, add)
				return
			}
			add("unknown", "load of "+facts.Term(x.X))
		case *ssa.Field:
			add("unknown", "field of a struct value "+facts.Term(x))
		case *ssa.Extract:
			call, ok := x.Tuple.(*ssa.Call)
			if !ok {
				add("unknown", "tuple element")
				return
			}
			walkCall(call, x.Index, depth, walk, add)
		case *ssa.Call:
			walkCall(x, 0, depth, walk, add)
		default:
			add("unknown", facts.Term(v))
		}
	}
	walk(v, 6)
	return out
}

func walkCall(call *ssa.Call, idx int, depth int, walk func(ssa.Value, int), add func(string, string)) {
	if bi, ok := call.Call.Value.(*ssa.Builtin); ok {
		switch bi.Name() {
		case "len", "cap":
			add("len", bi.Name()+"("+facts.Term(call.Call.Args[0])+")")
			return
		case "min":
			// bounded by its smallest argument: fine if any argument is fine; keep it simple and require a constant
			for _, a := range call.Call.Args {
				if _, isK := a.(*ssa.Const); isK {
					add("const", "min(…, constant)")
					return
				}
			}
			for _, a := range call.Call.Args {
				walk(a, depth)
			}
			return
		case "max":
			for _, a := range call.Call.Args {
				walk(a, depth)
			}
			return
		}
		add("unknown", "builtin "+bi.Name())
		return
	}
	if call.Call.IsInvoke() {
		add("extern", "result of the interface call "+call.Call.Method.Name())
		return
	}
	cal := call.Call.StaticCallee()
	if cal == nil {
		add("extern", "result of a dynamic call")
		return
	}
	if o := cal.Origin(); o != nil && cal.Blocks == nil {
		cal = o
	}
	if !load.InModule(cal) || cal.Blocks == nil {
		add("extern", "result of "+facts.CalleeName(&call.Call))
		return
	}
	for _, r := range returnsOf(cal) {
		if idx < len(r.Results) {
			walk(r.Results[idx], depth-1)
		}
	}
}

// walkField: every store, anywhere in the module, to the same field of the same struct type.
func walkField(fa *ssa.FieldAddr, seenField map[string]bool, walk func(ssa.Value), add func(string, string)) {
	key := fieldKey(fa)
	if key == "" {
		add("unknown", "field load")
		return
	}
	if seenField[key] {
		return
	}
	seenField[key] = true
	if pIdx == nil {
		add("unknown", "no program index")
		return
	}
	stores := pIdx.fieldStores[key]
	if len(stores) == 0 {
		// never stored: the zero value
		add("const", "zero value of "+key)
		return
	}
	for _, st := range stores {
		walk(st.Val)
	}
}

// makeSizeOK tries to discharge one make([]T, len, cap).
func makeSizeOK(ms *ssa.MakeSlice, pv *bounds.Prover) (bool, string) {
	var open []string
	for _, sz := range []ssa.Value{ms.Len, ms.Cap} {
		if sz == nil {
			continue
		}
		if ok, _ := lenMinusConstOK(sz, ms, pv); ok {
			continue
		}
		if boundedAbove(sz, ms) {
			continue
		}
		for _, s := range sizeSources(sz) {
			switch s.Kind {
			case "const", "len", "param":
			default:
				open = append(open, s.Desc)
			}
		}
	}
	if len(open) == 0 {
		return true, "every size is a non-negative constant, a length, a proven len(x)-k, the caller's own argument, or bounded by a constant"
	}
	sort.Strings(open)
	open = dedup(open)
	return false, "the allocation size can be computed from " + strings.Join(open, "; ") + " with no upper bound: a peer-chosen number makes make() panic (cap out of range) or exhaust memory"
}

func dedup(xs []string) []string {
	var out []string
	for i, x := range xs {
		if i == 0 || xs[i-1] != x {
			out = append(out, x)
		}
	}
	return out
}

// lenMinusConstOK: v is len(x)-k (k >= 1) and index k-1 of x is proven valid here,
// so the difference is non-negative and no larger than an existing object.
func lenMinusConstOK(v ssa.Value, at ssa.Instruction, pv *bounds.Prover) (bool, string) {
	bo, ok := v.(*ssa.BinOp)
	if !ok || bo.Op != token.SUB {
		return false, ""
	}
	k, isK := facts.ConstInt(bo.Y)
	call, isCall := bo.X.(*ssa.Call)
	if !isK || k < 1 || !isCall {
		return false, ""
	}
	bi, isB := call.Call.Value.(*ssa.Builtin)
	if !isB || bi.Name() != "len" {
		return false, ""
	}
	idx := ssa.NewConst(constant.MakeInt64(k-1), types.Typ[types.Int])
	return pv.IndexOK(call.Call.Args[0], idx, at)
}

// boundedAbove: the allocation is dominated by v <= K or v < K for a constant K.
func boundedAbove(v ssa.Value, at ssa.Instruction) bool {
	t := facts.Term(v)
	for _, cd := range facts.CondsAt(at.Block()) {
		x, op, y, ok := facts.Cmp(cd)
		if !ok {
			continue
		}
		if _, isK := facts.ConstInt(y); !isK {
			continue
		}
		if facts.Term(x) == t && (op == token.LEQ || op == token.LSS) {
			return true
		}
	}
	return false
}
