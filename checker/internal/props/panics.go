package props

import (
	"go/token"
	"go/types"

	"golang.org/x/tools/go/ssa"

	"ocivet/internal/bounds"
	"ocivet/internal/core"
	"ocivet/internal/facts"
)

// PanicSite is one potentially panicking construct (E6 inventory).
type PanicSite struct {
	In     ssa.Instruction
	Kind   string // index | slice | string-index | type-assert | panic | map-store | div | dyn-call | ext-panic
	Expr   string // operand term (for keys)
	Proven bool   // discharged by the built-in rules / bounds prover
	Why    string
}

// Functions documented to panic on some inputs (DESIGN appendix A.7).
var extPanics = map[string]string{
	"(github.com/opencontainers/go-digest.Digest).Algorithm":   "panics if the digest has no ':' separator",
	"(github.com/opencontainers/go-digest.Digest).Encoded":     "panics if the digest has no ':' separator",
	"(github.com/opencontainers/go-digest.Digest).Hex":         "panics if the digest has no ':' separator",
	"(github.com/opencontainers/go-digest.Digest).Verifier":    "panics on an unavailable algorithm",
	"(github.com/opencontainers/go-digest.Algorithm).Hash":     "panics on an unavailable algorithm",
	"(github.com/opencontainers/go-digest.Algorithm).Digester": "panics on an unavailable algorithm",
	"regexp.MustCompile": "panics on an invalid pattern",
	"(*cuelabs.dev/go/oci/ociregistry/internal/ocirequest.Request).MustConstruct": "panics if the request cannot be constructed",
	"(cuelabs.dev/go/oci/ociregistry/ociauth.Scope).Len":                          "panics on the unlimited scope",
}

// PanicSites enumerates the panic-capable constructs of fn and tries the
// built-in dischargers on each.
func PanicSites(fn *ssa.Function) []PanicSite {
	var out []PanicSite
	var pv *bounds.Prover
	prover := func() *bounds.Prover {
		if pv == nil {
			pv = bounds.New(fn)
		}
		return pv
	}
	for _, b := range fn.Blocks {
		for _, in := range b.Instrs {
			switch x := in.(type) {
			case *ssa.IndexAddr:
				s := PanicSite{In: in, Kind: "index", Expr: facts.Term(x.X) + "[" + facts.Term(x.Index) + "]"}
				s.Proven, s.Why = prover().IndexOK(x.X, x.Index, in)
				out = append(out, s)
			case *ssa.Index:
				s := PanicSite{In: in, Kind: "index", Expr: facts.Term(x.X) + "[" + facts.Term(x.Index) + "]"}
				s.Proven, s.Why = prover().IndexOK(x.X, x.Index, in)
				out = append(out, s)
			case *ssa.Lookup:
				if _, isMap := x.X.Type().Underlying().(*types.Map); isMap {
					continue
				}
				s := PanicSite{In: in, Kind: "string-index", Expr: facts.Term(x.X) + "[" + facts.Term(x.Index) + "]"}
				s.Proven, s.Why = prover().IndexOK(x.X, x.Index, in)
				out = append(out, s)
			case *ssa.Slice:
				s := PanicSite{In: in, Kind: "slice", Expr: facts.Term(x.X) + "[" + termOrEmpty(x.Low) + ":" + termOrEmpty(x.High) + "]"}
				s.Proven, s.Why = prover().SliceOK(x, in)
				out = append(out, s)
			case *ssa.MakeSlice:
				s := PanicSite{In: in, Kind: "make-size", Expr: "make(" + termOrEmpty(x.Len) + "," + termOrEmpty(x.Cap) + ")"}
				s.Proven, s.Why = makeSizeOK(x, prover())
				out = append(out, s)
			case *ssa.TypeAssert:
				if !x.CommaOk {
					out = append(out, PanicSite{In: in, Kind: "type-assert", Expr: facts.Term(x.X) + ".(" + x.AssertedType.String() + ")"})
				}
			case *ssa.Panic:
				out = append(out, PanicSite{In: in, Kind: "panic", Expr: facts.Term(x.X)})
			case *ssa.MapUpdate:
				s := PanicSite{In: in, Kind: "map-store", Expr: facts.Term(x.Map)}
				if mapNonNil(x.Map, in) {
					s.Proven, s.Why = true, "map is the result of make / a literal, or guarded non-nil"
				}
				out = append(out, s)
			case *ssa.BinOp:
				if x.Op == token.QUO || x.Op == token.REM {
					if isIntType(x.Type()) {
						s := PanicSite{In: in, Kind: "div", Expr: facts.Term(x.Y)}
						if v, ok := facts.ConstInt(x.Y); ok && v != 0 {
							s.Proven, s.Why = true, "non-zero constant divisor"
						}
						out = append(out, s)
					}
				}
			case ssa.CallInstruction:
				cc := x.Common()
				if cc.IsInvoke() {
					continue
				}
				if cal := cc.StaticCallee(); cal != nil {
					name := facts.CalleeName(cc)
					if why, ok := extPanics[name]; ok {
						out = append(out, PanicSite{In: in, Kind: "ext-panic", Expr: name, Why: why})
					}
					continue
				}
				if _, isB := cc.Value.(*ssa.Builtin); isB {
					continue
				}
				s := PanicSite{In: in, Kind: "dyn-call", Expr: facts.Term(cc.Value)}
				if funcValueNonNil(cc.Value, in) {
					s.Proven, s.Why = true, "callee value is a function literal / parameter-supplied callback or guarded non-nil"
				}
				out = append(out, s)
			}
		}
	}
	return out
}

func termOrEmpty(v ssa.Value) string {
	if v == nil {
		return ""
	}
	return facts.Term(v)
}

func isIntType(t types.Type) bool {
	b, ok := t.Underlying().(*types.Basic)
	return ok && b.Info()&types.IsInteger != 0
}

// funcValueNonNil: the func value is a closure/function, or a load of a term
// guarded by `!= nil` on all paths to in.
func funcValueNonNil(v ssa.Value, in ssa.Instruction) bool {
	r := facts.ResolveFree(v)
	switch r.(type) {
	case *ssa.MakeClosure, *ssa.Function:
		return true
	case *ssa.Parameter:
		// a callback handed in by the caller: calling it is the caller's contract
		return true
	}
	return nonNilGuardedUp(in.Block(), v, 2)
}

func mapNonNil(m ssa.Value, in ssa.Instruction) bool { return mapNonNilDepth(m, in, 2) }

func mapNonNilDepth(m ssa.Value, in ssa.Instruction, depth int) bool {
	r := facts.ResolveFree(m)
	switch x := r.(type) {
	case *ssa.MakeMap:
		return true
	case *ssa.Parameter:
		// a private helper: the map is non-nil if it is at every call site
		h := x.Parent()
		sites := privateCallSites(h)
		if depth > 0 && len(sites) > 0 {
			pi := -1
			for i, q := range h.Params {
				if q == x {
					pi = i
				}
			}
			all := pi >= 0
			for _, s := range sites {
				if !all || pi >= len(s.Common().Args) || !mapNonNilDepth(s.Common().Args[pi], s, depth-1) {
					all = false
				}
			}
			if all {
				return true
			}
		}
	}
	// a field of a local struct variable whose only assignment in the function is
	// a make(map...) that dominates the store
	if u, ok := m.(*ssa.UnOp); ok && u.Op == token.MUL {
		if fa, ok := u.X.(*ssa.FieldAddr); ok {
			if al, ok := fa.X.(*ssa.Alloc); ok {
				var stores []*ssa.Store
				whole := false
				for _, ref := range *al.Referrers() {
					switch x := ref.(type) {
					case *ssa.FieldAddr:
						if x.Field == fa.Field {
							stores = append(stores, facts.StoresTo(x)...)
						}
					case *ssa.Store:
						if x.Addr == ssa.Value(al) {
							whole = true
						}
					}
				}
				if !whole && len(stores) == 1 {
					if _, isMk := facts.ResolveFree(stores[0].Val).(*ssa.MakeMap); isMk && facts.Dominates(stores[0], in) {
						return true
					}
				}
			}
		}
	}
	return nonNilGuarded(in.Block(), facts.Term(m))
}

// Discharger decides a site the prover could not: returns (ok, how).
type Discharger func(fn *ssa.Function, s PanicSite) (bool, string)

// panicInventory runs the E6 inventory over fns. Sites are keyed by
// function + kind + operand expression (never by line).
func panicInventory(c *core.Ctx, rule string, fns []*ssa.Function, extra Discharger) (total, proven int) {
	seenFn := map[string]bool{}
	for _, fn := range fns {
		if isInstance(fn) {
			continue
		}
		name := facts.FuncName(fn)
		if seenFn[name+c.P.Pos(fn.Pos())] {
			continue
		}
		seenFn[name+c.P.Pos(fn.Pos())] = true
		c.Analysed(name)
		sites := PanicSites(fn)
		okAll := true
		for _, s := range sites {
			total++
			if s.Proven {
				proven++
				continue
			}
			why := s.Why
			if extra != nil {
				ok, how := extra(fn, s)
				if ok {
					proven++
					c.OK(rule, name+"/"+s.Kind+"/"+s.Expr, s.In.Pos(), "discharged by guard obligation: "+how)
					continue
				}
				if how != "" {
					why += "; guard obligation: " + how
				}
			}
			okAll = false
			c.Fail(rule, name+"/"+s.Kind+"/"+s.Expr, s.In.Pos(), "unproven potential panic ("+s.Kind+" "+s.Expr+"): "+why)
		}
		if okAll && len(sites) > 0 {
			c.OK(rule, name+"/panic-sites", fn.Pos(), sprintf("%d panic-capable constructs, all discharged", len(sites)))
		}
	}
	return
}
