package props

import (
	"go/token"
	"go/types"
	"strings"

	"golang.org/x/tools/go/ssa"

	"ocivet/internal/core"
	"ocivet/internal/facts"
)

// Rules added after the third round of seeded changes (DESIGN §13). As in
// round2.go each is one structural obligation of one property; the seed that
// motivated it is named.

// ---------------------------------------------------------------- C01

// manifestBodyComplete (C01.R4b; seed C01-E): the bytes the manifest-PUT
// handler hands to the backend are the whole request body: io.ReadAll of
// req.Body itself, or — if the read is capped — followed by a test of the
// length read before the push (a silent cut stores and serves a truncated
// manifest under the tag).
func manifestBodyComplete(c *core.Ctx, rule string) {
	m := loadServerModel(c)
	kv, ok := m.Kinds["ReqManifestPut"]
	h := m.Handlers[kv]
	if !ok || h == nil {
		return
	}
	c.Analysed(facts.FuncName(h))
	for _, bc := range backendCallsDeep(h) {
		if bc.Method != "PushManifest" {
			continue
		}
		args := bc.Call.Common().Args
		if len(args) < 5 {
			continue
		}
		data := facts.Resolve(resolveUp(args[3], h, 2))
		ex, isEx := data.(*ssa.Extract)
		var ra *ssa.Call
		if isEx {
			ra, _ = ex.Tuple.(*ssa.Call)
		}
		if ra == nil || facts.CalleeName(&ra.Call) != "io.ReadAll" {
			c.Fail(rule, "handleManifestPut/body-complete", bc.Call.Pos(), "the manifest bytes pushed to the backend are not the result of io.ReadAll on the request body")
			continue
		}
		src := facts.Resolve(ra.Call.Args[0])
		if mi, ok := src.(*ssa.MakeInterface); ok {
			src = facts.Resolve(mi.X)
		}
		if ci, ok := src.(*ssa.ChangeInterface); ok {
			src = facts.Resolve(ci.X)
		}
		_, fld, isBody := facts.FieldOf(src)
		if isBody && fld == "Body" {
			c.OK(rule, "handleManifestPut/body-complete", bc.Call.Pos(), "the whole request body is read")
			continue
		}
		// capped read: some test of len(data) must dominate the push
		checked := false
		if lc, ok := src.(*ssa.Call); ok && (facts.CalleeName(&lc.Call) == "io.LimitReader" || facts.CalleeName(&lc.Call) == "net/http.MaxBytesReader") {
			for _, cd := range facts.CondsAtDeep(bc.Call.Block()) {
				if x, _, _, okc := facts.Cmp(cd); okc {
					if call, isCall := facts.Resolve(x).(*ssa.Call); isCall {
						if bi, isB := call.Call.Value.(*ssa.Builtin); isB && bi.Name() == "len" && facts.Resolve(call.Call.Args[0]) == data {
							checked = true
						}
					}
				}
			}
			if facts.CalleeName(&lc.Call) == "net/http.MaxBytesReader" {
				checked = true // reports an error instead of cutting
			}
		}
		c.Check(checked, rule, "handleManifestPut/body-complete", bc.Call.Pos(), "a capped read is followed by a length test before the push", "the manifest body is read through a size cap and pushed without testing whether the cap was hit: a larger manifest is stored and served truncated (by tag: with a different digest and size than the client pushed)")
	}
}

// verifiedReaderOnlyReadByRead (C01.R3b; seed C01-F): the body wrapped by the
// client's verifying reader is consumed only by its Read method (where the
// size and digest are checked at EOF); any other method reading it (WriteTo,
// ReadFrom, …) lets io.Copy bypass the verification.
func verifiedReaderOnlyReadByRead(c *core.Ctx, rule string) {
	br := c.P.NamedType("ociclient", "blobReader")
	if br == nil {
		return
	}
	n := 0
	for _, fn := range c.P.ModuleFunctions("ociclient") {
		for _, b := range fn.Blocks {
			for _, in := range b.Instrs {
				u, ok := in.(*ssa.UnOp)
				if !ok || u.Op != token.MUL {
					continue
				}
				base, fld, isF := facts.FieldOf(u)
				if !isF || fld != "r" || structName(base.Type()) != "blobReader" {
					continue
				}
				n++
				// the loaded body and its interface conversions
				alias := map[ssa.Value]bool{u: true}
				var refs []ssa.Instruction
				work := []ssa.Value{u}
				for len(work) > 0 {
					v := work[0]
					work = work[1:]
					for _, ref := range *v.Referrers() {
						switch x := ref.(type) {
						case *ssa.ChangeInterface:
							alias[x] = true
							work = append(work, x)
						case *ssa.MakeInterface:
							alias[x] = true
							work = append(work, x)
						case *ssa.ChangeType:
							alias[x] = true
							work = append(work, x)
						default:
							refs = append(refs, ref)
						}
					}
				}
				for _, ref := range refs {
					ci, isCall := ref.(ssa.CallInstruction)
					if !isCall {
						continue
					}
					cc := ci.Common()
					owner := outermost(fn)
					isMeth := owner.Signature.Recv() != nil && structName(owner.Signature.Recv().Type()) == "blobReader"
					switch {
					case cc.IsInvoke() && alias[cc.Value] && cc.Method.Name() == "Read":
						c.Check(isMeth && owner.Name() == "Read", rule, facts.FuncName(fn)+"/body-read", ci.Pos(), "the body is read by blobReader.Read", "the verified reader's underlying body is read outside blobReader.Read: the size/digest check at end of stream is bypassed")
					case cc.IsInvoke() && alias[cc.Value] && cc.Method.Name() == "Close":
					default:
						// handed to some other function (io.Copy, io.ReadAll, ...)
						passed := false
						for _, a := range cc.Args {
							if alias[a] {
								passed = true
							}
						}
						if passed {
							c.Fail(rule, facts.FuncName(fn)+"/body-read", ci.Pos(), "the verified reader's underlying body is handed to "+facts.CalleeName(cc)+": data consumed that way (e.g. through io.Copy finding a WriteTo method) is never checked against the descriptor's size and digest, so a corrupt body ends in a clean EOF")
						}
					}
				}
			}
		}
	}
	if n == 0 {
		c.Fail(rule, "blobReader/body-read/instance-floor", 0, "no use of the verified reader's underlying body found")
	}
}

// ---------------------------------------------------------------- C02

// reposNeverForgotten (C02.R5; seed C02-E): the reference model's set of
// repositories only grows; ocimem never deletes from Registry.repos (dropping
// an "empty" repository loses in-flight uploads and detaches commit callbacks).
func reposNeverForgotten(c *core.Ctx, rule string) {
	n := 0
	for _, fn := range c.P.ModuleFunctions("ocimem") {
		for _, ci := range facts.CallsIn(fn) {
			bi, ok := ci.Common().Value.(*ssa.Builtin)
			if !ok || (bi.Name() != "delete" && bi.Name() != "clear") || len(ci.Common().Args) == 0 {
				continue
			}
			if _, fld, isF := facts.FieldOf(facts.Resolve(ci.Common().Args[0])); isF && fld == "repos" {
				n++
				c.Fail(rule, facts.FuncName(fn)+"/repos-delete", ci.Pos(), "a repository is removed from the registry: uploads in progress in it are lost and their commit callbacks store into a repository that is no longer reachable, so a successful Commit is followed by `name unknown`")
			}
		}
	}
	if n == 0 {
		c.OK(rule, "ocimem/repos-never-deleted", 0, "no delete/clear on Registry.repos in ocimem")
	}
}

// manifestsDecodedWhole (C02.R2c; seed C02-F): manifest JSON is decoded with
// json.Unmarshal, which rejects trailing data; a streaming Decoder stops after
// the first value and accepts `<manifest>garbage`.
func manifestsDecodedWhole(c *core.Ctx, rule string) {
	n := 0
	for _, rel := range []string{"ocimem", "ociserver"} {
		for _, fn := range c.P.ModuleFunctions(rel) {
			for _, ci := range facts.CallsIn(fn) {
				switch facts.CalleeName(ci.Common()) {
				case "encoding/json.Unmarshal":
					n++
				case "(*encoding/json.Decoder).Decode":
					// acceptable only if the same decoder is then asked for more (More / a second Decode)
					dec := ci.Common().Args[0]
					again := false
					for _, cj := range facts.CallsIn(fn) {
						if cj == ci || len(cj.Common().Args) == 0 || cj.Common().Args[0] != dec {
							continue
						}
						switch facts.CalleeName(cj.Common()) {
						case "(*encoding/json.Decoder).More", "(*encoding/json.Decoder).Decode", "(*encoding/json.Decoder).Token":
							if facts.Dominates(ci, cj) {
								again = true
							}
						}
					}
					n++
					c.Check(again, rule, facts.FuncName(fn)+"/json-whole-input", ci.Pos(), "trailing data after the JSON value is looked for", "JSON content is decoded with a streaming json.Decoder that stops after the first value and nothing checks for trailing data: `<valid manifest>garbage` or two concatenated manifests are accepted as a manifest, unlike in the reference model")
				}
			}
		}
	}
	if n == 0 {
		c.Fail(rule, "json-decoding/instance-floor", 0, "no JSON decoding found in ocimem/ociserver")
	}
}

// ---------------------------------------------------------------- C03 / C04 / C05

// mediaTypePassedUnchanged (C03.R4b; seed C03-F): the media type the server
// hands to PushManifest is the request's Content-Type header itself (or the
// default when it is absent), not a parsed/normalised form of it.
func mediaTypePassedUnchanged(c *core.Ctx, rule string) {
	m := loadServerModel(c)
	kv, ok := m.Kinds["ReqManifestPut"]
	h := m.Handlers[kv]
	if !ok || h == nil {
		return
	}
	for _, bc := range backendCallsDeep(h) {
		if bc.Method != "PushManifest" {
			continue
		}
		args := bc.Call.Common().Args
		mt := args[len(args)-1]
		okAll, n := true, 0
		var visit func(v ssa.Value, d int)
		visit = func(v ssa.Value, d int) {
			v = facts.Resolve(resolveUp(v, h, 2))
			if ph, isPhi := v.(*ssa.Phi); isPhi && d < 4 {
				for _, e := range ph.Edges {
					visit(e, d+1)
				}
				return
			}
			n++
			if _, isC := v.(*ssa.Const); isC {
				return
			}
			if call, isCall := v.(*ssa.Call); isCall && facts.CalleeName(&call.Call) == "(net/http.Header).Get" {
				if s, isS := facts.ConstString(call.Call.Args[1]); isS && s == "Content-Type" {
					return
				}
			}
			okAll = false
		}
		visit(mt, 0)
		c.Check(okAll && n > 0, rule, "handleManifestPut/media-type-unchanged", bc.Call.Pos(), "the backend receives the Content-Type header as sent (or the default)", "the media type handed to the backend's PushManifest is not the request's Content-Type header as sent (it is parsed, lower-cased or stripped of parameters on the way): the registry behind stores a different media type than the one the caller pushed, so descriptors read back differ from a direct push")
	}
}

// contentRangeOnEveryFlush (C04.R5c; seed C04-F): every request flush sends
// carries the Content-Range of the bytes it holds, also the final empty PUT —
// a proxy that fans the upload out relies on it to resume at the right offset.
func contentRangeOnEveryFlush(c *core.Ctx, rule string) {
	bw := c.P.NamedType("ociclient", "blobWriter")
	if bw == nil {
		return
	}
	flush := c.P.Method(types.NewPointer(bw), "flush")
	if flush == nil {
		return
	}
	var doCall ssa.Instruction
	for _, ci := range facts.CallsIn(flush) {
		if strings.HasSuffix(facts.CalleeName(ci.Common()), "ociclient.client).do") {
			doCall = ci
		}
	}
	if doCall == nil {
		return
	}
	isSetCR := func(in ssa.Instruction) bool {
		ci, ok := in.(ssa.CallInstruction)
		if !ok {
			return false
		}
		n := facts.CalleeName(ci.Common())
		if n != "(net/http.Header).Set" && n != "(net/http.Header).Add" {
			return false
		}
		s, isS := facts.ConstString(ci.Common().Args[1])
		return isS && s == "Content-Range"
	}
	isDo := func(in ssa.Instruction) bool { return in == doCall }
	// a call of the private helper that builds the request counts if every way
	// through the helper sets the header
	builder := flushRequestBuilder(flush)
	builderSets := false
	if builder != flush && len(builder.Blocks) > 0 {
		isRet := func(in ssa.Instruction) bool {
			r, ok := in.(*ssa.Return)
			return ok && facts.RetErrIsNil(r)
		}
		if _, free := facts.ReachesFrom(builder.Blocks[0], 0, isRet, isSetCR, nil); !free {
			builderSets = true
		}
	}
	sets := func(in ssa.Instruction) bool {
		if isSetCR(in) {
			return true
		}
		if ci, ok := in.(ssa.CallInstruction); ok && builderSets && ci.Common().StaticCallee() == builder {
			return true
		}
		return false
	}
	bad := false
	if len(flush.Blocks) > 0 {
		if _, reach := facts.ReachesFrom(flush.Blocks[0], 0, isDo, sets, nil); reach {
			bad = true
		}
	}
	c.Check(!bad, rule, "flush/content-range-on-every-request", doCall.Pos(), "Content-Range is set on every path to the request", "flush can send its request without a Content-Range header (e.g. for the final PUT without a body): the server resumes such a request at offset 0, and behind a unifying proxy the members then disagree on the upload size and a valid upload cannot commit")
}

// pageLimitIsTheRequestedOne (C05.R7; seed C05-F): the server cuts a listing
// page at the page size the client asked for — never at its own smaller limit:
// the client takes a page shorter than it asked for as the end of the listing.
func pageLimitIsTheRequestedOne(c *core.Ctx, rule string) {
	nl := M.Fn("ociserver.nextListResults")
	if nl == nil {
		return
	}
	c.Analysed(facts.FuncName(nl))
	n := 0
	for _, f := range facts.WithAnon(nl) {
		for _, b := range f.Blocks {
			for _, in := range b.Instrs {
				bo, ok := in.(*ssa.BinOp)
				if !ok || (bo.Op != token.GEQ && bo.Op != token.GTR && bo.Op != token.LSS && bo.Op != token.LEQ && bo.Op != token.EQL) {
					continue
				}
				var limit ssa.Value
				for _, pr := range [][2]ssa.Value{{bo.X, bo.Y}, {bo.Y, bo.X}} {
					if call, isCall := facts.Resolve(pr[0]).(*ssa.Call); isCall {
						if bi, isB := call.Call.Value.(*ssa.Builtin); isB && bi.Name() == "len" {
							if _, isSl := call.Call.Args[0].Type().Underlying().(*types.Slice); isSl && f != nl {
								limit = pr[1]
							}
						}
					}
				}
				if limit == nil {
					continue
				}
				n++
				fromOpts := sliceHas(limit, func(v ssa.Value) bool {
					_, fld, isF := facts.FieldOf(v)
					return isF && fld == "MaxListPageSize"
				})
				c.Check(!fromOpts, rule, "nextListResults/page-cut-at-requested-size", bo.Pos(), "the page is cut at the requested n", "the listing page is cut at a limit derived from the server's MaxListPageSize instead of the n the client asked for: the client reads a page shorter than it requested as the end of the listing, and the remaining items are silently lost")
			}
		}
	}
	if n == 0 {
		c.Note("C05.R7: no page-cut comparison found in nextListResults' collecting literal")
	}
}

// ---------------------------------------------------------------- C07 / C11

// errorBodyLimitIsConstant (C07.R5b; seed C07-E): the client reads an error
// body up to its own constant limit — not up to the declared Content-Length,
// which is -1 for chunked responses.
func errorBodyLimitIsConstant(c *core.Ctx, rule string) {
	me := c.P.Func("ociclient", "makeError")
	if me == nil {
		return
	}
	for _, f := range withHelpers(me) {
		for _, ci := range facts.CallsIn(f) {
			if facts.CalleeName(ci.Common()) != "io.LimitReader" {
				continue
			}
			lim := facts.Resolve(ci.Common().Args[1])
			_, isConst := facts.Strip(lim).(*ssa.Const)
			if cv, ok := lim.(*ssa.Convert); ok {
				_, isConst = facts.Strip(cv.X).(*ssa.Const)
			}
			c.Check(isConst, rule, "makeError/body-limit-constant", ci.Pos(), "the error body is read up to a constant limit", "the number of error-body bytes the client reads depends on a run-time value (e.g. the response's Content-Length, which is -1 for chunked bodies): larger error bodies are not read at all and the error's code, message and detail are lost")
		}
	}
}

// returnedResponseBodyOpen (C07.R8 / C11.R11; seed C07-F): a response that
// RoundTrip hands back to its caller has not had its Body closed by RoundTrip
// (unless the Body was replaced afterwards).
func returnedResponseBodyOpen(c *core.Ctx, rule string) {
	st := c.P.NamedType("ociauth", "stdTransport")
	if st == nil {
		return
	}
	rt := c.P.Method(types.NewPointer(st), "RoundTrip")
	if rt == nil {
		return
	}
	c.Analysed(facts.FuncName(rt))
	bodyOf := func(v ssa.Value) (ssa.Value, bool) {
		base, fld, ok := facts.FieldOf(facts.Resolve(v))
		if !ok || fld != "Body" {
			return nil, false
		}
		return facts.Resolve(base), true
	}
	ff := facts.FlowFuncs{
		Instr: func(in ssa.Instruction, t facts.Tokens) {
			switch x := in.(type) {
			case ssa.CallInstruction:
				cc := x.Common()
				if cc.IsInvoke() && cc.Method.Name() == "Close" {
					if _, isDefer := x.(*ssa.Defer); isDefer {
						return
					}
					if resp, ok := bodyOf(cc.Value); ok {
						t["closed:"+valueKey(resp)] = true
					}
				}
				// a helper that replaces the body (403 rewrite) re-opens it
				if h := cc.StaticCallee(); h != nil && h.Blocks != nil && h.Pkg == rt.Pkg {
					for i, a := range cc.Args {
						if i < len(h.Params) && strings.HasSuffix(a.Type().String(), "http.Response") && helperTouches(h, 1, func(hin ssa.Instruction) bool {
							s, ok := hin.(*ssa.Store)
							if !ok {
								return false
							}
							_, fld, isF := facts.FieldOf(s.Addr)
							return isF && fld == "Body"
						}) {
							delete(t, "closed:"+valueKey(facts.Resolve(a)))
						}
					}
				}
			case *ssa.Store:
				if base, fld, ok := facts.FieldOf(x.Addr); ok && fld == "Body" {
					delete(t, "closed:"+valueKey(facts.Resolve(base)))
				}
				// the variable holding the response is assigned a new response
				if al, ok := x.Addr.(*ssa.Alloc); ok {
					delete(t, "closed:*"+al.Name())
				}
			}
		},
	}
	flow := facts.PathFlow(rt, ff)
	n := 0
	for _, r := range returnsOf(rt) {
		if len(r.Results) != 2 {
			continue
		}
		v := facts.RetVal(r, 0)
		if facts.IsNilConst(v) {
			continue
		}
		n++
		tm := valueKey(v)
		ok := facts.AllAt(ff, flow, r, func(t facts.Tokens) bool { return !t["closed:"+tm] })
		c.Check(ok, rule, "RoundTrip/returned-body-open", r.Pos(), "a response handed back still has its body", "RoundTrip returns a response whose Body it has already closed: the caller (ociclient) cannot read the error body, so the error's code, message and detail are lost and errors.Is no longer matches")
	}
	if n == 0 {
		c.Fail(rule, "RoundTrip/returned-body-open", rt.Pos(), "RoundTrip never returns a response")
	}
}

// ---------------------------------------------------------------- C09

// noAppendToParameterSlice (C09.R7; seed C09-F): Scope operations build their
// results in fresh slices: append is never applied to a slice that belongs to
// a parameter or the receiver (spare capacity there is shared with the
// argument, so a later operation on the argument rewrites the earlier result).
func noAppendToParameterSlice(c *core.Ctx, rule string) {
	sc := c.P.NamedType("ociauth", "Scope")
	if sc == nil {
		return
	}
	n := 0
	var ops []*ssa.Function
	seen := map[*ssa.Function]bool{}
	for _, fn := range c.P.ModuleFunctions("ociauth") {
		if fn.Signature.Recv() == nil && !mentionsScope(fn) {
			continue
		}
		if fn.Signature.Recv() != nil && structName(fn.Signature.Recv().Type()) != "Scope" && !mentionsScope(fn) {
			continue
		}
		// the operation and the private helpers it reaches
		for _, h := range withHelpers(fn) {
			if !seen[h] {
				seen[h] = true
				ops = append(ops, h)
			}
		}
	}
	for _, fn := range ops {
		for _, ci := range facts.CallsIn(fn) {
			bi, ok := ci.Common().Value.(*ssa.Builtin)
			if !ok || bi.Name() != "append" || len(ci.Common().Args) == 0 {
				continue
			}
			n++
			if fld, bad := sliceOfArgumentScope(ci.Common().Args[0], 3); bad {
				c.Fail(rule, fnName(outermost(fn))+"/append-to-argument/"+fld, ci.Pos(), "append is applied to the "+fld+" slice of an argument scope: if that slice has spare capacity the result shares its backing array with the argument, and a second operation on the same argument rewrites the first result (two different unions compare Equal)")
			}
		}
	}
	if n == 0 {
		c.Note("C09.R7: no append found in the scope operations")
	} else {
		c.OK(rule, "scope-ops/append-targets", 0, sprintf("%d append calls in the scope operations examined", n))
	}
}

// sliceOfArgumentScope: v (possibly re-sliced) is a slice field of a Scope
// that is a parameter or receiver of its function, or a slice parameter of a
// private helper that some call site binds to such a field.
func sliceOfArgumentScope(v ssa.Value, depth int) (string, bool) {
	// the arrays v may be backed by: through re-slicing, loop phis and earlier appends
	var roots []ssa.Value
	seen := map[ssa.Value]bool{}
	var walk func(x ssa.Value)
	walk = func(x ssa.Value) {
		x = facts.Resolve(x)
		if seen[x] || len(seen) > 40 {
			return
		}
		seen[x] = true
		switch y := x.(type) {
		case *ssa.Slice:
			walk(y.X)
		case *ssa.Phi:
			for _, e := range y.Edges {
				walk(e)
			}
		case *ssa.Call:
			if bi, ok := y.Call.Value.(*ssa.Builtin); ok && bi.Name() == "append" && len(y.Call.Args) > 0 {
				walk(y.Call.Args[0])
				return
			}
			// library functions whose result shares the argument's backing array
			switch facts.CalleeName(&y.Call) {
			case "slices.Compact", "slices.CompactFunc", "slices.Delete", "slices.DeleteFunc", "slices.Clip":
				walk(y.Call.Args[0])
				return
			}
			roots = append(roots, x)
		default:
			roots = append(roots, x)
		}
	}
	walk(v)
	for _, r := range roots {
		if fld, bad := rootOfArgumentScope(r, depth); bad {
			return fld, true
		}
	}
	return "", false
}

func rootOfArgumentScope(first ssa.Value, depth int) (string, bool) {
	if p, isP := facts.ResolveFree(first).(*ssa.Parameter); isP && depth > 0 {
		if _, isSlice := p.Type().Underlying().(*types.Slice); !isSlice {
			return "", false
		}
		h := p.Parent()
		if len(privateCallSites(h)) == 0 && h.Parent() == nil {
			// a slice handed in by the caller of an exported constructor (NewScope(rss...)):
			// its backing array stays the caller's
			return "the caller's slice " + p.Name(), true
		}
		pi := -1
		for i, q := range h.Params {
			if q == p {
				pi = i
			}
		}
		for _, s := range privateCallSites(h) {
			if pi < 0 || pi >= len(s.Common().Args) {
				continue
			}
			if fld, bad := sliceOfArgumentScope(s.Common().Args[pi], depth-1); bad {
				return fld, true
			}
		}
		return "", false
	}
	base, fld, isF := facts.FieldOf(first)
	if !isF || structName(base.Type()) != "Scope" {
		return "", false
	}
	// the Scope the slice belongs to: a parameter (or receiver) of the function?
	b := facts.Resolve(base)
	if al, isAl := b.(*ssa.Alloc); isAl {
		if sts := facts.StoresTo(al); len(sts) == 1 {
			b = facts.Resolve(sts[0].Val)
		}
	}
	if u, isU := b.(*ssa.UnOp); isU {
		if al, isAl := u.X.(*ssa.Alloc); isAl {
			if sts := facts.StoresTo(al); len(sts) == 1 {
				b = facts.Resolve(sts[0].Val)
			}
		}
	}
	// a field of a scope under construction that was first set to a caller-owned
	// slice (`s.others = rss[:0]`) and is then appended to
	if al, isAl := facts.Resolve(base).(*ssa.Alloc); isAl && depth > 0 && al.Referrers() != nil {
		for _, ref := range *al.Referrers() {
			fa2, ok := ref.(*ssa.FieldAddr)
			if !ok {
				continue
			}
			if _, f2, _ := facts.FieldOf(fa2); f2 != fld {
				continue
			}
			for _, st := range facts.StoresTo(fa2) {
				if _, isCall := st.Val.(*ssa.Call); isCall {
					continue // the append results themselves
				}
				if f3, bad := sliceOfArgumentScope(st.Val, depth-1); bad {
					return f3, true
				}
			}
		}
	}
	p, isParam := b.(*ssa.Parameter)
	if isParam {
		// a *Scope handed to a private builder method (`func (s *Scope) add(…)`): the
		// scope being appended to is whatever the callers pass — a fresh local is not
		// an argument scope
		if decided, fresh := builderReceiverIsFresh(p, depth); decided {
			return fld, !fresh
		}
	}
	return fld, isParam
}

// builderReceiverIsFresh: p is a pointer parameter of a private helper and
// every call passes the address of a local variable of the caller (or its own
// such parameter).
func builderReceiverIsFresh(p *ssa.Parameter, depth int) (decided, fresh bool) {
	if _, isPtr := p.Type().Underlying().(*types.Pointer); !isPtr || depth <= 0 {
		return false, false
	}
	h := p.Parent()
	sites := privateCallSites(h)
	pi := -1
	for i, q := range h.Params {
		if q == p {
			pi = i
		}
	}
	if len(sites) == 0 || pi < 0 {
		return false, false
	}
	for _, s := range sites {
		a := facts.ResolveFree(s.Common().Args[pi])
		if _, isAlloc := a.(*ssa.Alloc); isAlloc {
			continue
		}
		if q, isP := a.(*ssa.Parameter); isP {
			if d, f := builderReceiverIsFresh(q, depth-1); d && f {
				continue
			}
		}
		return true, false
	}
	return true, true
}

func mentionsScope(fn *ssa.Function) bool {
	s := fn.Signature
	for i := 0; i < s.Params().Len(); i++ {
		if strings.HasSuffix(s.Params().At(i).Type().String(), "ociauth.Scope") {
			return true
		}
	}
	for i := 0; i < s.Results().Len(); i++ {
		if strings.HasSuffix(s.Results().At(i).Type().String(), "ociauth.Scope") {
			return true
		}
	}
	return false
}

// ---------------------------------------------------------------- C10 / C11

// purgeTimeTakenUnderLock (C10.R1c; seed C10-E): the instant against which
// cached tokens are purged is read inside the critical section that also looks
// the cache up; read before waiting for the lock it is stale by however long
// another request's token acquisition took.
func purgeTimeTakenUnderLock(c *core.Ctx, rule string) {
	setAuth := M.Fn("ociauth.setAuthorization")
	if setAuth == nil {
		return
	}
	la := newLockAnalysis(c, "ociauth")
	n := 0
	for _, ci := range facts.CallsIn(setAuth) {
		if facts.CalleeName(ci.Common()) != "time.Now" {
			continue
		}
		n++
		held := la.HeldAt(ci)
		ok := false
		for k := range held {
			if strings.HasSuffix(k, ".mu") || strings.Contains(k, "registry.") {
				ok = true
			}
		}
		c.Check(ok, rule, "setAuthorization/now-under-lock", ci.Pos(), "the purge instant is read with the registry lock held", "setAuthorization reads the current time before taking the registry lock: a request that waited for another request's token acquisition purges the cache against a stale instant and attaches a token that expired while it was waiting")
	}
	if n == 0 {
		c.Note("C10.R1c: setAuthorization does not call time.Now itself")
	}
}

// firstTokenRequestAsksForUnion (C10.R6b; seed C10-F): the first token request
// of an acquisition always asks for the union of the required and the desired
// scope; only the retry after a refusal narrows it. No remembered state may
// narrow the first request.
func firstTokenRequestAsksForUnion(c *core.Ctx, rule string) {
	acqAT := M.Fn("ociauth.acquireAccessToken")
	acqT := M.Fn("ociauth.acquireToken")
	if acqAT == nil || acqT == nil {
		return
	}
	var calls []*ssa.Call
	for _, ci := range facts.CallsIn(acqAT) {
		if call, ok := ci.(*ssa.Call); ok && calleeIs(call, acqT) {
			calls = append(calls, call)
		}
	}
	if len(calls) == 0 {
		return
	}
	// the first: the one that dominates the others
	first := calls[0]
	for _, k := range calls[1:] {
		if facts.Dominates(k, first) {
			first = k
		}
	}
	arg := facts.Resolve(first.Call.Args[len(first.Call.Args)-1])
	isUnion := false
	if call, ok := arg.(*ssa.Call); ok && call.Call.StaticCallee() != nil && call.Call.StaticCallee().Name() == "Union" {
		isUnion = true
	}
	c.Check(isUnion, rule, "acquireAccessToken/first-request-scope", first.Pos(), "the first token request asks for required ∪ desired scope", "the scope of the first token request is not always the union of the required and the desired scope (it can be narrowed by remembered state): later requests the wider token would have covered need another token request and registry round trip")
}

// challengeStateIsAParsedChallenge (C11.R4c; seed C11-E): the per-host
// "challenge seen" state is only ever set to a challenge parsed from a
// response — never to an empty placeholder, which reads as "a non-bearer
// challenge was seen" and makes the password go out unprompted.
func challengeStateIsAParsedChallenge(c *core.Ctx, rule string) {
	n := 0
	for _, fn := range c.P.ModuleFunctions("ociauth") {
		for _, b := range fn.Blocks {
			for _, in := range b.Instrs {
				st, ok := in.(*ssa.Store)
				if !ok {
					continue
				}
				base, fld, isF := facts.FieldOf(st.Addr)
				if !isF || fld != "wwwAuthenticate" || structName(base.Type()) != "registry" || isFreshBase(base) {
					continue
				}
				n++
				v := facts.Resolve(resolveUp(st.Val, outermost(fn), 2))
				okv := false
				switch x := v.(type) {
				case *ssa.Parameter:
					okv = true
				case *ssa.Call:
					okv = structName(x.Type()) == "authHeader"
				case *ssa.Extract:
					okv = true
				}
				c.Check(okv, rule, facts.FuncName(fn)+"/challenge-state", st.Pos(), "the remembered challenge is one parsed from a response", "the per-host challenge state is set to something other than a challenge parsed from a response (e.g. an empty placeholder after a 401 without a usable challenge): later requests see a non-bearer challenge as seen and send the configured password as Basic credentials unprompted")
			}
		}
	}
	if n == 0 {
		c.Fail(rule, "challenge-state/instance-floor", 0, "no store to registry.wwwAuthenticate found")
	}
}

// ---------------------------------------------------------------- C12 / C13

// accessCheckerConstructorStoresParams (C12.R0; seed C12-F): AccessChecker(r,
// check) wraps exactly r with exactly check.
func accessCheckerConstructorStoresParams(c *core.Ctx, rule string) {
	ctor := c.P.Func("ocifilter", "AccessChecker")
	if ctor == nil {
		return
	}
	n := 0
	for _, b := range ctor.Blocks {
		for _, in := range b.Instrs {
			al, ok := in.(*ssa.Alloc)
			if !ok {
				continue
			}
			st := structOf(al.Type())
			if st == nil {
				continue
			}
			for i := 0; i < st.NumFields(); i++ {
				f := st.Field(i)
				v, has := blobLiteralFieldOf(al, f.Name())
				if !has {
					continue
				}
				switch {
				case isFuncT(f.Type()):
					n++
					c.Check(argIsParam(v, ctor, 1), rule, "AccessChecker/check-is-parameter", al.Pos(), "the wrapper's policy is the check argument", "AccessChecker installs a policy other than its check argument (e.g. one folded together with the policy of a wrapper it unwraps): the inner policy is consulted for calls the outer one rejects and its error is the one returned")
				case strings.HasSuffix(f.Type().String(), "ociregistry.Interface"):
					n++
					c.Check(argIsParam(v, ctor, 0), rule, "AccessChecker/registry-is-parameter", al.Pos(), "the wrapper wraps the registry argument", "AccessChecker wraps a registry other than the one it was given")
				}
			}
		}
	}
	if n < 2 {
		c.Fail(rule, "AccessChecker/constructor/instance-floor", ctor.Pos(), "AccessChecker no longer builds a wrapper holding a policy and a registry")
	}
}

// listingIteratorsRerunnable (C05.R6 / C13.R6; seeds C05-E, C13-E): the
// iterator value a listing method returns assigns to no variable of the call
// that created it (start-after cursor, request, prefix): running it a second
// time starts from the caller's arguments again.
func listingIteratorsRerunnable(c *core.Ctx, rule string, rels []string, floor int) {
	n := 0
	for _, rel := range rels {
		for _, fn := range c.P.ModuleFunctions(rel) {
			if fn.Parent() != nil || isInstance(fn) {
				continue
			}
			res := fn.Signature.Results()
			if res.Len() != 1 || !(isSeqType(res.At(0).Type()) || isFuncT(res.At(0).Type())) {
				continue
			}
			for _, r := range returnsOf(fn) {
				mc, ok := facts.RetVal(r, 0).(*ssa.MakeClosure)
				if !ok {
					continue
				}
				lit := mc.Fn.(*ssa.Function)
				if yieldParam(lit) == nil {
					continue
				}
				n++
				var bad *ssa.Store
				for _, f := range facts.WithAnon(lit) {
					for _, b := range f.Blocks {
						for _, in := range b.Instrs {
							st, ok := in.(*ssa.Store)
							if !ok {
								continue
							}
							// the address: a captured cell itself, or a field of what a captured cell points to
							addr := st.Addr
							through := false
							for d := 0; d < 3; d++ {
								if fa, isFA := addr.(*ssa.FieldAddr); isFA {
									addr = fa.X
									through = true
									continue
								}
								if u, isU := addr.(*ssa.UnOp); isU && through {
									addr = u.X
									continue
								}
								break
							}
							fv, isFV := addr.(*ssa.FreeVar)
							if !isFV {
								continue
							}
							// climb to the iterator literal's own free variables
							var cell ssa.Value = fv
							for g := f; g != lit && g != nil; g = g.Parent() {
								bv := facts.Binding(cell.(*ssa.FreeVar))
								if bv == nil {
									break
								}
								cell = bv
								if _, still := cell.(*ssa.FreeVar); !still {
									break
								}
							}
							if cfv, still := cell.(*ssa.FreeVar); still && cfv.Parent() == lit {
								// storing an error for the caller to pick up is not iteration state
								if st.Val.Type().String() == "error" && !through {
									continue
								}
								bad = st
							}
						}
					}
				}
				if bad != nil {
					c.Fail(rule, facts.FuncName(fn)+"/iterator-rerunnable", bad.Pos(), "the iterator returned by "+fnName(fn)+" assigns to a variable (or through a pointer) of the call that created it: a second run of the same iterator value starts from the first run's leftovers (cursor already translated, request already advanced) instead of the caller's arguments")
				} else {
					c.OK(rule, facts.FuncName(fn)+"/iterator-rerunnable", r.Pos(), "the returned iterator keeps its state inside each run")
				}
			}
		}
	}
	if n < floor {
		c.Fail(rule, "listing-iterators/instance-floor", 0, sprintf("only %d iterator-returning functions found", n))
	}
}

// ---------------------------------------------------------------- C16 / C17 / C18 / C19 / C20

// memberCallsUseMemberContext (C16.R7; seed C16-F): inside a read helper's
// callback every call on a member uses the context the helper passed to that
// callback (the per-member, cancellable one), never the caller's context.
func memberCallsUseMemberContext(c *core.Ctx, rule string) {
	ctor := c.P.Func("ociunify", "New")
	if ctor == nil {
		return
	}
	ts := constructorResultTypes(ctor)
	if len(ts) != 1 {
		return
	}
	n := 0
	for _, m := range ifaceMethods(c) {
		sub := subIfaceOf(c, m.Name())
		if sub != "Reader" {
			continue
		}
		fn := declaredMethod(c, ts[0], m.Name())
		if fn == nil {
			continue
		}
		for _, bc := range backendCalls(fn) {
			args := bc.Call.Common().Args
			if len(args) == 0 || args[0].Type().String() != "context.Context" {
				continue
			}
			// only for methods that hand a context-taking callback to a read helper: then
			// every member call in the method's literals must use a callback's context
			hasCtxCallback := false
			for _, g := range facts.WithAnon(fn) {
				if g == fn {
					continue
				}
				for _, q := range g.Params {
					if q.Type().String() == "context.Context" {
						hasCtxCallback = true
					}
				}
			}
			if !hasCtxCallback {
				continue
			}
			n++
			v := facts.ResolveFree(args[0])
			p, isP := v.(*ssa.Parameter)
			fromCallback := isP && p.Parent().Parent() != nil
			c.Check(fromCallback, rule, "unifier."+m.Name()+"/member-context", bc.Call.Pos(), "the member is called with the context handed to the callback", "a member is called with the caller's own context instead of the per-member context the read helper hands to the callback: the chosen member's context is never cancelled after the reader is closed, and a discarded member's request is never cancelled")
		}
	}
	if n < 4 {
		c.Fail(rule, "member-context/instance-floor", 0, sprintf("only %d member read calls found in the unifier", n))
	}
}

// routerDoesNotNormalisePaths (C17.R6; seed C17-F): the request classifier
// splits the URL path as it is; cleaning it (path.Clean/Join, filepath) makes
// the router accept `foo//bar`, `foo/./bar`, `foo/../bar` as repository names
// that the validity predicate rejects.
func routerDoesNotNormalisePaths(c *core.Ctx, rule string) {
	n := 0
	for _, fn := range c.P.ModuleFunctions("internal/ocirequest") {
		for _, ci := range facts.CallsIn(fn) {
			name := facts.CalleeName(ci.Common())
			if !(strings.HasPrefix(name, "path.") || strings.HasPrefix(name, "path/filepath.")) || name == "path.Match" || name == "path/filepath.Match" {
				continue
			}
			n++
			c.Fail(rule, facts.FuncName(fn)+"/no-path-normalisation/"+name, ci.Pos(), "the request router passes a path through "+name+", which removes empty, `.` and `..` elements: URLs whose repository part fails ociref.IsValidRepository are routed (to a different repository) instead of being refused")
		}
	}
	if n == 0 {
		c.OK(rule, "ocirequest/no-path-normalisation", 0, "no lexical path normaliser is applied in the request router")
	}
}

// clientLocksAcyclic (C18.R4; seed C18-F): no method of the client's writer
// takes a mutex that may already be held on the way to it (sync.Mutex is not
// re-entrant: such a call never returns).
func clientLocksAcyclic(c *core.Ctx, rule string) {
	la := newLockAnalysis(c, "ociclient")
	if len(la.mutexOf) == 0 {
		c.Note("C18.R4: no mutex-bearing struct in ociclient")
		return
	}
	relabel(c, rule, func() { c08LockOrder(c, la) })
}

// base64CountUsed (C19.R3; seed C19-F): when credentials are base64-decoded
// into a caller-supplied buffer, the number of bytes written is used; ignoring
// it leaves stale or zero bytes of the buffer in the decoded text.
func base64CountUsed(c *core.Ctx, rule string) {
	n := 0
	for _, fn := range c.P.ModuleFunctions("ociauth") {
		for _, ci := range facts.CallsIn(fn) {
			if facts.CalleeName(ci.Common()) != "(*encoding/base64.Encoding).Decode" {
				continue
			}
			n++
			used := false
			if v := ci.Value(); v != nil {
				for _, ref := range *v.Referrers() {
					if ex, ok := ref.(*ssa.Extract); ok && ex.Index == 0 && len(*ex.Referrers()) > 0 {
						used = true
					}
				}
			}
			c.Check(used, rule, facts.FuncName(fn)+"/base64-count-used", ci.Pos(), "the decoded length is used", "the byte count returned by base64 Decode is discarded: the destination was sized with DecodedLen (an upper bound for padded input), so the decoded user name / password keep trailing bytes of whatever the buffer held before")
		}
	}
	if n == 0 {
		c.OK(rule, "ociauth/base64-decode", 0, "credentials are decoded with DecodeString (fresh result)")
	}
}

// noPackageState (C20.R4, C17.R7; seeds C20-E, C17-E, C06-E): the given
// functions keep no state between calls in package-level variables: no store
// to a global, no update of a global map, no Store/LoadOrStore/Swap on a global
// sync.Map or sync.Pool. (A memo shared between two predicates makes one
// answer for the other; an unlocked cache is a data race.)
func noPackageState(c *core.Ctx, rule, what string, fns []*ssa.Function) {
	n, bad := 0, 0
	seen := map[*ssa.Function]bool{}
	for _, root := range fns {
		for _, fn := range withHelpers(root) {
			if seen[fn] || fn.Name() == "init" {
				continue
			}
			seen[fn] = true
			n++
			for _, b := range fn.Blocks {
				for _, in := range b.Instrs {
					var g *ssa.Global
					how := ""
					switch x := in.(type) {
					case *ssa.Store:
						if gg, ok := x.Addr.(*ssa.Global); ok {
							g, how = gg, "assigned"
						}
					case *ssa.MapUpdate:
						if gg := loadedGlobal(x.Map); gg != nil {
							g, how = gg, "updated"
						}
					case ssa.CallInstruction:
						cc := x.Common()
						name := facts.CalleeName(cc)
						if strings.HasPrefix(name, "(*sync.Map).") || strings.HasPrefix(name, "(*sync.Pool).") {
							if gg, ok := cc.Args[0].(*ssa.Global); ok {
								switch {
								case strings.HasSuffix(name, ".Load"), strings.HasSuffix(name, ".Range"):
								default:
									g, how = gg, "written ("+name+")"
								}
							}
						}
					}
					if g != nil && strings.HasPrefix(g.Pkg.Pkg.Path(), "cuelabs.dev/go/oci") {
						bad++
						c.Fail(rule, facts.FuncName(fn)+"/package-state/"+g.Name(), in.Pos(), what+" keeps state between calls: package-level variable "+g.Name()+" is "+how+" in "+fnName(fn)+" — a cache keyed too coarsely makes one query answer for another, and an unlocked one is a data race on concurrent first use")
					}
				}
			}
		}
	}
	if bad == 0 {
		c.OK(rule, what+"/no-package-state", 0, sprintf("%d functions examined: none writes a package-level variable", n))
	}
}

// unifierChunkedUploadContext (C04.R7; seed C04-E): the unifier starts and
// resumes chunked uploads on its members with the caller's own context: the
// writers keep that context for every later request, so a context the unifier
// cancels when the start call returns kills the upload at its first flush.
func unifierChunkedUploadContext(c *core.Ctx, rule string) {
	ctor := c.P.Func("ociunify", "New")
	if ctor == nil {
		return
	}
	ts := constructorResultTypes(ctor)
	if len(ts) != 1 {
		return
	}
	n := 0
	for _, name := range []string{"PushBlobChunked", "PushBlobChunkedResume"} {
		fn := declaredMethod(c, ts[0], name)
		if fn == nil {
			continue
		}
		for _, bc := range backendCalls(fn) {
			args := bc.Call.Common().Args
			if len(args) == 0 || args[0].Type().String() != "context.Context" {
				continue
			}
			n++
			c.Check(argIsParam(args[0], fn, 1), rule, "unifier."+name+"/caller-context", bc.Call.Pos(), "the members' writers are created with the caller's context", "the unifier creates its members' chunked-upload writers with a context other than the caller's (e.g. one it cancels when the call returns): writers that keep their context (ociclient) fail their first flush, Close or Commit with `context canceled`")
		}
	}
	if n < 2 {
		c.Fail(rule, "unifier/chunked-upload-context/instance-floor", 0, "member PushBlobChunked / PushBlobChunkedResume calls not found in the unifier")
	}
}

// valueKey identifies an SSA value within its function (terms are structural:
// two calls with the same arguments have the same term).
func valueKey(v ssa.Value) string {
	if u, ok := v.(*ssa.UnOp); ok && u.Op == token.MUL {
		// a load of a local cell: the cell is the identity (cleared when it is reassigned)
		if al, isAl := u.X.(*ssa.Alloc); isAl {
			return "*" + al.Name()
		}
	}
	return v.Name()
}

// wrapperHoldsItsRegistries (C03/C14/C15 constructor clause): the wrapper a
// constructor builds holds, in its registry-typed fields, exactly the
// registries it was given — each field one parameter (through interface
// conversions only), and two registry parameters go to two different fields.
func wrapperHoldsItsRegistries(c *core.Ctx, rule, rel, name string) {
	ctor := c.P.Func(rel, name)
	if ctor == nil {
		return
	}
	c.Analysed(facts.FuncName(ctor))
	isReg := func(t types.Type) bool {
		for _, n := range []string{"Interface", "Reader", "Writer", "Deleter", "Lister", "ReadWriter"} {
			if isNamed(t, "oci/ociregistry", n) {
				return true
			}
		}
		return false
	}
	nRegParams := 0
	for _, p := range ctor.Params {
		if isReg(p.Type()) {
			nRegParams++
		}
	}
	strip := func(v ssa.Value) ssa.Value {
		for d := 0; d < 4; d++ {
			switch x := facts.Resolve(v).(type) {
			case *ssa.ChangeInterface:
				v = x.X
			case *ssa.MakeInterface:
				v = x.X
			case *ssa.ChangeType:
				v = x.X
			default:
				return facts.Resolve(v)
			}
		}
		return facts.Resolve(v)
	}
	n := 0
	usedParam := map[int]string{}
	for _, b := range ctor.Blocks {
		for _, in := range b.Instrs {
			al, ok := in.(*ssa.Alloc)
			if !ok {
				continue
			}
			st := structOf(al.Type())
			if st == nil {
				continue
			}
			for i := 0; i < st.NumFields(); i++ {
				f := st.Field(i)
				if !isReg(f.Type()) {
					continue
				}
				v, has := blobLiteralFieldOf(al, f.Name())
				if !has {
					continue
				}
				n++
				pi := -1
				for j := range ctor.Params {
					if argIsParam(strip(v), ctor, j) {
						pi = j
					}
				}
				key := name + "/holds-its-argument/" + f.Name()
				if pi < 0 {
					c.Fail(rule, key, al.Pos(), name+" stores in field "+f.Name()+" a registry that is not one of its arguments (e.g. the inner registry of a wrapper it unwraps, or one wrapped once more): calls reach a different registry than the one the caller composed")
					continue
				}
				if prev, dup := usedParam[pi]; dup && nRegParams > 1 && prev != f.Name() {
					c.Fail(rule, key, al.Pos(), name+" stores the same argument in fields "+prev+" and "+f.Name()+": one of the registries it was given is never consulted")
					continue
				}
				usedParam[pi] = f.Name()
				c.OK(rule, key, al.Pos(), "field "+f.Name()+" is the constructor's argument")
			}
		}
	}
	if n == 0 {
		c.Fail(rule, name+"/holds-its-argument/instance-floor", ctor.Pos(), name+" no longer builds a wrapper holding a registry")
	}
}
