package props

import (
	"go/token"
	"go/types"
	"regexp/syntax"
	"strings"

	"golang.org/x/tools/go/ssa"

	"ocivet/internal/core"
	"ocivet/internal/facts"
)

func init() {
	register(&Prop{
		ID:    "C17",
		Title: "Reference parsing is a total, exact partition consistent with the validators",
		Run:   runC17,
		Explanation: "R1 totality: the panic inventory over every function of ociref (Parse, ParseRelative, the four predicates, Reference.String and their helpers) leaves no undischarged site — in particular the predicates are defined on the empty string; " +
			"R2 one grammar: the patterns given to regexp.MustCompile are compile-time constants that compile, the reference pattern has the capture groups the parser indexes, and (comparing regexp/syntax trees) the sub-expression of its host group is the host predicate's pattern and that of its repository group is the repository predicate's pattern — so a parsed host/repository satisfies its predicate for every input; " +
			"R3 post-regexp checks (disjunctive path facts): every successful return of ParseRelative holds (tag empty or accepted by the function IsValidTag uses) and (digest empty or validated) and (repository length checked), and the tag check enforces the 128-byte limit; " +
			"R4 the HTTP router calls exactly these predicates (decided under C06.R2) and the deprecated wrappers in the root package delegate to them unchanged. " +
			"R3b the tag check returns nil only for a non-empty tag; R5 the request classifier accepts a repository/tag/digest only if it passed the ociref predicate (shared with C06.R2). " +
			"R6 the request router applies no lexical path normaliser; R7 the validity predicates and the router write no package-level state. " +
			"R8 (shared with C03.R13) the router splits at the last occurrence of a path keyword; R9 no capture group of the reference pattern can match the empty string (minimum match length over the parsed regexp), because the parser reads a non-empty capture as \"this part was given\".",
		NotDecided: "the print-then-parse identity on values (String followed by Parse yields the same parts) is not decided.",
		Technique:  "static analysis: panic-site inventory with bounds prover, regexp/syntax tree comparison of constant patterns, disjunctive path facts",
	})
}

func runC17(c *core.Ctx) {
	m := loadServerModel(c)
	total, _ := panicInventory(c, "C17.R1", c.P.ModuleFunctions("ociref"), c06Discharger(c, m, "C17.R1"))
	if total < 8 {
		c.Fail("C17.R1", "instance-floor", 0, sprintf("only %d panic-capable sites enumerated in ociref", total))
	}
	c17Grammar(c)
	c17PostChecks(c)
	tagCheckRejectsEmpty(c, "C17.R3")
	c17Wrappers(c)
	// the routing layer accepts a name, tag or digest only if the ociref predicate does
	c06ValidatedFields(c, "C17.R5")
	routerDoesNotNormalisePaths(c, "C17.R6")
	noPackageState(c, "C17.R7", "a validity predicate / the request router", append(c.P.ModuleFunctions("ociref"), pkgFuncs(c, "internal/ocirequest")...))
	routerSplitsAtTheLastKeyword(c, "C17.R8")
	captureGroupsCannotBeEmpty(c, "C17.R9")
}

// patternUsedBy: the constant pattern of the regexp on which fn calls method.
func patternUsedBy(c *core.Ctx, fn *ssa.Function, method string) (string, bool) {
	for _, f := range withHelpers(fn) {
		for _, ci := range facts.CallsIn(f) {
			if facts.CalleeName(ci.Common()) == "(*regexp.Regexp)."+method {
				return regexpPattern(c, ci.Common().Args[0])
			}
		}
	}
	return "", false
}

// stripAnchors: ^(?:X)$ -> X
func stripAnchors(re *syntax.Regexp) *syntax.Regexp {
	if re.Op == syntax.OpConcat && len(re.Sub) >= 3 && re.Sub[0].Op == syntax.OpBeginText && re.Sub[len(re.Sub)-1].Op == syntax.OpEndText {
		inner := re.Sub[1 : len(re.Sub)-1]
		if len(inner) == 1 {
			return inner[0]
		}
		return &syntax.Regexp{Op: syntax.OpConcat, Sub: inner, Flags: re.Flags}
	}
	return re
}

func findCapture(re *syntax.Regexp, n int) *syntax.Regexp {
	if re.Op == syntax.OpCapture && re.Cap == n {
		return re
	}
	for _, s := range re.Sub {
		if r := findCapture(s, n); r != nil {
			return r
		}
	}
	return nil
}

func c17Grammar(c *core.Ctx) {
	pr := c.P.Func("ociref", "ParseRelative")
	ivh := c.P.Func("ociref", "IsValidHost")
	ivr := c.P.Func("ociref", "IsValidRepository")
	if pr == nil || ivh == nil || ivr == nil {
		c.Fail("C17.R2", "anchor/ociref", 0, "ParseRelative / IsValidHost / IsValidRepository not found")
		return
	}
	c.Analysed("ociref.ParseRelative")
	refPat, ok1 := patternUsedBy(c, pr, "FindStringSubmatch")
	hostPat, ok2 := patternUsedBy(c, ivh, "MatchString")
	repoPat, ok3 := patternUsedBy(c, ivr, "MatchString")
	if !ok1 || !ok2 || !ok3 {
		c.Fail("C17.R2", "patterns/constant", pr.Pos(), "the reference / host / repository patterns are not resolvable to compile-time constants compiled once")
		return
	}
	parse := func(p, what string) *syntax.Regexp {
		re, err := syntax.Parse(p, syntax.Perl)
		if err != nil {
			c.Fail("C17.R2", "patterns/"+what+"-compiles", pr.Pos(), what+" pattern does not compile: "+err.Error())
			return nil
		}
		c.OK("C17.R2", "patterns/"+what+"-compiles", pr.Pos(), "constant pattern compiles")
		return re.Simplify()
	}
	rre, hre, pre := parse(refPat, "reference"), parse(hostPat, "host"), parse(repoPat, "repository")
	if rre == nil || hre == nil || pre == nil {
		return
	}
	// anchored
	anchored := func(re *syntax.Regexp) bool {
		return re.Op == syntax.OpConcat && len(re.Sub) >= 2 && re.Sub[0].Op == syntax.OpBeginText && re.Sub[len(re.Sub)-1].Op == syntax.OpEndText
	}
	c.Check(anchored(rre) && anchored(hre) && anchored(pre), "C17.R2", "patterns/anchored", pr.Pos(), "all three patterns are anchored at both ends", "a reference/host/repository pattern is not anchored at both ends: strings with extra leading or trailing text would be accepted")
	// which capture indexes does the parser use, and for which field?
	fieldGroup := map[string]int{}
	var prBlocks []*ssa.BasicBlock
	for _, f := range withHelpers(pr) {
		prBlocks = append(prBlocks, f.Blocks...)
	}
	for _, b := range prBlocks {
		for _, in := range b.Instrs {
			st, ok := in.(*ssa.Store)
			if !ok {
				continue
			}
			_, fld, isF := facts.FieldOf(st.Addr)
			if !isF {
				continue
			}
			v := facts.Resolve(st.Val)
			if u, ok := v.(*ssa.UnOp); ok && u.Op == token.MUL {
				if ia, ok := u.X.(*ssa.IndexAddr); ok {
					if call, ok := facts.Resolve(ia.X).(*ssa.Call); ok && strings.HasSuffix(facts.CalleeName(&call.Call), "FindStringSubmatch") {
						if k, ok := facts.ConstInt(ia.Index); ok {
							fieldGroup[fld] = int(k)
						}
					}
				}
			}
		}
	}
	for _, f := range []string{"Host", "Repository", "Tag", "Digest"} {
		if _, ok := fieldGroup[f]; !ok {
			c.Fail("C17.R2", "groups/"+f, pr.Pos(), "ParseRelative does not fill Reference."+f+" from a capture group")
		}
	}
	cmp := func(field string, pred *syntax.Regexp, what string) {
		g, ok := fieldGroup[field]
		if !ok {
			return
		}
		cap := findCapture(rre, g)
		if cap == nil || len(cap.Sub) != 1 {
			c.Fail("C17.R2", "groups/"+field+"-exists", pr.Pos(), sprintf("the reference pattern has no capture group %d (used for %s)", g, field))
			return
		}
		a := cap.Sub[0].String()
		b := stripAnchors(pred).String()
		c.Check(a == b, "C17.R2", "grammar/"+field+"-same-as-predicate", pr.Pos(), "capture group "+sprintf("%d", g)+" and "+what+" are the same regular expression", "the sub-expression the reference pattern captures for "+field+" differs from the pattern "+what+" accepts: a reference can parse into a "+strings.ToLower(field)+" that fails its own predicate (or the reverse)")
	}
	cmp("Host", hre, "IsValidHost")
	cmp("Repository", pre, "IsValidRepository")
}

func c17PostChecks(c *core.Ctx) {
	pr := c.P.Func("ociref", "ParseRelative")
	ivt := c.P.Func("ociref", "IsValidTag")
	if pr == nil || ivt == nil {
		return
	}
	// the function IsValidTag uses
	var tagCheck *ssa.Function
	for _, ci := range facts.CallsIn(ivt) {
		if sc := ci.Common().StaticCallee(); sc != nil && strings.Contains(sc.String(), "ociref.") && len(ci.Common().Args) == 1 && argIsParam(ci.Common().Args[0], ivt, 0) {
			tagCheck = sc
		}
	}
	if tagCheck == nil {
		c.Fail("C17.R3", "IsValidTag/checker", ivt.Pos(), "IsValidTag does not delegate to a tag-checking function of ociref")
		return
	}
	c.Analysed(facts.FuncName(tagCheck))
	isRefField := func(v ssa.Value, name string) bool {
		_, fld, ok := facts.FieldOf(facts.Resolve(v))
		return ok && fld == name
	}
	lenOfField := func(v ssa.Value, name string) bool {
		call, ok := facts.Resolve(v).(*ssa.Call)
		if !ok {
			return false
		}
		bi, ok := call.Call.Value.(*ssa.Builtin)
		return ok && bi.Name() == "len" && isRefField(call.Call.Args[0], name)
	}
	ff := facts.FlowFuncs{
		Edge: func(b *ssa.BasicBlock, idx int, t facts.Tokens) bool {
			for _, cd := range facts.EdgeConds(b, idx) {
				if x, op, y, ok := facts.Cmp(cd); ok {
					k, isK := facts.ConstInt(y)
					for _, f := range []string{"Tag", "Digest"} {
						if lenOfField(x, f) && isK && k == 0 {
							if op == token.LEQ || op == token.EQL {
								t["empty:"+f] = true
							}
						}
						if isRefField(x, f) {
							if s, isS := facts.ConstString(y); isS && s == "" && op == token.EQL {
								t["empty:"+f] = true
							}
						}
					}
					if lenOfField(x, "Repository") && isK && (op == token.LEQ && k <= 255 || op == token.LSS && k <= 256) {
						t["repoLen"] = true
					}
				}
				if x, isNil, ok := facts.NilCheck(cd); ok && isNil {
					if call, isCall := facts.Resolve(x).(*ssa.Call); isCall {
						if call.Call.StaticCallee() == tagCheck && isRefField(call.Call.Args[0], "Tag") {
							t["ok:Tag"] = true
						}
						if strings.HasSuffix(facts.CalleeName(&call.Call), "go-digest.Digest).Validate") && isRefField(call.Call.Args[0], "Digest") {
							t["ok:Digest"] = true
						}
					}
				}
			}
			return true
		},
	}
	// helpers the parsing was split into (anything of the package handling a Reference) are followed
	facts.NewInliner(&ff, func(h *ssa.Function) bool {
		if h.Pkg != pr.Pkg || h == tagCheck {
			return false
		}
		mentions := func(t *types.Tuple) bool {
			for i := 0; i < t.Len(); i++ {
				if strings.HasSuffix(strings.TrimPrefix(t.At(i).Type().String(), "*"), "ociref.Reference") {
					return true
				}
			}
			return false
		}
		if mentions(h.Signature.Params()) || mentions(h.Signature.Results()) {
			c.Analysed(facts.FuncName(h))
			return true
		}
		return false
	})
	flow := facts.PathFlow(pr, ff)
	n := 0
	for _, r := range returnsOf(pr) {
		if !facts.RetErrIsNil(r) {
			continue
		}
		n++
		for _, f := range []string{"Tag", "Digest"} {
			ok := facts.AllAt(ff, flow, r, func(t facts.Tokens) bool { return t["empty:"+f] || t["ok:"+f] })
			c.Check(ok, "C17.R3", "ParseRelative/"+f+"-checked", r.Pos(), f+" is empty or was validated on every path to success", "ParseRelative succeeds on a path where a non-empty "+strings.ToLower(f)+" was not validated (e.g. a reference carrying both a tag and a malformed digest): the parsed parts do not satisfy their own predicates")
		}
		ok := facts.AllAt(ff, flow, r, func(t facts.Tokens) bool { return t["repoLen"] })
		c.Check(ok, "C17.R3", "ParseRelative/repository-length", r.Pos(), "repository length is checked on every path to success", "ParseRelative succeeds on a path where the repository length limit was not checked")
	}
	if n == 0 {
		c.Fail("C17.R3", "ParseRelative/success", pr.Pos(), "ParseRelative has no success return")
	}
	// the tag check enforces the 128-byte limit
	limit := false
	for _, r := range returnsOf(tagCheck) {
		if facts.RetErrIsNil(r) {
			continue
		}
		for _, cd := range facts.CondsAt(r.Block()) {
			if x, op, y, ok := facts.Cmp(cd); ok && op == token.GTR {
				if call, isCall := x.(*ssa.Call); isCall {
					if bi, isB := call.Call.Value.(*ssa.Builtin); isB && bi.Name() == "len" && argIsParam(call.Call.Args[0], tagCheck, 0) {
						if k, isK := facts.ConstInt(y); isK && k == 128 {
							limit = true
						}
					}
				}
			}
		}
	}
	c.Check(limit, "C17.R3", "checkTag/128-byte-limit", tagCheck.Pos(), "tags longer than 128 bytes are rejected", "the tag check does not reject tags longer than 128 bytes")
}

func c17Wrappers(c *core.Ctx) {
	for _, w := range [][2]string{{"IsValidRepoName", "IsValidRepository"}, {"IsValidTag", "IsValidTag"}, {"IsValidDigest", "IsValidDigest"}} {
		fn := c.P.Func("", w[0])
		if fn == nil {
			continue // a removed deprecated wrapper is not a violation
		}
		c.Analysed("ociregistry." + w[0])
		ok := false
		for _, r := range returnsOf(fn) {
			if call, isCall := facts.RetVal(r, 0).(*ssa.Call); isCall && strings.HasSuffix(facts.CalleeName(&call.Call), "ociref."+w[1]) && argIsParam(call.Call.Args[0], fn, 0) {
				ok = true
			} else {
				ok = false
				break
			}
		}
		c.Check(ok, "C17.R4", "wrapper/"+w[0], fn.Pos(), "delegates to ociref."+w[1]+" unchanged", "the deprecated ociregistry."+w[0]+" does not simply delegate to ociref."+w[1]+": the root package and the router would disagree on validity")
	}
}
