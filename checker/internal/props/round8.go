package props

import (
	"go/token"
	"go/types"

	"golang.org/x/tools/go/ssa"

	"ocivet/internal/core"
	"ocivet/internal/facts"
)

// Rules added after the eighth round of seeded changes (seeded/*-O, *-P).

// deniedOnlyForExistingContent (C02.R8; seed C02-P): a delete of something
// that is not there answers *_UNKNOWN; the refusal in immutable-tags mode
// (DENIED) is decided only after the content was found.
func deniedOnlyForExistingContent(c *core.Ctx, rule string) {
	reg := c.P.NamedType("ocimem", "Registry")
	if reg == nil {
		return
	}
	n := 0
	for _, name := range []string{"DeleteBlob", "DeleteManifest"} {
		fn := declaredMethod(c, types.NewPointer(reg), name)
		if fn == nil {
			continue
		}
		field := "blobs"
		if name == "DeleteManifest" {
			field = "manifests"
		}
		for _, f := range withHelpers(fn) {
			if f.Parent() != nil {
				continue
			}
			for _, r := range returnsOf(f) {
				if len(r.Results) == 0 || facts.RetErrIsNil(r) {
					continue
				}
				ev := facts.RetVal(r, len(r.Results)-1)
				if !carriesCode(ev, "ErrDenied", 0) {
					continue
				}
				if f != fn {
					// a helper that decides the refusal is judged where it is called
					continue
				}
				n++
				found := false
				forEachCondImplied(r.Block(), 2, func(cd facts.Cond) {
					// lookup helper returned no error
					if x, isNil, ok := facts.NilCheck(cd); ok && isNil {
						var call *ssa.Call
						switch y := facts.Resolve(x).(type) {
						case *ssa.Call:
							call = y
						case *ssa.Extract:
							call, _ = y.Tuple.(*ssa.Call)
						}
						if call != nil && call.Call.StaticCallee() != nil && lookupHelperFor(call.Call.StaticCallee(), field) {
							found = true
						}
					}
					// or the map was consulted directly: comma-ok true / entry != nil
					if ex, ok := cd.V.(*ssa.Extract); ok && ex.Index == 1 && cd.Pos {
						if lk, ok := ex.Tuple.(*ssa.Lookup); ok && lk.CommaOk {
							if fld, ok := memMapField(lk.X); ok && fld == field {
								found = true
							}
						}
					}
					if x, isNil, ok := facts.NilCheck(cd); ok && !isNil {
						if lk, ok := facts.Resolve(x).(*ssa.Lookup); ok {
							if fld, ok := memMapField(lk.X); ok && fld == field {
								found = true
							}
						}
					}
				})
				c.Check(found, rule, name+"/denied-only-for-existing-content", r.Pos(), "the refusal is issued only after the content was found", name+" can refuse with DENIED (content reachable from a tag) before it has established that the digest names stored content: deleting something that is not there is answered DENIED instead of *_UNKNOWN in immutable-tags mode")
			}
		}
	}
	if n == 0 {
		c.Note(rule + ": no DENIED return found in DeleteBlob / DeleteManifest themselves")
	}
	// the same obligation seen from the query that decides the refusal: wherever the
	// deleters (or a helper they share) ask whether the digest is reachable from a
	// tag, the lookup of the digest has already succeeded in that calling context
	refers := findRefersTo(c)
	if refers == nil {
		return
	}
	isLookupOK := func(cd facts.Cond) bool {
		if x, isNil, ok := facts.NilCheck(cd); ok && isNil {
			var call *ssa.Call
			switch y := facts.Resolve(x).(type) {
			case *ssa.Call:
				call = y
			case *ssa.Extract:
				call, _ = y.Tuple.(*ssa.Call)
			}
			if call != nil && call.Call.StaticCallee() != nil && (lookupHelperFor(call.Call.StaticCallee(), "blobs") || lookupHelperFor(call.Call.StaticCallee(), "manifests")) {
				return true
			}
		}
		if ex, ok := cd.V.(*ssa.Extract); ok && ex.Index == 1 && cd.Pos {
			if lk, ok := ex.Tuple.(*ssa.Lookup); ok && lk.CommaOk {
				if fld, ok := memMapField(lk.X); ok && (fld == "blobs" || fld == "manifests") {
					return true
				}
			}
		}
		if x, isNil, ok := facts.NilCheck(cd); ok && !isNil {
			if lk, ok := facts.Resolve(x).(*ssa.Lookup); ok {
				if fld, ok := memMapField(lk.X); ok && (fld == "blobs" || fld == "manifests") {
					return true
				}
			}
		}
		return false
	}
	seenSite := map[ssa.CallInstruction]bool{}
	for _, name := range []string{"DeleteBlob", "DeleteManifest"} {
		fn := declaredMethod(c, types.NewPointer(reg), name)
		if fn == nil {
			continue
		}
		for _, f := range withHelpers(fn) {
			if f == refers || outermost(f) == refers {
				continue
			}
			for _, ci := range facts.CallsIn(f) {
				if ci.Common().StaticCallee() != refers || seenSite[ci] {
					continue
				}
				seenSite[ci] = true
				good := true
				for _, cx := range contextsOf(ci.Block(), 2) {
					found := false
					for _, cd := range cx.Conds {
						if isLookupOK(cd) {
							found = true
						}
					}
					if !found {
						good = false
					}
				}
				c.Check(good, rule, fnName(outermost(f))+"/reachability-asked-after-lookup", ci.Pos(), "the reachability query runs only after the digest was found", "the deleters ask whether the digest is reachable from a tag (the test that leads to DENIED) in a calling context where the digest has not been looked up successfully: deleting something that is not there can be answered DENIED instead of *_UNKNOWN in immutable-tags mode")
			}
		}
	}
}

// successfulMethodPassesThrough (C03.R16 / C04.R10; seed C03-O): every
// successful return of (*T).method lies behind an assignment to the receiver's
// field `field` — blobWriter.Write counts what it accepted on every path.
func successfulMethodPassesThrough(c *core.Ctx, rule, rel, typeName, method, field string) {
	T := c.P.NamedType(rel, typeName)
	if T == nil {
		return
	}
	m := declaredMethod(c, types.NewPointer(T), method)
	if m == nil || len(m.Blocks) == 0 {
		return
	}
	recv := recvOf(m)
	var storesAlways func(h *ssa.Function, depth int) bool
	isFieldStore := func(in ssa.Instruction) bool {
		if ci, isCall := in.(ssa.CallInstruction); isCall {
			// a private method of the same receiver that updates the field on every path
			h := ci.Common().StaticCallee()
			if h != nil && h.Blocks != nil && h != m && h.Signature.Recv() != nil && len(ci.Common().Args) > 0 &&
				facts.Term(facts.Resolve(ci.Common().Args[0])) == facts.Term(recv) && len(privateCallSites(h)) > 0 {
				return storesAlways(h, 2)
			}
			return false
		}
		st, ok := in.(*ssa.Store)
		if !ok {
			return false
		}
		base, fld, isF := facts.FieldOf(st.Addr)
		return isF && fld == field && facts.Term(facts.Resolve(base)) == facts.Term(recv)
	}
	storesAlways = func(h *ssa.Function, depth int) bool {
		if depth <= 0 || len(h.Blocks) == 0 {
			return false
		}
		hrecv := recvOf(h)
		isStore := func(in ssa.Instruction) bool {
			st, ok := in.(*ssa.Store)
			if !ok {
				return false
			}
			base, fld, isF := facts.FieldOf(st.Addr)
			return isF && fld == field && hrecv != nil && facts.Term(facts.Resolve(base)) == facts.Term(hrecv)
		}
		_, free := facts.ReachesFrom(h.Blocks[0], 0, facts.IsExit, isStore, nil)
		return !free
	}
	isOKRet := func(in ssa.Instruction) bool {
		r, ok := in.(*ssa.Return)
		return ok && facts.RetErrIsNil(r)
	}
	at, free := facts.ReachesFrom(m.Blocks[0], 0, isOKRet, isFieldStore, nil)
	pos := m.Pos()
	if free && at != nil {
		pos = at.Pos()
	}
	c.Check(!free, rule, typeName+"."+method+"/success-updates-"+field, pos, "every successful return is behind an update of "+field, typeName+"."+method+" can report success on a path that does not update "+field+" (e.g. an early return after the data was flushed): Size() and the size of the committed descriptor come out too small although the bytes went out")
}

// constructorDeduplicatesInput (C09.R11; seed C09-O): NewScope removes
// duplicates from its (sorted) input before it builds the compact form, or
// every entry it appends to `repositories` is compared with the previous one.
func constructorDeduplicatesInput(c *core.Ctx, rule string) {
	ns := c.P.Func("ociauth", "NewScope")
	if ns == nil {
		return
	}
	compacts := false
	for _, f := range withHelpers(ns) {
		for _, ci := range facts.CallsIn(f) {
			n := facts.CalleeName(ci.Common())
			if n == "slices.Compact" || n == "slices.CompactFunc" {
				if _, isP := facts.ResolveFree(resolveUp(rootSlice(ci.Common().Args[0]), ns, 2)).(*ssa.Parameter); isP {
					compacts = true
				}
			}
		}
	}
	if compacts {
		c.OK(rule, "NewScope/input-deduplicated", ns.Pos(), "the input is compacted before the scope is built")
		return
	}
	bad := 0
	for _, f := range withHelpers(ns) {
		for _, ci := range facts.CallsIn(f) {
			bi, ok := ci.Common().Value.(*ssa.Builtin)
			if !ok || bi.Name() != "append" {
				continue
			}
			if _, fld, isF := facts.FieldOf(facts.Resolve(ci.Common().Args[0])); !isF || fld != "repositories" {
				continue
			}
			guarded := false
			for _, cx := range contextsOf(ci.Block(), 2) {
				for _, cd := range cx.Conds {
					x, op, y, okc := facts.Cmp(cd)
					if !okc || (op != token.EQL && op != token.NEQ) {
						continue
					}
					for _, side := range []ssa.Value{x, y} {
						if sliceHas(side, func(v ssa.Value) bool {
							_, fld, isF := facts.FieldOf(v)
							return isF && fld == "repositories"
						}) {
							guarded = true
						}
					}
				}
			}
			if !guarded {
				bad++
				c.Fail(rule, "NewScope/input-deduplicated", ci.Pos(), "NewScope neither removes duplicates from its input nor compares an entry with the previous one before appending it to repositories: a scope given twice (registry:catalog:* in a challenge and in the request) is stored twice, so Len over-counts, iteration repeats it, and a union that adds nothing no longer returns its receiver")
			}
		}
	}
	if bad == 0 {
		c.OK(rule, "NewScope/input-deduplicated", ns.Pos(), "every append to repositories is compared with the previous entry")
	}
}

func rootSlice(v ssa.Value) ssa.Value {
	for d := 0; d < 4; d++ {
		switch x := facts.Resolve(v).(type) {
		case *ssa.Slice:
			v = x.X
		case *ssa.Call:
			n := facts.CalleeName(&x.Call)
			if n == "slices.Compact" || n == "slices.CompactFunc" {
				v = x.Call.Args[0]
				continue
			}
			return v
		default:
			return v
		}
	}
	return v
}

// iterYieldsInOrderThroughTheWrapper (C09.R12; seed C09-P): Scope.Iter hands
// the entries of the compact part (catalog, repository actions) to the
// consumer only through the wrapper that first emits the pending `others`;
// the raw consumer is called directly only with elements of `others`.
func iterYieldsInOrderThroughTheWrapper(c *core.Ctx, rule string) {
	sc := c.P.NamedType("ociauth", "Scope")
	if sc == nil {
		return
	}
	it := declaredMethod(c, sc, "Iter")
	if it == nil {
		return
	}
	n := 0
	for _, lit := range facts.WithAnon(it) {
		if lit.Parent() != it || len(lit.Params) != 1 {
			continue
		}
		raw := lit.Params[0]
		if _, isSig := raw.Type().Underlying().(*types.Signature); !isSig {
			continue
		}
		// can v be the raw consumer? (directly, through a phi or a local cell)
		var mayBeRaw func(v ssa.Value, seen map[ssa.Value]bool) bool
		mayBeRaw = func(v ssa.Value, seen map[ssa.Value]bool) bool {
			if seen[v] {
				return false
			}
			seen[v] = true
			switch x := v.(type) {
			case *ssa.Parameter:
				return x == raw
			case *ssa.Phi:
				for _, e := range x.Edges {
					if mayBeRaw(e, seen) {
						return true
					}
				}
			case *ssa.UnOp:
				if al, ok := x.X.(*ssa.Alloc); ok && x.Op == token.MUL {
					for _, st := range facts.StoresTo(al) {
						if mayBeRaw(st.Val, seen) {
							return true
						}
					}
				}
			case *ssa.ChangeType:
				return mayBeRaw(x.X, seen)
			}
			return false
		}
		// is v an element of (a suffix of) the `others` field on every path?
		var inOthers func(v ssa.Value, elem bool, seen map[ssa.Value]bool) bool
		inOthers = func(v ssa.Value, elem bool, seen map[ssa.Value]bool) bool {
			v = facts.Strip(v)
			if seen[v] {
				return true
			}
			seen[v] = true
			if _, fld, isF := facts.FieldOf(v); isF && fld == "others" {
				return !elem
			}
			switch x := v.(type) {
			case *ssa.UnOp:
				if x.Op != token.MUL {
					return false
				}
				if ia, ok := x.X.(*ssa.IndexAddr); ok && elem {
					return inOthers(ia.X, false, seen)
				}
				if _, fld, isF := facts.FieldOf(x.X); isF && fld == "others" {
					return !elem
				}
				var cell ssa.Value
				switch a := x.X.(type) {
				case *ssa.Alloc:
					cell = a
				case *ssa.FreeVar:
					cell = facts.ResolveFree(a)
				}
				if cell == nil {
					return false
				}
				sts := facts.StoresTo(cell)
				if len(sts) == 0 {
					return false
				}
				for _, st := range sts {
					if !inOthers(st.Val, elem, seen) {
						return false
					}
				}
				return true
			case *ssa.Slice:
				return !elem && inOthers(x.X, false, seen)
			case *ssa.Phi:
				for _, e := range x.Edges {
					if !inOthers(e, elem, seen) {
						return false
					}
				}
				return true
			case *ssa.Extract:
				// range over a slice compiles to index loads; a Next over a string/map does not apply
				return false
			}
			return false
		}
		fromOthers := func(v ssa.Value) bool { return inOthers(v, true, map[ssa.Value]bool{}) }
		for _, ci := range facts.CallsIn(lit) {
			cc := ci.Common()
			if cc.IsInvoke() || cc.StaticCallee() != nil || len(cc.Args) != 1 {
				continue
			}
			if !mayBeRaw(cc.Value, map[ssa.Value]bool{}) {
				continue
			}
			n++
			c.Check(fromOthers(cc.Args[0]), rule, "Scope.Iter/ordered-through-wrapper", ci.Pos(), "the raw consumer is called directly only with elements of others", "Scope.Iter can hand an entry of the compact part (a repository action or the catalog scope) straight to the consumer, bypassing the wrapper that first emits the pending unknown scopes: an unknown action that sorts between two known ones comes out after them, so iteration is not ascending and the printed scope does not parse back equal")
		}
	}
	if n == 0 {
		c.Note(rule + ": Scope.Iter never calls its consumer directly")
	}
}

// reachabilityStopsWhenFound (C14.R7; seed C14-O): in the reachability walk
// (refersTo), once a recursive call has answered "found" the iteration stops:
// the callback continues (returns true) only where the answer is known false,
// so a later sibling cannot overwrite a positive answer.
func reachabilityStopsWhenFound(c *core.Ctx, rule string) {
	refers := findRefersTo(c)
	if refers == nil {
		return
	}
	reachabilityStopsWhenFoundIn(c, rule, refers)
}

// findRefersTo: ocimem's reachability query, by shape:
// func(*repository, iterator, digest) (bool, error).
func findRefersTo(c *core.Ctx) *ssa.Function {
	var refers *ssa.Function
	for _, f := range c.P.ModuleFunctions("ocimem") {
		s := f.Signature
		if f.Parent() == nil && s.Recv() == nil && s.Params().Len() == 3 && s.Results().Len() == 2 {
			if b, ok := s.Results().At(0).Type().Underlying().(*types.Basic); ok && b.Kind() == types.Bool {
				if p, ok := s.Params().At(0).Type().(*types.Pointer); ok && isNamed(p.Elem(), "ociregistry/ocimem", "repository") {
					refers = f
				}
			}
		}
	}
	return refers
}

func reachabilityStopsWhenFoundIn(c *core.Ctx, rule string, refers *ssa.Function) {
	n := 0
	for _, lit := range facts.WithAnon(refers) {
		if lit == refers {
			continue
		}
		for _, b := range lit.Blocks {
			for _, in := range b.Instrs {
				st, ok := in.(*ssa.Store)
				if !ok || st.Val.Type().String() != "bool" {
					continue
				}
				ex, isEx := facts.Resolve(st.Val).(*ssa.Extract)
				if !isEx || ex.Index != 0 {
					continue
				}
				call, isCall := ex.Tuple.(*ssa.Call)
				if !isCall || call.Call.StaticCallee() != refers {
					continue
				}
				n++
				// every `return true` reachable from here knows the answer was false
				bad := false
				var pos token.Pos
				for _, r := range returnsOf(lit) {
					if len(r.Results) != 1 {
						continue
					}
					cst, isC := facts.RetVal(r, 0).(*ssa.Const)
					if !isC || cst.Value == nil || cst.Value.ExactString() != "true" {
						continue
					}
					isRet := func(x ssa.Instruction) bool { return x == ssa.Instruction(r) }
					// paths from the assignment on which the answer is not known to be false
					isAnswer := func(v ssa.Value) bool {
						v = facts.Strip(v)
						if v == ssa.Value(ex) {
							return true
						}
						u, ok := v.(*ssa.UnOp)
						return ok && u.Op == token.MUL && u.X == st.Addr
					}
					notKnownFalse := func(b *ssa.BasicBlock, idx int) bool {
						for _, cd := range facts.EdgeConds(b, idx) {
							if !cd.Pos && isAnswer(cd.V) {
								return false
							}
						}
						return true
					}
					restored := func(x ssa.Instruction) bool {
						s2, ok := x.(*ssa.Store)
						return ok && s2 != st && s2.Addr == st.Addr
					}
					if at, reach := facts.ReachesWithout(st, isRet, restored, notKnownFalse); reach {
						bad = true
						pos = at.Pos()
					}
					_ = isRet
				}
				if bad {
					c.Fail(rule, "refersTo/stops-when-found", pos, "after a recursive reachability query the walk can continue although the answer was \"found\": the next sibling's answer overwrites it, so content reachable through a non-last child of a tagged index is reported unreferenced and can be deleted in immutable-tags mode")
				} else {
					c.OK(rule, "refersTo/stops-when-found", st.Pos(), "the walk continues only where the recursive answer is known false")
				}
			}
		}
	}
	if n == 0 {
		c.Note(rule + ": the reachability walk does not assign the result of a recursive query inside a callback")
	}
}

// helperRunnerIsStateless (C19.R7; seed C19-P): the function returned by the
// credential-helper runner constructor uses variables of the creating call
// only by reading them: no buffer, lock or counter is shared between lookups.
func helperRunnerIsStateless(c *core.Ctx, rule string) {
	n := 0
	for _, fn := range c.P.ModuleFunctions("ociauth") {
		if fn.Parent() != nil || fn.Object() == nil || !fn.Object().Exported() {
			continue
		}
		if fn.Name() != "ExecHelper" && fn.Name() != "ExecHelperWithEnv" {
			continue
		}
		for _, lit := range facts.WithAnon(fn) {
			if lit.Parent() != fn {
				continue
			}
			n++
			bad := false
			for _, fv := range lit.FreeVars {
				if fv.Referrers() == nil {
					continue
				}
				// a lock or a once carries no data from one lookup to the next
				if pt, ok := fv.Type().(*types.Pointer); ok {
					if nt, ok := pt.Elem().(*types.Named); ok && nt.Obj().Pkg() != nil && nt.Obj().Pkg().Path() == "sync" {
						continue
					}
				}
				for _, ref := range *fv.Referrers() {
					switch x := ref.(type) {
					case *ssa.UnOp:
						// a plain load of the captured variable
						if x.Op == token.MUL {
							continue
						}
					case *ssa.DebugRef:
						continue
					}
					bad = true
					c.Fail(rule, fnName(fn)+"/runner-stateless", ref.Pos(), "the function returned by "+fn.Name()+" does more than read the variable "+fv.Name()+" of the creating call (it is written, locked, or its address is handed on): state is shared between lookups, so what one lookup leaves behind (the output of a helper that failed) changes the result of the next")
				}
			}
			if !bad {
				c.OK(rule, fnName(fn)+"/runner-stateless", lit.Pos(), "captured variables are only read")
			}
		}
	}
	if n == 0 {
		c.Note(rule + ": no credential-helper runner constructor found")
	}
}
