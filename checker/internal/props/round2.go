package props

import (
	"go/token"
	"go/types"
	"strings"

	"golang.org/x/tools/go/ssa"

	"ocivet/internal/core"
	"ocivet/internal/facts"
)

// Rules added after the second round of seeded changes (DESIGN §12). Each is a
// structural necessary condition of the property it is filed under; the seeded
// change that motivated it is named in the comment.

// ---------------------------------------------------------------- server: range requests

// serverRangeDispatch (C01.R6, C03.R9; seeds C01-D): the handler for blob GET
// chooses between the whole-blob and the ranged backend call by the
// UNMODIFIED result of parsing the Range header, and hands the backend the
// start/end of that parsed range.
func serverRangeDispatch(c *core.Ctx, rule string) {
	m := loadServerModel(c)
	kv, ok := m.Kinds["ReqBlobGet"]
	h := m.Handlers[kv]
	if !ok || h == nil {
		c.Fail(rule, "anchor/handleBlobGet", 0, "handler for ReqBlobGet not found")
		return
	}
	c.Analysed(facts.FuncName(h))
	fns := withHelpers(h)
	// the parse: a call one of whose arguments is Header.Get("Range")
	var parsed ssa.Value
	for _, f := range fns {
		for _, ci := range facts.CallsIn(f) {
			call, isCall := ci.(*ssa.Call)
			if !isCall || call.Call.StaticCallee() == nil || call.Call.StaticCallee().Pkg != h.Pkg {
				continue
			}
			for _, a := range call.Call.Args {
				if hc, ok := facts.Resolve(a).(*ssa.Call); ok && facts.CalleeName(&hc.Call) == "(net/http.Header).Get" {
					if s, isS := facts.ConstString(hc.Call.Args[1]); isS && s == "Range" {
						for _, ref := range *call.Referrers() {
							if ex, isEx := ref.(*ssa.Extract); isEx && ex.Index == 0 {
								parsed = ex
							}
						}
						if call.Call.Signature().Results().Len() == 1 {
							parsed = call
						}
					}
				}
			}
		}
	}
	if parsed == nil {
		c.Fail(rule, "handleBlobGet/range-parse", h.Pos(), "the blob GET handler does not parse the Range header")
		return
	}
	isParsed := func(v ssa.Value) bool { return facts.Resolve(resolveUp(v, h, 2)) == parsed }
	n := 0
	for _, bc := range backendCallsDeep(h) {
		switch bc.Method {
		case "GetBlob":
			n++
			ok := false
			for _, cd := range condsAtUp(bc.Call.Block(), 2) {
				x, op, y, isCmp := facts.Cmp(cd)
				if !isCmp || op != token.EQL {
					continue
				}
				if k, isK := facts.ConstInt(y); !isK || k != 0 {
					continue
				}
				if lc, isCall := facts.Resolve(x).(*ssa.Call); isCall {
					if bi, isB := lc.Call.Value.(*ssa.Builtin); isB && bi.Name() == "len" && isParsed(lc.Call.Args[0]) {
						ok = true
					}
				}
			}
			c.Check(ok, rule, "handleBlobGet/whole-blob-only-without-range", bc.Call.Pos(), "the whole blob is served only when the parsed Range header is empty", "the whole-blob backend call is made on a path where the parsed Range header itself is not known to be empty (the range list was altered, or the test is on something else): a ranged request can be answered with the whole blob, so a range read no longer yields exactly the requested slice")
		case "GetBlobRange":
			n++
			args := bc.Call.Common().Args
			ok := len(args) >= 5
			fromParsedElem := func(a ssa.Value) bool {
				if sliceHas(a, isParsed) {
					return true
				}
				base, _, isF := facts.FieldOf(facts.Resolve(a))
				if !isF {
					return false
				}
				// rng := ranges[0]; rng.start
				for d := 0; d < 3; d++ {
					switch x := base.(type) {
					case *ssa.Alloc:
						for _, st := range facts.StoresTo(x) {
							// a struct parameter of a helper stands for what its callers pass
							if u, isU := facts.ResolveFree(resolveUp(st.Val, h, 2)).(*ssa.UnOp); isU {
								if ia, isIA := u.X.(*ssa.IndexAddr); isIA && isParsed(ia.X) {
									return true
								}
							}
						}
						return false
					case *ssa.UnOp:
						if ia, isIA := x.X.(*ssa.IndexAddr); isIA {
							return isParsed(ia.X)
						}
						base = x.X
					case *ssa.IndexAddr:
						return isParsed(x.X)
					default:
						return false
					}
				}
				return false
			}
			for _, a := range args[len(args)-2:] {
				if !fromParsedElem(a) {
					ok = false
				}
			}
			c.Check(ok, rule, "handleBlobGet/range-args-from-header", bc.Call.Pos(), "the backend receives the start and end of the parsed range", "the offsets handed to the backend's GetBlobRange are not taken from the parsed Range header")
		}
	}
	if n < 2 {
		c.Fail(rule, "handleBlobGet/instance-floor", h.Pos(), "the blob GET handler no longer has both a whole-blob and a ranged backend call")
	}
}

// serverPostSuccessRejections (C03.R10; seed C03-D): once the backend has
// accepted a call, the handler may add a refusal of its own only where the
// reviewed list says so, and with the reviewed comparison — otherwise a call
// that succeeds on the registry directly fails through client+server.
var reviewedPostSuccess = map[string][]string{
	// handler kind -> accepted refusal conditions, as "<lhs> <op> <rhs>" over field names
	"ReqBlobGet": {"start > Size", "end < start"},
}

func serverPostSuccessRejections(c *core.Ctx, rule string) {
	m := loadServerModel(c)
	n := 0
	for kname, kv := range m.Kinds {
		h := m.Handlers[kv]
		if h == nil {
			continue
		}
		for _, f := range withHelpers(h) {
			if f.Parent() != nil {
				continue
			}
			bcs := backendCalls(f)
			for _, r := range returnsOf(f) {
				if len(r.Results) == 0 || facts.RetErrIsNil(r) {
					continue
				}
				ev := facts.RetVal(r, len(r.Results)-1)
				// forwarding an error obtained from somewhere is not a refusal of the handler's own
				if _, isCall := ev.(*ssa.Call); !isCall {
					continue
				}
				// dominated by a backend call that succeeded?
				var after *backendCall
				for i := range bcs {
					bc := bcs[i]
					call, isCall := bc.Call.(*ssa.Call)
					if !isCall || bc.In != f || !facts.Dominates(call, r) {
						continue
					}
					for _, cd := range facts.CondsAt(r.Block()) {
						if x, isNil, ok := facts.NilCheck(cd); ok && isNil {
							if ex, isEx := facts.Resolve(x).(*ssa.Extract); isEx && ex.Tuple == ssa.Value(call) {
								after = &bcs[i]
							}
						}
					}
				}
				if after == nil {
					continue
				}
				// only refusals that depend on what the backend returned matter (others
				// could have been made before the call)
				desc := innermostCmp(r.Block())
				if desc == "" {
					continue
				}
				n++
				okList := false
				for _, want := range reviewedPostSuccess[kname] {
					if want == desc {
						okList = true
					}
				}
				c.Check(okList, rule, kname+"/post-success-refusal/"+desc, r.Pos(), "a reviewed refusal after the backend accepted the call", "after the backend's "+after.Method+" succeeded the handler refuses the request on its own under `"+desc+"`, which is not one of the reviewed post-success refusals ("+strings.Join(reviewedPostSuccess[kname], "; ")+"): a call that succeeds directly on the registry fails through client+server")
			}
		}
	}
	if n < 2 {
		c.Fail(rule, "post-success-refusals/instance-floor", 0, sprintf("only %d post-success refusals found (the blob range handler has two)", n))
	}
}

// innermostCmp renders the innermost ordering comparison guarding block b as
// "<field> <op> <field>" with the operator normalised so that the left operand
// is the one written first alphabetically-insensitively as start/end before Size.
func innermostCmp(b *ssa.BasicBlock) string {
	conds := facts.CondsAt(b)
	for i := 0; i < len(conds); i++ {
		cd := conds[i]
		x, op, y, ok := facts.Cmp(cd)
		if !ok {
			continue
		}
		switch op {
		case token.LSS, token.LEQ, token.GTR, token.GEQ:
		default:
			continue
		}
		fx, fy := lastField(x), lastField(y)
		if fx == "" || fy == "" {
			continue
		}
		// canonical order: start/end on the left of Size; end on the left of start
		rank := map[string]int{"end": 0, "start": 1, "Size": 2}
		rx, okx := rank[fx]
		ry, oky := rank[fy]
		if okx && oky && rx > ry {
			fx, fy = fy, fx
			switch op {
			case token.LSS:
				op = token.GTR
			case token.LEQ:
				op = token.GEQ
			case token.GTR:
				op = token.LSS
			case token.GEQ:
				op = token.LEQ
			}
		}
		return fx + " " + op.String() + " " + fy
	}
	return ""
}

func lastField(v ssa.Value) string {
	v = facts.Resolve(v)
	if _, fld, ok := facts.FieldOf(v); ok {
		return fld
	}
	return ""
}

// ---------------------------------------------------------------- ocimem: validate before binding

// memManifestCheckedBeforeStore (C02.R2b; seed C02-D): in PushManifest every
// store into the repository's manifests or tags map is preceded, on every
// path, by a successful checkManifest (the reference-existence check).
func memManifestCheckedBeforeStore(c *core.Ctx, rule string) {
	reg := c.P.NamedType("ocimem", "Registry")
	if reg == nil {
		return
	}
	ptr := types.NewPointer(reg)
	pm := declaredMethod(c, ptr, "PushManifest")
	cm := c.P.Method(ptr, "checkManifest")
	if pm == nil || cm == nil {
		c.Fail(rule, "anchor/PushManifest", 0, "PushManifest / checkManifest not found")
		return
	}
	c.Analysed(facts.FuncName(pm))
	n := 0
	for _, f := range withHelpers(pm) {
		if f == cm {
			continue
		}
		for _, b := range f.Blocks {
			for _, in := range b.Instrs {
				mu, ok := in.(*ssa.MapUpdate)
				if !ok {
					continue
				}
				fld, isMem := memMapField(mu.Map)
				if !isMem || (fld != "tags" && fld != "manifests") {
					continue
				}
				n++
				okChecked, anyCtx := true, false
				forEachCallContext(b, 2, func(conds []facts.Cond) {
					anyCtx = true
					found := false
					for _, cd := range conds {
						if x, isNil, isNC := facts.NilCheck(cd); isNC && isNil {
							if ex, isEx := facts.Resolve(x).(*ssa.Extract); isEx {
								if call, isCall := ex.Tuple.(*ssa.Call); isCall && call.Call.StaticCallee() == cm {
									found = true
								}
							}
						}
					}
					if !found {
						okChecked = false
					}
				})
				okChecked = okChecked && anyCtx
				c.Check(okChecked, rule, "PushManifest/"+fld+"-store-after-reference-check", mu.Pos(), "stored only after checkManifest succeeded", "PushManifest binds a "+strings.TrimSuffix(fld, "s")+" on a path where the manifest's references were not checked by checkManifest (e.g. a short cut for content that is already stored): a manifest whose blobs or child manifests were deleted meanwhile is accepted, unlike in the reference model")
			}
		}
	}
	if n < 2 {
		c.Fail(rule, "PushManifest/stores/instance-floor", pm.Pos(), "PushManifest no longer stores both the manifest and the tag")
	}
}

// ---------------------------------------------------------------- ocimem Buffer

// bufferFailedWriteLeavesState (C04.R6; seed C04-D): a Write that is refused
// changes nothing: no field of the Buffer is stored on a path to an error return.
func bufferFailedWriteLeavesState(c *core.Ctx, rule string) {
	buf := c.P.NamedType("ocimem", "Buffer")
	if buf == nil {
		return
	}
	wr := declaredMethod(c, types.NewPointer(buf), "Write")
	if wr == nil {
		c.Fail(rule, "anchor/Buffer.Write", 0, "Buffer.Write not found")
		return
	}
	isFieldStore := func(in ssa.Instruction) bool {
		st, ok := in.(*ssa.Store)
		if !ok {
			return false
		}
		base, _, isF := facts.FieldOf(st.Addr)
		return isF && structName(base.Type()) == "Buffer"
	}
	// Write, and the private Buffer helpers it calls that can refuse (each judged on its own:
	// a helper's refusal is forwarded by its caller)
	fns := []*ssa.Function{wr}
	for h := range reachHelpers(wr, 2) {
		if h != wr && h.Signature.Recv() != nil && structName(h.Signature.Recv().Type()) == "Buffer" {
			if res := h.Signature.Results(); res.Len() > 0 && res.At(res.Len()-1).Type().String() == "error" {
				fns = append(fns, h)
			}
		}
	}
	storesFields := func(h *ssa.Function) bool {
		return helperTouches(h, 2, isFieldStore)
	}
	n := 0
	for _, fn := range fns {
		c.Analysed(facts.FuncName(fn))
		for _, r := range returnsOf(fn) {
			if len(r.Results) == 0 || facts.RetErrIsNil(r) {
				continue
			}
			n++
			ev := facts.RetVal(r, len(r.Results)-1)
			dirty := false
			for _, b := range fn.Blocks {
				for _, in := range b.Instrs {
					isDirty := isFieldStore(in)
					if call, ok := in.(*ssa.Call); ok && !isDirty {
						if h := call.Call.StaticCallee(); h != nil && h.Pkg == fn.Pkg && h.Blocks != nil && storesFields(h) {
							// a helper that assigns fields: harmless for this refusal only if the
							// refusal IS that helper's own error (judged in the helper)
							fwd := false
							switch e := ev.(type) {
							case *ssa.Call:
								fwd = e == call
							case *ssa.Extract:
								fwd = e.Tuple == ssa.Value(call)
							}
							isDirty = !fwd
						}
					}
					if !isDirty {
						continue
					}
					isRet := func(x ssa.Instruction) bool { return x == ssa.Instruction(r) }
					if _, reach := facts.ReachesWithout(in, isRet, nil, nil); reach {
						dirty = true
					}
				}
			}
			key := "Buffer.Write/refusal-leaves-state"
			if fn != wr {
				key += "/in " + fnName(fn)
			}
			c.Check(!dirty, rule, key, r.Pos(), "no Buffer field is assigned on a path to this refusal", "Buffer.Write assigns a field of the upload (buffer contents, start-offset check, committed flag) on a path that then refuses the write: a refused write alters the upload (e.g. it disarms the resume-offset check, so the next write at the wrong offset is appended)")
		}
	}
	if n == 0 {
		c.Fail(rule, "Buffer.Write/refusal-leaves-state", wr.Pos(), "Buffer.Write has no refusing return")
	}
}

// bufferCommitAfterStore (C08.R6; seed C08-C): Commit reports success only
// after the registry's commit function has run and succeeded in this very call.
func bufferCommitAfterStore(c *core.Ctx, rule string) {
	buf := c.P.NamedType("ocimem", "Buffer")
	if buf == nil {
		return
	}
	cm := declaredMethod(c, types.NewPointer(buf), "Commit")
	if cm == nil {
		c.Fail(rule, "anchor/Buffer.Commit", 0, "Buffer.Commit not found")
		return
	}
	c.Analysed(facts.FuncName(cm))
	n := 0
	for _, r := range returnsOf(cm) {
		if !facts.RetErrIsNil(r) {
			continue
		}
		n++
		ok := false
		for _, cd := range facts.CondsAt(r.Block()) {
			if x, isNil, isNC := facts.NilCheck(cd); isNC && isNil {
				if call, isCall := facts.Resolve(x).(*ssa.Call); isCall && call.Call.StaticCallee() == nil {
					if _, fld, isF := facts.FieldOf(facts.Resolve(call.Call.Value)); isF && fld == "commit" {
						ok = true
					}
				}
			}
		}
		c.Check(ok, rule, "Buffer.Commit/success-after-commit-func", r.Pos(), "success only after the commit function returned nil", "Buffer.Commit reports success on a path where the registry's commit function was not run (or its error not checked) in this call: a concurrent second Commit can report success before the blob is stored, so a committed upload is reported missing")
	}
	if n == 0 {
		c.Fail(rule, "Buffer.Commit/success-after-commit-func", cm.Pos(), "Buffer.Commit has no success return")
	}
}

// ---------------------------------------------------------------- client writer

// flushContentLengthIsBodySize (C04.R5b / C03.R8b; seed C04-C): the PATCH/PUT
// request's ContentLength is set explicitly to the number of bytes in the
// body it sends (buffered chunk + new data) before it is used to build the
// Content-Range and to advance `flushed`.
func flushContentLengthIsBodySize(c *core.Ctx, rule string) {
	flush := c.P.Func("ociclient", "flush")
	if flush == nil {
		if bw := c.P.NamedType("ociclient", "blobWriter"); bw != nil {
			flush = c.P.Method(types.NewPointer(bw), "flush")
		}
	}
	if flush == nil {
		c.Fail(rule, "anchor/blobWriter.flush", 0, "blobWriter.flush not found")
		return
	}
	c.Analysed(facts.FuncName(flush))
	isLenOf := func(v ssa.Value, what func(ssa.Value) bool) bool {
		call, ok := facts.Resolve(v).(*ssa.Call)
		if !ok {
			return false
		}
		bi, ok := call.Call.Value.(*ssa.Builtin)
		return ok && bi.Name() == "len" && what(call.Call.Args[0])
	}
	isChunk := func(v ssa.Value) bool { _, fld, ok := facts.FieldOf(facts.Resolve(v)); return ok && fld == "chunk" }
	isBuf := func(v ssa.Value) bool { return argIsParam(v, flush, 1) || argIsParam(resolveUp(v, flush, 2), flush, 1) }
	builder := flushRequestBuilder(flush)
	var setCL ssa.Instruction
	for _, b := range builder.Blocks {
		for _, in := range b.Instrs {
			st, ok := in.(*ssa.Store)
			if !ok {
				continue
			}
			if _, fld, isF := facts.FieldOf(st.Addr); !isF || fld != "ContentLength" {
				continue
			}
			// int64(len(w.chunk) + len(buf))
			v := facts.Resolve(st.Val)
			if cv, isCv := v.(*ssa.Convert); isCv {
				v = facts.Resolve(cv.X)
			}
			if bo, isBo := v.(*ssa.BinOp); isBo && bo.Op == token.ADD {
				if (isLenOf(bo.X, isChunk) && isLenOf(bo.Y, isBuf)) || (isLenOf(bo.Y, isChunk) && isLenOf(bo.X, isBuf)) {
					setCL = st
				}
			}
		}
	}
	okUse := setCL != nil
	if setCL != nil {
		for _, ci := range facts.CallsIn(builder) {
			if strings.HasSuffix(facts.CalleeName(ci.Common()), "ocirequest.RangeString") && !facts.Dominates(setCL, ci) {
				okUse = false
			}
		}
	}
	c.Check(okUse, rule, "flush/content-length-is-body-size", flush.Pos(), "req.ContentLength = len(chunk)+len(buf) before the Content-Range is built", "flush does not set the request's ContentLength to len(w.chunk)+len(buf) before building the Content-Range and advancing `flushed`: for a body that net/http cannot size (the buffered chunk concatenated with new data) the length is 0, the server appends the data anyway, and the next chunk is sent at a stale offset")
}

// ---------------------------------------------------------------- ocirequest: query escaping

// listQueryEscaped (C05.R5; seed C05-D): the start-after cursor reaches the
// request URL only through url.Values (Set + Encode) or url.QueryEscape.
func listQueryEscaped(c *core.Ctx, rule string) {
	n := 0
	for _, fn := range c.P.ModuleFunctions("internal/ocirequest") {
		for _, b := range fn.Blocks {
			for _, in := range b.Instrs {
				u, ok := in.(*ssa.UnOp)
				if !ok || u.Op != token.MUL {
					continue
				}
				base, fld, isF := facts.FieldOf(u)
				if !isF || fld != "ListLast" || structName(base.Type()) != "Request" {
					continue
				}
				usesOf(u, func(user ssa.Instruction, v ssa.Value) {
					key := facts.FuncName(fn) + "/ListLast-sink"
					switch x := user.(type) {
					case ssa.CallInstruction:
						name := facts.CalleeName(x.Common())
						switch name {
						case "(net/url.Values).Set", "(net/url.Values).Add", "net/url.QueryEscape":
							n++
							c.OK(rule, key, x.Pos(), "start-after cursor is query-encoded ("+name+")")
						default:
							if strings.HasPrefix(name, "builtin:") {
								return
							}
							n++
							c.Fail(rule, key, x.Pos(), "the start-after cursor is put into the URL through "+name+", which is not query encoding (url.Values / url.QueryEscape): a cursor containing '&', '+', '#' or '=' reaches the server altered and the listing restarts from the wrong place")
						}
					case *ssa.BinOp:
						if x.Op == token.EQL || x.Op == token.NEQ {
							return
						}
						n++
						c.Fail(rule, key, x.Pos(), "the start-after cursor is concatenated into the URL unescaped")
					case *ssa.Store:
						if _, f2, ok := facts.FieldOf(x.Addr); ok && f2 == "ListLast" {
							return
						}
						if _, isAl := x.Addr.(*ssa.Alloc); isAl {
							return
						}
						// []string{last} as a url.Values element
						if ia, isIA := x.Addr.(*ssa.IndexAddr); isIA {
							if al, isAl := ia.X.(*ssa.Alloc); isAl {
								okForm := false
								for _, ref := range *al.Referrers() {
									if sl, isSl := ref.(*ssa.Slice); isSl {
										for _, r2 := range *sl.Referrers() {
											if mu, isMU := r2.(*ssa.MapUpdate); isMU && strings.HasSuffix(mu.Map.Type().String(), "url.Values") {
												okForm = true
											}
										}
									}
								}
								if okForm {
									n++
									c.OK(rule, key, x.Pos(), "start-after cursor is a url.Values element")
									return
								}
							}
						}
						n++
						c.Fail(rule, key, x.Pos(), "the start-after cursor is stored somewhere other than a url.Values")
					}
				})
			}
		}
	}
	if n == 0 {
		c.Fail(rule, "ListLast/instance-floor", 0, "no use of Request.ListLast found in the request constructor")
	}
}

// ---------------------------------------------------------------- error prefixes

// prefixBuiltOnEveryPath (C07.R6b; seed C07-C): httpError.Error builds the
// status prefix the same way on every path (no status-dependent variant),
// because trimErrorCodePrefix rebuilds it unconditionally.
func prefixBuiltOnEveryPath(c *core.Ctx, rule string) {
	he := c.P.NamedType("", "httpError")
	if he == nil {
		return
	}
	heErr := c.P.Method(types.NewPointer(he), "Error")
	if heErr == nil {
		return
	}
	c.Analysed(facts.FuncName(heErr))
	// the status text must be appended on every path to the return
	emitsText := func(in ssa.Instruction) bool {
		ci, ok := in.(ssa.CallInstruction)
		if !ok {
			return false
		}
		if facts.CalleeName(ci.Common()) == "net/http.StatusText" {
			return true
		}
		if h := ci.Common().StaticCallee(); h != nil && h.Blocks != nil && h.Pkg == heErr.Pkg {
			return helperTouches(h, 2, func(x ssa.Instruction) bool {
				cj, ok := x.(ssa.CallInstruction)
				return ok && facts.CalleeName(cj.Common()) == "net/http.StatusText"
			}) && !hasBranchBefore(h, "net/http.StatusText")
		}
		return false
	}
	bad := false
	var at token.Pos
	if len(heErr.Blocks) > 0 {
		if exit, reach := facts.ReachesFrom(heErr.Blocks[0], 0, facts.IsReturn, emitsText, nil); reach {
			bad = true
			at = exit.Pos()
		}
	}
	// and the text must not merely be tested
	for _, ci := range facts.CallsIn(heErr) {
		if facts.CalleeName(ci.Common()) == "net/http.StatusText" {
			if v := ci.Value(); v != nil {
				for _, ref := range *v.Referrers() {
					if bo, ok := ref.(*ssa.BinOp); ok && (bo.Op == token.EQL || bo.Op == token.NEQ) {
						bad = true
						at = bo.Pos()
					}
				}
			}
		}
	}
	c.Check(!bad, rule, "httpError.Error/status-prefix-unconditional", orPos(at, heErr.Pos()), "`<status> <status text>` is written on every path", "httpError.Error writes its `<status> <status text>` prefix differently depending on the status (a path reaches the return without appending http.StatusText, or the text is tested): trimErrorCodePrefix rebuilds the prefix unconditionally, so for such statuses it no longer matches and the message grows by a prefix per hop")
}

// hasBranchBefore: in h, the call to name is not in the entry block chain
// executed unconditionally (some branch precedes it).
func hasBranchBefore(h *ssa.Function, name string) bool {
	for _, ci := range facts.CallsIn(h) {
		if facts.CalleeName(ci.Common()) != name {
			continue
		}
		if len(facts.CondsAt(ci.Block())) > 0 {
			return true
		}
	}
	return false
}

// serverTagReadIsOneCall (C08.R7; seed C08-D): the server answers a manifest
// GET by tag with ONE backend call (GetTag), so that the registry's own
// atomic tag read is what the client observes; resolving the tag first and
// fetching the manifest by digest afterwards are two critical sections, and a
// tag that always points at an existing manifest can be reported missing.
func serverTagReadIsOneCall(c *core.Ctx, rule string) {
	m := loadServerModel(c)
	kv, ok := m.Kinds["ReqManifestGet"]
	h := m.Handlers[kv]
	if !ok || h == nil {
		c.Fail(rule, "anchor/handleManifestGet", 0, "handler for ReqManifestGet not found")
		return
	}
	c.Analysed(facts.FuncName(h))
	hasGetTag := false
	for _, bc := range backendCallsDeep(h) {
		switch bc.Method {
		case "GetTag":
			hasGetTag = true
			c.OK(rule, "handleManifestGet/tag-read/GetTag", bc.Call.Pos(), "tag reads go through the backend's atomic GetTag")
		case "GetManifest":
		default:
			c.Fail(rule, "handleManifestGet/tag-read/"+bc.Method, bc.Call.Pos(), "the manifest GET handler calls the backend's "+bc.Method+": a tag read served by resolving the tag and then fetching by digest is two critical sections, so a tag moved (and its old manifest deleted) in between is reported missing although it pointed at an existing manifest at every instant")
		}
	}
	if !hasGetTag {
		c.Fail(rule, "handleManifestGet/tag-read/GetTag", h.Pos(), "the manifest GET handler never calls the backend's GetTag")
	}
}

// ---------------------------------------------------------------- ociauth

// iteratorsAreRerunnable (C09.R6; seed C09-D): the function value returned by
// Scope.Iter can be run any number of times with the same outcome: the
// iterator literal does not assign to variables of the enclosing call (a merge
// cursor hoisted out of the literal is consumed by the first run).
func iteratorsAreRerunnable(c *core.Ctx, rule string) {
	sc := c.P.NamedType("ociauth", "Scope")
	if sc == nil {
		return
	}
	it := c.P.Method(sc, "Iter")
	if it == nil {
		c.Fail(rule, "anchor/Scope.Iter", 0, "Scope.Iter not found")
		return
	}
	c.Analysed(facts.FuncName(it))
	n := 0
	for _, r := range returnsOf(it) {
		mc, ok := facts.RetVal(r, 0).(*ssa.MakeClosure)
		if !ok {
			continue
		}
		lit := mc.Fn.(*ssa.Function)
		n++
		// cells of the enclosing call captured by the literal (or by literals nested in it)
		outer := map[ssa.Value]bool{}
		for _, bnd := range mc.Bindings {
			outer[bnd] = true
		}
		bad := token.NoPos
		isBad := false
		for _, f := range facts.WithAnon(lit) {
			for _, b := range f.Blocks {
				for _, in := range b.Instrs {
					st, ok := in.(*ssa.Store)
					if !ok {
						continue
					}
					fv, ok := st.Addr.(*ssa.FreeVar)
					if !ok {
						continue
					}
					// resolve the free variable up to the literal's own bindings
					var cell ssa.Value = fv
					for g := f; g != lit && g != nil; g = g.Parent() {
						bv := facts.Binding(cell.(*ssa.FreeVar))
						if bv == nil {
							break
						}
						cell = bv
						if _, still := cell.(*ssa.FreeVar); !still {
							break
						}
					}
					if cfv, isFV := cell.(*ssa.FreeVar); isFV && cfv.Parent() == lit {
						// a free variable of the iterator literal itself: state of the enclosing call
						bad = st.Pos()
						isBad = true
					}
				}
			}
		}
		c.Check(!isBad, rule, "Scope.Iter/no-state-outside-the-run", orPos(bad, r.Pos()), "the iterator keeps its cursor inside each run", "the iterator returned by Scope.Iter assigns to a variable of the enclosing Iter call: that state is shared by all runs of the returned function, so a second run (or a run after an early stop) does not yield the same sequence")
	}
	if n == 0 {
		c.Fail(rule, "Scope.Iter/no-state-outside-the-run", it.Pos(), "Scope.Iter does not return an iterator literal")
	}
}

// purgeExaminesEveryToken (C10.R1b; seed C10-D): the expiry purge decides
// about every cached token on its own: it is slices.DeleteFunc over the whole
// cache, or a loop whose continuation does not depend on a token's expiry.
func purgeExaminesEveryToken(c *core.Ctx, rule string, purgeFns []*ssa.Function) {
	for _, fn := range purgeFns {
		usesDeleteFunc := false
		for _, ci := range facts.CallsIn(fn) {
			if facts.CalleeName(ci.Common()) == "slices.DeleteFunc" {
				if _, fld, ok := facts.FieldOf(facts.Resolve(ci.Common().Args[0])); ok && fld == "accessTokens" {
					usesDeleteFunc = true
				}
			}
		}
		if usesDeleteFunc {
			c.OK(rule, fnName(fn)+"/every-token-examined", fn.Pos(), "slices.DeleteFunc applies the expiry test to every cached token")
			continue
		}
		// a hand-written loop: no exit may depend on expires
		bad := token.NoPos
		isBad := false
		for _, b := range fn.Blocks {
			iff, ok := b.Instrs[len(b.Instrs)-1].(*ssa.If)
			if !ok {
				continue
			}
			inLoop := false
			for _, s := range b.Succs {
				if reachesBlock(s, b) {
					inLoop = true
				}
			}
			if !inLoop {
				continue
			}
			exits := false
			for _, s := range b.Succs {
				if !reachesBlock(s, b) {
					exits = true
				}
			}
			if !exits {
				continue
			}
			if sliceHas(iff.Cond, func(v ssa.Value) bool {
				_, fld, ok := facts.FieldOf(v)
				return ok && fld == "expires"
			}) {
				isBad = true
				if v, ok := iff.Cond.(ssa.Instruction); ok {
					bad = v.Pos()
				}
			}
		}
		c.Check(!isBad, rule, fnName(fn)+"/every-token-examined", orPos(bad, fn.Pos()), "the purge loop looks at every cached token", "the expiry purge stops at the first token that is still valid (its loop exit depends on a token's expiry): a short-lived token cached after a longer-lived one is never purged and is attached to requests after it has expired")
	}
}

func reachesBlock(from, to *ssa.BasicBlock) bool {
	seen := map[*ssa.BasicBlock]bool{}
	var walk func(b *ssa.BasicBlock) bool
	walk = func(b *ssa.BasicBlock) bool {
		if b == to {
			return true
		}
		if seen[b] {
			return false
		}
		seen[b] = true
		for _, s := range b.Succs {
			if walk(s) {
				return true
			}
		}
		return false
	}
	return walk(from)
}

// challengeSchemesFiltered (C11.R4b; seed C11-C): a parsed WWW-Authenticate
// header becomes "the challenge" of a host only if its scheme is basic or
// bearer — otherwise the configured password is sent as Basic credentials in
// answer to a challenge that never asked for them.
func challengeSchemesFiltered(c *core.Ctx, rule string) {
	var cfr *ssa.Function
	for _, fn := range pkgFuncs(c, "ociauth") {
		s := fn.Signature
		if s.Recv() == nil && s.Params().Len() == 1 && s.Results().Len() == 1 && strings.HasSuffix(s.Params().At(0).Type().String(), "http.Response") && structName(s.Results().At(0).Type()) == "authHeader" {
			cfr = fn
		}
	}
	if cfr == nil {
		c.Fail(rule, "anchor/challengeFromResponse", 0, "func(*http.Response) *authHeader not found in ociauth")
		return
	}
	c.Analysed(facts.FuncName(cfr))
	// the parsed headers: results of calls returning *authHeader
	var parsed []*ssa.Call
	for _, ci := range facts.CallsIn(cfr) {
		if call, ok := ci.(*ssa.Call); ok && call.Call.Signature().Results().Len() == 1 && structName(call.Type()) == "authHeader" {
			parsed = append(parsed, call)
		}
	}
	if len(parsed) == 0 {
		c.Fail(rule, "challengeFromResponse/parse", cfr.Pos(), "no header parse found")
		return
	}
	ff := facts.FlowFuncs{
		Edge: func(b *ssa.BasicBlock, idx int, t facts.Tokens) bool {
			for _, cd := range facts.EdgeConds(b, idx) {
				x, op, y, ok := facts.Cmp(cd)
				if !ok || (op != token.EQL && op != token.NEQ) {
					continue
				}
				s, isS := facts.ConstString(y)
				if !isS {
					continue
				}
				base, fld, isF := facts.FieldOf(facts.Resolve(x))
				if !isF || fld != "scheme" {
					continue
				}
				k := facts.Term(facts.Resolve(base)) + "=" + s
				if op == token.EQL {
					if t["not:"+k] {
						return false
					}
					t["is:"+k] = true
				} else {
					if t["is:"+k] {
						return false
					}
					t["not:"+k] = true
				}
			}
			return true
		},
	}
	flow := facts.PathFlow(cfr, ff)
	n := 0
	for _, b := range cfr.Blocks {
		for _, in := range b.Instrs {
			ph, ok := in.(*ssa.Phi)
			if !ok {
				break
			}
			for i, e := range ph.Edges {
				for _, p := range parsed {
					if facts.Resolve(e) != ssa.Value(p) {
						continue
					}
					n++
					pred := b.Preds[i]
					last := pred.Instrs[len(pred.Instrs)-1]
					tm := facts.Term(p)
					ok := facts.AllAt(ff, flow, last, func(t facts.Tokens) bool {
						return t["is:"+tm+"=basic"] || t["is:"+tm+"=bearer"]
					})
					// the edge pred -> b may itself carry the deciding condition
					if !ok {
						for si, s := range pred.Succs {
							if s != b {
								continue
							}
							for _, cd := range facts.EdgeConds(pred, si) {
								if x, op, y, isCmp := facts.Cmp(cd); isCmp && op == token.EQL {
									if s0, isS := facts.ConstString(y); isS && (s0 == "basic" || s0 == "bearer") {
										if base, fld, isF := facts.FieldOf(facts.Resolve(x)); isF && fld == "scheme" && facts.Resolve(base) == ssa.Value(p) {
											ok = true
										}
									}
								}
							}
						}
					}
					c.Check(ok, rule, "challengeFromResponse/only-basic-or-bearer", ph.Pos(), "a header is adopted only when its scheme is basic or bearer", "a parsed WWW-Authenticate header is adopted as the host's challenge on a path where its scheme is not known to be basic or bearer: after e.g. a Negotiate or Digest challenge the configured password is sent as Basic credentials to a registry that never issued a Basic challenge")
				}
			}
		}
	}
	if n == 0 {
		c.Fail(rule, "challengeFromResponse/only-basic-or-bearer", cfr.Pos(), "the parsed header never becomes the result")
	}
}

// ---------------------------------------------------------------- ocifilter.Sub

// subConstructorStoresParams (C13.R0; seed C13-D): Sub(r, p) confines to p
// under r: the wrapper it builds holds exactly the registry and the prefix it
// was given.
func subConstructorStoresParams(c *core.Ctx, rule string) {
	ctor := c.P.Func("ocifilter", "Sub")
	if ctor == nil {
		return
	}
	c.Analysed(facts.FuncName(ctor))
	n := 0
	for _, b := range ctor.Blocks {
		for _, in := range b.Instrs {
			al, ok := in.(*ssa.Alloc)
			if !ok || structName(al.Type()) == "" {
				continue
			}
			st := structOf(al.Type())
			if st == nil {
				continue
			}
			for i := 0; i < st.NumFields(); i++ {
				f := st.Field(i)
				v, has := blobLiteralFieldOf(al, f.Name())
				if !has {
					continue
				}
				switch {
				case f.Type().String() == "string":
					n++
					c.Check(argIsParam(v, ctor, 1), rule, "Sub/prefix-is-parameter", al.Pos(), "the wrapper's prefix is the pathPrefix argument", "Sub stores a prefix other than its pathPrefix argument (e.g. one combined with the prefix of a wrapper it unwraps): the resulting registry is not confined to pathPrefix under the registry it was given")
				case strings.HasSuffix(f.Type().String(), "ociregistry.Interface"):
					n++
					c.Check(argIsParam(v, ctor, 0), rule, "Sub/registry-is-parameter", al.Pos(), "the wrapper wraps the registry argument", "Sub wraps a registry other than the one it was given (e.g. the inner registry of a wrapper it unwraps): confinement established by that wrapper is bypassed")
				}
			}
		}
	}
	if n < 2 {
		c.Fail(rule, "Sub/constructor/instance-floor", ctor.Pos(), "Sub no longer builds a wrapper holding a prefix and a registry")
	}
}

// ---------------------------------------------------------------- ociunify

// sequentialFallsBackOnAnyFailure (C15.R5; seed C15-C): under the sequential
// policy the first member's answer is returned only if it succeeded; any
// failure of the first member moves on to the second, as the concurrent policy
// does — otherwise the two policies disagree on members that differ.
func sequentialFallsBackOnAnyFailure(c *core.Ctx, rule string) {
	var fns []*ssa.Function
	for _, k := range []string{"ociunify.runReadSequential", "ociunify.runReadWithCancel"} {
		if f := M.Fn(k); f != nil {
			fns = append(fns, f)
		}
	}
	n := 0
	for _, fn := range fns {
		// dynamic calls of the callback parameter with the two members
		var first *ssa.Call
		for _, ci := range facts.CallsIn(fn) {
			call, ok := ci.(*ssa.Call)
			if !ok || call.Call.StaticCallee() != nil || call.Call.IsInvoke() {
				continue
			}
			if _, isP := facts.Resolve(call.Call.Value).(*ssa.Parameter); !isP {
				continue
			}
			for _, a := range call.Call.Args {
				if _, fld, ok := facts.FieldOf(facts.Resolve(a)); ok && fld == "r0" {
					first = call
				}
			}
		}
		if first == nil {
			continue
		}
		c.Analysed(facts.FuncName(fn))
		// each way of returning (a `return r` whose r is a phi is one way per incoming edge)
		for _, vr := range virtualReturns(fn) {
			if len(vr.Vals) == 0 || facts.Resolve(vr.Vals[0]) != ssa.Value(first) {
				continue
			}
			r := vr.Ret
			n++
			ok := false
			for _, cd := range vr.Conds {
				if x, isNil, isNC := facts.NilCheck(cd); isNC && isNil {
					if call, isCall := facts.Resolve(x).(*ssa.Call); isCall && methName(call.Call.Method.Name()) == "error" && call.Call.IsInvoke() && facts.Resolve(call.Call.Value) == ssa.Value(first) {
						ok = true
					}
				}
			}
			c.Check(ok, rule, fnName(fn)+"/first-answer-only-on-success", r.Pos(), "the first member's answer is returned only when it succeeded", "the sequential read returns the first member's answer on a path where it may have failed (only some errors fall back to the second member): content held only by the second member becomes unreadable under the sequential policy while the concurrent policy still finds it")
		}
	}
	if n == 0 {
		c.Fail(rule, "sequential-read/instance-floor", 0, "no sequential read returning the first member's answer found")
	}
}

// cancelBeforeReturnNotForReaders (C15.R6 / C16.R6; seeds C15-D, C16-C): a
// helper that cancels the winner's context before handing back its answer
// must not be used for answers that are still to be read (a BlobReader):
// their body dies with the context.
func cancelBeforeReturnNotForReaders(c *core.Ctx, rule string) {
	rwc := M.Fn("ociunify.runReadWithCancel")
	if rwc == nil {
		c.Fail(rule, "anchor/runReadWithCancel", 0, "runReadWithCancel not found")
		return
	}
	holdsReader := func(t types.Type) bool {
		s := t.String()
		return strings.Contains(s, "ociregistry.BlobReader") || strings.Contains(s, "io.Reader") || strings.Contains(s, "io.ReadCloser")
	}
	n := 0
	for _, fn := range c.P.ModuleFunctions("ociunify") {
		if !isInstance(fn) && fn.TypeParams().Len() > 0 {
			continue // judged per instantiation
		}
		for _, ci := range facts.CallsIn(fn) {
			sc := ci.Common().StaticCallee()
			if sc == nil || !(sc == rwc || (sc.Origin() != nil && sc.Origin() == rwc)) || ci.Value() == nil {
				continue
			}
			var cv ssa.Value
			for _, ref := range *ci.Value().Referrers() {
				if ex, ok := ref.(*ssa.Extract); ok && ex.Index == 1 {
					cv = ex
				}
			}
			if cv == nil {
				continue
			}
			// does fn call cancel itself before returning?
			// does fn itself cancel, unconditionally, before every return?
			cancels := false
			for _, cj := range facts.CallsIn(fn) {
				if facts.Resolve(cj.Common().Value) == cv {
					// a plain call before every return, or a defer registered before every
					// return: either way the context is dead when the caller gets the answer
					all := true
					for _, r := range returnsOf(fn) {
						if !facts.Dominates(cj, r) {
							all = false
						}
					}
					cancels = cancels || all
				}
			}
			if !cancels {
				continue
			}
			n++
			// the answer type of this (instantiated) call
			res := sc.Signature.Results()
			bad := res.Len() > 0 && holdsReader(res.At(0).Type())
			key := fnName(fn)
			if o := fn.Origin(); o != nil {
				key = fnName(o) + "[" + shortType(res.At(0).Type()) + "]"
			}
			c.Check(!bad, rule, key+"/cancel-before-return-not-for-readers", ci.Pos(), "the answer does not depend on the cancelled context", "an answer that still has to be read ("+shortType(res.At(0).Type())+") is obtained through a helper that cancels the chosen member's context before returning it: the reader's body fails with `context canceled` or is truncated; readers must go through the variant that hands the cancel function to the returned reader")
		}
	}
	if n == 0 {
		c.Fail(rule, "cancel-before-return/instance-floor", rwc.Pos(), "no caller of runReadWithCancel cancels before returning")
	}
}

// readerCloseAlwaysCancels (C16.R4b; seed C16-D): the reader handed out by the
// unifier cancels its member's context on every path through Close, also when
// closing the underlying reader fails.
func readerCloseAlwaysCancels(c *core.Ctx, rule string) {
	br := c.P.NamedType("ociunify", "blobReader")
	if br == nil {
		return
	}
	cl := c.P.Method(br, "Close")
	if cl == nil {
		return
	}
	c.Analysed(facts.FuncName(cl))
	isCancel := func(in ssa.Instruction) bool {
		ci, ok := in.(ssa.CallInstruction)
		if !ok {
			return false
		}
		_, fld, isF := facts.FieldOf(facts.Resolve(ci.Common().Value))
		return isF && fld == "cancel"
	}
	bad := token.NoPos
	isBad := false
	if len(cl.Blocks) > 0 {
		if exit, reach := facts.ReachesFrom(cl.Blocks[0], 0, facts.IsReturn, isCancel, nil); reach {
			bad = exit.Pos()
			isBad = true
		}
	}
	c.Check(!isBad, rule, "blobReader.Close/cancels-on-every-path", orPos(bad, cl.Pos()), "cancel is called (or deferred) on every path through Close", "blobReader.Close can return without cancelling the member's context (e.g. when closing the underlying reader fails): the context of the chosen member leaks")
}

// ---------------------------------------------------------------- ociref / digest validity

// tagCheckRejectsEmpty (C17.R3b; seed C17-D): the tag predicate is total and
// rejects the empty string: the tag check returns nil only for non-empty input.
func tagCheckRejectsEmpty(c *core.Ctx, rule string) {
	ivt := c.P.Func("ociref", "IsValidTag")
	if ivt == nil {
		return
	}
	var tagCheck *ssa.Function
	for _, ci := range facts.CallsIn(ivt) {
		if sc := ci.Common().StaticCallee(); sc != nil && sc.Pkg == ivt.Pkg && len(ci.Common().Args) == 1 && argIsParam(ci.Common().Args[0], ivt, 0) {
			tagCheck = sc
		}
	}
	if tagCheck == nil {
		return // reported by C17.R3
	}
	c.Analysed(facts.FuncName(tagCheck))
	n := 0
	for _, r := range returnsOf(tagCheck) {
		if !facts.RetErrIsNil(r) {
			continue
		}
		n++
		nonEmpty := false
		for _, cd := range facts.CondsAt(r.Block()) {
			x, op, y, ok := facts.Cmp(cd)
			if !ok {
				continue
			}
			k, isK := facts.ConstInt(y)
			isLen := false
			if call, isCall := facts.Resolve(x).(*ssa.Call); isCall {
				if bi, isB := call.Call.Value.(*ssa.Builtin); isB && bi.Name() == "len" && argIsParam(call.Call.Args[0], tagCheck, 0) {
					isLen = true
				}
			}
			if isLen && isK && ((op == token.NEQ && k == 0) || (op == token.GTR && k == 0) || (op == token.GEQ && k == 1)) {
				nonEmpty = true
			}
			if argIsParam(x, tagCheck, 0) {
				if s, isS := facts.ConstString(y); isS && s == "" && op == token.NEQ {
					nonEmpty = true
				}
			}
		}
		c.Check(nonEmpty, rule, "checkTag/empty-rejected", r.Pos(), "nil only for a non-empty tag", "the tag check returns nil on a path where the tag may be empty: IsValidTag(\"\") becomes true and the router accepts /v2/<name>/manifests/ with an empty tag, disagreeing with the reference grammar")
	}
	if n == 0 {
		c.Fail(rule, "checkTag/empty-rejected", tagCheck.Pos(), "the tag check never returns nil")
	}
}

// validDigestMeansParseable (C18.R1b; seed C18-C): IsValidDigest answers true
// only when digest.Parse (or Validate) reported no error — which includes the
// algorithm being available, the assumption under which the client calls
// Algorithm().Hash() on validated digests.
func validDigestMeansParseable(c *core.Ctx, rule string) {
	ivd := c.P.Func("ociref", "IsValidDigest")
	if ivd == nil {
		c.Fail(rule, "anchor/ociref.IsValidDigest", 0, "ociref.IsValidDigest not found")
		return
	}
	c.Analysed(facts.FuncName(ivd))
	isParseErr := func(v ssa.Value) bool {
		v = facts.Resolve(v)
		var call *ssa.Call
		switch x := v.(type) {
		case *ssa.Extract:
			call, _ = x.Tuple.(*ssa.Call)
		case *ssa.Call:
			call = x
		}
		if call == nil {
			return false
		}
		n := facts.CalleeName(&call.Call)
		return strings.HasSuffix(n, "go-digest.Parse") || strings.HasSuffix(n, "go-digest.Digest).Validate")
	}
	ok, n := true, 0
	for _, r := range returnsOf(ivd) {
		type cand struct {
			v  ssa.Value
			at *ssa.BasicBlock
		}
		var cands []cand
		if ph, isPhi := r.Results[0].(*ssa.Phi); isPhi {
			for i, e := range ph.Edges {
				cands = append(cands, cand{facts.Resolve(e), ph.Block().Preds[i]})
			}
		} else {
			cands = append(cands, cand{facts.RetVal(r, 0), r.Block()})
		}
		for _, cd0 := range cands {
			if cst, isC := cd0.v.(*ssa.Const); isC && cst.Value != nil && cst.Value.ExactString() == "false" {
				continue
			}
			n++
			good := false
			for _, cd := range append(append([]facts.Cond{}, facts.CondsAt(cd0.at)...), facts.Cond{V: cd0.v, Pos: true}) {
				if x, isNil, isNC := facts.NilCheck(cd); isNC && isNil && isParseErr(x) {
					good = true
				}
			}
			ok = ok && good
		}
	}
	c.Check(ok && n > 0, rule, "IsValidDigest/true-only-if-parse-ok", ivd.Pos(), "true only when go-digest accepted the digest (algorithm available)", "IsValidDigest can answer true although go-digest's Parse/Validate reported an error (e.g. an unsupported algorithm): the client treats such a digest as validated and digest.Algorithm().Hash() panics on it")
}
