package props

import (
	"go/types"
	"sort"
	"strings"

	"golang.org/x/tools/go/ssa"

	"ocivet/internal/core"
	"ocivet/internal/facts"
)

func init() {
	register(&Prop{
		ID:    "C03",
		Title: "HTTP client+server are transparent",
		Run:   runC03,
		Explanation: "R1 client request table: for every Interface method of the type returned by ociclient.New, the ocirequest.Request literals it builds have the reviewed Kind and field<-parameter mapping (frozen table A.2), with no extra field set; " +
			"R2 server dispatch: every request kind has a handler, and each handler (with the helpers it calls) invokes exactly the backend methods the reviewed table A.3 lists for its kind, tag- and digest-addressed variants selected by rreq.Tag != \"\"; " +
			"R3 composition: for every client method M, the backend method the server invokes for M's kind under the field condition M establishes is M itself (chunked/monolithic uploads: the reviewed multi-request rows); " +
			"R4 handler argument provenance: every repository/digest/tag argument of a backend call is the field of the classified request that R1 says the client filled (MountBlob(FromRepo, Repo, Digest) etc.); " +
			"R5 the logging wrapper returned by ocidebug.New is the identity: every method calls the same-named backend method with its own parameters in order and returns the results unchanged (writers wrapped in its own blobWriter, whose methods satisfy the same rule; iterators passed through logIterReturn, which re-yields each item unchanged); " +
			"R6 header vocabulary: every header the client reads from a response is set by some server handler with the identical spelling, and every request header the server reads is set by the client; " +
			"R7 codec coverage: construct's switch covers every Kind and every Kind is assigned by the classifier; a request captured by a returned iterator is never written through (re-iteration starts from the caller's arguments); " +
			"R8 the client's chunked-upload bookkeeping is consistent (Content-Range end, ContentLength and the advance of `flushed` are one quantity; `size` advances only when Write can no longer fail), so a chunked upload relays the same writes the caller issued. " +
			"R9 range dispatch (as C01.R6); R10 post-success refusals: after the backend accepted a call a handler refuses the request on its own only under the reviewed comparisons (blob range: start > Size, end < start). " +
			"R4b the media type handed to PushManifest is the Content-Type header as sent (or the default). " +
			"R5b ocidebug.New wraps exactly the registry it was given; R11 (shared with C07.R4) the %w discipline of the wire path. " +
			"R12 the client verifies a body under the algorithm of the descriptor's digest (digest.NewDigest(D.Algorithm(), h) compared with D), never a fixed one. " +
			"R13 the router separates the repository name from the path with suffix / last-occurrence operations only (a name may contain /blobs/uploads, /manifests/, … as path elements). " +
			"R14 (shared with C04.R8) a refused blobWriter.Write keeps nothing; R15 (shared with C05.R6) the client's listing iterators are re-runnable. " +
			"R16 (shared with C04.R10) every successful return of blobWriter.Write lies behind the update of w.size (must-pass-through on the CFG). " +
			"R17 (shared with C01.R11) a value that carries a descriptor and the running hash of its content takes the hash from <that descriptor>.Digest.Algorithm(): content addressed by any registered algorithm verifies through the client.",
		NotDecided: "equality of bytes/descriptors on values, URL escaping of unusual names, behaviour under server options, and the Construct->Parse round trip on values are not decided.",
		Technique:  "static analysis: extraction of request literals and dispatch table from SSA, comparison with reviewed tables, argument provenance, header-name set agreement",
	})
}

type reqRow struct {
	Kind   string
	Fields map[string]string
}

// DESIGN A.2. Values: parameter name roles are positional; we key by SSA
// parameter index (receiver = 0, ctx = 1).
var clientTable = map[string][]reqRow{
	"GetBlob":               {{"ReqBlobGet", map[string]string{"Repo": "p2", "Digest": "p3"}}},
	"GetBlobRange":          {{"ReqBlobGet", map[string]string{"Repo": "p2", "Digest": "p3"}}},
	"GetManifest":           {{"ReqManifestGet", map[string]string{"Repo": "p2", "Digest": "p3"}}},
	"GetTag":                {{"ReqManifestGet", map[string]string{"Repo": "p2", "Tag": "p3"}}},
	"ResolveBlob":           {{"ReqBlobHead", map[string]string{"Repo": "p2", "Digest": "p3"}}},
	"ResolveManifest":       {{"ReqManifestHead", map[string]string{"Repo": "p2", "Digest": "p3"}}},
	"ResolveTag":            {{"ReqManifestHead", map[string]string{"Repo": "p2", "Tag": "p3"}}},
	"PushBlob":              {{"ReqBlobStartUpload", map[string]string{"Repo": "p2"}}},
	"PushBlobChunked":       {{"ReqBlobStartUpload", map[string]string{"Repo": "p2"}}},
	"PushBlobChunkedResume": {},
	"MountBlob":             {{"ReqBlobMount", map[string]string{"Repo": "p3", "FromRepo": "p2", "Digest": "p4"}}},
	"PushManifest":          {{"ReqManifestPut", map[string]string{"Repo": "p2", "Tag": "p3", "Digest": "FromBytes(p4)"}}},
	"DeleteBlob":            {{"ReqBlobDelete", map[string]string{"Repo": "p2", "Digest": "p3"}}},
	"DeleteManifest":        {{"ReqManifestDelete", map[string]string{"Repo": "p2", "Digest": "p3"}}},
	"DeleteTag":             {{"ReqManifestDelete", map[string]string{"Repo": "p2", "Tag": "p3"}}},
	"Repositories":          {{"ReqCatalogList", map[string]string{"ListN": "recv.listPageSize", "ListLast": "p2"}}},
	"Tags":                  {{"ReqTagsList", map[string]string{"Repo": "p2", "ListN": "recv.listPageSize", "ListLast": "p3"}}},
	"Referrers":             {{"ReqReferrersList", map[string]string{"Repo": "p2", "Digest": "p3", "ListN": "recv.listPageSize"}}},
}

// DESIGN A.3: kind -> backend methods; "tag:"/"digest:" prefixes mean selected by rreq.Tag != "".
var serverTable = map[string][]string{
	"ReqPing":               {},
	"ReqBlobGet":            {"GetBlob", "GetBlobRange", "?ResolveBlob"},
	"ReqBlobHead":           {"ResolveBlob"},
	"ReqBlobDelete":         {"DeleteBlob"},
	"ReqBlobStartUpload":    {"PushBlobChunked"},
	"ReqBlobUploadBlob":     {"PushBlob", "?PushBlobChunked"},
	"ReqBlobMount":          {"MountBlob"},
	"ReqBlobUploadInfo":     {"PushBlobChunkedResume"},
	"ReqBlobUploadChunk":    {"PushBlobChunkedResume"},
	"ReqBlobCompleteUpload": {"PushBlobChunkedResume"},
	"ReqManifestGet":        {"tag:GetTag", "digest:GetManifest"},
	"ReqManifestHead":       {"tag:ResolveTag", "digest:ResolveManifest"},
	"ReqManifestPut":        {"PushManifest"},
	"ReqManifestDelete":     {"tag:DeleteTag", "digest:DeleteManifest"},
	"ReqTagsList":           {"Tags"},
	"ReqReferrersList":      {"Referrers"},
	"ReqCatalogList":        {"Repositories"},
}

func runC03(c *core.Ctx) {
	m := loadServerModel(c)
	for _, p := range m.problems {
		c.Fail("C03.R0", "anchor/server-model", 0, p)
	}
	c03ClientTable(c, m)
	if m.hasDispatch() {
		c03ServerTable(c, m)
	}
	c03Composition(c)
	c06HandlerArgs(c, "C03.R4")
	c03Debug(c)
	c03Headers(c)
	c03Codec(c, m)
	// R8: the client's chunked-upload bookkeeping (shared with C04.R5): what the
	// client tells the server about offsets is what it actually sent.
	relabel(c, "C03.R8", func() { c04ClientBookkeeping(c) })
	serverRangeDispatch(c, "C03.R9")
	serverPostSuccessRejections(c, "C03.R10")
	mediaTypePassedUnchanged(c, "C03.R4")
	wrapperHoldsItsRegistries(c, "C03.R5", "ocidebug", "New")
	// an error of the registry behind keeps its identity through the server and the client (%w discipline, shared with C07.R4)
	relabel(c, "C03.R11", func() { c07WrapDiscipline(c) })
	digestComparedUnderItsOwnAlgorithm(c, "C03.R12", "ociclient")
	routerSplitsAtTheLastKeyword(c, "C03.R13")
	failedMethodLeavesState(c, "C03.R14", "ociclient", "blobWriter", "Write")
	listingIteratorsRerunnable(c, "C03.R15", []string{"ociclient"}, 1)
	hashFieldFromOwnDigest(c, "C03.R17", "ociclient")
	successfulMethodPassesThrough(c, "C03.R16", "ociclient", "blobWriter", "Write", "size")
}

// describe a value stored into a Request field in terms of method fn's parameters.
func describeReqValue(v ssa.Value, fn *ssa.Function) string {
	v = facts.ResolveFree(resolveUp(v, fn, 3))
	if idx, root, ok := rootParam(v); ok && root == fn {
		return sprintf("p%d", idx)
	}
	if b, fld, ok := facts.FieldOf(v); ok {
		if idx, root, isP := rootParam(facts.ResolveFree(resolveUp(b, fn, 3))); isP && root == fn && idx == 0 {
			return "recv." + fld
		}
		// field of a local struct literal with a single store
		if sv, f2, ok2 := facts.StructFieldSource(v); ok2 {
			_ = sv
			_ = f2
		}
		if u, isU := v.(*ssa.UnOp); isU {
			if fa, isFA := u.X.(*ssa.FieldAddr); isFA {
				if al, isAl := fa.X.(*ssa.Alloc); isAl {
					for _, ref := range *al.Referrers() {
						if fa2, ok := ref.(*ssa.FieldAddr); ok && fa2.Field == fa.Field {
							for _, st := range facts.StoresTo(fa2) {
								return describeReqValue(st.Val, fn)
							}
						}
					}
				}
			}
		}
	}
	if call, ok := v.(*ssa.Call); ok && strings.HasSuffix(facts.CalleeName(&call.Call), "go-digest.FromBytes") {
		return "FromBytes(" + describeReqValue(call.Call.Args[0], fn) + ")"
	}
	if cst, ok := v.(*ssa.Const); ok {
		return "const(" + cst.Value.String() + ")"
	}
	return "?" + facts.Term(v)
}

func requestLiterals(fn *ssa.Function, kindNames map[int64]string) []reqRow {
	var out []reqRow
	// fn, its literals, and the private helpers the request construction may have moved to
	for _, f := range withHelpers(fn) {
		for _, b := range f.Blocks {
			for _, in := range b.Instrs {
				al, ok := in.(*ssa.Alloc)
				if !ok || !isNamed(al.Type().(*types.Pointer).Elem(), "internal/ocirequest", "Request") {
					continue
				}
				if al.Comment != "complit" {
					// a variable filled in field by field (`var r Request; r.Kind = …`) is a
					// construction too; a copy of another request (`r := *req`) is not
					whole, kind := false, false
					for _, ref := range *al.Referrers() {
						if st, isSt := ref.(*ssa.Store); isSt && st.Addr == ssa.Value(al) {
							whole = true
						}
						if fa, isFA := ref.(*ssa.FieldAddr); isFA {
							if _, fld, _ := facts.FieldOf(fa); fld == "Kind" && len(facts.StoresTo(fa)) > 0 {
								kind = true
							}
						}
					}
					if whole || !kind {
						continue
					}
				}
				row := reqRow{Kind: kindNames[0], Fields: map[string]string{}}
				for _, ref := range *al.Referrers() {
					fa, ok := ref.(*ssa.FieldAddr)
					if !ok {
						continue
					}
					_, fld, _ := facts.FieldOf(fa)
					for _, st := range facts.StoresTo(fa) {
						if fld == "Kind" {
							if k, ok := facts.ConstInt(st.Val); ok {
								row.Kind = kindNames[k]
							} else {
								row.Kind = "?"
								// a shared constructor (`digestRequest(kind, repo, d)`): the kind this
								// method passes to it, if all its calls from here agree
								if p, isP := facts.Resolve(st.Val).(*ssa.Parameter); isP && p.Parent() == f && f != fn {
									pi := -1
									for i, q := range f.Params {
										if q == p {
											pi = i
										}
									}
									kinds := map[int64]bool{}
									unknown := false
									for _, g := range withHelpers(fn) {
										for _, ci := range facts.CallsIn(g) {
											if ci.Common().StaticCallee() != f || pi < 0 || pi >= len(ci.Common().Args) {
												continue
											}
											if k, ok := facts.ConstInt(ci.Common().Args[pi]); ok {
												kinds[k] = true
											} else {
												unknown = true
											}
										}
									}
									if len(kinds) == 1 && !unknown {
										for k := range kinds {
											row.Kind = kindNames[k]
										}
									}
								}
							}
						} else {
							row.Fields[fld] = describeReqValue(st.Val, fn)
						}
					}
				}
				out = append(out, row)
			}
		}
	}
	return out
}

func rowString(r reqRow) string {
	var ks []string
	for k, v := range r.Fields {
		ks = append(ks, k+"<-"+v)
	}
	sort.Strings(ks)
	return r.Kind + "{" + strings.Join(ks, ",") + "}"
}

func c03ClientTable(c *core.Ctx, m *serverModel) {
	ctor := c.P.Func("ociclient", "New")
	if ctor == nil {
		c.Fail("C03.R1", "anchor/ociclient.New", 0, "ociclient.New not found")
		return
	}
	ts := constructorResultTypes(ctor)
	if len(ts) != 1 {
		c.Fail("C03.R1", "anchor/ociclient.New.result", ctor.Pos(), "cannot determine the client type")
		return
	}
	T := ts[0]
	for _, im := range ifaceMethods(c) {
		name := im.Name()
		want, reviewed := clientTable[name]
		if !reviewed {
			c.Fail("C03.R1", "client."+name, im.Pos(), "unreviewed Interface method "+name+": no client request table row")
			continue
		}
		fn := declaredMethod(c, T, name)
		if fn == nil {
			c.Fail("C03.R1", "client."+name, im.Pos(), name+" is not declared on the client type")
			continue
		}
		c.Analysed(facts.FuncName(fn))
		got := requestLiterals(fn, m.KindNames)
		var gs, ws []string
		for _, r := range got {
			gs = append(gs, rowString(r))
		}
		for _, r := range want {
			ws = append(ws, rowString(r))
		}
		sort.Strings(gs)
		sort.Strings(ws)
		// every literal must be a reviewed row; every reviewed row must occur
		ok := true
		for _, g := range gs {
			found := false
			for _, w := range ws {
				if g == w {
					found = true
				}
			}
			if !found {
				ok = false
			}
		}
		for _, w := range ws {
			found := false
			for _, g := range gs {
				if g == w {
					found = true
				}
			}
			if !found {
				ok = false
			}
		}
		c.Check(ok, "C03.R1", "client."+name+"/request", fn.Pos(), "builds "+strings.Join(gs, " ; "), "client method "+name+" builds "+strings.Join(gs, " ; ")+" but the reviewed table expects "+strings.Join(ws, " ; ")+": the server would perform a different operation, or the same one on different arguments, than the caller issued")
	}
}

// backendMethodsOf: backend calls in handler h and the request-taking helpers it calls.
type hcall struct {
	method string
	cond   string // "tag", "digest", ""
	call   ssa.CallInstruction
}

func backendMethodsOf(c *core.Ctx, h *ssa.Function, seen map[*ssa.Function]bool) []hcall {
	if seen[h] {
		return nil
	}
	seen[h] = true
	var rreq *ssa.Parameter
	for _, p := range h.Params {
		if pt, ok := p.Type().(*types.Pointer); ok && isNamed(pt.Elem(), "internal/ocirequest", "Request") {
			rreq = p
		}
	}
	var out []hcall
	for _, bc := range backendCalls(h) {
		if !isNamed(bc.Recv.Type(), "oci/ociregistry", "Interface") {
			continue
		}
		cond := ""
		for _, cd := range facts.CondsAt(bc.Call.Block()) {
			if x, op, y, ok := facts.Cmp(cd); ok {
				if fld, isF := rreqField(x, rreq); isF && fld == "Tag" {
					if s, isS := facts.ConstString(y); isS && s == "" {
						if op.String() == "!=" {
							cond = "tag"
						} else {
							cond = "digest"
						}
					}
				}
			}
		}
		out = append(out, hcall{bc.Method, cond, bc.Call})
	}
	for _, ci := range facts.CallsIn(h) {
		sc := ci.Common().StaticCallee()
		if sc == nil || sc.Blocks == nil {
			continue
		}
		if _, isH := handlerFns(c)[sc]; isH {
			out = append(out, backendMethodsOf(c, sc, seen)...)
		}
	}
	return out
}

func c03ServerTable(c *core.Ctx, m *serverModel) {
	for kname, kv := range m.Kinds {
		want, reviewed := serverTable[kname]
		if !reviewed {
			c.Fail("C03.R2", "dispatch/"+kname, 0, "request kind "+kname+" is not in the reviewed dispatch table (DESIGN A.3)")
			continue
		}
		h := m.Handlers[kv]
		if h == nil {
			c.Fail("C03.R2", "dispatch/"+kname, m.anchorPos(), "no handler for "+kname)
			continue
		}
		c.Analysed(facts.FuncName(h))
		got := backendMethodsOf(c, h, map[*ssa.Function]bool{})
		allowed := map[string]bool{}
		required := map[string]bool{}
		for _, w := range want {
			opt := strings.HasPrefix(w, "?")
			w = strings.TrimPrefix(w, "?")
			allowed[w] = true
			if !opt {
				required[w] = true
			}
		}
		seen := map[string]bool{}
		bad := ""
		for _, g := range got {
			k := g.method
			if g.cond != "" {
				k = g.cond + ":" + g.method
			}
			if !allowed[k] && !allowed[g.method] {
				bad = "calls backend " + g.method + " (selected by " + map[string]string{"": "nothing", "tag": "rreq.Tag != \"\"", "digest": "rreq.Tag == \"\""}[g.cond] + ")"
			}
			seen[k] = true
			seen[g.method] = true
		}
		for r := range required {
			if !seen[r] {
				bad = "never calls " + r
			}
		}
		c.Check(bad == "", "C03.R2", "dispatch/"+kname, h.Pos(), "handler calls exactly the reviewed backend methods "+strings.Join(want, ","), "the handler for "+kname+" "+bad+"; the reviewed table expects "+strings.Join(want, ",")+": the backend receives a different operation than the client issued")
	}
}

func c03Composition(c *core.Ctx) {
	// table-level composition of A.2 and A.3 (both frozen, both checked against the code above)
	for mname, rows := range clientTable {
		for _, r := range rows {
			want := serverTable[r.Kind]
			sel := mname
			if _, hasTag := r.Fields["Tag"]; hasTag && mname != "PushManifest" {
				sel = "tag:" + mname
			} else if strings.HasPrefix(r.Kind, "ReqManifest") && mname != "PushManifest" {
				sel = "digest:" + mname
			}
			ok := false
			for _, w := range want {
				if strings.TrimPrefix(w, "?") == sel {
					ok = true
				}
			}
			// uploads: monolithic push = start upload then PUT (complete upload) : reviewed multi-request rows
			if (mname == "PushBlob" || mname == "PushBlobChunked") && r.Kind == "ReqBlobStartUpload" {
				ok = true
			}
			c.Check(ok, "C03.R3", "composition/"+mname, 0, mname+" -> "+r.Kind+" -> "+sel, "client method "+mname+" sends "+r.Kind+" but the server's handler for that kind does not invoke "+sel)
		}
	}
}

func c03Debug(c *core.Ctx) {
	ctor := c.P.Func("ocidebug", "New")
	if ctor == nil {
		c.Fail("C03.R5", "anchor/ocidebug.New", 0, "ocidebug.New not found")
		return
	}
	ts := constructorResultTypes(ctor)
	if len(ts) != 1 {
		c.Fail("C03.R5", "anchor/ocidebug.New.result", ctor.Pos(), "cannot determine the logging wrapper type")
		return
	}
	T := ts[0]
	var bwType types.Type
	for _, im := range ifaceMethods(c) {
		name := im.Name()
		fn := declaredMethod(c, T, name)
		if fn == nil {
			c.Fail("C03.R5", "debug."+name, im.Pos(), name+" is not declared on the logging wrapper")
			continue
		}
		c.Analysed(facts.FuncName(fn))
		bcs := backendCalls(fn)
		n := 0
		for _, bc := range bcs {
			if bc.In != fn {
				continue
			}
			n++
			cc := bc.Call.Common()
			ok := bc.Method == name && len(cc.Args) == len(fn.Params)-1
			if ok {
				for j, a := range cc.Args {
					if !argIsParam(a, fn, j+1) {
						ok = false
					}
				}
			}
			c.Check(ok, "C03.R5", "debug."+name+"/delegate", bc.Call.Pos(), "same method, own parameters in order", "the logging wrapper's "+name+" does not call the backend's "+name+" with its own parameters in order")
			call, isCall := bc.Call.(*ssa.Call)
			if !isCall {
				continue
			}
			// results
			resOK := false
			for _, r := range returnsOf(fn) {
				if resultsFromCall(r, call) {
					resOK = true
					continue
				}
				// wrapped writer / iterator
				if len(r.Results) >= 1 {
					v0 := facts.RetVal(r, 0)
					if mi, isMI := v0.(*ssa.MakeInterface); isMI {
						v0 = mi.X
					}
					// blobWriter{w: result0}, built here or by a private helper given result0
					for _, o := range helperResultOrigins(v0, 2) {
						ov := o.V
						if mi, isMI := ov.(*ssa.MakeInterface); isMI {
							ov = facts.Resolve(mi.X)
						}
						u, isU := ov.(*ssa.UnOp)
						if !isU {
							continue
						}
						al, isAl := u.X.(*ssa.Alloc)
						if !isAl {
							continue
						}
						for _, ref := range *al.Referrers() {
							if fa, ok := ref.(*ssa.FieldAddr); ok {
								for _, st := range facts.StoresTo(fa) {
									if ex, isEx := facts.Resolve(o.up(st.Val)).(*ssa.Extract); isEx && ex.Tuple == ssa.Value(call) && ex.Index == 0 {
										resOK = true
										bwType = al.Type().(*types.Pointer).Elem()
									}
								}
							}
						}
					}
					// logIterReturn(r, msg, backend-seq)
					if lc, isCall2 := v0.(*ssa.Call); isCall2 && strings.Contains(facts.CalleeName(&lc.Call), "logIterReturn") {
						a := lc.Call.Args
						if facts.Resolve(a[len(a)-1]) == ssa.Value(call) {
							resOK = true
						}
					}
					// error result must be the backend's
					if len(r.Results) == 2 && resOK {
						if ex, isEx := facts.RetVal(r, 1).(*ssa.Extract); !isEx || ex.Tuple != ssa.Value(call) || ex.Index != 1 {
							resOK = false
						}
					}
				}
			}
			c.Check(resOK, "C03.R5", "debug."+name+"/results", bc.Call.Pos(), "results returned unchanged (or wrapped transparently)", "the logging wrapper's "+name+" does not return the backend's results unchanged")
		}
		if n != 1 {
			c.Fail("C03.R5", "debug."+name+"/delegate", fn.Pos(), sprintf("%d backend calls in the logging wrapper's %s; expected exactly one", n, name))
		}
	}
	// the wrapper's blobWriter
	if bwType != nil {
		bwIface := c.P.NamedType("", "BlobWriter").Underlying().(*types.Interface)
		for i := 0; i < bwIface.NumMethods(); i++ {
			name := bwIface.Method(i).Name()
			fn := declaredMethod(c, bwType, name)
			if fn == nil {
				c.Fail("C03.R5", "debug.blobWriter."+name, 0, name+" not declared on the logging blobWriter")
				continue
			}
			ok := false
			for _, ci := range facts.CallsIn(fn) {
				cc := ci.Common()
				if !cc.IsInvoke() || cc.Method.Name() != name || !isNamed(cc.Value.Type(), "oci/ociregistry", "BlobWriter") {
					continue
				}
				argsOK := len(cc.Args) == len(fn.Params)-1
				if argsOK {
					for j, a := range cc.Args {
						if !argIsParam(a, fn, j+1) {
							argsOK = false
						}
					}
				}
				call, isCall := ci.(*ssa.Call)
				resOK := false
				if isCall {
					for _, r := range returnsOf(fn) {
						if resultsFromCall(r, call) {
							resOK = true
						}
					}
				}
				ok = argsOK && resOK
			}
			c.Check(ok, "C03.R5", "debug.blobWriter."+name, fn.Pos(), "delegates to the wrapped writer unchanged", "the logging blobWriter's "+name+" does not delegate to the wrapped writer with the same arguments and results")
		}
	} else {
		c.Fail("C03.R5", "debug.blobWriter", ctor.Pos(), "the logging wrapper's writer type was not identified")
	}
	// logIterReturn re-yields each item unchanged
	for _, fn := range c.P.ModuleFunctions("ocidebug") {
		if fnName(fn) != "logIterReturn" || isInstance(fn) {
			continue
		}
		okItem := false
		for _, f := range facts.WithAnon(fn) {
			for _, ci := range facts.CallsIn(f) {
				if _, isY := isYieldCall(ci); !isY {
					continue
				}
				a := ci.Common().Args
				if len(a) == 2 {
					if p, isP := facts.ResolveFree(a[0]).(*ssa.Parameter); isP && p.Parent() == f {
						okItem = true
					}
				}
			}
		}
		c.Check(okItem, "C03.R5", "debug.logIterReturn/items-unchanged", fn.Pos(), "items are re-yielded unchanged", "logIterReturn does not re-yield the backend's items unchanged")
	}
}

func c03Headers(c *core.Ctx) {
	collect := func(rel string, fnName string, recvSuffix string) map[string]bool {
		out := map[string]bool{}
		for _, fn := range c.P.ModuleFunctions(rel) {
			for _, ci := range facts.CallsIn(fn) {
				cc := ci.Common()
				if facts.CalleeName(cc) != fnName {
					continue
				}
				if s, ok := facts.ConstString(cc.Args[1]); ok {
					// which header map: response or request?
					if recvSuffix == "" || strings.Contains(facts.Term(cc.Args[0]), recvSuffix) {
						out[s] = true
					}
				}
			}
		}
		return out
	}
	clientReads := collect("ociclient", "(net/http.Header).Get", "")
	serverSets := collect("ociserver", "(net/http.Header).Set", "")
	serverReads := collect("ociserver", "(net/http.Header).Get", "")
	clientSets := collect("ociclient", "(net/http.Header).Set", "")
	// direct map assignment req.Header["Accept"] = ...
	for _, fn := range c.P.ModuleFunctions("ociclient") {
		for _, b := range fn.Blocks {
			for _, in := range b.Instrs {
				if mu, ok := in.(*ssa.MapUpdate); ok && strings.HasSuffix(mu.Map.Type().String(), "http.Header") {
					if s, ok := facts.ConstString(mu.Key); ok {
						clientSets[s] = true
					}
				}
			}
		}
	}
	if len(clientReads) < 4 || len(serverSets) < 6 {
		c.Fail("C03.R6", "headers/instance-floor", 0, sprintf("found only %d response headers read by the client and %d set by the server", len(clientReads), len(serverSets)))
	}
	for h := range clientReads {
		c.Check(serverSets[h], "C03.R6", "response-header/"+h, 0, "read by the client, set by the server", "the client reads response header "+h+" but no server handler sets a header with that spelling: the value is silently lost across the wire")
	}
	for h := range serverReads {
		c.Check(clientSets[h], "C03.R6", "request-header/"+h, 0, "read by the server, set by the client", "the server reads request header "+h+" but the client never sets a header with that spelling")
	}
}

func c03Codec(c *core.Ctx, m *serverModel) {
	var construct *ssa.Function
	for _, fn := range c.P.ModuleFunctions("internal/ocirequest") {
		if fnName(fn) == "construct" {
			construct = fn
		}
	}
	if construct == nil {
		c.Fail("C03.R7", "anchor/ocirequest.construct", 0, "ocirequest construct not found")
	} else {
		ok, why := switchCoversKinds(construct, m)
		c.Check(ok, "C03.R7", "construct/covers-kinds", construct.Pos(), "construct has a case for every Kind ("+why+")", why)
	}
	// every kind is assigned by the classifier
	assigned := map[int64]bool{0: true}
	for _, fn := range c.P.ModuleFunctions("internal/ocirequest") {
		for _, b := range fn.Blocks {
			for _, in := range b.Instrs {
				if st, ok := in.(*ssa.Store); ok {
					if _, fld, isF := facts.FieldOf(st.Addr); isF && fld == "Kind" {
						if ks, ok := constIntsOf(st.Val, 3); ok {
							for _, k := range ks {
								assigned[k] = true
							}
						}
					}
				}
			}
		}
	}
	for name, k := range m.Kinds {
		c.Check(assigned[k], "C03.R7", "classifier/assigns/"+name, 0, "classifier can produce "+name, "no path of the request classifier assigns kind "+name+": requests of that kind sent by the client are never recognised by the server")
	}
	iteratorRequestImmutable(c, "C03.R7")
}

// iteratorRequestImmutable (C03.R7, C05.R6): requests captured by a returned
// listing iterator are never written through.
func iteratorRequestImmutable(c *core.Ctx, rule string) {
	// requests captured by a returned iterator are never written through
	for _, fn := range c.P.ModuleFunctions("ociclient") {
		if fn.Parent() != nil || fn.Signature.Results().Len() != 1 || !isSeqType(fn.Signature.Results().At(0).Type()) {
			continue
		}
		for pi, p := range fn.Params {
			pt, ok := p.Type().(*types.Pointer)
			if !ok || !isNamed(pt.Elem(), "internal/ocirequest", "Request") {
				continue
			}
			c.Analysed(facts.FuncName(fn))
			writes := func(f *ssa.Function, isReq func(ssa.Value) bool) ssa.Instruction {
				for _, g := range facts.WithAnon(f) {
					for _, b := range g.Blocks {
						for _, in := range b.Instrs {
							if st, ok := in.(*ssa.Store); ok {
								if base, _, isF := facts.FieldOf(st.Addr); isF && isReq(base) {
									return in
								}
							}
						}
					}
				}
				return nil
			}
			isParamReq := func(v ssa.Value) bool { return argIsParam(v, fn, pi) }
			bad := writes(fn, isParamReq)
			// one level of callees receiving the request
			if bad == nil {
				for _, g := range facts.WithAnon(fn) {
					for _, ci := range facts.CallsIn(g) {
						sc := ci.Common().StaticCallee()
						if sc == nil || sc.Blocks == nil || !strings.Contains(sc.String(), "ociclient") {
							continue
						}
						for ai, a := range ci.Common().Args {
							if isParamReq(a) {
								ai := ai
								if w := writes(sc, func(v ssa.Value) bool { return argIsParam(v, sc, ai) }); w != nil {
									bad = w
								}
							}
						}
					}
				}
			}
			if bad != nil {
				c.Fail(rule, facts.FuncName(fn)+"/iterator-request-immutable", bad.Pos(), "the request captured by the returned iterator is written through: the second traversal of the same iterator starts from the previous traversal's position instead of the caller's arguments")
			} else {
				c.OK(rule, facts.FuncName(fn)+"/iterator-request-immutable", fn.Pos(), "the captured request is only copied, never written through")
			}
		}
	}
}
