package props

import (
	"go/types"
	"strings"

	"golang.org/x/tools/go/ssa"

	"ocivet/internal/core"
	"ocivet/internal/facts"
)

func init() {
	register(&Prop{
		ID:    "C20",
		Title: "Function-table registry is total",
		Run:   runC20,
		Explanation: "Decides the property structurally on the SSA of every (*Funcs) method: R1 bijection Interface methods <-> Funcs fields M_ (same signature) <-> methods declared on *Funcs; " +
			"R2 the call through field M_ is dominated by `f != nil` and `f.M_ != nil` for the SAME field, passes the parameters in order and returns the results unchanged; " +
			"R3 every other return is (zero..., f.newError(...)) or ErrorSeq(f.newError(...)), and newError dereferences f only under f != nil; " +
			"R4 no other potentially panicking instruction exists in these methods (index, slice, type assertion, division, explicit panic, unguarded field access of f). " +
			"R4 the methods of Funcs write no package-level state. " +
			"R5 every error the fallback builds from ErrUnsupported wraps it with %w.",
		NotDecided: "nothing of the statement is left out: the rule set decides the property for the code as written (assuming the function values themselves, supplied by the user of Funcs, do not panic, and that no other goroutine mutates the table during a call).",
		Technique:  "static analysis: SSA dominance (guard on the same field), argument/result provenance, go/types bijection Interface<->Funcs, panic-site inventory",
	})
}

func runC20(c *core.Ctx) {
	funcs := c.P.NamedType("", "Funcs")
	if funcs == nil || ifaceType(c) == nil {
		c.Fail("C20.R0", "anchor/ociregistry.Funcs", 0, "anchor not found: type ociregistry.Funcs or ociregistry.Interface")
		return
	}
	st, _ := funcs.Underlying().(*types.Struct)
	ptr := types.NewPointer(funcs)
	fields := map[string]*types.Var{}
	for i := 0; i < st.NumFields(); i++ {
		fields[st.Field(i).Name()] = st.Field(i)
	}
	var funcsMethods []*ssa.Function
	for _, f := range pkgFuncs(c, ".") {
		if f.Signature.Recv() != nil && structName(f.Signature.Recv().Type()) == "Funcs" {
			funcsMethods = append(funcsMethods, f)
		}
	}
	noPackageState(c, "C20.R4", "the function-table registry", funcsMethods)
	unsupportedErrorAlwaysWrapped(c, "C20.R5")
	ims := ifaceMethods(c)
	if len(ims) == 0 {
		c.Fail("C20.R0", "anchor/Interface.methods", 0, "Interface has no exported methods")
		return
	}
	// R1: bijection.
	want := map[string]bool{}
	for _, m := range ims {
		want[m.Name()+"_"] = true
		f := fields[m.Name()+"_"]
		if f == nil {
			c.Fail("C20.R1", "field/"+m.Name()+"_", m.Pos(), "Interface method "+m.Name()+" has no Funcs field "+m.Name()+"_")
			continue
		}
		if !types.Identical(f.Type(), sigWithoutRecv(m.Type().(*types.Signature))) {
			c.Fail("C20.R1", "field/"+m.Name()+"_", f.Pos(), "Funcs field "+f.Name()+" has a signature different from Interface."+m.Name())
			continue
		}
		c.OK("C20.R1", "field/"+m.Name()+"_", f.Pos(), "field type identical to Interface."+m.Name())
	}
	for name, f := range fields {
		if strings.HasSuffix(name, "_") && !want[name] {
			c.Fail("C20.R1", "field/"+name, f.Pos(), "Funcs field "+name+" corresponds to no Interface method")
		}
	}
	// newError helper (R3b).
	newErr := declaredMethod(c, ptr, "newError")
	if newErr == nil {
		c.Fail("C20.R3", "anchor/(*Funcs).newError", 0, "helper (*Funcs).newError not found")
	} else {
		c.Analysed(facts.FuncName(newErr))
		checkNilSafeReceiver(c, "C20.R3", newErr)
		checkNoOtherPanics(c, newErr, nil)
	}
	for _, m := range ims {
		fn := declaredMethod(c, ptr, m.Name())
		if fn == nil {
			c.Fail("C20.R1", "method/"+m.Name(), m.Pos(), "method "+m.Name()+" is not declared on *Funcs")
			continue
		}
		c.OK("C20.R1", "method/"+m.Name(), fn.Pos(), "declared on *Funcs")
		c.Analysed(facts.FuncName(fn))
		checkFuncsMethod(c, fn, m, newErr)
	}
	checkErrorSeq(c)
}

func sigWithoutRecv(s *types.Signature) *types.Signature {
	return types.NewSignatureType(nil, nil, nil, s.Params(), s.Results(), s.Variadic())
}

func checkFuncsMethod(c *core.Ctx, fn *ssa.Function, m *types.Func, newErr *ssa.Function) {
	key := "(*Funcs)." + m.Name()
	recv := recvOf(fn)
	recvTerm := facts.Term(recv)
	field := m.Name() + "_"
	// No stores to Funcs fields in the method (E0 kill condition).
	for _, b := range fn.Blocks {
		for _, in := range b.Instrs {
			if s, ok := in.(*ssa.Store); ok {
				if _, _, isField := facts.FieldOf(s.Addr); isField {
					c.Fail("C20.R2", key+"/store", s.Pos(), "method stores to a struct field; the guard/call pair is no longer provably about the same value")
				}
			}
		}
	}
	// Find calls through func-typed fields of the receiver.
	var fieldCalls []*ssa.Call
	for _, ci := range facts.CallsIn(fn) {
		cc := ci.Common()
		if cc.IsInvoke() || cc.StaticCallee() != nil {
			continue
		}
		if _, ok := cc.Value.(*ssa.Builtin); ok {
			continue
		}
		call, ok := ci.(*ssa.Call)
		if !ok {
			c.Fail("C20.R2", key+"/dynamic-call", ci.Pos(), "dynamic call in defer/go position")
			continue
		}
		fieldCalls = append(fieldCalls, call)
	}
	if len(fieldCalls) == 0 {
		c.Fail("C20.R2", key+"/delegate", fn.Pos(), "no call through field "+field+" found: a set function would not be delegated to")
		return
	}
	delegRets := map[*ssa.Return]bool{}
	for _, call := range fieldCalls {
		base, fname, ok := facts.FieldOf(call.Call.Value)
		if !ok || facts.Term(base) != recvTerm {
			c.Fail("C20.R2", key+"/delegate", call.Pos(), "dynamic call whose callee is not a field of the receiver")
			continue
		}
		if fname != field {
			c.Fail("C20.R2", key+"/delegate", call.Pos(), "calls field "+fname+" instead of "+field)
			continue
		}
		// guards
		conds := facts.CondsAt(call.Block())
		recvOK, fieldOK := false, false
		var guarded []string
		for _, cd := range conds {
			x, isNil, ok := facts.NilCheck(cd)
			if !ok || isNil {
				continue
			}
			if facts.Term(x) == recvTerm {
				recvOK = true
			}
			if b2, f2, ok := facts.FieldOf(x); ok && facts.Term(b2) == recvTerm {
				guarded = append(guarded, f2)
				if f2 == field {
					fieldOK = true
				}
			}
		}
		if !recvOK {
			c.Fail("C20.R2", key+"/guard-receiver", call.Pos(), "call through "+field+" is not dominated by `"+recv.Name()+" != nil` (nil table would panic)")
		} else {
			c.OK("C20.R2", key+"/guard-receiver", call.Pos(), "dominated by receiver != nil")
		}
		if !fieldOK {
			c.Fail("C20.R2", key+"/guard-field", call.Pos(), "call through "+field+" is not dominated by `"+recv.Name()+"."+field+" != nil`; guarded fields on this path: ["+strings.Join(guarded, ",")+"] — an unset "+field+" panics")
		} else {
			c.OK("C20.R2", key+"/guard-field", call.Pos(), "dominated by "+field+" != nil (same field)")
		}
		// arguments = parameters in order
		argsOK := len(call.Call.Args) == len(fn.Params)-1
		if argsOK {
			for i, a := range call.Call.Args {
				if !argIsParam(a, fn, i+1) {
					argsOK = false
				}
			}
		}
		c.Check(argsOK, "C20.R2", key+"/args", call.Pos(), "arguments are the parameters in order", "delegating call does not pass the method's parameters in order")
		// results returned unchanged
		found := false
		for _, r := range returnsOf(fn) {
			if resultsFromCall(r, call) && facts.Dominates(call, r) {
				delegRets[r] = true
				found = true
			}
		}
		c.Check(found, "C20.R2", key+"/results", call.Pos(), "results returned unchanged", "results of the delegated call are not returned unchanged")
	}
	// R3: every other return.
	for _, r := range returnsOf(fn) {
		if delegRets[r] {
			continue
		}
		checkCleanFallback(c, fn, r, key, newErr, recvTerm)
	}
	checkNoOtherPanics(c, fn, fieldCalls)
}

func checkCleanFallback(c *core.Ctx, fn *ssa.Function, r *ssa.Return, key string, newErr *ssa.Function, recvTerm string) {
	n := len(r.Results)
	if n == 0 {
		c.Fail("C20.R3", key+"/fallback", r.Pos(), "return without results")
		return
	}
	// `return f.unsupportedReader(ctx, "GetBlob", repo)`: the fallback is built by a
	// private helper, which is held to the same rule (its parameters standing for
	// the arguments of this call)
	if cl := delegatedCall(r.Results); cl != nil && fallbackDepth < 2 {
		h := cl.Call.StaticCallee()
		if h != nil && h.Origin() != nil && (h.Blocks == nil || h.Synthetic != "") {
			h = h.Origin()
		}
		if h != nil && h != newErr && h.Blocks != nil && len(privateCallSites(h)) > 0 && len(cl.Call.Args) == len(h.Params) {
			fallbackDepth++
			withParams(h, cl, func() {
				for _, r2 := range returnsOf(h) {
					checkCleanFallback(c, h, r2, key, newErr, recvTerm)
				}
			})
			fallbackDepth--
			return
		}
	}
	last := facts.Resolve(r.Results[n-1])
	isNewErrCall := func(v ssa.Value) bool {
		call, ok := facts.Resolve(v).(*ssa.Call)
		if !ok || newErr == nil || call.Call.StaticCallee() != newErr {
			return false
		}
		return len(call.Call.Args) > 0 && facts.Term(call.Call.Args[0]) == recvTerm
	}
	ok := false
	what := ""
	if isNewErrCall(last) {
		ok = true
		what = "error from f.newError"
		for _, v := range r.Results[:n-1] {
			if !isZero(v) {
				ok = false
				what = "non-zero result returned next to the newError error"
			}
		}
	} else if call, isCall := last.(*ssa.Call); isCall && n == 1 {
		if strings.HasSuffix(facts.CalleeName(&call.Call), "ociregistry.ErrorSeq") && len(call.Call.Args) == 1 && isNewErrCall(call.Call.Args[0]) {
			ok = true
			what = "ErrorSeq(f.newError(...))"
		}
	}
	if ok {
		c.OK("C20.R3", key+"/fallback", r.Pos(), what)
	} else {
		if what == "" {
			what = "fallback return is neither (zero..., f.newError(...)) nor ErrorSeq(f.newError(...))"
		}
		c.Fail("C20.R3", key+"/fallback", r.Pos(), what)
	}
}

// checkNilSafeReceiver: every FieldAddr/Field on the receiver is dominated by receiver != nil.
func checkNilSafeReceiver(c *core.Ctx, rule string, fn *ssa.Function) {
	recv := recvOf(fn)
	if recv == nil {
		return
	}
	rt := facts.Term(recv)
	key := facts.FuncName(fn)
	bad := false
	n := 0
	for _, b := range fn.Blocks {
		for _, in := range b.Instrs {
			fa, ok := in.(*ssa.FieldAddr)
			if !ok || facts.Term(fa.X) != rt {
				continue
			}
			n++
			if !nonNilGuarded(b, rt) {
				bad = true
				c.Fail(rule, key+"/nil-receiver-deref", fa.Pos(), "field of receiver accessed without a dominating `"+recv.Name()+" != nil` (a nil *Funcs is a documented value)")
			}
		}
	}
	if !bad {
		c.OK(rule, key+"/nil-receiver-deref", fn.Pos(), sprintf("%d receiver field accesses, all dominated by receiver != nil", n))
	}
}

// checkNoOtherPanics: R4 — every panic-capable construct (E6 inventory) of the
// method is discharged (guarded dynamic call, constant index into the
// variadic-argument array).
func checkNoOtherPanics(c *core.Ctx, fn *ssa.Function, allowedCalls []*ssa.Call) {
	key := facts.FuncName(fn)
	bad := 0
	sites := PanicSites(fn)
	for _, s := range sites {
		if s.Proven {
			continue
		}
		bad++
		c.Fail("C20.R4", key+"/panic-site/"+s.Kind+"/"+s.Expr, s.In.Pos(), "potentially panicking construct in a Funcs method ("+s.Kind+"): "+s.Why)
	}
	if bad == 0 {
		c.OK("C20.R4", key+"/panic-site", fn.Pos(), sprintf("%d panic-capable constructs, all discharged", len(sites)))
	}
	if fnName(fn) != "newError" {
		checkNilSafeReceiver(c, "C20.R4", fn)
	}
}

// checkErrorSeq: ErrorSeq's iterator calls yield exactly once, with the error argument.
func checkErrorSeq(c *core.Ctx) {
	fn := c.P.Func("", "ErrorSeq")
	if fn == nil {
		c.Fail("C20.R3", "anchor/ErrorSeq", 0, "ociregistry.ErrorSeq not found")
		return
	}
	c.Analysed("ErrorSeq")
	if len(fn.AnonFuncs) != 1 {
		c.Fail("C20.R3", "ErrorSeq/shape", fn.Pos(), "ErrorSeq no longer returns a single function literal")
		return
	}
	lit := fn.AnonFuncs[0]
	var yields []*ssa.Call
	for _, ci := range facts.CallsIn(lit) {
		if call, ok := ci.(*ssa.Call); ok && len(lit.Params) == 1 && facts.Resolve(call.Call.Value) == ssa.Value(lit.Params[0]) {
			yields = append(yields, call)
		}
	}
	ok := len(yields) == 1 && len(yields[0].Call.Args) == 2
	if ok {
		// second arg is ErrorSeq's err parameter; the single call is not in a loop.
		idx, root, isP := rootParam(yields[0].Call.Args[1])
		ok = isP && root == fn && idx == 0
		for _, b := range lit.Blocks {
			for _, s := range b.Succs {
				if s.Index <= b.Index {
					ok = false // a back edge: could yield repeatedly
				}
			}
		}
	}
	c.Check(ok, "C20.R3", "ErrorSeq/yields-once", fn.Pos(), "iterator calls yield exactly once with the given error", "ErrorSeq's iterator does not yield exactly one (zero, err) pair")
}

var fallbackDepth int

// delegatedCall: the returned values are exactly the results of one call, in order.
func delegatedCall(vals []ssa.Value) *ssa.Call {
	if len(vals) == 0 {
		return nil
	}
	var call *ssa.Call
	switch x := facts.Resolve(vals[0]).(type) {
	case *ssa.Call:
		call = x
	case *ssa.Extract:
		call, _ = x.Tuple.(*ssa.Call)
	}
	if call == nil || !valsFromCall(vals, call) {
		return nil
	}
	return call
}
