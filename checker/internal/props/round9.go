package props

import (
	"go/token"
	"go/types"
	"os"
	"strings"

	"golang.org/x/tools/go/ssa"

	"ocivet/internal/core"
	"ocivet/internal/facts"
)

// Rules added after the ninth round of seeded changes (seeded/*-Q, *-R:
// value-level and data-structure slips).

// hashFieldFromOwnDigest (C03.R17 / C01.R11; seed C03-Q): a value that carries
// a descriptor together with the running hash of the content (the client's
// verifying blob reader) takes the hash from that descriptor's own digest
// algorithm: <desc>.Digest.Algorithm().Hash(). With a fixed algorithm, content
// addressed by any other algorithm can never verify.
func hashFieldFromOwnDigest(c *core.Ctx, rule string, rels ...string) {
	n := 0
	for _, rel := range rels {
		for _, fn := range c.P.ModuleFunctions(rel) {
			if isInstance(fn) {
				continue
			}
			for _, b := range fn.Blocks {
				for _, in := range b.Instrs {
					al, ok := in.(*ssa.Alloc)
					if !ok {
						continue
					}
					pt, _ := al.Type().(*types.Pointer)
					if pt == nil {
						continue
					}
					st, _ := pt.Elem().Underlying().(*types.Struct)
					if st == nil {
						continue
					}
					var hv, dv ssa.Value
					for _, ref := range *al.Referrers() {
						fa, isFA := ref.(*ssa.FieldAddr)
						if !isFA || fa.Field >= st.NumFields() {
							continue
						}
						ft := st.Field(fa.Field).Type()
						for _, s := range facts.StoresTo(fa) {
							if ft.String() == "hash.Hash" {
								hv = s.Val
							}
							if nt, isN := ft.(*types.Named); isN && nt.Obj().Name() == "Descriptor" {
								dv = s.Val // ociregistry.Descriptor is an alias of the image-spec type
							}
						}
					}
					if hv == nil || dv == nil {
						continue
					}
					n++
					good := false
					if dg := hashedDigest(hv, 2); dg != nil {
						if base, fld, isF := facts.FieldOf(facts.Resolve(dg)); isF && fld == "Digest" {
							norm := func(t string) string {
								return strings.Trim(strings.TrimPrefix(strings.TrimPrefix(t, "&"), "*"), "()")
							}
							got := norm(facts.Term(facts.Resolve(base)))
							want := norm(facts.Term(facts.Resolve(dv)))
							good = got == want
							if !good && os.Getenv("OCIVET_DEBUG") != "" {
								println("hash-from-own-digest terms:", got, want)
							}
						}
					}
					c.Check(good, rule, fnName(outermost(fn))+"/hash-from-own-digest", al.Pos(), "the running hash is created by the algorithm of the descriptor's own digest", "the hash that accumulates the content of a verifying reader is not created by the algorithm of the digest it will be compared with (e.g. a fixed digest.Canonical): content addressed with any other algorithm never verifies, although the bytes are right")
				}
			}
		}
	}
	if n == 0 {
		c.Fail(rule, "hash-from-own-digest/instance-floor", 0, "no value carrying both a descriptor and a running hash found")
	}
}

// hashedDigest: v is <d>.Algorithm().Hash() (or .Digester()), possibly built by
// a private helper from a digest parameter: the digest d, else nil.
func hashedDigest(v ssa.Value, depth int) ssa.Value {
	hc, ok := facts.Resolve(v).(*ssa.Call)
	if !ok {
		return nil
	}
	name := facts.CalleeName(&hc.Call)
	if (strings.HasSuffix(name, "go-digest.Algorithm).Hash") || strings.HasSuffix(name, "go-digest.Algorithm).Digester")) && len(hc.Call.Args) == 1 {
		if ac, isAC := facts.Resolve(hc.Call.Args[0]).(*ssa.Call); isAC && strings.HasSuffix(facts.CalleeName(&ac.Call), "go-digest.Digest).Algorithm") && len(ac.Call.Args) == 1 {
			return ac.Call.Args[0]
		}
		return nil
	}
	h := hc.Call.StaticCallee()
	if h == nil || h.Blocks == nil || depth <= 0 || len(privateCallSites(h)) == 0 {
		return nil
	}
	rets := returnsOf(h)
	if len(rets) != 1 || len(rets[0].Results) == 0 {
		return nil
	}
	inner := hashedDigest(facts.RetVal(rets[0], 0), depth-1)
	if inner == nil {
		return nil
	}
	// the helper's digest parameter (or a field of a parameter) stands for this call's argument
	if p, isP := facts.Resolve(inner).(*ssa.Parameter); isP {
		for i, q := range h.Params {
			if q == p && i < len(hc.Call.Args) {
				return hc.Call.Args[i]
			}
		}
	}
	return nil
}

// trimmerStripsWheneverWriterAdds (C07.R10; seed C07-Q): the function that
// removes the "<status> <text>: " prefix from an error message calls the same
// prefix writer as httpError.Error (which adds the prefix for every status),
// and does so whenever a status is present: the only condition on that call is
// a comparison of the status with zero. Any further condition makes the two
// disagree for some status, and the message grows by one prefix per hop.
func trimmerStripsWheneverWriterAdds(c *core.Ctx, rule string) {
	he := c.P.NamedType("", "httpError")
	if he == nil {
		return
	}
	em := declaredMethod(c, types.NewPointer(he), "Error")
	if em == nil {
		return
	}
	var writer *ssa.Function
	for _, ci := range facts.CallsIn(em) {
		if h := ci.Common().StaticCallee(); h != nil && h.Blocks != nil && h.Pkg == em.Pkg && len(ci.Common().Args) == 2 {
			if _, fld, isF := facts.FieldOf(facts.Resolve(ci.Common().Args[1])); isF && fld == "statusCode" {
				writer = h
			}
		}
	}
	if writer == nil {
		c.Note(rule + ": httpError.Error does not use a shared status-prefix writer")
		return
	}
	n := 0
	// the conditions under which the writer is reached for status value arg at
	// site; where the site is in a private helper that is handed the status, the
	// helper's own call sites are judged as well (the guard may be in the caller)
	var judge func(site ssa.CallInstruction, arg ssa.Value, depth int)
	judge = func(site ssa.CallInstruction, arg ssa.Value, depth int) {
		fn := site.Parent()
		arg = facts.Resolve(arg)
		bad := ""
		for _, cd := range facts.CondsAt(site.Block()) {
			x, op, y, ok := facts.Cmp(cd)
			if ok {
				if k, isK := facts.ConstInt(y); isK && k == 0 && facts.Resolve(x) == arg && (op == token.NEQ || op == token.GTR) {
					continue
				}
				if k, isK := facts.ConstInt(x); isK && k == 0 && facts.Resolve(y) == arg && (op == token.NEQ || op == token.LSS) {
					continue
				}
			}
			bad = "a condition other than `status != 0` guards the removal"
		}
		n++
		c.Check(bad == "", rule, fnName(outermost(fn))+"/strips-whenever-status-present", site.Pos(), "the status prefix is removed whenever a status is present", "the status prefix that httpError.Error adds for every status is removed from the message only under a further condition ("+bad+"): for a status that fails it the message keeps its prefix and gains another on every hop")
		if p, isP := arg.(*ssa.Parameter); isP && depth > 0 && p.Parent() == fn && fn.Parent() == nil {
			for pi, q := range fn.Params {
				if q != p {
					continue
				}
				for _, up := range privateCallSites(fn) {
					if outermost(up.Parent()) == em || pi >= len(up.Common().Args) {
						continue
					}
					judge(up, up.Common().Args[pi], depth-1)
				}
			}
		}
	}
	for _, site := range privateCallSites(writer) {
		if outermost(site.Parent()) == em {
			continue
		}
		judge(site, site.Common().Args[1], 2)
	}
	if n == 0 {
		c.Note(rule + ": no trimmer uses the status-prefix writer")
	}
}

// deletionLoopRevisitsIndex (C10.R11; seed C10-R): a loop that deletes the
// element at its index i from the slice it walks does not go on with i+1 on
// that path (the element that moved into position i would be skipped: with two
// adjacent expired tokens the second stays cached).
func deletionLoopRevisitsIndex(c *core.Ctx, rule string, rels ...string) {
	n := 0
	for _, rel := range rels {
		for _, fn := range c.P.ModuleFunctions(rel) {
			if isInstance(fn) {
				continue
			}
			for _, ci := range facts.CallsIn(fn) {
				cc := ci.Common()
				var idx ssa.Value
				name := facts.CalleeName(cc)
				switch {
				case strings.HasPrefix(name, "slices.Delete") && !strings.HasPrefix(name, "slices.DeleteFunc") && len(cc.Args) == 3:
					idx = cc.Args[1]
				default:
					if bi, ok := cc.Value.(*ssa.Builtin); ok && bi.Name() == "append" && len(cc.Args) == 2 {
						s0, ok0 := facts.Strip(cc.Args[0]).(*ssa.Slice)
						s1, ok1 := facts.Strip(cc.Args[1]).(*ssa.Slice)
						if ok0 && ok1 && s0.High != nil && s0.Low == nil && s1.Low != nil && s1.High == nil {
							if bo, ok := s1.Low.(*ssa.BinOp); ok && bo.Op == token.ADD && bo.X == s0.High {
								if k, isK := facts.ConstInt(bo.Y); isK && k == 1 {
									idx = s0.High
								}
							}
						}
					}
				}
				if idx == nil {
					continue
				}
				ph, ok := facts.Strip(idx).(*ssa.Phi)
				if !ok {
					continue
				}
				n++
				// blocks reachable from the deletion without re-entering the loop header
				reach := map[*ssa.BasicBlock]bool{ci.Block(): true}
				work := []*ssa.BasicBlock{ci.Block()}
				for len(work) > 0 {
					b := work[0]
					work = work[1:]
					for _, s := range b.Succs {
						if s != ph.Block() && !reach[s] {
							reach[s] = true
							work = append(work, s)
						}
					}
				}
				bad := false
				for j, e := range ph.Edges {
					if !reach[ph.Block().Preds[j]] {
						continue
					}
					if bo, ok := e.(*ssa.BinOp); ok && bo.Op == token.ADD && bo.X == ssa.Value(ph) {
						if k, isK := facts.ConstInt(bo.Y); isK && k >= 1 {
							bad = true
						}
					}
				}
				c.Check(!bad, rule, fnName(outermost(fn))+"/deletion-revisits-index", ci.Pos(), "after deleting the element at i the loop does not continue with i+1", "the loop deletes the element at its index and then moves on to the next index: the element that took the deleted one's place is never examined (of two adjacent expired tokens the second stays cached and is sent after its expiry)")
			}
		}
	}
	_ = n
}

// fallibleResultStoredOnlyOnSuccess (C18.R8; seed C18-Q): a pointer that a
// fallible call returns is stored into a field of the method's receiver only
// where the call is known to have succeeded. Stored before the error check, a
// failure leaves nil in the field, and the next method that dereferences it
// (ID, Close, Commit) panics.
func fallibleResultStoredOnlyOnSuccess(c *core.Ctx, rule string, rels ...string) {
	n := 0
	for _, rel := range rels {
		for _, fn := range c.P.ModuleFunctions(rel) {
			if isInstance(fn) || outermost(fn).Signature.Recv() == nil {
				continue
			}
			for _, b := range fn.Blocks {
				for _, in := range b.Instrs {
					st, ok := in.(*ssa.Store)
					if !ok {
						continue
					}
					base, fld, isF := facts.FieldOf(st.Addr)
					if !isF {
						continue
					}
					if _, isP := facts.ResolveFree(facts.Resolve(base)).(*ssa.Parameter); !isP {
						continue
					}
					if _, isPtr := st.Val.Type().Underlying().(*types.Pointer); !isPtr {
						continue
					}
					ex, isEx := facts.Strip(st.Val).(*ssa.Extract)
					if !isEx {
						ex, isEx = facts.Resolve(st.Val).(*ssa.Extract)
					}
					// a setter (`w.setLocation(loc)`): judged where it is called
					if sp, isSP := facts.Resolve(st.Val).(*ssa.Parameter); isSP && !isEx && sp.Parent() == fn && fn.Parent() == nil && len(privateCallSites(fn)) > 0 {
						for pi, q := range fn.Params {
							if q != sp {
								continue
							}
							for _, site := range privateCallSites(fn) {
								if pi >= len(site.Common().Args) {
									continue
								}
								ax, isAx := facts.Resolve(site.Common().Args[pi]).(*ssa.Extract)
								if !isAx || ax.Index != 0 {
									continue
								}
								acall, isACall := ax.Tuple.(*ssa.Call)
								if !isACall {
									continue
								}
								ares := acall.Call.Signature().Results()
								if ares.Len() != 2 || ares.At(1).Type().String() != "error" {
									continue
								}
								n++
								okc := false
								for _, cd := range facts.CondsAt(site.Block()) {
									if x, isNil, ok := facts.NilCheck(cd); ok && isNil {
										if e1, ok := facts.Resolve(x).(*ssa.Extract); ok && e1.Tuple == ax.Tuple && e1.Index == 1 {
											okc = true
										}
									}
								}
								c.Check(okc, rule, fnName(outermost(site.Parent()))+"/"+fld+"/stored-only-on-success", site.Pos(), "the result is handed to the setter where the call is known to have succeeded", "the pointer returned by a fallible call is stored into the receiver's field "+fld+" (through "+fnName(fn)+") before its error is checked: when the call fails the field is left nil, and a later method call on the same value dereferences it and panics")
							}
						}
						continue
					}
					if !isEx || ex.Index != 0 {
						continue
					}
					call, isCall := ex.Tuple.(*ssa.Call)
					if !isCall {
						continue
					}
					res := call.Call.Signature().Results()
					if res.Len() != 2 || res.At(1).Type().String() != "error" {
						continue
					}
					n++
					okc := false
					for _, cd := range facts.CondsAt(b) {
						if x, isNil, ok := facts.NilCheck(cd); ok && isNil {
							if e1, ok := facts.Resolve(x).(*ssa.Extract); ok && e1.Tuple == ex.Tuple && e1.Index == 1 {
								okc = true
							}
						}
					}
					c.Check(okc, rule, fnName(outermost(fn))+"/"+fld+"/stored-only-on-success", st.Pos(), "the result is stored where the call is known to have succeeded", "the pointer returned by a fallible call is stored into the receiver's field "+fld+" before its error is checked: when the call fails the field is left nil, and a later method call on the same value dereferences it and panics")
				}
			}
		}
	}
	if n == 0 {
		c.Note(rule + ": no receiver field is assigned the pointer result of a fallible call")
	}
}

// prefixesRemovedAsPrefixes (C19.R8; seed C19-R): the normalisation of auths
// keys never passes a multi-character, non-blank "cutset" to
// strings.TrimLeft/TrimRight/Trim: those remove any run of the set's
// characters, not a prefix ("http://harbor" loses its h).
func prefixesRemovedAsPrefixes(c *core.Ctx, rule string, rels ...string) {
	bad := 0
	nfn := 0
	for _, rel := range rels {
		for _, fn := range c.P.ModuleFunctions(rel) {
			nfn++
			for _, ci := range facts.CallsIn(fn) {
				cc := ci.Common()
				switch facts.CalleeName(cc) {
				case "strings.TrimLeft", "strings.TrimRight", "strings.Trim":
				default:
					continue
				}
				set, isS := facts.ConstString(cc.Args[1])
				if !isS || len(set) < 2 || strings.TrimSpace(set) == "" {
					continue
				}
				distinct := map[rune]bool{}
				for _, r := range set {
					distinct[r] = true
				}
				if len(distinct) == len([]rune(set)) && !strings.ContainsAny(set, ":/.") {
					continue // a set of distinct characters without separators reads as a cutset
				}
				bad++
				c.Fail(rule, fnName(outermost(fn))+"/prefix-removed-as-prefix", ci.Pos(), "strings."+strings.TrimPrefix(facts.CalleeName(cc), "strings.")+" is given "+strconvQuote(set)+" as its cutset: it removes any run of those characters, not that prefix or suffix, so a host name that starts (ends) with one of them loses characters and the credentials are filed under, and found for, the wrong host")
			}
		}
	}
	if bad == 0 && nfn > 0 {
		c.OK(rule, "prefix-removed-as-prefix", 0, "no prefix-like cutset is handed to strings.Trim/TrimLeft/TrimRight")
	}
}

func strconvQuote(s string) string { return "\"" + s + "\"" }

// clampTestsWhatItClamps (C06.R8; seed C06-R): where a range bound is clamped
// to a limit (`if end > size { end = size }`), the comparison with the limit is
// made on the bound itself, not on the bound shifted away from the limit
// (`end-1 > size` lets end == size+1 through: Content-Length and Content-Range
// then name a byte the body does not have).
func clampTestsWhatItClamps(c *core.Ctx, rule string, rels ...string) {
	n := 0
	for _, rel := range rels {
		for _, fn := range c.P.ModuleFunctions(rel) {
			for _, b := range fn.Blocks {
				for _, in := range b.Instrs {
					st, ok := in.(*ssa.Store)
					if !ok {
						continue
					}
					if bt, isB := st.Val.Type().Underlying().(*types.Basic); !isB || bt.Info()&types.IsInteger == 0 {
						continue
					}
					if _, isC := st.Val.(*ssa.Const); isC {
						continue
					}
					limit := facts.Term(facts.Resolve(st.Val))
					cell := facts.Term(st.Addr)
					for _, p := range b.Preds {
						for idx, s := range p.Succs {
							if s != b {
								continue
							}
							for _, cd := range facts.EdgeConds(p, idx) {
								x, op, y, okc := facts.Cmp(cd)
								if !okc {
									continue
								}
								// each side as (what, offset): `e + k`, `e - k` or plain `e`
								side := func(v ssa.Value) (string, bool, int64) {
									v = facts.Resolve(v)
									off := int64(0)
									if bo, isBo := v.(*ssa.BinOp); isBo && (bo.Op == token.ADD || bo.Op == token.SUB) {
										if k, isK := facts.ConstInt(bo.Y); isK {
											off = k
											if bo.Op == token.SUB {
												off = -k
											}
											v = bo.X
										}
									}
									if ld, isLd := facts.Strip(v).(*ssa.UnOp); isLd && ld.Op == token.MUL && facts.Term(ld.X) == cell {
										return "", true, off
									}
									return facts.Term(facts.Resolve(v)), false, off
								}
								xt, xCell, xo := side(x)
								yt, yCell, yo := side(y)
								var k int64
								switch {
								case xCell && !yCell && yt == limit:
									k = xo - yo
								case yCell && !xCell && xt == limit:
									k = yo - xo
									switch op {
									case token.LSS:
										op = token.GTR
									case token.LEQ:
										op = token.GEQ
									case token.GTR:
										op = token.LSS
									case token.GEQ:
										op = token.LEQ
									}
								default:
									continue
								}
								if op != token.GTR && op != token.GEQ && op != token.LSS && op != token.LEQ {
									continue
								}
								n++
								// now: bound + k OP limit. An upper clamp must not let bound > limit through (k >= 0); a lower clamp k <= 0
								upper := op == token.GTR || op == token.GEQ
								if (upper && k < 0) || (!upper && k > 0) {
									c.Fail(rule, fnName(outermost(fn))+"/clamp-tests-the-bound", st.Pos(), "a bound is set to a limit under a comparison of the limit with the bound shifted away from it: a value just beyond the limit passes unclamped (for a blob range: Content-Length and Content-Range name bytes the body does not contain)")
								}
							}
						}
					}
				}
			}
		}
	}
	if n == 0 {
		c.Note(rule + ": no clamp of a stored bound found")
	} else {
		c.OK(rule, "clamp-tests-the-bound", 0, sprintf("%d clamps compare the bound itself (or a shift towards the limit) with the limit", n))
	}
}
