package props

import (
	"go/token"
	"go/types"
	"strings"

	"golang.org/x/tools/go/ssa"

	"ocivet/internal/core"
	"ocivet/internal/facts"
	"ocivet/internal/load"
)

func init() {
	register(&Prop{
		ID:    "C05",
		Title: "Listings are complete, ordered, duplicate-free and paginate losslessly",
		Run:   runC05,
		Explanation: "R1 yield protocol, for every iterator producer in the module (every function literal with a func(...) bool consumer parameter): after a yield whose result may be false (tested false, or discarded) or whose error argument is not provably nil, no further yield is reachable; callbacks handed to an inner iterator return true, the consumer's own answer, or false only after an error was delivered; " +
			"R2 sort-before-yield: every slice handed to SliceSeq (or ranged over by a yielding literal) in ocimem and ociunify was sorted (slices.SortFunc/Sort, then optionally CompactFunc with the same comparator) after its last append, and ocimem's key filter is the strict test cmp(startAfter, k) < 0 with the same comparator it sorts with; " +
			"R3 a producer return that is control-dependent on an `err != nil` test is preceded by a yield of that error, and a Seq-returning function bailing out under err != nil returns ErrorSeq(err): an iteration ends with an error, never silently short; " +
			"R4 continuation key: the client pager's next request takes `last` from the final element of the page just parsed, stops only on a short page, and the server's Link is built from the final element of the truncated page; " +
			"R5 the start-after cursor crosses the select, debug and unify wrappers unchanged (Sub: translated, decided under C13.R3). " +
			"R5 the start-after cursor reaches the request URL only through url.Values / url.QueryEscape. " +
			"R6 listing iterators are re-runnable: the returned iterator value assigns to no variable (and through no pointer) of the call that created it, and a request captured by the client's pager is never written through; R7 the server cuts a page at the requested n, never at a limit derived from MaxListPageSize. " +
			"R7c a constant page limit stands in for n only when no positive n was requested (a positive n is never silently lowered); R8 (shared with C15.R4) the unifier's merge clears a member's listing error only when that very error is name-unknown. " +
			"R9 (shared with C15.R9) mergeIter returns a plain sequence only where both members' errors are known nil.",
		NotDecided: "ascending order, completeness across pages and de-duplication as value facts (which items a listing contains for given contents, page sizes and start points) are not decided; only the protocol and plumbing clauses above are.",
		Technique:  "static analysis: CFG path search (no-yield-after-stop typestate), SSA provenance of sorted slices and continuation keys",
	})
}

func runC05(c *core.Ctx) {
	n := yieldProtocol(c, "C05.R1", c.P.ModuleFunctions(""))
	if n < 8 {
		c.Fail("C05.R1", "instance-floor", 0, sprintf("only %d iterator producers found in the module; expected the Seq helpers, the client pager, the wrappers' listings, ocimem's descriptor iterators and Scope.Iter", n))
	}
	c05Callbacks(c)
	c05Sorted(c)
	c05ErrorsDelivered(c)
	c05Continuation(c)
	c05Cursors(c)
	listQueryEscaped(c, "C05.R5")
	listingIteratorsRerunnable(c, "C05.R6", []string{"ociclient", "ocifilter", "ocimem", "ociunify", "ocidebug"}, 3)
	iteratorRequestImmutable(c, "C05.R6")
	pageLimitIsTheRequestedOne(c, "C05.R7")
	pageCutOnlyAtTheRequestedSize(c, "C05.R7")
	mergeIterForgiveness(c, "C05.R8")
	mergedListingPlainOnlyWithoutError(c, "C05.R9")
}

// yieldParam returns the consumer parameter (func(...) bool) of fn, if any.
func yieldParam(fn *ssa.Function) *ssa.Parameter {
	for _, p := range fn.Params {
		sig, ok := p.Type().Underlying().(*types.Signature)
		if !ok || sig.Results().Len() != 1 || sig.Params().Len() == 0 {
			continue
		}
		if b, ok := sig.Results().At(0).Type().Underlying().(*types.Basic); ok && b.Kind() == types.Bool {
			return p
		}
	}
	return nil
}

func isInstance(fn *ssa.Function) bool {
	for f := fn; f != nil; f = f.Parent() {
		if o := f.Origin(); o != nil && o != f {
			return true
		}
	}
	return false
}

// yieldProtocol checks R1 on every producer among fns; returns the number of producers.
func yieldProtocol(c *core.Ctx, rule string, fns []*ssa.Function) int {
	n := 0
	for _, fn := range fns {
		if isInstance(fn) {
			continue // the generic origin is analysed once
		}
		yp := yieldParam(fn)
		if yp == nil {
			continue
		}
		// the consumer must actually be called somewhere in fn or its literals
		type ycall struct {
			call ssa.CallInstruction
			in   *ssa.Function
		}
		var ycalls []ycall
		for _, g := range facts.WithAnon(fn) {
			for _, ci := range facts.CallsIn(g) {
				if p, ok := isYieldCall(ci); ok && p == yp {
					ycalls = append(ycalls, ycall{ci, g})
				}
			}
		}
		// delegations: the consumer itself is handed to another call (e.g. inner(yield));
		// whether it declined during that call is unknown afterwards.
		var delegs []ycall
		for _, g := range facts.WithAnon(fn) {
			for _, ci := range facts.CallsIn(g) {
				if p, ok := isYieldCall(ci); ok && p == yp {
					continue
				}
				for _, a := range ci.Common().Args {
					if facts.ResolveFree(a) == ssa.Value(yp) {
						delegs = append(delegs, ycall{ci, g})
					}
				}
			}
		}
		if len(ycalls) == 0 && len(delegs) == 0 {
			continue
		}
		n++
		c.Analysed(facts.FuncName(fn))
		key := facts.FuncName(fn)
		isY := func(g *ssa.Function) func(ssa.Instruction) bool {
			return func(in ssa.Instruction) bool {
				ci, ok := in.(ssa.CallInstruction)
				if !ok {
					return false
				}
				p, ok := isYieldCall(ci)
				return ok && p == yp
			}
		}
		bad := 0
		isYorDeleg := func(g *ssa.Function) func(ssa.Instruction) bool {
			return func(in ssa.Instruction) bool {
				if isY(g)(in) {
					return true
				}
				for _, d := range delegs {
					if ssa.Instruction(d.call) == in {
						return true
					}
				}
				return false
			}
		}
		for _, d := range delegs {
			if at, reach := facts.ReachesWithout(d.call, isYorDeleg(d.in), nil, nil); reach {
				bad++
				c.Fail(rule, key+"/yield-after-delegation", d.call.Pos(), "the consumer is handed to an inner iterator and then called (or handed on) again at "+c.P.Pos(at.Pos())+": if it declined further items during the inner iteration it is called again after declining")
			}
		}
		for _, yc := range ycalls {
			call, isCall := yc.call.(*ssa.Call)
			if !isCall {
				c.Fail(rule, key+"/yield-in-defer-or-go", yc.call.Pos(), "consumer called from a defer/go statement")
				bad++
				continue
			}
			args := call.Call.Args
			errMayBeNonNil := false
			if len(args) >= 2 && args[len(args)-1].Type().String() == "error" {
				ev := args[len(args)-1]
				if !facts.IsNilConst(facts.Strip(ev)) {
					errMayBeNonNil = true
					for _, cd := range facts.CondsAt(call.Block()) {
						if x, isNil, ok := facts.NilCheck(cd); ok && isNil && facts.Term(x) == facts.Term(ev) {
							errMayBeNonNil = false
						}
					}
				}
			}
			refs := *call.Referrers()
			var uses []ssa.Instruction
			for _, r := range refs {
				if _, isDbg := r.(*ssa.DebugRef); !isDbg {
					uses = append(uses, r)
				}
			}
			report := func(why string, at ssa.Instruction) {
				bad++
				c.Fail(rule, key+"/yield-after-stop", call.Pos(), why+" (next consumer call at "+c.P.Pos(at.Pos())+")")
			}
			if errMayBeNonNil || len(uses) == 0 {
				if at, reach := facts.ReachesWithout(call, isY(yc.in), nil, nil); reach {
					if errMayBeNonNil {
						report("the consumer can be called again after an error was delivered to it", at)
					} else {
						report("the consumer's answer is discarded and it can be called again: it keeps being called after declining further items", at)
					}
				}
				continue
			}
			// tested result: follow the false edges
			var visit func(v ssa.Value, neg bool, depth int)
			visit = func(v ssa.Value, neg bool, depth int) {
				if depth > 4 {
					return
				}
				for _, r := range *v.Referrers() {
					switch x := r.(type) {
					case *ssa.If:
						idx := 1 // false edge of `if yield(..)`
						if neg {
							idx = 0
						}
						if at, reach := facts.ReachesFrom(x.Block().Succs[idx], 0, isY(yc.in), nil, nil); reach {
							report("after the consumer returned false another consumer call is reachable", at)
						}
					case *ssa.UnOp:
						if x.Op == token.NOT {
							visit(x, !neg, depth+1)
						}
					case *ssa.Phi:
						visit(x, neg, depth+1)
					}
				}
			}
			visit(call, false, 0)
		}
		if bad == 0 {
			c.OK(rule, key+"/yield-after-stop", fn.Pos(), sprintf("%d consumer calls; none reachable after a declined/failed delivery", len(ycalls)))
		}
	}
	return n
}

// c05Callbacks: R1b over every Seq-consuming callback in the listing wrappers.
func c05Callbacks(c *core.Ctx) {
	for _, rel := range []string{"ocifilter", "ocidebug", "ociunify", "ociclient", "ocimem"} {
		for _, fn := range c.P.ModuleFunctions(rel) {
			if fn.Parent() != nil || isInstance(fn) {
				continue
			}
			// only functions that return a Seq and contain callbacks
			if fn.Signature.Results().Len() != 1 || !strings.Contains(fn.Signature.Results().At(0).Type().String(), "ociregistry.Seq") {
				continue
			}
			hasCallback := false
			for _, f := range facts.WithAnon(fn) {
				if f != fn && f.Signature.Params().Len() == 2 && f.Signature.Params().At(1).Type().String() == "error" && yieldParam(f.Parent()) != nil {
					hasCallback = true
				}
			}
			if hasCallback {
				checkFilterCallbackReturns(c, "C05.R1", facts.FuncName(fn), fn)
			}
		}
	}
}

// ---- R2

func isSortCall(ci ssa.CallInstruction) (slice ssa.Value, cmp ssa.Value, ok bool) {
	name := facts.CalleeName(ci.Common())
	switch name {
	case "slices.SortFunc", "slices.SortStableFunc":
		return ci.Common().Args[0], ci.Common().Args[1], true
	case "slices.Sort", "sort.Strings":
		return ci.Common().Args[0], nil, true
	}
	return nil, nil, false
}

// sortedAt: is slice value v known sorted at instruction at?
func sortedAt(v ssa.Value, at ssa.Instruction, depth int) (bool, string) {
	if depth > 4 {
		return false, "provenance too deep"
	}
	v = facts.ResolveFree(v)
	if c, ok := v.(*ssa.Const); ok && c.Value == nil {
		return true, ""
	}
	// direct: a sort call on this very value that dominates `at` (sorting is in
	// place, and an append after the sort would produce a different SSA value)
	fn := at.Parent()
	if vi, ok := v.(ssa.Instruction); ok {
		fn = vi.Parent()
	}
	for _, ci := range facts.CallsIn(fn) {
		s, _, ok := isSortCall(ci)
		if !ok || facts.ResolveFree(s) != v {
			continue
		}
		if ci.Parent() == at.Parent() && !facts.Dominates(ci, at) {
			continue
		}
		return true, ""
	}
	// a slice kept in a spill cell (captured variable): token dataflow over the owner
	if u, ok := v.(*ssa.UnOp); ok && u.Op == token.MUL {
		if al, site, ok := cellOf(u); ok {
			if cellSortedAt(al, site) {
				return true, ""
			}
			return false, "the captured slice variable is not sorted on every path to its use (after its last assignment)"
		}
	}
	switch x := v.(type) {
	case *ssa.Parameter:
		// a private helper is handed the slice: sorted if it is at every call site
		h := x.Parent()
		sites := privateCallSites(h)
		pi := -1
		for i, q := range h.Params {
			if q == x {
				pi = i
			}
		}
		if len(sites) > 0 && pi >= 0 {
			for _, s := range sites {
				if pi >= len(s.Common().Args) {
					return false, "call site does not bind the slice parameter"
				}
				if ok, why := sortedAt(s.Common().Args[pi], s, depth+1); !ok {
					return false, why
				}
			}
			return true, ""
		}
	case *ssa.Phi:
		for _, e := range x.Edges {
			if ok, why := sortedAt(e, at, depth+1); !ok {
				return false, why
			}
		}
		return true, ""
	case *ssa.Call:
		name := facts.CalleeName(&x.Call)
		if name == "slices.CompactFunc" || name == "slices.Compact" {
			return sortedAt(x.Call.Args[0], x, depth+1)
		}
		// the slice is handed back by a function of the module: sorted if every
		// slice that function returns is
		if h := x.Call.StaticCallee(); h != nil && load.InModule(h) && x.Call.Signature().Results().Len() == 1 {
			if h.Blocks == nil && h.Origin() != nil {
				h = h.Origin()
			}
			rets := returnsOf(h)
			if h.Blocks != nil && len(rets) > 0 {
				for _, r := range rets {
					if ok, why := sortedAt(facts.RetVal(r, 0), r, depth+1); !ok {
						return false, why
					}
				}
				return true, ""
			}
		}
	}
	return false, "no slices.SortFunc/Sort call on the listed slice dominates its use"
}

// cellOf: the Alloc behind a load (directly or through closure captures) and
// the instruction of the owner function at which the load is considered to happen.
func cellOf(u *ssa.UnOp) (*ssa.Alloc, ssa.Instruction, bool) {
	switch a := u.X.(type) {
	case *ssa.Alloc:
		return a, u, true
	case *ssa.FreeVar:
		var cur ssa.Value = a
		fn := u.Parent()
		var site ssa.Instruction
		for d := 0; d < 8; d++ {
			fv, isFV := cur.(*ssa.FreeVar)
			if !isFV {
				break
			}
			var mc *ssa.MakeClosure
			n := 0
			for _, b := range fn.Parent().Blocks {
				for _, in := range b.Instrs {
					if m, ok := in.(*ssa.MakeClosure); ok && m.Fn == fn {
						mc = m
						n++
					}
				}
			}
			if n != 1 {
				return nil, nil, false
			}
			idx := -1
			for i, f := range fn.FreeVars {
				if f == fv {
					idx = i
				}
			}
			if idx < 0 {
				return nil, nil, false
			}
			cur = mc.Bindings[idx]
			site = mc
			fn = fn.Parent()
		}
		if al, ok := cur.(*ssa.Alloc); ok {
			return al, site, true
		}
	}
	return nil, nil, false
}

// cellSortedAt: on every path to site the cell holds nil or a slice that was
// sorted in place (slices.SortFunc/Sort on a load of the cell) after its last
// assignment; re-assigning the result of Compact(load of the cell) keeps it sorted.
func cellSortedAt(al *ssa.Alloc, site ssa.Instruction) bool {
	owner := al.Parent()
	for _, st := range facts.StoresTo(al) {
		if st.Parent() != owner {
			return false
		}
	}
	if site.Parent() != owner {
		return false
	}
	isLoadOfCell := func(v ssa.Value) bool {
		u, ok := facts.Strip(v).(*ssa.UnOp)
		return ok && u.Op == token.MUL && u.X == ssa.Value(al)
	}
	ascending := ascendingSubsequenceAppends(al)
	ff := facts.FlowFuncs{
		Instr: func(in ssa.Instruction, t facts.Tokens) {
			switch x := in.(type) {
			case *ssa.Alloc:
				if x == al {
					t["sorted"] = true // zero value: nil slice
				}
			case *ssa.Store:
				if x.Addr != ssa.Value(al) {
					return
				}
				if facts.IsNilConst(facts.Strip(x.Val)) {
					t["sorted"] = true
					return
				}
				if call, ok := x.Val.(*ssa.Call); ok {
					n := facts.CalleeName(&call.Call)
					if (n == "slices.CompactFunc" || n == "slices.Compact") && isLoadOfCell(call.Call.Args[0]) && t["sorted"] {
						return
					}
				}
				if ascending[x] && t["sorted"] {
					return // one more element of a sorted slice, taken in ascending index order
				}
				delete(t, "sorted")
			case ssa.CallInstruction:
				if s, _, ok := isSortCall(x); ok && isLoadOfCell(s) {
					t["sorted"] = true
				}
			}
		},
	}
	flow := facts.PathFlow(owner, ff)
	return facts.AllAt(ff, flow, site, func(t facts.Tokens) bool { return t["sorted"] })
}

// ascendingSubsequenceAppends: the stores `cell = append(cell, S[i])` through
// which the cell is filled with a subsequence of ONE sorted slice S in
// ascending index order: constant indices first (each site dominating the
// next, indices non-decreasing), then at most one site inside a counted loop
// whose index is the loop variable starting at or above the last constant
// index and stepping by +1. Such a cell, empty before the first of them, is
// sorted after each. Returns nil unless every non-nil store to the cell is of
// that form.
func ascendingSubsequenceAppends(al *ssa.Alloc) map[*ssa.Store]bool {
	type site struct {
		st    *ssa.Store
		src   ssa.Value
		k     int64
		isK   bool
		loopI *ssa.Phi
	}
	var sites []site
	for _, st := range facts.StoresTo(al) {
		if facts.IsNilConst(facts.Strip(st.Val)) {
			continue
		}
		call, ok := st.Val.(*ssa.Call)
		if !ok {
			return nil
		}
		bi, ok := call.Call.Value.(*ssa.Builtin)
		if !ok || bi.Name() != "append" || len(call.Call.Args) != 2 {
			return nil
		}
		u, ok := facts.Strip(call.Call.Args[0]).(*ssa.UnOp)
		if !ok || u.Op != token.MUL || u.X != ssa.Value(al) {
			return nil
		}
		// exactly one appended element: a slice of a one-element varargs array
		sl, ok := call.Call.Args[1].(*ssa.Slice)
		if !ok {
			return nil
		}
		arr, ok := sl.X.(*ssa.Alloc)
		if !ok {
			return nil
		}
		if n, isArr := arrLen(arr); !isArr || n != 1 {
			return nil
		}
		var elem ssa.Value
		for _, ref := range *arr.Referrers() {
			if ia, ok := ref.(*ssa.IndexAddr); ok {
				for _, s2 := range facts.StoresTo(ia) {
					elem = s2.Val
				}
			}
		}
		eu, ok := elem.(*ssa.UnOp)
		if !ok || eu.Op != token.MUL {
			return nil
		}
		ia, ok := eu.X.(*ssa.IndexAddr)
		if !ok {
			return nil
		}
		s1 := site{st: st, src: ia.X}
		if k, isK := facts.ConstInt(ia.Index); isK {
			s1.k, s1.isK = k, true
		} else if ph, isPhi := ia.Index.(*ssa.Phi); isPhi {
			s1.loopI = ph
		} else {
			return nil
		}
		sites = append(sites, s1)
	}
	if len(sites) == 0 {
		return nil
	}
	src := sites[0].src
	var loop *site
	var consts []site
	for i := range sites {
		if sites[i].src != src {
			return nil
		}
		if ok, _ := sortedAt(src, sites[i].st, 1); !ok {
			return nil
		}
		if sites[i].isK {
			consts = append(consts, sites[i])
		} else {
			if loop != nil {
				return nil
			}
			loop = &sites[i]
		}
	}
	// constant sites: totally ordered by dominance with non-decreasing indices
	for i := range consts {
		for j := range consts {
			if i != j && facts.Dominates(consts[i].st, consts[j].st) && consts[i].k > consts[j].k {
				return nil
			}
			if i != j && !facts.Dominates(consts[i].st, consts[j].st) && !facts.Dominates(consts[j].st, consts[i].st) {
				return nil
			}
		}
	}
	if loop != nil {
		ph := loop.loopI
		if len(ph.Edges) != 2 {
			return nil
		}
		var init int64
		okInit, okStep := false, false
		for _, e := range ph.Edges {
			if k, isK := facts.ConstInt(e); isK {
				init, okInit = k, true
			} else if bo, isBo := e.(*ssa.BinOp); isBo && bo.Op == token.ADD && bo.X == ssa.Value(ph) {
				if c, isC := facts.ConstInt(bo.Y); isC && c == 1 {
					okStep = true
				}
			}
		}
		if !okInit || !okStep {
			return nil
		}
		for _, cs := range consts {
			if cs.k > init || !facts.Dominates(cs.st, ph) {
				return nil
			}
		}
	}
	out := map[*ssa.Store]bool{}
	for _, s1 := range sites {
		out[s1.st] = true
	}
	return out
}

func arrLen(al *ssa.Alloc) (int64, bool) {
	p, ok := al.Type().Underlying().(*types.Pointer)
	if !ok {
		return 0, false
	}
	a, ok := p.Elem().Underlying().(*types.Array)
	if !ok {
		return 0, false
	}
	return a.Len(), true
}

func c05Sorted(c *core.Ctx) {
	c05SortedIn(c, "C05.R2", []string{"ocimem", "ociunify"})
}

func c05SortedIn(c *core.Ctx, rule string, rels []string) {
	n := 0
	for _, rel := range rels {
		for _, fn := range c.P.ModuleFunctions(rel) {
			if isInstance(fn) {
				continue
			}
			for _, ci := range facts.CallsIn(fn) {
				if !hasSuffix(facts.CalleeName(ci.Common()), "ociregistry.SliceSeq") {
					continue
				}
				n++
				ok, why := sortedAt(ci.Common().Args[0], ci, 0)
				c.Check(ok, rule, facts.FuncName(fn)+"/sorted-before-SliceSeq", ci.Pos(), "listed slice is sorted after its last append", "a listing is produced from a slice that is not sorted: "+why)
			}
			// yielding literals ranging over a captured slice (mergeIter's error-tail form)
			if yp := yieldParam(fn); yp != nil && fn.Parent() != nil && isSeqConsumer(yp) {
				for _, b := range fn.Blocks {
					for _, in := range b.Instrs {
						ia, ok := in.(*ssa.IndexAddr)
						if !ok {
							continue
						}
						if _, isSlice := ia.X.Type().Underlying().(*types.Slice); !isSlice {
							continue
						}
						n++
						ok2, why := sortedAt(ia.X, in, 0)
						c.Check(ok2, rule, facts.FuncName(fn)+"/sorted-before-range", in.Pos(), "ranged slice is sorted", "a yielding literal ranges over a slice that is not sorted: "+why)
					}
				}
			}
			// CompactFunc must use the same comparator as the preceding SortFunc
			for _, ci := range facts.CallsIn(fn) {
				if facts.CalleeName(ci.Common()) != "slices.CompactFunc" {
					continue
				}
				var sortCmp ssa.Value
				for _, cj := range facts.CallsIn(fn) {
					if s, cmp, ok := isSortCall(cj); ok && facts.ResolveFree(s) == facts.ResolveFree(ci.Common().Args[0]) && facts.Dominates(cj, ci) {
						sortCmp = cmp
					}
				}
				ok := false
				if sortCmp != nil {
					if mc, isMC := facts.Resolve(ci.Common().Args[1]).(*ssa.MakeClosure); isMC {
						lit := mc.Fn.(*ssa.Function)
						// the equality literal calls the sort comparator and tests == 0
						// every return of the literal is the truth of `cmp(a, b) == 0`
						// (in any spelling: == 0, !(… != 0))
						ok = true
						nret := 0
						for _, r := range returnsOf(lit) {
							nret++
							x, op, y, isCmp := facts.Cmp(facts.FlattenOne(facts.Cond{V: facts.RetVal(r, 0), Pos: true}))
							good := false
							if isCmp && op == token.EQL {
								if k, isK := facts.ConstInt(y); isK && k == 0 {
									if cc, isCall := facts.Resolve(x).(*ssa.Call); isCall && facts.ResolveFree(cc.Call.Value) == facts.ResolveFree(sortCmp) {
										good = true
									}
								}
							}
							ok = ok && good
						}
						ok = ok && nret > 0
					}
				}
				c.Check(ok, rule, facts.FuncName(fn)+"/compact-same-comparator", ci.Pos(), "de-duplication uses the sort comparator (== 0)", "CompactFunc does not de-duplicate with the comparator the slice was sorted with")
			}
		}
	}
	if n < len(rels) {
		c.Fail(rule, "instance-floor", 0, sprintf("only %d sorted-listing sites found in ocimem/ociunify", n))
	}
	// ocimem strict-after filter
	mk := c.P.Func("ocimem", "mapKeysIter")
	if mk == nil {
		c.Fail(rule, "anchor/ocimem.mapKeysIter", 0, "ocimem.mapKeysIter not found")
		return
	}
	c.Analysed("ocimem.mapKeysIter")
	// params: m, cmp, startAfter
	// strictCmp: cond (with polarity) establishes cmp(startAfter, k) < 0 for the
	// element k; cmpV is the comparator parameter as seen from where the test is.
	strictCmp := func(cd facts.Cond) bool {
		x, op, y, ok := facts.Cmp(cd)
		if !ok {
			return false
		}
		call, isCall := facts.Resolve(x).(*ssa.Call)
		k, isK := facts.ConstInt(y)
		if !isCall || !isK || k != 0 || !argIsParam(call.Call.Value, mk, 1) || len(call.Call.Args) != 2 {
			return false
		}
		a0IsStart := argIsParam(call.Call.Args[0], mk, 2)
		a1IsStart := argIsParam(call.Call.Args[1], mk, 2)
		return (a0IsStart && !a1IsStart && op == token.LSS) || (a1IsStart && !a0IsStart && op == token.GTR)
	}
	// form (b): every key is collected and then the non-qualifying ones are
	// removed with slices.DeleteFunc(ks, func(k) bool { return !(cmp(startAfter,k) < 0) }),
	// whose RESULT is the slice that is sorted and returned.
	deleteFiltered := func() (ssa.CallInstruction, bool) {
		for _, ci := range facts.CallsIn(mk) {
			if facts.CalleeName(ci.Common()) != "slices.DeleteFunc" || len(ci.Common().Args) != 2 {
				continue
			}
			mc, ok := facts.Resolve(ci.Common().Args[1]).(*ssa.MakeClosure)
			if !ok {
				return ci, false
			}
			pred := mc.Fn.(*ssa.Function)
			okAll, nret := true, 0
			for _, r := range returnsOf(pred) {
				nret++
				rv := facts.RetVal(r, 0)
				// the element is deleted iff rv is true: rv false must imply strictly-after
				bo, isB := rv.(*ssa.BinOp)
				if !isB {
					// constant true (delete) is fine; constant false must be under a strict guard
					if cst, isC := rv.(*ssa.Const); isC && cst.Value != nil {
						if cst.Value.String() == "true" {
							continue
						}
						strict := false
						for _, cd := range facts.CondsAt(r.Block()) {
							if strictCmp(cd) {
								strict = true
							}
						}
						okAll = okAll && strict
						continue
					}
					okAll = false
					continue
				}
				okAll = okAll && strictCmp(facts.Cond{V: bo, Pos: false})
			}
			used := false
			if v := ci.Value(); v != nil {
				for _, c2 := range facts.CallsIn(mk) {
					if sl, _, isSort := isSortCall(c2); isSort && facts.Resolve(sl) == ssa.Value(v) {
						used = true
					}
				}
			}
			return ci, okAll && nret > 0 && used
		}
		return nil, false
	}
	found := false
	dci, dok := deleteFiltered()
	// collection sites: `ks = append(ks, k)` or `ks[n] = k`
	type site struct {
		pos token.Pos
		b   *ssa.BasicBlock
	}
	var sites []site
	for _, b := range mk.Blocks {
		for _, in := range b.Instrs {
			switch x := in.(type) {
			case *ssa.Call:
				if bi, ok := x.Call.Value.(*ssa.Builtin); ok && bi.Name() == "append" {
					sites = append(sites, site{x.Pos(), b})
				}
			case *ssa.Store:
				if ia, ok := x.Addr.(*ssa.IndexAddr); ok {
					if _, isSlice := ia.X.Type().Underlying().(*types.Slice); isSlice {
						sites = append(sites, site{x.Pos(), b})
					}
				}
			}
		}
	}
	for _, st := range sites {
		strict := false
		for _, cd := range facts.CondsAt(st.b) {
			if strictCmp(cd) {
				strict = true
			}
		}
		found = true
		if !strict && dci != nil {
			c.Check(dok, rule, "ocimem.mapKeysIter/strictly-after", dci.Pos(), "keys not satisfying cmp(startAfter, k) < 0 are removed by slices.DeleteFunc and its result is what is sorted", "the key filter (slices.DeleteFunc) does not remove exactly the keys failing the strict test cmp(startAfter, k) < 0, or its result is not the slice that is sorted: the start point itself (or items before it) would be listed")
			continue
		}
		c.Check(strict, rule, "ocimem.mapKeysIter/strictly-after", st.pos, "keys kept only under cmp(startAfter, k) < 0", "the key filter is not the strict test cmp(startAfter, k) < 0: the start point itself (or items before it) would be listed")
	}
	if !found {
		c.Fail(rule, "ocimem.mapKeysIter/strictly-after", mk.Pos(), "no filtered append found")
	}
	// same comparator for filter and sort
	sameCmp := false
	for _, ci := range facts.CallsIn(mk) {
		if _, cmp, ok := isSortCall(ci); ok && cmp != nil && argIsParam(cmp, mk, 1) {
			sameCmp = true
		}
	}
	c.Check(sameCmp, rule, "ocimem.mapKeysIter/sort-comparator", mk.Pos(), "sorted with the comparator used by the filter", "keys are not sorted with the comparator parameter")
}

func isSeqConsumer(yp *ssa.Parameter) bool {
	sig, ok := yp.Type().Underlying().(*types.Signature)
	return ok && sig.Params().Len() == 2 && sig.Params().At(1).Type().String() == "error"
}

// ---- R3

func isSeqType(t types.Type) bool {
	return strings.Contains(t.String(), "ociregistry.Seq[")
}

// seqDeliversError: the sequence value v ends by handing an error to its
// consumer: ErrorSeq(err), a producer literal that yields a non-nil error, or
// the result of a module function all of whose results are of that kind.
func seqDeliversError(v ssa.Value, depth int) bool {
	switch x := facts.Resolve(v).(type) {
	case *ssa.Call:
		if hasSuffix(facts.CalleeName(&x.Call), "ociregistry.ErrorSeq") {
			return !facts.IsNilConst(facts.Strip(x.Call.Args[0]))
		}
		h := x.Call.StaticCallee()
		if h == nil || depth <= 0 || !load.InModule(h) {
			return false
		}
		if o := h.Origin(); o != nil && (h.Blocks == nil || h.Synthetic != "") {
			h = o
		}
		rets := returnsOf(h)
		if h.Blocks == nil || len(rets) == 0 {
			return false
		}
		for _, r := range rets {
			if len(r.Results) != 1 || !seqDeliversError(facts.RetVal(r, 0), depth-1) {
				return false
			}
		}
		return true
	case *ssa.MakeClosure:
		lit := x.Fn.(*ssa.Function)
		for _, ci := range facts.CallsIn(lit) {
			if _, isY := isYieldCall(ci); isY {
				a := ci.Common().Args
				if len(a) == 2 && !facts.IsNilConst(facts.Strip(a[1])) {
					return true
				}
			}
		}
	}
	return false
}

func c05ErrorsDelivered(c *core.Ctx) {
	n := 0
	for _, fn := range c.P.ModuleFunctions("") {
		if isInstance(fn) {
			continue
		}
		// (a) producer literals of Seq type: func(yield func(T, error) bool)
		if yp := yieldParam(fn); yp != nil {
			sig := yp.Type().Underlying().(*types.Signature)
			if sig.Params().Len() == 2 && sig.Params().At(1).Type().String() == "error" {
				for _, r := range returnsOf(fn) {
					var errv ssa.Value
					for _, cd := range facts.CondsAt(r.Block()) {
						if x, isNil, ok := facts.NilCheck(cd); ok && !isNil && x.Type().String() == "error" {
							errv = x
						}
					}
					if errv == nil {
						continue
					}
					// a callback-shaped helper (yield handed in, bool result): returning
					// true means "carry on", not "stop"
					if len(r.Results) == 1 {
						if cst, isC := facts.RetVal(r, 0).(*ssa.Const); isC && cst.Value != nil && cst.Value.ExactString() == "true" {
							continue
						}
					}
					n++
					delivered := false
					for _, ci := range facts.CallsIn(fn) {
						if p, ok := isYieldCall(ci); ok && p == yp && facts.Dominates(ci, r) {
							a := ci.Common().Args
							if len(a) == 2 && !facts.IsNilConst(facts.Strip(a[1])) {
								delivered = true
							}
						}
					}
					c.Check(delivered, "C05.R3", facts.FuncName(fn)+"/error-delivered", r.Pos(), "producer stops under err != nil only after yielding the error", "the producer stops because of an error without yielding it: the consumer sees a silently shortened sequence")
				}
			}
		}
		// (b) Seq-returning functions bailing out under err != nil
		if fn.Signature.Results().Len() == 1 && isSeqType(fn.Signature.Results().At(0).Type()) {
			for _, r := range returnsOf(fn) {
				var errv ssa.Value
				for _, cd := range facts.CondsAt(r.Block()) {
					if x, isNil, ok := facts.NilCheck(cd); ok && !isNil && x.Type().String() == "error" {
						errv = x
					}
				}
				if errv == nil {
					continue
				}
				n++
				ok := seqDeliversError(r.Results[0], 2)
				c.Check(ok, "C05.R3", facts.FuncName(fn)+"/bailout-ErrorSeq", r.Pos(), "bails out with ErrorSeq(err)", "a Seq-returning function returns under err != nil something other than ErrorSeq(err): the error is lost and the listing looks complete")
			}
		}
	}
	if n < 6 {
		c.Fail("C05.R3", "instance-floor", 0, sprintf("only %d error-exit sites found", n))
	}
}

// ---- R4

// lastElemOf: is v the element xs[len(xs)-1]? returns xs.
func lastElemOf(v ssa.Value) (ssa.Value, bool) {
	u, ok := facts.Strip(v).(*ssa.UnOp)
	if !ok || u.Op != token.MUL {
		return nil, false
	}
	ia, ok := u.X.(*ssa.IndexAddr)
	if !ok {
		return nil, false
	}
	bo, ok := ia.Index.(*ssa.BinOp)
	if !ok || bo.Op != token.SUB {
		return nil, false
	}
	if k, isK := facts.ConstInt(bo.Y); !isK || k != 1 {
		return nil, false
	}
	lc, ok := bo.X.(*ssa.Call)
	if !ok {
		return nil, false
	}
	if bi, isB := lc.Call.Value.(*ssa.Builtin); !isB || bi.Name() != "len" {
		return nil, false
	}
	if facts.Resolve(lc.Call.Args[0]) != facts.Resolve(ia.X) && facts.Term(lc.Call.Args[0]) != facts.Term(ia.X) {
		return nil, false
	}
	return facts.Resolve(ia.X), true
}

func c05Continuation(c *core.Ctx) {
	// client
	var pager, nextLink *ssa.Function
	cl := c.P.Pkg("ociclient")
	if cl != nil {
		for _, m := range cl.Members {
			if t, ok := m.(*ssa.Type); ok {
				if f := c.P.Method(types.NewPointer(t.Type()), "pager"); f != nil {
					pager = f
				}
			}
		}
		nextLink = cl.Func("nextLink")
	}
	if pager == nil || nextLink == nil {
		c.Fail("C05.R4", "anchor/ociclient.pager", 0, "client pager / nextLink not found")
	} else {
		c.Analysed(facts.FuncName(pager))
		c.Analysed(facts.FuncName(nextLink))
		found := false
		for _, f := range facts.WithAnon(pager) {
			for _, ci := range facts.CallsIn(f) {
				if ci.Common().StaticCallee() != nextLink {
					continue
				}
				found = true
				args := ci.Common().Args
				xs, ok := lastElemOf(args[len(args)-1])
				fromPage := false
				if ok {
					// the page: result 0 of the parse callback (pager's parameter 3), possibly
					// handed back by a private helper that made the call
					origins := helperResultOrigins(xs, 2)
					fromPage = len(origins) > 0
					for _, o := range origins {
						good := false
						if ex, isEx := o.V.(*ssa.Extract); isEx && ex.Index == 0 {
							if call, isCall := ex.Tuple.(*ssa.Call); isCall {
								if idx, root, isP := rootParam(o.up(call.Call.Value)); isP && root == pager && idx == 3 {
									good = true
								}
							}
						}
						if !good {
							fromPage = false
						}
					}
				}
				c.Check(ok && fromPage, "C05.R4", "ociclient.pager/last-from-page", ci.Pos(), "next request continues after the final item of the page just parsed", "the pager does not continue from the final element of the page it just delivered: items are skipped or repeated across pages")
				// the loop exit: only on a short page
				shortPage := false
				for _, cd := range facts.CondsAt(ci.Block()) {
					if x, op, y, okc := cmpLenFirst(cd); okc && op == token.GEQ {
						if lc, isCall := x.(*ssa.Call); isCall {
							if bi, isB := lc.Call.Value.(*ssa.Builtin); isB && bi.Name() == "len" && facts.Resolve(lc.Call.Args[0]) == xs {
								if _, fld, isF := facts.FieldOf(facts.Resolve(y)); isF && fld == "ListN" {
									shortPage = true
								}
							}
						}
					}
				}
				c.Check(shortPage, "C05.R4", "ociclient.pager/stop-on-short-page", ci.Pos(), "continues exactly when len(page) >= requested page size", "the pager's continuation test is not len(page) >= ListN: it stops early on a full page or loops on a short one")
			}
		}
		if !found {
			c.Fail("C05.R4", "ociclient.pager/last-from-page", pager.Pos(), "pager never calls nextLink")
		}
		// nextLink: fallback request carries ListLast = last
		okStore := false
		for _, f := range withHelpers(nextLink) {
			for _, b := range f.Blocks {
				for _, in := range b.Instrs {
					if st, ok := in.(*ssa.Store); ok {
						if _, fld, isF := facts.FieldOf(st.Addr); isF && fld == "ListLast" && argIsParam(resolveUp(st.Val, nextLink, 3), nextLink, 3) {
							okStore = true
						}
					}
				}
			}
		}
		c.Check(okStore, "C05.R4", "ociclient.nextLink/ListLast", nextLink.Pos(), "fallback request sets ListLast to the last item", "nextLink's fallback request does not set ListLast to the last delivered item")
	}
	// server
	srvT := c.P.NamedType("ociserver", "registry")
	if srvT == nil {
		c.Fail("C05.R4", "anchor/ociserver.registry", 0, "ociserver.registry not found")
		return
	}
	nl := c.P.Method(types.NewPointer(srvT), "nextListResults")
	if nl == nil {
		c.Fail("C05.R4", "anchor/ociserver.nextListResults", 0, "server nextListResults not found")
		return
	}
	c.Analysed(facts.FuncName(nl))
	// the Link's "last" parameter — set here or in a private helper that is handed
	// the item — is the final element of the page being returned
	found := false
	for _, f := range withHelpers(nl) {
		for _, ci := range facts.CallsIn(f) {
			if facts.CalleeName(ci.Common()) != "(net/url.Values).Set" {
				continue
			}
			a := ci.Common().Args
			if s, isS := facts.ConstString(a[1]); !isS || s != "last" {
				continue
			}
			found = true
			_, ok := lastElemOf(resolveUp(a[2], nl, 3))
			c.Check(ok, "C05.R4", "ociserver.nextListResults/link-from-last", ci.Pos(), "Link continues after the final item of the truncated page", "the server's next Link is not built from the final element of the page it returns")
		}
	}
	if !found {
		c.Fail("C05.R4", "ociserver.nextListResults/link-from-last", nl.Pos(), `nextListResults never builds a Link with a "last" parameter`)
	}
}

// ---- R5

func c05Cursors(c *core.Ctx) {
	type w struct{ rel, ctor string }
	for _, x := range []w{{"ocifilter", "AccessChecker"}, {"ocidebug", "New"}, {"ociunify", "New"}} {
		ctor := c.P.Func(x.rel, x.ctor)
		if ctor == nil {
			c.Fail("C05.R5", "anchor/"+x.rel+"."+x.ctor, 0, "constructor not found")
			continue
		}
		ts := constructorResultTypes(ctor)
		if len(ts) != 1 {
			c.Fail("C05.R5", "anchor/"+x.rel+"."+x.ctor+".result", ctor.Pos(), "cannot determine the wrapper type")
			continue
		}
		for _, name := range []string{"Repositories", "Tags"} {
			fn := declaredMethod(c, ts[0], name)
			if fn == nil {
				c.Fail("C05.R5", x.rel+"."+name, ctor.Pos(), name+" not declared on the wrapper")
				continue
			}
			c.Analysed(facts.FuncName(fn))
			cursorIdx := len(fn.Params) - 1 // startAfter is the last parameter
			n := 0
			for _, bc := range backendCalls(fn) {
				if bc.Method != name {
					continue
				}
				n++
				a := bc.Call.Common().Args
				ok := argIsParam(a[len(a)-1], fn, cursorIdx)
				c.Check(ok, "C05.R5", x.rel+"."+name+"/cursor", bc.Call.Pos(), "start-after cursor passed unchanged", "the start-after cursor is not passed to the wrapped registry unchanged")
			}
			if n == 0 {
				c.Fail("C05.R5", x.rel+"."+name+"/cursor", fn.Pos(), "no backend "+name+" call")
			}
		}
	}
}

var _ = load.Mod
