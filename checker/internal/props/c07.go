package props

import (
	"go/token"
	"go/types"
	"strings"

	"golang.org/x/tools/go/ssa"

	"ocivet/internal/core"
	"ocivet/internal/facts"
)

func init() {
	register(&Prop{
		ID:    "C07",
		Title: "Errors keep their identity, status and message across the wire",
		Run:   runC07,
		Explanation: "R1 the keys of errorStatuses are exactly the codes of the package-level Err* values (bijection) and each status equals the distribution spec's (frozen table A.5); " +
			"R2 the client's HEAD fallback maps a status to an Err* value whose code maps back to that status, so a second hop re-emits it; " +
			"R3 MarshalError uses an HTTPError's own status only when the code table misses, WriteError writes exactly the status MarshalError returned, and the message put on the wire is trimErrorCodePrefix(err, that status, that code); " +
			"R4 %w discipline on the wire path: in ociserver and ociclient an error that originates from a call on a backend Interface/BlobWriter/BlobReader value, an io.Copy involving one, or client.do/doRequest, and is formatted into a returned error, is formatted with %w; " +
			"R5 the client wraps the decoded WireErrors in an HTTPError carrying resp.StatusCode, and converts *WireErrors to error only when non-empty; " +
			"R6 prefix writer/reader agreement: HTTPError/WireError messages and trimErrorCodePrefix build their prefixes with the same two helpers followed by the same separator; " +
			"R7 WireError.Is answers true only under equality of the two codes, httpError.Is only for status 416 and ErrRangeInvalid. " +
			"R6b httpError.Error writes its `<status> <status text>` prefix on every path (no status-dependent variant). " +
			"R5b the client reads an error body up to a constant limit; R8 a response returned by the auth transport has not had its Body closed by it. " +
			"R2 covers multi-valued case arms of the HEAD fallback; R6c the prefix built by the shared helper is used as built (nothing trims or re-slices it between the helper and the separator). " +
			"R5c the too-large test on an error body is the complement of \"fewer bytes than the reader's limit were read\" (len(data) > R-1 or >= R for io.LimitReader(body, R)). " +
			"R9 on the way to the status line an error is never type-asserted to a module error interface (errors.As finds a wrapped HTTPError, an assertion only a bare one). " +
			"R10 the message trimmer calls the status-prefix writer that httpError.Error uses under no condition other than status != 0 (writer and trimmer agree for every status).",
		NotDecided: "the message fixed point as a string fact for arbitrary message texts, and preservation of detail JSON bytes, are not decided.",
		Technique:  "static analysis: table extraction from the package initialiser, format-verb/provenance analysis of fmt.Errorf arguments, SSA dominance",
	})
}

// spec statuses (DESIGN A.5)
var specStatus = map[string]int64{
	"BLOB_UNKNOWN": 404, "BLOB_UPLOAD_INVALID": 416, "BLOB_UPLOAD_UNKNOWN": 404, "DIGEST_INVALID": 400,
	"MANIFEST_BLOB_UNKNOWN": 404, "MANIFEST_INVALID": 400, "MANIFEST_UNKNOWN": 404, "NAME_INVALID": 400,
	"NAME_UNKNOWN": 404, "SIZE_INVALID": 400, "UNAUTHORIZED": 401, "DENIED": 403, "UNSUPPORTED": 400,
	"TOOMANYREQUESTS": 429, "RANGE_INVALID": 416,
}

type errModel struct {
	CodeOf   map[string]string // Err* global name -> code
	StatusOf map[string]int64  // Err* global name -> status from errorStatuses
	Table    *ssa.Global
	// TableFn is set instead of Table when the code -> status mapping is a
	// function `func(code string) (int, bool)` switching over the Err*.Code() values.
	TableFn *ssa.Function
}

func (m *errModel) pos() token.Pos {
	if m.Table != nil {
		return m.Table.Pos()
	}
	if m.TableFn != nil {
		return m.TableFn.Pos()
	}
	return token.NoPos
}

// isTableMiss: cond says the code has no status in the table (failed comma-ok
// lookup in the map, or the table function's ok result is false).
func (m *errModel) isTableMiss(cd facts.Cond) bool {
	ex, ok := cd.V.(*ssa.Extract)
	if !ok || ex.Index != 1 || cd.Pos {
		return false
	}
	switch t := ex.Tuple.(type) {
	case *ssa.Lookup:
		if g := loadedGlobal(t.X); g != nil && (g == m.Table || globalName(g) == "errorStatuses") {
			return true
		}
	case *ssa.Call:
		sc := t.Call.StaticCallee()
		return sc != nil && m.TableFn != nil && sc == m.TableFn
	}
	return false
}

// loadStatusFunc: the switch form of the table.
func loadStatusFunc(c *core.Ctx, m *errModel) {
	for _, fn := range pkgFuncs(c, ".") {
		if fn.Signature.Recv() != nil || sigString(fn.Signature) != "(string)(int,bool)" {
			continue
		}
		found := map[string]int64{}
		for _, b := range fn.Blocks {
			iff, ok := b.Instrs[len(b.Instrs)-1].(*ssa.If)
			if !ok {
				continue
			}
			bo, ok := iff.Cond.(*ssa.BinOp)
			if !ok || bo.Op != token.EQL {
				continue
			}
			var name string
			for _, pr := range [][2]ssa.Value{{bo.X, bo.Y}, {bo.Y, bo.X}} {
				if !argIsParam(pr[0], fn, 0) {
					continue
				}
				if call, isCall := facts.Resolve(pr[1]).(*ssa.Call); isCall && call.Call.IsInvoke() && call.Call.Method.Name() == "Code" {
					if g := loadedGlobal(call.Call.Value); g != nil {
						name = g.Name()
					}
				}
			}
			if name == "" {
				continue
			}
			// the arm: follow unconditional jumps to the return
			t := b.Succs[0]
			for d := 0; d < 4 && len(t.Instrs) == 1; d++ {
				if _, isJ := t.Instrs[0].(*ssa.Jump); !isJ {
					break
				}
				t = t.Succs[0]
			}
			if r, isR := t.Instrs[len(t.Instrs)-1].(*ssa.Return); isR && len(r.Results) == 2 {
				k, isK := facts.ConstInt(facts.RetVal(r, 0))
				okc, isC := facts.RetVal(r, 1).(*ssa.Const)
				if isK && isC && okc.Value != nil && okc.Value.ExactString() == "true" {
					found[name] = k
				}
			}
		}
		if len(found) >= 5 {
			m.TableFn = fn
			for k, v := range found {
				m.StatusOf[k] = v
			}
		}
	}
}

func loadErrModel(c *core.Ctx) *errModel {
	m := &errModel{CodeOf: map[string]string{}, StatusOf: map[string]int64{}}
	sp := c.P.Pkg("")
	if sp == nil {
		return m
	}
	init := sp.Func("init")
	for _, b := range init.Blocks {
		for _, in := range b.Instrs {
			switch x := in.(type) {
			case *ssa.Store:
				g, ok := x.Addr.(*ssa.Global)
				if !ok || !strings.HasPrefix(g.Name(), "Err") {
					continue
				}
				if call, ok := facts.Resolve(x.Val).(*ssa.Call); ok && strings.HasSuffix(facts.CalleeName(&call.Call), "ociregistry.NewError") {
					if code, ok := facts.ConstString(call.Call.Args[1]); ok {
						m.CodeOf[g.Name()] = code
					}
				}
				if globalName(g) == "errorStatuses" {
					m.Table = g
				}
			case *ssa.MapUpdate:
				// key = ErrX.Code()
				call, ok := facts.Resolve(x.Key).(*ssa.Call)
				if !ok || !call.Call.IsInvoke() || call.Call.Method.Name() != "Code" {
					continue
				}
				u, ok := call.Call.Value.(*ssa.UnOp)
				if !ok {
					continue
				}
				g, ok := u.X.(*ssa.Global)
				if !ok {
					continue
				}
				if st, ok := facts.ConstInt(x.Value); ok {
					m.StatusOf[g.Name()] = st
				}
			}
		}
	}
	if m.Table == nil {
		for _, mem := range sp.Members {
			if g, ok := mem.(*ssa.Global); ok && globalName(g) == "errorStatuses" {
				m.Table = g
			}
		}
	}
	if m.Table == nil {
		loadStatusFunc(c, m)
	}
	return m
}

func runC07(c *core.Ctx) {
	m := loadErrModel(c)
	if len(m.CodeOf) == 0 || (m.Table == nil && m.TableFn == nil) {
		c.Fail("C07.R1", "anchor/errorStatuses", 0, "Err* values / code -> status table (a map[string]int initialised with the Err*.Code() keys, or a func(string) (int, bool) switching over them) not found")
		return
	}
	// R1
	for name, code := range m.CodeOf {
		st, has := m.StatusOf[name]
		if !has {
			c.Fail("C07.R1", "status/"+code, m.pos(), "error value "+name+" ("+code+") has no entry in errorStatuses: it is answered 500 and loses its status after one hop")
			continue
		}
		want, known := specStatus[code]
		if !known {
			c.Fail("C07.R1", "status/"+code, m.pos(), "code "+code+" is not in the reviewed specification table (DESIGN A.5)")
			continue
		}
		c.Check(st == want, "C07.R1", "status/"+code, m.pos(), sprintf("%s -> %d", code, st), sprintf("errorStatuses maps %s to %d; the distribution spec assigns %d", code, st, want))
	}
	for name := range m.StatusOf {
		if _, ok := m.CodeOf[name]; !ok {
			c.Fail("C07.R1", "status-key/"+name, m.pos(), "errorStatuses has a key that is not the code of a package-level Err* value")
		}
	}
	// duplicate codes
	seen := map[string]string{}
	for name, code := range m.CodeOf {
		if prev, dup := seen[code]; dup {
			c.Fail("C07.R1", "code-unique/"+code, m.pos(), "code "+code+" is shared by "+prev+" and "+name)
		}
		seen[code] = name
	}
	c07HeadFallback(c, m)
	c07StatusPath(c)
	c07WrapDiscipline(c)
	c07ClientWrap(c)
	c07Prefixes(c)
	prefixBuiltOnEveryPath(c, "C07.R6")
	prefixUsedAsBuilt(c, "C07.R6")
	errorBodyLimitIsConstant(c, "C07.R5")
	errorBodyTooLargeTestMatchesRead(c, "C07.R5")
	statusFoundThroughTheErrorChain(c, "C07.R9")
	trimmerStripsWheneverWriterAdds(c, "C07.R10")
	returnedResponseBodyOpen(c, "C07.R8")
	c07Is(c)
}

func errGlobalOf(v ssa.Value) string {
	v = facts.Resolve(v)
	if mi, ok := v.(*ssa.MakeInterface); ok {
		v = mi.X
	}
	if ci, ok := v.(*ssa.ChangeInterface); ok {
		v = ci.X
	}
	u, ok := v.(*ssa.UnOp)
	if !ok || u.Op != token.MUL {
		return ""
	}
	g, ok := u.X.(*ssa.Global)
	if !ok {
		return ""
	}
	return g.Name()
}

func c07HeadFallback(c *core.Ctx, m *errModel) {
	fn := c.P.Func("ociclient", "makeError1")
	if fn == nil {
		c.Fail("C07.R2", "anchor/ociclient.makeError1", 0, "ociclient.makeError1 not found")
		return
	}
	c.Analysed("ociclient.makeError1")
	n := 0
	// rows: an Err* global selected under resp.StatusCode == const — either as
	// an edge of the phi holding the result, or returned directly from the arm
	type row struct {
		v   ssa.Value
		at  *ssa.BasicBlock
		pos token.Pos
	}
	var rows []row
	// the fallback itself and the private helpers the switch may have moved to
	var scope []*ssa.Function
	for _, f := range withHelpers(fn) {
		if f.Parent() == nil {
			scope = append(scope, f)
		}
	}
	// the switched-on value is the response's StatusCode, directly or as the
	// argument bound to a helper's parameter
	isStatus := func(x ssa.Value) bool {
		if _, fld, isF := facts.FieldOf(facts.Resolve(x)); isF && fld == "StatusCode" {
			return true
		}
		_, fld, isF := facts.FieldOf(facts.Resolve(resolveUp(x, fn, 3)))
		return isF && fld == "StatusCode"
	}
	for _, f := range scope {
		for _, b := range f.Blocks {
			for _, in := range b.Instrs {
				switch x := in.(type) {
				case *ssa.Phi:
					if x.Type().String() == "error" {
						for i, e := range x.Edges {
							rows = append(rows, row{e, b.Preds[i], x.Pos()})
						}
					}
				case *ssa.Return:
					if len(x.Results) == 1 {
						if _, isPhi := x.Results[0].(*ssa.Phi); !isPhi {
							rows = append(rows, row{facts.RetVal(x, 0), b, x.Pos()})
						}
					}
				}
			}
		}
	}
	// or: the result is looked up, by resp.StatusCode, in a frozen package-level
	// map[int]error whose literal supplies the rows
	for _, f := range scope {
		for _, b := range f.Blocks {
			for _, in := range b.Instrs {
				lk, ok := in.(*ssa.Lookup)
				if !ok {
					continue
				}
				if !isStatus(lk.Index) {
					continue
				}
				g := loadedGlobal(lk.X)
				if g == nil {
					continue
				}
				entries, frozen := globalMapEntries(c, g)
				if !frozen {
					c.Fail("C07.R2", "head-fallback/table-frozen", lk.Pos(), "the HEAD status -> error table is modified after initialisation")
					continue
				}
				for _, e := range entries {
					name := errGlobalOf(e.Val)
					st, isK := facts.ConstInt(e.Key)
					if name == "" || !isK {
						continue
					}
					n++
					tbl, has := m.StatusOf[name]
					c.Check(has && tbl == st, "C07.R2", sprintf("head-fallback/%d", st), e.Pos, sprintf("HEAD %d -> %s, whose code maps back to %d", st, name, st),
						sprintf("the HEAD fallback maps status %d to %s, whose code is answered with status %d by the server: a second hop changes the status", st, name, tbl))
				}
			}
		}
	}
	for _, rw := range rows {
		name := errGlobalOf(rw.v)
		if name == "" {
			continue
		}
		var st int64 = -1
		for _, cd := range facts.CondsAt(rw.at) {
			if x, op, y, ok := facts.Cmp(cd); ok && op == token.EQL {
				if isStatus(x) {
					if k, isK := facts.ConstInt(y); isK && st < 0 {
						st = k
					}
				}
			}
		}
		// `case A, B:` — the arm has one predecessor per listed status, none of which
		// dominates it: take each predecessor's own `StatusCode == K` edge as a row
		var sts []int64
		if st >= 0 {
			sts = append(sts, st)
		} else {
			seenB := map[*ssa.BasicBlock]bool{}
			var collect func(b *ssa.BasicBlock, d int)
			collect = func(b *ssa.BasicBlock, d int) {
				if seenB[b] || d > 3 {
					return
				}
				seenB[b] = true
				for _, p := range b.Preds {
					hit := false
					for si, sb := range p.Succs {
						if sb != b {
							continue
						}
						for _, cd := range facts.EdgeConds(p, si) {
							if x, op, y, ok := facts.Cmp(cd); ok && op == token.EQL {
								if isStatus(x) {
									if k, isK := facts.ConstInt(y); isK {
										sts = append(sts, k)
										hit = true
									}
								}
							}
						}
					}
					if !hit && len(p.Instrs) == 1 {
						collect(p, d+1) // an empty forwarding block
					}
				}
			}
			collect(rw.at, 0)
		}
		if len(sts) == 0 {
			continue
		}
		for _, st := range sts {
			n++
			tbl, has := m.StatusOf[name]
			c.Check(has && tbl == st, "C07.R2", sprintf("head-fallback/%d", st), rw.pos, sprintf("HEAD %d -> %s, whose code maps back to %d", st, name, st),
				sprintf("the HEAD fallback maps status %d to %s, whose code is answered with status %d by the server: a second hop changes the status", st, name, tbl))
		}
	}
	if n < 4 {
		c.Fail("C07.R2", "head-fallback/instance-floor", fn.Pos(), sprintf("only %d status rows found in the HEAD fallback", n))
	}
}

func c07StatusPath(c *core.Ctx) {
	c06StatusFollowsCodeOnly(c, "C07.R3")
	me := c.P.Func("", "MarshalError")
	we := c.P.Func("", "WriteError")
	trim := c.P.Func("", "trimErrorCodePrefix")
	if me == nil || we == nil || trim == nil {
		c.Fail("C07.R3", "anchor/MarshalError", 0, "MarshalError / WriteError / trimErrorCodePrefix not found")
		return
	}
	c.Analysed("ociregistry.WriteError")
	// WriteError: WriteHeader(status returned by MarshalError), unmodified
	found := false
	var weCalls []ssa.CallInstruction
	for _, f := range withHelpers(we) {
		weCalls = append(weCalls, facts.CallsIn(f)...)
	}
	for _, ci := range weCalls {
		cc := ci.Common()
		if cc.IsInvoke() && cc.Method.Name() == "WriteHeader" {
			found = true
			ok := false
			if ex, isEx := facts.Resolve(resolveUp(cc.Args[0], we, 3)).(*ssa.Extract); isEx && ex.Index == 1 {
				if call, isCall := ex.Tuple.(*ssa.Call); isCall && call.Call.StaticCallee() == me {
					ok = true
				}
			}
			c.Check(ok, "C07.R3", "WriteError/status-unchanged", ci.Pos(), "writes exactly the status MarshalError returned", "WriteError does not pass MarshalError's status to WriteHeader unchanged: an error's own HTTP status can be replaced on the wire")
		}
	}
	if !found {
		c.Fail("C07.R3", "WriteError/status-unchanged", we.Pos(), "WriteError never calls WriteHeader")
	}
	// MarshalError: message = trimErrorCodePrefix(err, httpStatus, code) with the returned status
	found = false
	for _, ci := range facts.CallsIn(me) {
		if ci.Common().StaticCallee() != trim {
			continue
		}
		found = true
		args := ci.Common().Args
		okErr := argIsParam(args[0], me, 0)
		// the status argument must be the value MarshalError returns as its status on that path
		okStatus := false
		for _, r := range returnsOf(me) {
			if len(r.Results) == 2 && facts.RetVal(r, 1) == facts.Resolve(args[1]) {
				okStatus = true
			}
		}
		_, fld, isF := facts.FieldOf(facts.Resolve(args[2]))
		okCode := isF && fld == "Code_"
		if !okCode {
			// or: the very value that is stored as the Code_ of the wire error
			for _, b := range me.Blocks {
				for _, in := range b.Instrs {
					if st, isSt := in.(*ssa.Store); isSt {
						if _, f2, isF2 := facts.FieldOf(st.Addr); isF2 && f2 == "Code_" && facts.Resolve(st.Val) == facts.Resolve(args[2]) {
							okCode = true
						}
					}
				}
			}
		}
		c.Check(okErr && okStatus && okCode, "C07.R3", "MarshalError/trim-with-own-status-and-code", ci.Pos(), "message trimmed with the status and code that are put on the wire", "MarshalError trims the message with a status/code other than the ones it sends: prefixes added by the receiving client are not removed on the next hop, so messages grow by a prefix per hop")
	}
	if !found {
		c.Fail("C07.R3", "MarshalError/trim-with-own-status-and-code", me.Pos(), "MarshalError no longer trims redundant prefixes from the message")
	}
}

// c06StatusFollowsCodeOnly: the MarshalError status-precedence clause (shared with C06.R7).
func c06StatusFollowsCodeOnly(c *core.Ctx, rule string) {
	me := c.P.Func("", "MarshalError")
	if me == nil {
		return
	}
	c.Analysed("ociregistry.MarshalError")
	for _, ci := range statusDeciderCalls(c, me) {
		cc := ci.Common()
		if !cc.IsInvoke() || cc.Method.Name() != "StatusCode" {
			continue
		}
		miss := false
		em := loadErrModel(c)
		for _, cd := range facts.CondsAt(ci.Block()) {
			if em.isTableMiss(cd) {
				miss = true
			}
		}
		c.Check(miss, rule, "MarshalError/status-precedence", ci.Pos(), "an HTTPError's own status is used only when the code table has no entry", "MarshalError takes the status from the HTTPError on a path where the code table may have an entry")
	}
}

// wireOrigin: does error value v originate from a backend / transport call?
func wireOrigin(v ssa.Value) (string, bool) {
	v = facts.Resolve(v)
	var call *ssa.Call
	switch x := v.(type) {
	case *ssa.Extract:
		call, _ = x.Tuple.(*ssa.Call)
	case *ssa.Call:
		call = x
	case *ssa.Phi:
		for _, e := range x.Edges {
			if o, ok := wireOrigin(e); ok {
				return o, true
			}
		}
	}
	if call == nil {
		return "", false
	}
	cc := &call.Call
	if cc.IsInvoke() {
		t := cc.Value.Type()
		for _, n := range []string{"Interface", "BlobWriter", "BlobReader", "Reader", "Writer", "Deleter", "Lister"} {
			if isNamed(t, "oci/ociregistry", n) {
				return "backend " + n + "." + cc.Method.Name(), true
			}
		}
		return "", false
	}
	name := facts.CalleeName(cc)
	if name == "io.Copy" {
		for _, a := range cc.Args {
			t := facts.Strip(a).Type()
			if isNamed(t, "oci/ociregistry", "BlobWriter") || isNamed(t, "oci/ociregistry", "BlobReader") {
				return "io.Copy to/from a backend " + t.String(), true
			}
		}
	}
	if strings.HasSuffix(name, "ociclient.client).do") || strings.HasSuffix(name, "ociclient.client).doRequest") || strings.HasSuffix(name, "ociclient.blobWriter).flush") {
		return name, true
	}
	return "", false
}

func c07WrapDiscipline(c *core.Ctx) {
	n := 0
	for _, rel := range []string{"ociserver", "ociclient"} {
		for _, fn := range c.P.ModuleFunctions(rel) {
			for _, ci := range facts.CallsIn(fn) {
				call, ok := ci.(*ssa.Call)
				if !ok || facts.CalleeName(&call.Call) != "fmt.Errorf" {
					continue
				}
				format, args, ok := errorfArgs(call)
				if !ok {
					continue
				}
				vs := formatVerbs(format)
				for i, a := range args {
					if a == nil || a.Type().String() != "any" && a.Type().String() != "interface{}" && a.Type().String() != "error" {
						// args are boxed into `any`; look through
					}
					if a == nil {
						continue
					}
					inner := facts.Resolve(a) // strips MakeInterface/ChangeInterface
					if inner.Type().String() != "error" {
						continue
					}
					origin, isWire := wireOrigin(inner)
					if !isWire {
						continue
					}
					n++
					c.Analysed(facts.FuncName(fn))
					verb := byte('?')
					if i < len(vs) {
						verb = vs[i]
					}
					c.Check(verb == 'w', "C07.R4", facts.FuncName(fn)+"/wrap/"+origin, call.Pos(), "wire-origin error formatted with %w", "an error from "+origin+" is formatted with %"+string(verb)+" instead of %w: errors.Is against the OCI error values (and the HTTP status derived from the code) is lost at this hop")
				}
			}
		}
	}
	if n < 3 {
		c.Fail("C07.R4", "instance-floor", 0, sprintf("only %d wire-origin errors formatted in ociserver/ociclient", n))
	}
}

func c07ClientWrap(c *core.Ctx) {
	fn := c.P.Func("ociclient", "makeError")
	if fn == nil {
		c.Fail("C07.R5", "anchor/ociclient.makeError", 0, "ociclient.makeError not found")
		return
	}
	c.Analysed("ociclient.makeError")
	found := false
	for _, ci := range facts.CallsIn(fn) {
		if !strings.HasSuffix(facts.CalleeName(ci.Common()), "ociregistry.NewHTTPError") {
			continue
		}
		found = true
		args := ci.Common().Args
		_, fld, isF := facts.FieldOf(facts.Resolve(args[1]))
		okStatus := isF && fld == "StatusCode" && sliceHas(args[1], func(v ssa.Value) bool { return argIsParam(v, fn, 0) })
		c.Check(okStatus, "C07.R5", "makeError/status", ci.Pos(), "HTTPError carries resp.StatusCode", "the client's HTTPError does not carry the response's status code")
		// every return goes through it
	}
	if !found {
		c.Fail("C07.R5", "makeError/status", fn.Pos(), "makeError does not build an HTTPError")
	}
	for _, r := range returnsOf(fn) {
		call, ok := facts.RetVal(r, 0).(*ssa.Call)
		ok = ok && strings.HasSuffix(facts.CalleeName(&call.Call), "ociregistry.NewHTTPError")
		if !ok {
			if mi, isMI := facts.Resolve(r.Results[0]).(*ssa.MakeInterface); isMI {
				if call2, isCall := mi.X.(*ssa.Call); isCall && strings.HasSuffix(facts.CalleeName(&call2.Call), "ociregistry.NewHTTPError") {
					ok = true
				}
			}
		}
		c.Check(ok, "C07.R5", "makeError/always-http-error", r.Pos(), "every error response becomes an HTTPError", "makeError can return something that is not the HTTPError carrying the status")
	}
	if ok, why := wireErrorsNonEmptyGuard(c); ok {
		c.OK("C07.R5", "wire-errors-nonempty", 0, why)
	}
}

func c07Prefixes(c *core.Ctx) {
	trim := c.P.Func("", "trimErrorCodePrefix")
	he := c.P.NamedType("", "httpError")
	we := c.P.NamedType("", "WireError")
	if trim == nil || he == nil || we == nil {
		c.Fail("C07.R6", "anchor/prefix-helpers", 0, "trimErrorCodePrefix / error types not found")
		return
	}
	heErr := c.P.Method(types.NewPointer(he), "Error")
	weErr := c.P.Method(types.NewPointer(we), "Error")
	// what a function (with the private helpers it reaches) formats a prefix with:
	// the module helpers it calls and the standard formatting primitives it uses
	uses := func(fn *ssa.Function) (helpers map[*ssa.Function]bool, prims map[string]bool) {
		helpers, prims = map[*ssa.Function]bool{}, map[string]bool{}
		for _, f := range withHelpers(fn) {
			for _, ci := range facts.CallsIn(f) {
				if sc := ci.Common().StaticCallee(); sc != nil {
					if sc.Pkg == fn.Pkg && sc.Blocks != nil {
						helpers[sc] = true
					}
					switch n := facts.CalleeName(ci.Common()); n {
					case "strconv.AppendInt", "strconv.Itoa", "strconv.FormatInt", "net/http.StatusText", "unicode.ToLower", "strings.ToLower":
						prims[n] = true
					}
				}
			}
		}
		return
	}
	appendsSep := func(fn *ssa.Function) bool {
		// append(buf, ": "...) : a constant ": " converted and appended — or
		// the same separator joined by string concatenation
		for _, f := range withHelpers(fn) {
			for _, b := range f.Blocks {
				for _, in := range b.Instrs {
					if bo, ok := in.(*ssa.BinOp); ok && bo.Op == token.ADD {
						for _, o := range []ssa.Value{bo.X, bo.Y} {
							if s, isS := facts.ConstString(o); isS && s == ": " {
								return true
							}
						}
					}
				}
			}
		}
		for _, f := range withHelpers(fn) {
			for _, ci := range facts.CallsIn(f) {
				if bi, ok := ci.Common().Value.(*ssa.Builtin); ok && bi.Name() == "append" && len(ci.Common().Args) == 2 {
					if s, ok := facts.ConstString(ci.Common().Args[1]); ok && s == ": " {
						return true
					}
					if cv, ok := ci.Common().Args[1].(*ssa.Convert); ok {
						if s, ok := facts.ConstString(cv.X); ok && s == ": " {
							return true
						}
					}
				}
			}
		}
		return false
	}
	// the writer and the trimmer of a prefix agree when they build it the same
	// way: through a common helper of the package, or (helpers inlined) with
	// the same formatting primitives
	statusPrims := func(p map[string]bool) bool {
		return (p["strconv.AppendInt"] || p["strconv.Itoa"] || p["strconv.FormatInt"]) && p["net/http.StatusText"]
	}
	codePrims := func(p map[string]bool) bool { return p["unicode.ToLower"] || p["strings.ToLower"] }
	if heErr == nil || weErr == nil {
		c.Fail("C07.R6", "prefix/Error-methods", 0, "httpError.Error / WireError.Error not found")
		return
	}
	th, tp := uses(trim)
	for _, x := range []struct {
		name  string
		fn    *ssa.Function
		prims func(map[string]bool) bool
		what  string
	}{{"httpError.Error", heErr, statusPrims, "<status> <status text>"}, {"WireError.Error", weErr, codePrims, "the lower-cased, space-separated error code"}} {
		c.Analysed(facts.FuncName(x.fn))
		h, p := uses(x.fn)
		shared := false
		for f := range h {
			if th[f] && f != trim {
				if _, fp := uses(f); x.prims(fp) {
					shared = true
				}
			}
		}
		same := x.prims(p) && x.prims(tp)
		c.Check((shared || same) && appendsSep(x.fn), "C07.R6", "prefix/"+x.name, x.fn.Pos(), "prefix ("+x.what+`, then ": ") built the same way as trimErrorCodePrefix rebuilds it`,
			x.name+" does not build its prefix ("+x.what+`, then ": ") the way trimErrorCodePrefix rebuilds it (no common helper and not the same formatting primitives): the writer and the trimmer of message prefixes disagree and prefixes accumulate per hop`)
	}
	c.Analysed(facts.FuncName(trim))
	c.Check(statusPrims(tp) && codePrims(tp) && appendsSep(trim), "C07.R6", "prefix/trim", trim.Pos(), `trimErrorCodePrefix rebuilds both the status prefix and the code prefix, each followed by ": "`, "trimErrorCodePrefix does not rebuild both the status prefix and the code prefix")
	// trim actually strips with strings.TrimPrefix of the message
	n := 0
	for _, f := range withHelpers(trim) {
		for _, ci := range facts.CallsIn(f) {
			if facts.CalleeName(ci.Common()) == "strings.TrimPrefix" {
				n++
			}
		}
	}
	c.Check(n >= 2, "C07.R6", "trim/strips-both", trim.Pos(), "strips the status prefix and the code prefix", "trimErrorCodePrefix does not strip both the status and the code prefix")
}

func c07Is(c *core.Ctx) {
	we := c.P.NamedType("", "WireError")
	he := c.P.NamedType("", "httpError")
	if we == nil || he == nil {
		return
	}
	wis := c.P.Method(types.NewPointer(we), "Is")
	his := c.P.Method(types.NewPointer(he), "Is")
	if wis == nil || his == nil {
		c.Fail("C07.R7", "anchor/Is", 0, "WireError.Is / httpError.Is not found")
		return
	}
	c.Analysed(facts.FuncName(wis))
	c.Analysed(facts.FuncName(his))
	// WireError.Is: a true result requires a code comparison (== between two Code() results) on its path
	hasCmp := false
	for _, b := range wis.Blocks {
		for _, in := range b.Instrs {
			if bo, ok := in.(*ssa.BinOp); ok && bo.Op == token.EQL {
				isCode := func(v ssa.Value) bool {
					call, ok := facts.Resolve(v).(*ssa.Call)
					return ok && (call.Call.IsInvoke() && call.Call.Method.Name() == "Code" || strings.HasSuffix(facts.CalleeName(&call.Call), "WireError).Code"))
				}
				if isCode(bo.X) && isCode(bo.Y) {
					hasCmp = true
					// the function's result must be (errors.As ok && this comparison): every return is this value, a phi with false, or false
				}
			}
		}
	}
	okRet := true
	for _, r := range returnsOf(wis) {
		v := facts.Resolve(r.Results[0])
		if cst, ok := v.(*ssa.Const); ok && cst.Value != nil && cst.Value.ExactString() == "true" {
			okRet = false
		}
		if ph, ok := v.(*ssa.Phi); ok {
			for _, e := range ph.Edges {
				if cst, ok := e.(*ssa.Const); ok && cst.Value != nil && cst.Value.ExactString() == "true" {
					okRet = false
				}
			}
		}
	}
	c.Check(hasCmp && okRet, "C07.R7", "WireError.Is/by-code", wis.Pos(), "true only under equality of the two codes", "WireError.Is can answer true without the two codes being compared equal")
	// httpError.Is: true only under statusCode == 416 and target == ErrRangeInvalid.
	// A possibly-true result is a returned value (or an edge of the returned phi)
	// that is not the constant false; the facts that then hold are the branch
	// conditions of the block it comes from plus the value itself being true.
	type cand struct {
		v  ssa.Value
		at *ssa.BasicBlock
	}
	for _, r := range returnsOf(his) {
		var cands []cand
		if ph, ok := r.Results[0].(*ssa.Phi); ok {
			for i, e := range ph.Edges {
				cands = append(cands, cand{facts.Resolve(e), ph.Block().Preds[i]})
			}
		} else {
			cands = append(cands, cand{facts.Resolve(r.Results[0]), r.Block()})
		}
		for _, cd0 := range cands {
			if cst, ok := cd0.v.(*ssa.Const); ok && cst.Value != nil && cst.Value.ExactString() == "false" {
				continue
			}
			conds := append([]facts.Cond{}, facts.CondsAt(cd0.at)...)
			conds = append(conds, facts.Cond{V: cd0.v, Pos: true})
			is416, isRange := false, false
			for _, cd := range conds {
				x, op, y, ok := facts.Cmp(cd)
				if !ok || op != token.EQL {
					continue
				}
				if _, fld, isF := facts.FieldOf(facts.Resolve(x)); isF && fld == "statusCode" {
					if k, isK := facts.ConstInt(y); isK && k == 416 {
						is416 = true
					}
				}
				if errGlobalOf(y) == "ErrRangeInvalid" || errGlobalOf(x) == "ErrRangeInvalid" {
					isRange = true
				}
			}
			c.Check(is416 && isRange, "C07.R7", "httpError.Is/416-range", r.Pos(), "true only for status 416 and ErrRangeInvalid", "httpError.Is can answer true for something other than (status 416, ErrRangeInvalid)")
		}
	}
}

// statusDeciderCalls: the calls made by MarshalError and by the same-package
// helpers it delegates the choice of the HTTP status to (functions with a sole
// int result, followed to depth 2).
func statusDeciderCalls(c *core.Ctx, me *ssa.Function) []ssa.CallInstruction {
	var out []ssa.CallInstruction
	seen := map[*ssa.Function]bool{}
	var visit func(f *ssa.Function, d int)
	visit = func(f *ssa.Function, d int) {
		if seen[f] {
			return
		}
		seen[f] = true
		for _, ci := range facts.CallsIn(f) {
			out = append(out, ci)
			h := ci.Common().StaticCallee()
			if h == nil || h.Blocks == nil || h.Pkg != me.Pkg || d <= 0 {
				continue
			}
			if r := h.Signature.Results(); r.Len() == 1 && r.At(0).Type().String() == "int" {
				c.Analysed(facts.FuncName(h))
				visit(h, d-1)
			}
		}
	}
	visit(me, 2)
	return out
}
