package props

import (
	"go/token"
	"go/types"
	"strings"

	"golang.org/x/tools/go/ssa"

	"ocivet/internal/core"
	"ocivet/internal/facts"
)

func init() {
	register(&Prop{
		ID:    "C10",
		Title: "Auth transport only uses tokens that are sufficient, fresh and its own",
		Run:   runC10,
		Explanation: "R1 in the function that attaches cached tokens the expiry purge precedes the cache lookup on every path inside the same critical section; " +
			"R2 the cache lookup returns a token only from a branch where cachedToken.scope.Contains(requestedScope) is true (receiver is the cached token's scope); " +
			"R3 the value concatenated after \"Bearer \" is the token field of the lookup's result or the result of the acquisition function, and the per-host state object is looked up and stored under req.URL.Host; " +
			"R4 the scope stored with a new cache entry is, on every phi edge, the scope argument of the token request that produced the token on that edge (a narrower retry is recorded under the narrower scope), and the stored token comes from that response; " +
			"R5 on the cache-hit branch no call that can issue a token request or a registry round trip is reachable before the return; " +
			"R6 the acquisition after a challenge passes ParseScope(challenge's scope parameter) as the Union receiver and the union of the desired and required scopes as its argument; " +
			"R7 lockset for ociauth.registry and stdTransport.registries, with the sync.Once initialisation exemption verified rather than assumed. " +
			"R1b the expiry purge examines every cached token (slices.DeleteFunc, or a loop whose exit does not depend on a token's expiry). " +
			"R1c the purge instant (time.Now) is read with the registry lock held; R6b the first token request of an acquisition always asks for required ∪ desired scope. " +
			"R2b (shared with C09.R8) the containment test the cache lookup relies on is a subset test. " +
			"R8 (shared with C11.R7) RoundTrip works on a deep copy (Request.Clone) of the caller's request: a token never lands in the caller's own header map, from where a re-sent request would carry it stale; R9 challenge parameters are stored under lower-cased names (they are looked up in lower case and auth-param names are case-insensitive). " +
			"R10 (shared with C09.R2) Union, which computes the scope a token request carries, returns its receiver only when the merged value equals it, and otherwise the merged value. " +
			"R11 a loop in ociauth that deletes the element at its index does not continue with index+1 on that path (every cached token is examined by the expiry purge).",
		NotDecided: "real-time expiry (that a token is unexpired when sent) and what the token server actually grants are not decided.",
		Technique:  "static analysis: SSA dominance, phi-edge pairing of token and scope, reachability on the CFG, lockset dataflow",
	})
}

func authRegistryMethod(c *core.Ctx, name string) *ssa.Function {
	t := c.P.NamedType("ociauth", "registry")
	if t == nil {
		return nil
	}
	return c.P.Method(types.NewPointer(t), name)
}

func calleeIs(ci ssa.CallInstruction, fn *ssa.Function) bool {
	return fn != nil && ci.Common().StaticCallee() == fn
}

func runC10(c *core.Ctx) {
	setAuth := authRegistryMethod(c, "setAuthorization")
	lookup := authRegistryMethod(c, "accessTokenForScope")
	purge := authRegistryMethod(c, "deleteExpiredTokens")
	acqAT := authRegistryMethod(c, "acquireAccessToken")
	acqT := authRegistryMethod(c, "acquireToken")
	fromCh := authRegistryMethod(c, "setAuthorizationFromChallenge")
	for n, f := range map[string]*ssa.Function{"setAuthorization": setAuth, "acquireAccessToken": acqAT, "acquireToken": acqT, "setAuthorizationFromChallenge": fromCh} {
		if f == nil {
			c.Fail("C10.R0", "anchor/ociauth.registry."+n, 0, "(*ociauth.registry)."+n+" not found")
			return
		}
		c.Analysed(facts.FuncName(f))
	}
	// the cache lookup and the expiry purge may be helpers or written inline in setAuthorization
	for _, f := range []*ssa.Function{lookup, purge} {
		if f != nil {
			c.Analysed(facts.FuncName(f))
		}
	}
	isCacheSlice := func(v ssa.Value) bool {
		_, fld, ok := facts.FieldOf(facts.Resolve(v))
		return ok && fld == "accessTokens"
	}
	// isCacheElem: v is an element of registry.accessTokens read in a loop / by index
	isCacheElem := func(v ssa.Value) bool {
		u, ok := facts.Resolve(v).(*ssa.UnOp)
		if !ok {
			return false
		}
		ia, ok := u.X.(*ssa.IndexAddr)
		return ok && isCacheSlice(ia.X)
	}
	byExpiry := func(pred *ssa.Function) bool {
		for _, f := range facts.WithAnon(pred) {
			for _, ci := range facts.CallsIn(f) {
				if strings.HasSuffix(facts.CalleeName(ci.Common()), "time.Time).After") || strings.HasSuffix(facts.CalleeName(ci.Common()), "time.Time).Before") {
					for _, a := range ci.Common().Args {
						if _, fld, isF := facts.FieldOf(facts.Resolve(a)); isF && fld == "expires" {
							return true
						}
					}
				}
			}
		}
		return false
	}
	// purge sites in setAuthorization: calls of the purge helper, or an inline
	// accessTokens = slices.DeleteFunc(accessTokens, <by expiry>)
	var purgeSites []ssa.Instruction
	inlinePurgeOK := true
	for _, ci := range facts.CallsIn(setAuth) {
		if purge != nil && calleeIs(ci, purge) {
			purgeSites = append(purgeSites, ci)
			continue
		}
		if facts.CalleeName(ci.Common()) == "slices.DeleteFunc" && len(ci.Common().Args) == 2 && isCacheSlice(ci.Common().Args[0]) {
			stored := false
			if v := ci.Value(); v != nil {
				for _, ref := range *v.Referrers() {
					if st, ok := ref.(*ssa.Store); ok {
						if _, fld, isF := facts.FieldOf(st.Addr); isF && fld == "accessTokens" {
							stored = true
						}
					}
				}
			}
			mc, isMC := facts.Resolve(ci.Common().Args[1]).(*ssa.MakeClosure)
			ok := stored && isMC && byExpiry(mc.Fn.(*ssa.Function))
			inlinePurgeOK = inlinePurgeOK && ok
			c.Check(ok, "C10.R1", "setAuthorization/inline-purge-by-expiry", ci.Pos(), "the inline purge removes tokens by their expiry and stores the result back", "the inline purge of the token cache does not select tokens by their expiry time, or its result is not stored back into the cache")
			purgeSites = append(purgeSites, ci)
		}
	}
	// lookup sites: calls of the lookup helper, or the load of the cache slice that an inline loop indexes
	var lookupSites []ssa.Instruction
	for _, ci := range facts.CallsIn(setAuth) {
		if lookup != nil && calleeIs(ci, lookup) {
			lookupSites = append(lookupSites, ci)
		}
	}
	for _, b := range setAuth.Blocks {
		for _, in := range b.Instrs {
			if ia, ok := in.(*ssa.IndexAddr); ok && isCacheSlice(ia.X) {
				if ld, ok := ia.X.(ssa.Instruction); ok {
					dup := false
					for _, s0 := range lookupSites {
						if s0 == ld {
							dup = true
						}
					}
					if !dup {
						lookupSites = append(lookupSites, ld)
					}
				}
			}
		}
	}
	// R1
	nLook := 0
	for _, ci := range lookupSites {
		nLook++
		ok := false
		for _, cj := range purgeSites {
			if facts.Dominates(cj, ci) {
				// no unlock between
				unlock := func(in ssa.Instruction) bool {
					cc, isCall := in.(*ssa.Call)
					if !isCall {
						return false
					}
					_, kind, isL := lockCall(cc)
					return isL && kind == "unlock"
				}
				isLook := func(in ssa.Instruction) bool { return in == ci }
				if _, reach := facts.ReachesWithout(cj, unlock, isLook, nil); !reach {
					ok = true
				}
			}
		}
		c.Check(ok, "C10.R1", "setAuthorization/purge-before-lookup", ci.Pos(), "expired tokens are purged before the cache lookup, in the same critical section", "the token cache is consulted on a path where expired tokens were not purged first (in the same critical section): an expired token can be attached to a request")
	}
	if nLook == 0 {
		c.Fail("C10.R1", "setAuthorization/purge-before-lookup", setAuth.Pos(), "setAuthorization never consults the token cache")
	}
	// the purge removes by expiry: DeleteFunc predicate compares with tok.expires
	if purge != nil {
		c.Check(byExpiry(purge), "C10.R1", "deleteExpiredTokens/by-expiry", purge.Pos(), "purge predicate compares the token's expiry", "deleteExpiredTokens does not select tokens by their expiry time")
	} else if len(purgeSites) == 0 {
		c.Fail("C10.R1", "deleteExpiredTokens/by-expiry", setAuth.Pos(), "no expiry purge of the token cache found (neither a helper nor an inline slices.DeleteFunc over accessTokens)")
	}
	_ = inlinePurgeOK
	purgeTimeTakenUnderLock(c, "C10.R1")
	firstTokenRequestAsksForUnion(c, "C10.R6")
	// the containment test the cache lookup relies on
	actionSubsetTest(c, "C10.R2")
	challengeParamsKeyedLowerCase(c, "C10.R9")
	// the union of what is held and what is asked for (what the token request carries) is computed correctly (shared with C09.R2)
	relabel(c, "C10.R10", func() { c09Union(c) })
	deletionLoopRevisitsIndex(c, "C10.R11", "ociauth")
	if st := c.P.NamedType("ociauth", "stdTransport"); st != nil {
		if rt := declaredMethod(c, types.NewPointer(st), "RoundTrip"); rt != nil {
			requestUnmodified(c, rt, "C10.R8")
		}
	}
	if purge != nil {
		purgeExaminesEveryToken(c, "C10.R1", []*ssa.Function{purge})
	}

	// containsGuard: at block b, `T.scope.Contains(<parameter pi of fn>)` holds for the cached token T
	containsGuard := func(b *ssa.BasicBlock, T ssa.Value, fn *ssa.Function, pi int) bool {
		for _, cd := range facts.CondsAt(b) {
			call, isCall := cd.V.(*ssa.Call)
			if !isCall || !cd.Pos || call.Call.StaticCallee() == nil || call.Call.StaticCallee().Name() != "Contains" {
				continue
			}
			a := call.Call.Args
			bb, fld, isF := facts.FieldOf(facts.Resolve(a[0]))
			if isF && fld == "scope" && facts.Resolve(bb) == facts.Resolve(T) && argIsParam(a[1], fn, pi) {
				return true
			}
		}
		return false
	}
	// R2
	nRet := 0
	var lookupReturns []*ssa.Return
	if lookup != nil {
		lookupReturns = returnsOf(lookup)
	}
	_ = lookupReturns
	if lookup != nil {
		for _, vr := range virtualReturns(lookup) {
			r := vr.Ret
			v := facts.Resolve(vr.Vals[0])
			if facts.IsNilConst(v) {
				continue
			}
			nRet++
			ok := false
			for _, cd := range vr.Conds {
				call, isCall := cd.V.(*ssa.Call)
				if !isCall || !cd.Pos || call.Call.StaticCallee() == nil || call.Call.StaticCallee().Name() != "Contains" {
					continue
				}
				a := call.Call.Args
				// receiver: scope field of the returned token; argument: the requested scope parameter
				b, fld, isF := facts.FieldOf(facts.Resolve(a[0]))
				if isF && fld == "scope" && (facts.Resolve(b) == v || facts.Term(facts.Resolve(b)) == facts.Term(v)) && argIsParam(a[1], lookup, 1) {
					ok = true
				}
			}
			if ph, isPhi := v.(*ssa.Phi); isPhi && !ok {
				// `var found *T; for … && found == nil { if t.scope.Contains(s) { found = t } }; return found`:
				// every token that can flow into the returned variable was assigned under the test
				seen := map[*ssa.Phi]bool{}
				var leavesOK func(p *ssa.Phi) bool
				leavesOK = func(p *ssa.Phi) bool {
					if seen[p] {
						return true
					}
					seen[p] = true
					for j, e := range p.Edges {
						if facts.IsNilConst(e) {
							continue
						}
						if q, isQ := e.(*ssa.Phi); isQ {
							if !leavesOK(q) {
								return false
							}
							continue
						}
						if !containsGuard(p.Block().Preds[j], e, lookup, 1) {
							return false
						}
					}
					return true
				}
				ok = leavesOK(ph)
			}
			c.Check(ok, "C10.R2", "accessTokenForScope/contains-guard", r.Pos(), "a cached token is returned only if its scope contains the requested scope", "a cached token is returned on a path where `token.scope.Contains(requested)` is not established (or the containment is tested the wrong way round): a token that does not cover the request's required scope is reused")
		}
	}
	if lookup != nil && nRet == 0 {
		c.Fail("C10.R2", "accessTokenForScope/contains-guard", lookup.Pos(), "the cache lookup never returns a token")
	}
	// R3: Bearer values
	nBearer := 0
	// bearerOf: ci sets Authorization to "Bearer "+tok — directly, or by handing
	// tok to a private helper that does exactly that with its parameter
	directBearer := func(ci ssa.CallInstruction) (tok ssa.Value, isAuth, wellFormed bool) {
		if facts.CalleeName(ci.Common()) != "(net/http.Header).Set" {
			return nil, false, false
		}
		a := ci.Common().Args
		if s, isS := facts.ConstString(a[1]); !isS || s != "Authorization" {
			return nil, false, false
		}
		// fmt.Sprintf("Bearer %s", tok) is the same value
		if call, isCall := facts.Resolve(a[2]).(*ssa.Call); isCall && facts.CalleeName(&call.Call) == "fmt.Sprintf" {
			if format, args, ok := errorfArgs(call); ok && format == "Bearer %s" && len(args) == 1 && args[0] != nil {
				v := facts.Resolve(args[0])
				if mi, isMI := v.(*ssa.MakeInterface); isMI {
					v = facts.Resolve(mi.X)
				}
				return v, true, true
			}
			return nil, true, false
		}
		bo, isBo := facts.Resolve(a[2]).(*ssa.BinOp)
		if !isBo || bo.Op != token.ADD {
			return nil, true, false
		}
		if s, isS := facts.ConstString(bo.X); !isS || s != "Bearer " {
			return nil, false, false
		}
		return facts.Resolve(bo.Y), true, true
	}
	bearerOf := func(ci ssa.CallInstruction) (tok ssa.Value, isAuth, wellFormed bool) {
		if tok, isAuth, wf := directBearer(ci); isAuth {
			return tok, isAuth, wf
		}
		h := ci.Common().StaticCallee()
		if h == nil || h.Blocks == nil || h.Pkg != setAuth.Pkg || len(privateCallSites(h)) == 0 {
			return nil, false, false
		}
		for _, hci := range facts.CallsIn(h) {
			if htok, isAuth, wf := directBearer(hci); isAuth {
				if !wf {
					return nil, true, false
				}
				for i, p := range h.Params {
					if htok == ssa.Value(p) && i < len(ci.Common().Args) {
						c.Analysed(facts.FuncName(h))
						return facts.Resolve(ci.Common().Args[i]), true, true
					}
				}
				return nil, true, false
			}
		}
		return nil, false, false
	}
	for _, fn := range []*ssa.Function{setAuth, fromCh} {
		for _, ci := range facts.CallsIn(fn) {
			tv, isAuth, wf := bearerOf(ci)
			if !isAuth {
				continue
			}
			if !wf {
				c.Fail("C10.R3", facts.FuncName(fn)+"/bearer-value", ci.Pos(), "Authorization is not set to \"Bearer \" + token")
				continue
			}
			nBearer++
			ok := false
			if b, fld, isF := facts.FieldOf(tv); isF && fld == "token" {
				if call, isCall := facts.Resolve(b).(*ssa.Call); isCall && lookup != nil && calleeIs(call, lookup) {
					ok = true
				}
				if isCacheElem(b) && fn == setAuth {
					// inline lookup: the cached token is used only under scope.Contains(requiredScope)
					nRet++
					g := containsGuard(ci.Block(), b, setAuth, 3)
					c.Check(g, "C10.R2", "setAuthorization/inline-contains-guard", ci.Pos(), "a cached token is used only if its scope contains the required scope", "a cached token is attached on a path where `token.scope.Contains(requiredScope)` is not established (or the containment is tested the wrong way round): a token that does not cover the request's required scope is reused")
					ok = g
					// R5 for the inline form: nothing on the network between the hit and the return
					network := func(in ssa.Instruction) bool {
						cc, ok := in.(ssa.CallInstruction)
						if !ok {
							return false
						}
						if calleeIs(cc, acqAT) || calleeIs(cc, acqT) {
							return true
						}
						return cc.Common().IsInvoke() && cc.Common().Method.Name() == "RoundTrip"
					}
					if at, reach := facts.ReachesWithout(ci, network, facts.IsReturn, nil); reach {
						c.Fail("C10.R5", "setAuthorization/no-request-on-hit", at.Pos(), "a token request / round trip is reachable on the cache-hit branch before returning")
					} else {
						c.OK("C10.R5", "setAuthorization/no-request-on-hit", ci.Pos(), "the cache-hit branch returns without any token request")
					}
				}
			}
			if ex, isEx := tv.(*ssa.Extract); isEx && ex.Index == 0 {
				if call, isCall := ex.Tuple.(*ssa.Call); isCall && calleeIs(call, acqAT) {
					ok = true
				}
			}
			c.Check(ok, "C10.R3", facts.FuncName(fn)+"/bearer-value", ci.Pos(), "the bearer value is the looked-up token or the freshly acquired one", "the value sent after \"Bearer \" is neither the token of the cache lookup's result nor the result of acquireAccessToken")
		}
	}
	if nBearer < 3 {
		c.Fail("C10.R3", "bearer-values/instance-floor", 0, sprintf("only %d bearer Authorization sites found", nBearer))
	}
	hostKeying(c, "C10.R3")
	// R4
	c10StoredScope(c, acqAT, acqT)
	if nRet == 0 {
		c.Fail("C10.R2", "cache-lookup/instance-floor", setAuth.Pos(), "no use of a cached token found (neither a lookup helper returning one nor an inline loop over accessTokens)")
	}
	// R5
	for _, ci := range facts.CallsIn(setAuth) {
		if lookup == nil || !calleeIs(ci, lookup) {
			continue
		}
		v := ci.Value()
		for _, ref := range *v.Referrers() {
			bo, ok := ref.(*ssa.BinOp)
			if !ok {
				continue
			}
			for _, r2 := range *bo.Referrers() {
				iff, ok := r2.(*ssa.If)
				if !ok {
					continue
				}
				hitIdx := 0 // `tok != nil` true edge
				if bo.Op == token.EQL {
					hitIdx = 1
				}
				network := func(in ssa.Instruction) bool {
					cc, ok := in.(ssa.CallInstruction)
					if !ok {
						return false
					}
					if calleeIs(cc, acqAT) || calleeIs(cc, acqT) {
						return true
					}
					return cc.Common().IsInvoke() && cc.Common().Method.Name() == "RoundTrip"
				}
				at, reach := facts.ReachesFrom(iff.Block().Succs[hitIdx], 0, network, facts.IsReturn, nil)
				if reach {
					c.Fail("C10.R5", "setAuthorization/no-request-on-hit", at.Pos(), "a token request / round trip is reachable on the cache-hit branch before returning")
				} else {
					c.OK("C10.R5", "setAuthorization/no-request-on-hit", iff.Pos(), "the cache-hit branch returns without any token request")
				}
			}
		}
	}
	// R6
	nAcq := 0
	for _, ci := range facts.CallsIn(fromCh) {
		if !calleeIs(ci, acqAT) {
			continue
		}
		nAcq++
		a := ci.Common().Args // r, ctx, required, want
		okRecv := false
		if call, isCall := facts.Resolve(a[2]).(*ssa.Call); isCall && strings.HasSuffix(facts.CalleeName(&call.Call), "ociauth.ParseScope") {
			if sliceHas(call.Call.Args[0], func(v ssa.Value) bool {
				lk, ok := v.(*ssa.Lookup)
				if !ok {
					return false
				}
				s, isS := facts.ConstString(lk.Index)
				return isS && s == "scope"
			}) {
				okRecv = true
			}
		}
		okArg := false
		if call, isCall := facts.Resolve(a[3]).(*ssa.Call); isCall && call.Call.StaticCallee() != nil && call.Call.StaticCallee().Name() == "Union" {
			has := func(pi int) bool {
				return sliceHas(call, func(v ssa.Value) bool { return argIsParam(v, fromCh, pi) })
			}
			okArg = has(4) && has(5) // requiredScope, wantScope
		}
		c.Check(okRecv && okArg, "C10.R6", "setAuthorizationFromChallenge/scopes", ci.Pos(), "acquisition asks for ParseScope(challenge scope) united with the desired and required scopes", "the acquisition after a challenge does not pass ParseScope(challenge's scope) as the first scope and a union of both the desired and the required scope as the second")
	}
	if nAcq == 0 {
		c.Fail("C10.R6", "setAuthorizationFromChallenge/scopes", fromCh.Pos(), "no token acquisition on the bearer-challenge path")
	}
	// in acquireAccessToken the first token request uses challengeScope.Union(wantScope): receiver is the first scope parameter
	okUnion := false
	for _, f := range withHelpers(acqAT) {
		for _, ci := range facts.CallsIn(f) {
			if sc := ci.Common().StaticCallee(); sc != nil && sc.Name() == "Union" {
				a := ci.Common().Args
				if argIsParam(resolveUp(a[0], acqAT, 3), acqAT, 2) && argIsParam(resolveUp(a[1], acqAT, 3), acqAT, 3) {
					okUnion = true
				}
			}
		}
	}
	c.Check(okUnion, "C10.R6", "acquireAccessToken/union-receiver", acqAT.Pos(), "the challenge scope is the Union receiver (its text is kept when nothing is added)", "acquireAccessToken does not unite the scopes with the challenge scope as the receiver: the challenge's own scope text is not kept when the desired scope adds nothing")
	c10Lockset(c)
}

// hostKeying: the per-host state is looked up and stored under req.URL.Host.
func hostKeying(c *core.Ctx, rule string) {
	st := c.P.NamedType("ociauth", "stdTransport")
	if st == nil {
		c.Fail(rule, "anchor/ociauth.stdTransport", 0, "ociauth.stdTransport not found")
		return
	}
	rt := c.P.Method(types.NewPointer(st), "RoundTrip")
	if rt == nil {
		c.Fail(rule, "anchor/stdTransport.RoundTrip", 0, "stdTransport.RoundTrip not found")
		return
	}
	c.Analysed(facts.FuncName(rt))
	authFns := c.P.ModuleFunctions("ociauth")
	isURLHost0 := func(v ssa.Value) bool {
		b, fld, ok := facts.FieldOf(facts.Resolve(v))
		if !ok || fld != "Host" {
			return false
		}
		b2, f2, ok2 := facts.FieldOf(facts.Resolve(b))
		if !ok2 || f2 != "URL" {
			return false
		}
		return strings.HasSuffix(b2.Type().String(), "http.Request")
	}
	// req.URL.Host itself, or a parameter of a helper that every caller binds to it
	var isURLHostD func(v ssa.Value, d int) bool
	isURLHostD = func(v ssa.Value, d int) bool {
		if isURLHost0(v) {
			return true
		}
		p, ok := facts.Resolve(v).(*ssa.Parameter)
		if !ok || d <= 0 || p.Parent().Parent() != nil {
			return false
		}
		h, pi := p.Parent(), -1
		for i, q := range h.Params {
			if q == p {
				pi = i
			}
		}
		callers := 0
		for _, f := range authFns {
			for _, ci := range facts.CallsIn(f) {
				if sc := ci.Common().StaticCallee(); sc == h {
					callers++
					if pi < 0 || pi >= len(ci.Common().Args) || !isURLHostD(ci.Common().Args[pi], d-1) {
						return false
					}
				}
			}
		}
		return callers > 0
	}
	isURLHost := func(v ssa.Value) bool { return isURLHostD(v, 2) }
	// the per-host table is consulted by RoundTrip or by unexported helpers it calls
	scope := []*ssa.Function{rt}
	for _, ci := range facts.CallsIn(rt) {
		if sc := ci.Common().StaticCallee(); sc != nil && sc.Blocks != nil && sc.Pkg == rt.Pkg && sc.Signature.Recv() != nil && structName(sc.Signature.Recv().Type()) == "stdTransport" {
			scope = append(scope, sc)
			c.Analysed(facts.FuncName(sc))
		}
	}
	n := 0
	var blocks []*ssa.BasicBlock
	for _, f := range scope {
		blocks = append(blocks, f.Blocks...)
	}
	for _, b := range blocks {
		for _, in := range b.Instrs {
			switch x := in.(type) {
			case *ssa.Lookup:
				if _, fld, ok := facts.FieldOf(facts.Resolve(x.X)); ok && fld == "registries" {
					n++
					c.Check(isURLHost(x.Index), rule, "RoundTrip/host-key-lookup", x.Pos(), "per-host state looked up under req.URL.Host", "the per-host auth state is looked up under something other than req.URL.Host (the host the request is actually sent to): tokens and credentials of one registry can be sent to another")
				}
			case *ssa.MapUpdate:
				if _, fld, ok := facts.FieldOf(facts.Resolve(x.Map)); ok && fld == "registries" {
					n++
					ok := isURLHost(x.Key)
					if !ok {
						// key = newRegistry.host where host was stored from req.URL.Host
						if b2, f2, isF := facts.FieldOf(facts.Resolve(x.Key)); isF && f2 == "host" {
							if al, isAl := facts.Resolve(b2).(*ssa.Alloc); isAl {
								if hv, has := blobLiteralFieldOf(al, "host"); has && isURLHost(hv) {
									ok = true
								}
							}
						}
					}
					c.Check(ok, rule, "RoundTrip/host-key-store", x.Pos(), "per-host state stored under req.URL.Host", "the per-host auth state is stored under a key other than req.URL.Host")
					// and the object's own host field
					if al, isAl := facts.Resolve(x.Value).(*ssa.Alloc); isAl {
						hv, has := blobLiteralFieldOf(al, "host")
						c.Check(has && isURLHost(hv), rule, "RoundTrip/host-field", x.Pos(), "the state object's host is req.URL.Host", "the per-host state object is created for a host other than req.URL.Host: its configured credentials belong to another host")
					}
				}
			}
		}
	}
	if n < 2 {
		c.Fail(rule, "RoundTrip/host-key", rt.Pos(), "RoundTrip no longer looks up and stores per-host state in stdTransport.registries")
	}
}

func blobLiteralFieldOf(al *ssa.Alloc, name string) (ssa.Value, bool) {
	for _, ref := range *al.Referrers() {
		if fa, ok := ref.(*ssa.FieldAddr); ok {
			if _, f2, _ := facts.FieldOf(fa); f2 == name {
				for _, st := range facts.StoresTo(fa) {
					return st.Val, true
				}
			}
		}
	}
	return nil, false
}

func c10StoredScope(c *core.Ctx, acqAT, acqT *ssa.Function) {
	n := 0
	for _, f := range withHelpers(acqAT) {
		for _, b := range f.Blocks {
			for _, in := range b.Instrs {
				al, ok := in.(*ssa.Alloc)
				if !ok || structName(al.Type()) != "scopedToken" {
					continue
				}
				scopeV, ok1 := blobLiteralFieldOf(al, "scope")
				tokenV, ok2 := blobLiteralFieldOf(al, "token")
				if !ok1 || !ok2 {
					continue
				}
				n++
				// the (token string, scope) pairs that can be stored here: when both are
				// parameters of a private helper (`cacheAccessToken(scope, token, …)`), what
				// each call site passes
				type pair struct{ tokenV, scopeV ssa.Value }
				pairs := []pair{{tokenV, scopeV}}
				for d := 0; d < 2; d++ {
					var next []pair
					for _, pr := range pairs {
						tp, ok1 := facts.ResolveFree(pr.tokenV).(*ssa.Parameter)
						sp, ok2 := facts.ResolveFree(pr.scopeV).(*ssa.Parameter)
						if !ok1 || !ok2 || tp.Parent() != sp.Parent() || len(privateCallSites(tp.Parent())) == 0 {
							next = append(next, pr)
							continue
						}
						h := tp.Parent()
						ti, si := -1, -1
						for i, q := range h.Params {
							if q == tp {
								ti = i
							}
							if q == sp {
								si = i
							}
						}
						for _, site := range privateCallSites(h) {
							a := site.Common().Args
							if ti >= 0 && si >= 0 && ti < len(a) && si < len(a) {
								next = append(next, pair{a[ti], a[si]})
							}
						}
					}
					pairs = next
				}
				okAll, whyAll := true, ""
				for _, pr := range pairs {
					// the token response the stored token string comes from
					var tok ssa.Value
					sliceHas(pr.tokenV, func(v ssa.Value) bool {
						if b2, fld, isF := facts.FieldOf(v); isF && (fld == "Token" || fld == "AccessToken") && tok == nil {
							tok = facts.Resolve(b2)
						}
						return false
					})
					// the string is picked by a private helper / method of the response
					// (`tok.bearerToken()`): the response is what this call passes for it
					if tp, isP := tok.(*ssa.Parameter); isP && tp.Parent() != f {
						if call, isCall := facts.Resolve(pr.tokenV).(*ssa.Call); isCall && call.Call.StaticCallee() == tp.Parent() {
							for i, q := range tp.Parent().Params {
								if q == tp && i < len(call.Call.Args) {
									tok = facts.Resolve(call.Call.Args[i])
								}
							}
						}
					}
					if tok == nil {
						okAll, whyAll = false, "the cached token string does not come from the token server's response"
						continue
					}
					if ok, why := tokenScopePaired(tok, facts.Resolve(pr.scopeV), acqT, 4); !ok {
						okAll, whyAll = false, why
					}
				}
				c.Check(okAll, "C10.R4", "acquireAccessToken/stored-scope", al.Pos(), "each cached token is recorded under the scope that was requested for it", whyAll)
			}
		}
	}
	if n == 0 {
		c.Fail("C10.R4", "acquireAccessToken/stored-scope", acqAT.Pos(), "no cache entry is created by acquireAccessToken")
	}
}

// tokenScopePaired: on every way the pair (tok, scope) can come about, tok is
// the result of an acquireToken call whose scope argument is scope. The pair
// is followed jointly through phis of one block, through the parameters of a
// private helper (each call site), and through two results of one helper call
// (each return).
func tokenScopePaired(tok, scope ssa.Value, acqT *ssa.Function, depth int) (bool, string) {
	const mismatch = "the scope recorded with a new cache entry is not the scope argument of the token request that produced the token"
	const narrower = "a token obtained by a narrower retry is cached under the wider scope that was asked for first: a later request needing the wider scope reuses a token that does not cover it"
	tok, scope = facts.Resolve(tok), facts.Resolve(scope)
	if depth <= 0 {
		return false, mismatch
	}
	// base: tok = acquireToken(ctx, scope)#0
	if ex, ok := tok.(*ssa.Extract); ok && ex.Index == 0 {
		if call, ok := ex.Tuple.(*ssa.Call); ok {
			if call.Call.StaticCallee() == acqT {
				if facts.Resolve(call.Call.Args[2]) == scope {
					return true, ""
				}
				return false, mismatch
			}
			// two results of one private helper call
			if sx, ok := scope.(*ssa.Extract); ok && sx.Tuple == ex.Tuple {
				h := call.Call.StaticCallee()
				if h != nil && h.Blocks != nil && len(privateCallSites(h)) > 0 {
					any := false
					for _, r := range returnsOf(h) {
						tv := facts.RetVal(r, ex.Index)
						if isZero(tv) {
							continue
						}
						any = true
						if ok, why := tokenScopePaired(tv, facts.RetVal(r, sx.Index), acqT, depth-1); !ok {
							return false, why
						}
					}
					return any, mismatch
				}
			}
		}
	}
	if tph, isPhi := tok.(*ssa.Phi); isPhi {
		sph, isSPhi := scope.(*ssa.Phi)
		if isSPhi && sph.Block() == tph.Block() && len(sph.Edges) == len(tph.Edges) {
			for i := range tph.Edges {
				if ok, why := tokenScopePaired(tph.Edges[i], sph.Edges[i], acqT, depth); !ok {
					return false, why
				}
			}
			return true, ""
		}
		// a single recorded scope must match every producing request
		for _, e := range tph.Edges {
			if ok, _ := tokenScopePaired(e, scope, acqT, depth); !ok {
				return false, narrower
			}
		}
		return true, ""
	}
	// both are parameters of a private helper: every call site
	if tp, ok := tok.(*ssa.Parameter); ok {
		if sp, ok := scope.(*ssa.Parameter); ok && sp.Parent() == tp.Parent() {
			h := tp.Parent()
			ti, si := -1, -1
			for i, q := range h.Params {
				if q == tp {
					ti = i
				}
				if q == sp {
					si = i
				}
			}
			sites := privateCallSites(h)
			if len(sites) == 0 || ti < 0 || si < 0 {
				return false, mismatch
			}
			for _, s := range sites {
				a := s.Common().Args
				if ok, why := tokenScopePaired(a[ti], a[si], acqT, depth-1); !ok {
					return false, why
				}
			}
			return true, ""
		}
	}
	return false, mismatch
}

func c10Lockset(c *core.Ctx) {
	la := newLockAnalysis(c, "ociauth")
	mut := la.mutableFields()
	// exempt: functions reachable only through (*sync.Once).Do with a Once field of the same struct
	onceClosures := map[*ssa.Function]bool{}
	doCallers := map[*ssa.Function]ssa.Instruction{}
	for _, fn := range la.fns {
		for _, ci := range facts.CallsIn(fn) {
			if facts.CalleeName(ci.Common()) == "(*sync.Once).Do" {
				doCallers[outermost(fn)] = ci
				if mc, ok := facts.Resolve(ci.Common().Args[1]).(*ssa.MakeClosure); ok {
					lit := mc.Fn.(*ssa.Function)
					onceClosures[lit] = true
					// closures it calls that are defined in the same function
					for _, cj := range facts.CallsIn(lit) {
						if inner, ok := facts.ResolveFree(cj.Common().Value).(*ssa.MakeClosure); ok {
							onceClosures[inner.Fn.(*ssa.Function)] = true
						}
					}
				}
			}
		}
	}
	// ... and the private helpers that are called only from such initialisers
	for changed := true; changed; {
		changed = false
		for lit := range onceClosures {
			for _, cj := range facts.CallsIn(lit) {
				h := cj.Common().StaticCallee()
				if h == nil || onceClosures[h] {
					continue
				}
				sites := privateCallSites(h)
				if len(sites) == 0 {
					continue
				}
				all := true
				for _, s0 := range sites {
					if !onceClosures[s0.Parent()] {
						all = false
					}
				}
				if all {
					onceClosures[h] = true
					changed = true
				}
			}
		}
	}
	n := 0
	for _, fn := range la.fns {
		for _, b := range fn.Blocks {
			for _, in := range b.Instrs {
				var addr ssa.Value
				write := false
				switch x := in.(type) {
				case *ssa.UnOp:
					if x.Op == token.MUL {
						addr = x.X
					}
				case *ssa.Store:
					addr = x.Addr
					write = true
				}
				if addr == nil {
					continue
				}
				base, fld, ok := facts.FieldOf(addr)
				if !ok || isFreshBase(base) {
					continue
				}
				sn := structName(base.Type())
				mf, hasMu := la.mutexOf[sn]
				if !hasMu || !mut[sn][fld] {
					// map contents of stdTransport.registries
					if !(hasMu && sn == "stdTransport" && fld == "registries") {
						continue
					}
				}
				n++
				if onceClosures[fn] {
					continue // initialisation under sync.Once
				}
				if d, ok := doCallers[outermost(fn)]; ok && fn == outermost(fn) && facts.Dominates(d, in) && !write {
					continue // read after Once.Do returned (happens-before)
				}
				held := la.HeldAt(in)
				if !held[sn+"."+mf] {
					rw := "read"
					if write {
						rw = "write"
					}
					c.Fail("C10.R7", facts.FuncName(fn)+"/"+sn+"."+fld+"/"+rw, in.Pos(), rw+" of "+sn+"."+fld+" without "+sn+"."+mf+" held (held: "+describeTokens(held)+")")
				}
			}
		}
	}
	if n < 10 {
		c.Fail("C10.R7", "lockset/instance-floor", 0, sprintf("only %d guarded accesses found in ociauth", n))
	} else {
		c.OK("C10.R7", "lockset/ociauth", 0, sprintf("%d accesses to mutable fields of mutex-bearing ociauth structs examined (violations reported above, if any)", n))
	}
	// the Once exemption is sound only if the initialising closure is passed to Do of a Once field of the same object
	for fn, d := range doCallers {
		a := d.(ssa.CallInstruction).Common().Args[0]
		_, fld, isF := facts.FieldOf(a)
		c.Check(isF && strings.Contains(strings.ToLower(fld), "once"), "C10.R7", facts.FuncName(fn)+"/once-field", d.Pos(), "initialisation runs under a sync.Once field of the object", "sync.Once.Do is not called on a Once field of the object being initialised")
	}
}
