package props

import (
	"fmt"
	"go/token"
	"go/types"
	"os"
	"strings"

	"golang.org/x/tools/go/ssa"

	"ocivet/internal/core"
	"ocivet/internal/facts"
)

func init() {
	register(&Prop{
		ID:    "C14",
		Title: "Read-only, immutable and immutable-tags modes hold for every history",
		Run:   runC14,
		Explanation: "R1 (decides the ReadOnly clause) by go/types method-set resolution on the struct returned by ocifilter.ReadOnly: every Writer/Deleter method resolves through an embedded *Funcs that the constructor leaves nil, every Reader/Lister method through a field bound to the constructor's argument; " +
			"R2 for the type returned by ocifilter.Immutable: DeleteBlob/DeleteManifest/DeleteTag are declared on the wrapper, make no backend call and return a non-nil error; in PushManifest a backend push of a tagged manifest is dominated by 'the tag did not resolve', and every success return on the tagged path is dominated by 'resolved digest == digest of the pushed bytes'; " +
			"R3 in ocimem every store into a repository's tags map holds (not ImmutableTags) or (tag absent) on every path (disjunctive path facts), every delete from tags holds not ImmutableTags, every delete from manifests/blobs holds (not ImmutableTags) or (not refersTo(repo, tag iterator of the same repo, the deleted digest)); " +
			"R4 stored manifest bytes are parsed for references only under the media type stored with them (both arguments of the reference parser come from one stored blob, or both from the pushed parameters); " +
			"R5 ocimem's descriptor iterators (the reachability walk's producers) obey the yield protocol: no yield is reachable after the consumer declined. " +
			"R0 ReadOnly and Immutable wrap exactly the registry they were given; R6 (shared with C01.R5) stored bytes never alias a caller-owned slice. " +
			"R7 in the reachability walk (refersTo) the callback continues after a recursive query only on edges where the answer is known false: a later sibling cannot overwrite \"found\".",
		NotDecided: "'forever' as a behaviour over histories and the immutable wrapper's acknowledged race window (two concurrent pushes of one tag through the wrapper) are not decided; R3's lock discipline is decided under C08.",
		Technique:  "static analysis: go/types method-set/embedding resolution, SSA dominance, disjunctive path-sensitive fact propagation",
	})
}

func runC14(c *core.Ctx) {
	c14ReadOnly(c)
	c14Immutable(c)
	// content observed under a tag cannot be changed through a slice the caller still holds (shared with C01.R5)
	relabel(c, "C14.R6", func() { c01Immutability(c) })
	wrapperHoldsItsRegistries(c, "C14.R0", "ocifilter", "ReadOnly")
	wrapperHoldsItsRegistries(c, "C14.R0", "ocifilter", "Immutable")
	c14ImmutableTags(c)
	c14TypedInterpretation(c)
	reachabilityStopsWhenFound(c, "C14.R7")
	// R5: the descriptor iterators the reachability walk is built from obey the
	// yield protocol (a producer that keeps yielding after `false` makes
	// refersTo overwrite a positive answer with a later negative one).
	n := yieldProtocol(c, "C14.R5", c.P.ModuleFunctions("ocimem"))
	if n < 3 {
		c.Fail("C14.R5", "instance-floor", 0, sprintf("only %d iterator producers found in ocimem", n))
	}
}

// ---- R1

func c14ReadOnly(c *core.Ctx) {
	ctor := c.P.Func("ocifilter", "ReadOnly")
	if ctor == nil {
		c.Fail("C14.R1", "anchor/ocifilter.ReadOnly", 0, "anchor not found: ocifilter.ReadOnly")
		return
	}
	c.Analysed("ocifilter.ReadOnly")
	ts := constructorResultTypes(ctor)
	if len(ts) != 1 {
		c.Fail("C14.R1", "anchor/ReadOnly.result", ctor.Pos(), sprintf("ReadOnly returns %d concrete types", len(ts)))
		return
	}
	T := ts[0]
	// which field paths does the constructor store to, and with what?
	stored := map[string]ssa.Value{}
	for _, b := range ctor.Blocks {
		for _, in := range b.Instrs {
			st, ok := in.(*ssa.Store)
			if !ok {
				continue
			}
			path, ok := fieldPath(st.Addr)
			if ok {
				stored[path] = st.Val
			}
		}
	}
	mset := types.NewMethodSet(T)
	pkg := c.P.TypesPkg("")
	for _, m := range ifaceMethods(c) {
		name := m.Name()
		sub := subIfaceOf(c, name)
		sel := mset.Lookup(pkg, name)
		key := "ReadOnly." + name
		if sel == nil {
			c.Fail("C14.R1", key, ctor.Pos(), "method "+name+" is not in the method set of the read-only wrapper")
			continue
		}
		// walk the embedding path
		idx := sel.Index()
		var pathNames []string
		t := T
		for _, i := range idx[:len(idx)-1] {
			if p, ok := t.Underlying().(*types.Pointer); ok {
				t = p.Elem()
			}
			st, ok := t.Underlying().(*types.Struct)
			if !ok {
				break
			}
			pathNames = append(pathNames, st.Field(i).Name())
			t = st.Field(i).Type()
		}
		path := strings.Join(pathNames, ".")
		mutating := sub == "Writer" || sub == "Deleter"
		if mutating {
			isFuncs := false
			if p, ok := t.(*types.Pointer); ok {
				isFuncs = isNamed(p.Elem(), "oci/ociregistry", "Funcs")
			}
			_, isStored := stored[path]
			ok := isFuncs && !isStored
			detail := "resolves through embedded *Funcs at ." + path + ", which the constructor leaves nil: fails as unsupported"
			fail := "mutating method " + name + " resolves through field ." + path + " of type " + t.String()
			if isFuncs && isStored {
				fail += ", which the constructor sets (a populated function table would pass writes through)"
			} else if !isFuncs {
				fail += ": a write would reach the underlying registry instead of failing as unsupported"
			}
			c.Check(ok, "C14.R1", key, ctor.Pos(), detail, fail)
		} else {
			v, isStored := stored[path]
			ok := isStored && argIsParam(v, ctor, 0) && len(idx) == 2
			c.Check(ok, "C14.R1", key, ctor.Pos(), "resolves through field ."+path+" bound to the wrapped registry", "read method "+name+" does not resolve through a depth-1 field bound to ReadOnly's argument (path ."+path+")")
		}
	}
}

// fieldPath renders the chain of FieldAddr from an Alloc as "A.B".
func fieldPath(addr ssa.Value) (string, bool) {
	var names []string
	for {
		fa, ok := addr.(*ssa.FieldAddr)
		if !ok {
			break
		}
		t := fa.X.Type()
		if p, ok := t.Underlying().(*types.Pointer); ok {
			t = p.Elem()
		}
		st, ok := t.Underlying().(*types.Struct)
		if !ok {
			return "", false
		}
		names = append([]string{st.Field(fa.Field).Name()}, names...)
		addr = fa.X
	}
	if _, ok := addr.(*ssa.Alloc); !ok || len(names) == 0 {
		return "", false
	}
	return strings.Join(names, "."), true
}

// ---- R2

func c14Immutable(c *core.Ctx) {
	ctor := c.P.Func("ocifilter", "Immutable")
	if ctor == nil {
		c.Fail("C14.R2", "anchor/ocifilter.Immutable", 0, "anchor not found: ocifilter.Immutable")
		return
	}
	ts := constructorResultTypes(ctor)
	if len(ts) != 1 {
		c.Fail("C14.R2", "anchor/Immutable.result", ctor.Pos(), sprintf("Immutable returns %d concrete types", len(ts)))
		return
	}
	T := ts[0]
	for _, name := range []string{"DeleteBlob", "DeleteManifest", "DeleteTag"} {
		key := "Immutable." + name
		fn := declaredMethod(c, T, name)
		if fn == nil {
			c.Fail("C14.R2", key+"/declared", ctor.Pos(), name+" is not declared on the immutable wrapper: the embedded registry's "+name+" is promoted and deletes pass through")
			continue
		}
		c.Analysed(facts.FuncName(fn))
		nb := len(backendCalls(fn)) + len(promotedCalls(fn, T))
		c.Check(nb == 0, "C14.R2", key+"/no-backend-call", fn.Pos(), "makes no call on the wrapped registry", name+" calls the wrapped registry: something can be deleted through the immutable wrapper")
		for _, r := range returnsOf(fn) {
			n := len(r.Results)
			ok := n > 0 && !facts.IsNilConst(facts.Resolve(r.Results[n-1])) && !isZero(r.Results[n-1])
			c.Check(ok, "C14.R2", key+"/returns-error", r.Pos(), "returns a non-nil error", name+" can return a nil error")
		}
	}
	// every other Deleter method of the Interface must also be declared (a new Deleter method would be promoted)
	for _, m := range ifaceMethods(c) {
		if subIfaceOf(c, m.Name()) == "Deleter" && declaredMethod(c, T, m.Name()) == nil {
			c.Fail("C14.R2", "Immutable."+m.Name()+"/declared", ctor.Pos(), "Deleter method "+m.Name()+" is promoted from the wrapped registry")
		}
	}
	pm := declaredMethod(c, T, "PushManifest")
	if pm == nil {
		c.Fail("C14.R2", "Immutable.PushManifest/declared", ctor.Pos(), "PushManifest is not declared on the immutable wrapper: tags can be moved")
		return
	}
	c.Analysed(facts.FuncName(pm))
	// parameter indexes: recv, ctx, repo, tag, contents, mediaType
	const pTag, pContents = 3, 4
	isResolve := func(v ssa.Value) *ssa.Call {
		call, ok := facts.Resolve(v).(*ssa.Call)
		if !ok {
			return nil
		}
		nm := ""
		if call.Call.IsInvoke() {
			nm = call.Call.Method.Name()
		} else if sc := call.Call.StaticCallee(); sc != nil {
			nm = sc.Name()
		}
		if nm != "ResolveTag" {
			return nil
		}
		args := call.Call.Args
		if !call.Call.IsInvoke() {
			args = args[1:]
		}
		if len(args) != 3 || !argIsParam(resolveUp(args[1], pm, 3), pm, 2) || !argIsParam(resolveUp(args[2], pm, 3), pm, pTag) {
			return nil
		}
		return call
	}
	tagEmpty := func(conds []facts.Cond) bool {
		for _, cd := range conds {
			if x, op, y, ok := facts.Cmp(cd); ok && op == token.EQL && argIsParam(x, pm, pTag) {
				if s, isS := facts.ConstString(y); isS && s == "" {
					return true
				}
			}
		}
		return false
	}
	var pushes []ssa.CallInstruction
	for _, bc := range backendCalls(pm) {
		if bc.Method == "PushManifest" {
			pushes = append(pushes, bc.Call)
		}
	}
	for _, ci := range promotedCalls(pm, T) {
		if ci.Common().StaticCallee().Name() == "PushManifest" {
			pushes = append(pushes, ci)
		}
	}
	if len(pushes) == 0 {
		c.Fail("C14.R2", "Immutable.PushManifest/delegate", pm.Pos(), "no backend PushManifest call found")
	}
	for _, p := range pushes {
		conds := facts.CondsAt(p.Block())
		if tagEmpty(conds) {
			c.OK("C14.R2", "Immutable.PushManifest/untagged-push", p.Pos(), "untagged push delegated under tag == \"\"")
			continue
		}
		ok := false
		// also what `found == false` / `err == nil` of a private checking helper implies
		forEachCondImplied(p.Block(), 2, func(cd facts.Cond) {
			x, isNil, okc := facts.NilCheck(cd)
			if !okc || isNil {
				return
			}
			if ex, isEx := facts.Resolve(x).(*ssa.Extract); isEx && ex.Index == 1 && isResolve(ex.Tuple) != nil {
				ok = true
			}
		})
		c.Check(ok, "C14.R2", "Immutable.PushManifest/tagged-push-guard", p.Pos(), "tagged push dominated by 'ResolveTag(repo, tag) failed'", "a tagged manifest is pushed to the wrapped registry on a path where the tag may already resolve: an existing tag can be moved")
	}
	// success returns on the tagged path
	for _, r := range returnsOf(pm) {
		n := len(r.Results)
		if n != 2 || !facts.IsNilConst(facts.Resolve(r.Results[1])) {
			continue
		}
		conds := facts.CondsAt(r.Block())
		if tagEmpty(conds) {
			continue
		}
		ok := false
		for _, cd := range conds {
			x, op, y, okc := facts.Cmp(cd)
			if !okc || op != token.EQL {
				continue
			}
			for _, pair := range [][2]ssa.Value{{x, y}, {y, x}} {
				sv, fld, isField := facts.StructFieldSource(facts.Resolve(pair[0]))
				if !isField || fld != "Digest" {
					continue
				}
				ex, isEx := sv.(*ssa.Extract)
				if !isEx || ex.Index != 0 || isResolve(ex.Tuple) == nil {
					continue
				}
				if call, isCall := facts.Resolve(pair[1]).(*ssa.Call); isCall && strings.HasSuffix(facts.CalleeName(&call.Call), "go-digest.FromBytes") && argIsParam(call.Call.Args[0], pm, pContents) {
					ok = true
				}
			}
		}
		c.Check(ok, "C14.R2", "Immutable.PushManifest/success-return", r.Pos(), "success only when the tag resolves to the digest of the pushed bytes", "PushManifest reports success for a tagged push on a path where the tag is not known to resolve to the pushed content's digest")
	}
}

// promotedCalls lists static calls to synthetic wrappers promoting the
// embedded Interface's methods on T (e.g. r.ResolveTag on `immutable`).
func promotedCalls(fn *ssa.Function, T types.Type) []ssa.CallInstruction {
	var out []ssa.CallInstruction
	for _, f := range facts.WithAnon(fn) {
		for _, ci := range facts.CallsIn(f) {
			sc := ci.Common().StaticCallee()
			if sc == nil || sc.Synthetic == "" || sc.Signature.Recv() == nil {
				continue
			}
			rt := sc.Signature.Recv().Type()
			if p, ok := rt.(*types.Pointer); ok {
				rt = p.Elem()
			}
			tt := T
			if p, ok := tt.(*types.Pointer); ok {
				tt = p.Elem()
			}
			if types.Identical(rt, tt) {
				out = append(out, ci)
			}
		}
	}
	return out
}

// ---- R3

// memMapField: if v is a load of field `name`-like map of an ocimem repository, return the field name.
func memMapField(v ssa.Value) (string, bool) {
	b, name, ok := facts.FieldOf(facts.Resolve(v))
	if !ok {
		return "", false
	}
	t := b.Type()
	if p, ok := t.Underlying().(*types.Pointer); ok {
		t = p.Elem()
	}
	if !isNamed(t, "ociregistry/ocimem", "repository") {
		return "", false
	}
	return name, true
}

func isImmutableTagsLoad(v ssa.Value) bool {
	_, name, ok := facts.FieldOf(facts.Resolve(v))
	return ok && name == "ImmutableTags"
}

func c14ImmutableTags(c *core.Ctx) {
	fns := c.P.ModuleFunctions("ocimem")
	if len(fns) == 0 {
		c.Fail("C14.R3", "anchor/ocimem", 0, "package ocimem not found")
		return
	}
	// refersTo by role: func(*repository, descIter, Digest) (bool, error)
	var refers *ssa.Function
	for _, f := range fns {
		s := f.Signature
		if f.Parent() == nil && s.Recv() == nil && s.Params().Len() == 3 && s.Results().Len() == 2 {
			if b, ok := s.Results().At(0).Type().Underlying().(*types.Basic); ok && b.Kind() == types.Bool {
				if p, ok := s.Params().At(0).Type().(*types.Pointer); ok && isNamed(p.Elem(), "ociregistry/ocimem", "repository") {
					refers = f
				}
			}
		}
	}
	if refers == nil {
		c.Fail("C14.R3", "anchor/refersTo", 0, "no reachability function func(*repository, iterator, Digest) (bool, error) found in ocimem")
	}
	nTagStore, nTagDelete, nContentDelete := 0, 0, 0
	sitesOf := map[*ssa.Function][]ssa.Instruction{}
	for _, fn := range fns {
		for _, b := range fn.Blocks {
			for _, in := range b.Instrs {
				switch x := in.(type) {
				case *ssa.MapUpdate:
					if f, ok := memMapField(x.Map); ok && (f == "tags" || f == "manifests") {
						sitesOf[fn] = append(sitesOf[fn], in)
					}
				case *ssa.Call:
					if bi, ok := x.Call.Value.(*ssa.Builtin); ok && bi.Name() == "delete" {
						if f, ok := memMapField(x.Call.Args[0]); ok && (f == "tags" || f == "manifests" || f == "blobs") {
							sitesOf[fn] = append(sitesOf[fn], in)
						}
					}
				}
			}
		}
	}
	// A site inside a private helper is judged under the facts of each call of
	// the helper (the guard may have stayed in the caller): `deferred` helpers are
	// not analysed on their own but whenever a caller's analysis inlines them.
	deferred := map[*ssa.Function]bool{}
	for fn := range sitesOf {
		if fn.Parent() == nil && len(privateCallSites(fn)) > 0 {
			deferred[fn] = true
		}
	}
	reachesDeferred := func(fn *ssa.Function) bool {
		return helperTouches(fn, 3, func(in ssa.Instruction) bool {
			if call, ok := in.(*ssa.Call); ok {
				if sc := call.Call.StaticCallee(); sc != nil && deferred[sc] {
					return true
				}
			}
			return false
		})
	}
	// verdict per site: the conjunction over every context it was evaluated in
	type verdict struct {
		ok   bool
		seen bool
	}
	verdicts := map[ssa.Instruction]*verdict{}
	note := func(site ssa.Instruction, ok bool) {
		v := verdicts[site]
		if v == nil {
			v = &verdict{ok: true}
			verdicts[site] = v
		}
		v.seen = true
		v.ok = v.ok && ok
	}
	var roots []*ssa.Function
	for _, fn := range fns {
		if deferred[fn] {
			continue
		}
		if len(sitesOf[fn]) > 0 || (fn.Parent() == nil && reachesDeferred(fn)) {
			roots = append(roots, fn)
		}
	}
	// a deferred helper that no analysed caller reaches is analysed on its own
	for pass := 0; pass < 2; pass++ {
		if pass == 1 {
			roots = roots[:0]
			for _, fn := range fns {
				if !deferred[fn] {
					continue
				}
				for _, site := range sitesOf[fn] {
					if v := verdicts[site]; v == nil || !v.seen {
						roots = append(roots, fn)
						deferred[fn] = false
						break
					}
				}
			}
		}
		for _, fn := range roots {
			sites := sitesOf[fn]
			c.Analysed(facts.FuncName(fn))
			ff := facts.FlowFuncs{
				Edge: func(b *ssa.BasicBlock, idx int, t facts.Tokens) bool {
					for _, cd := range facts.EdgeConds(b, idx) {
						if isImmutableTagsLoad(cd.V) {
							if cd.Pos {
								if t["notImmutable"] {
									return false
								}
								t["immutable"] = true
							} else {
								if t["immutable"] {
									return false
								}
								t["notImmutable"] = true
							}
						}
						// comma-ok lookup in the tags map
						if ex, ok := cd.V.(*ssa.Extract); ok && ex.Index == 1 {
							if lk, ok := ex.Tuple.(*ssa.Lookup); ok && lk.CommaOk {
								if f, ok := memMapField(lk.X); ok && f == "tags" && !cd.Pos {
									t["absent:"+facts.Term(lk.Index)] = true
								}
							}
							// ok result of refersTo
						}
						if ex, ok := facts.Resolve(cd.V).(*ssa.Extract); ok && ex.Index == 0 {
							if call, ok := ex.Tuple.(*ssa.Call); ok && refers != nil && call.Call.StaticCallee() == refers && !cd.Pos {
								// args: (repo, repoTagIter(repo), digest)
								if it, ok := facts.Resolve(call.Call.Args[1]).(*ssa.Call); ok && it.Call.StaticCallee() != nil &&
									len(it.Call.Args) == 1 && facts.Term(it.Call.Args[0]) == facts.Term(call.Call.Args[0]) && iteratesTags(it.Call.StaticCallee()) {
									t["notReferred:"+facts.Term(call.Call.Args[2])] = true
								}
							}
						}
						// b := repo.manifests[dig]; b == nil  /  b.mediaType == <param>
						if x, isNil, ok := facts.NilCheck(cd); ok && isNil {
							if lk, ok := facts.Resolve(x).(*ssa.Lookup); ok {
								if f, ok := memMapField(lk.X); ok && f == "manifests" {
									t["mabsent:"+facts.Term(lk.Index)] = true
								}
							}
						}
						if x, op, y, ok := facts.Cmp(cd); ok && op == token.EQL {
							for _, pr := range [][2]ssa.Value{{x, y}, {y, x}} {
								bv, fld, isF := facts.FieldOf(facts.Resolve(pr[0]))
								if !isF || fld != "mediaType" {
									continue
								}
								lk, isLk := facts.Resolve(bv).(*ssa.Lookup)
								if !isLk {
									continue
								}
								if f, ok := memMapField(lk.X); !ok || f != "manifests" {
									continue
								}
								t["sameMT:"+facts.Term(lk.Index)+":"+facts.Term(facts.ResolveFree(pr[1]))] = true
							}
						}
						// emptiness tests (x == "", len(x) == 0, len(x) > 0 ...), to prune correlated branches
						if x, isEmpty, ok := facts.EmptyTest(cd); ok {
							tm := facts.Term(x)
							if isEmpty {
								if t["nonempty:"+tm] {
									return false
								}
								t["empty:"+tm] = true
							} else {
								if t["empty:"+tm] {
									return false
								}
								t["nonempty:"+tm] = true
							}
						}
					}
					return true
				},
			}
			// helpers worth following: those that (transitively) test ImmutableTags,
			// ask the reachability question, or touch the tag/content maps
			il := facts.NewInliner(&ff, func(h *ssa.Function) bool {
				return h.Pkg == fn.Pkg && h != refers && helperTouches(h, 3, func(in ssa.Instruction) bool {
					switch x := in.(type) {
					case *ssa.FieldAddr, *ssa.Field:
						_, name, ok := facts.FieldOf(x.(ssa.Value))
						return ok && name == "ImmutableTags"
					case *ssa.MapUpdate:
						_, ok := memMapField(x.Map)
						return ok
					case *ssa.Lookup:
						_, ok := memMapField(x.X)
						return ok
					case *ssa.Call:
						if bi, ok := x.Call.Value.(*ssa.Builtin); ok && bi.Name() == "delete" {
							_, ok := memMapField(x.Call.Args[0])
							return ok
						}
						return refers != nil && x.Call.StaticCallee() == refers
					}
					return false
				})
			})
			var evalSites func(owner *ssa.Function, sites []ssa.Instruction, flow map[*ssa.BasicBlock]facts.DNF)
			il.OnInlined = func(h *ssa.Function, flow map[*ssa.BasicBlock]facts.DNF) {
				if deferred[h] {
					evalSites(h, sitesOf[h], flow)
				}
			}
			evalSites = func(owner *ssa.Function, sites []ssa.Instruction, flow map[*ssa.BasicBlock]facts.DNF) {
				for _, site := range sites {
					if len(flow[site.Block()]) == 0 {
						continue // not reached in this context
					}
					if os.Getenv("OCIVET_DBG_C14") != "" {
						fmt.Fprintf(os.Stderr, "C14 site %s in %s (root %s):\n", c.P.Pos(site.Pos()), owner.Name(), fn.Name())
						for _, d := range flow[site.Block()] {
							fmt.Fprintf(os.Stderr, "   %v\n", d)
						}
					}
					switch x := site.(type) {
					case *ssa.MapUpdate:
						if f, _ := memMapField(x.Map); f == "manifests" {
							keyT := facts.Term(x.Key)
							mtTerm := ""
							if al, ok := facts.Resolve(x.Value).(*ssa.Alloc); ok {
								for _, ref := range *al.Referrers() {
									if fa, ok := ref.(*ssa.FieldAddr); ok {
										if _, fn2, _ := facts.FieldOf(fa); fn2 == "mediaType" {
											for _, st := range facts.StoresTo(fa) {
												mtTerm = facts.Term(facts.ResolveFree(st.Val))
											}
										}
									}
								}
							}
							note(site, facts.AllAt(ff, flow, site, func(t facts.Tokens) bool {
								return t["notImmutable"] || t["mabsent:"+keyT] || (mtTerm != "" && t["sameMT:"+keyT+":"+mtTerm])
							}))
							continue
						}
						keyT := facts.Term(x.Key)
						note(site, facts.AllAt(ff, flow, site, func(t facts.Tokens) bool { return t["notImmutable"] || t["absent:"+keyT] }))
					case *ssa.Call:
						f, _ := memMapField(x.Call.Args[0])
						if f == "tags" {
							note(site, facts.AllAt(ff, flow, site, func(t facts.Tokens) bool { return t["notImmutable"] }))
						} else {
							keyT := facts.Term(x.Call.Args[1])
							note(site, facts.AllAt(ff, flow, site, func(t facts.Tokens) bool { return t["notImmutable"] || t["notReferred:"+keyT] }))
						}
					}
				}
			}
			flow := facts.PathFlow(fn, ff)
			evalSites(fn, sites, flow)
		}
	}
	// the verdicts, one obligation per site
	for _, fn := range fns {
		for _, site := range sitesOf[fn] {
			v := verdicts[site]
			ok := v != nil && v.seen && v.ok
			name := facts.FuncName(fn)
			switch x := site.(type) {
			case *ssa.MapUpdate:
				if f, _ := memMapField(x.Map); f == "manifests" {
					c.Check(ok, "C14.R3", name+"/manifests-store", site.Pos(), "manifest store holds (not ImmutableTags) or (digest absent) or (same media type as stored) on every path", "in immutable-tags mode a stored manifest can be replaced by the same bytes under a different media type: a tagged manifest's interpretation (and so what it keeps alive) changes")
					continue
				}
				nTagStore++
				c.Check(ok, "C14.R3", name+"/tags-store", site.Pos(), "tag store holds (not ImmutableTags) or (tag absent) on every path", "a tag binding is stored on a path where ImmutableTags may be set and the tag may already exist: an observed tag can move")
			case *ssa.Call:
				f, _ := memMapField(x.Call.Args[0])
				if f == "tags" {
					nTagDelete++
					c.Check(ok, "C14.R3", name+"/tags-delete", site.Pos(), "tag delete holds not ImmutableTags", "a tag is deleted on a path where ImmutableTags may be set")
				} else {
					nContentDelete++
					c.Check(ok, "C14.R3", name+"/"+f+"-delete", site.Pos(), "content delete holds (not ImmutableTags) or (not reachable from any tag)", "content is deleted from "+f+" on a path where ImmutableTags may be set and the digest may be reachable from a tag")
				}
			}
		}
	}
	c.Check(nTagStore > 0 && nTagDelete > 0 && nContentDelete > 0, "C14.R3", "ocimem/instance-floor", 0,
		sprintf("%d tag stores, %d tag deletes, %d content deletes examined", nTagStore, nTagDelete, nContentDelete),
		sprintf("instance floor: found %d tag stores, %d tag deletes, %d content deletes in ocimem (each must be > 0)", nTagStore, nTagDelete, nContentDelete))
}

// iteratesTags: the iterator constructor ranges over the tags map of its repository argument.
func iteratesTags(fn *ssa.Function) bool {
	for _, f := range facts.WithAnon(fn) {
		for _, b := range f.Blocks {
			for _, in := range b.Instrs {
				if r, ok := in.(*ssa.Range); ok {
					if fld, ok := memMapField(r.X); ok && fld == "tags" {
						return true
					}
				}
			}
		}
	}
	return false
}

// ---- R4

func c14TypedInterpretation(c *core.Ctx) {
	mr := c.P.Func("ocimem", "manifestReferences")
	if mr == nil {
		// by role: func(string, []byte) (descIter, error)
		for _, f := range c.P.ModuleFunctions("ocimem") {
			s := f.Signature
			if f.Parent() == nil && s.Recv() == nil && s.Params().Len() == 2 && s.Results().Len() == 2 &&
				s.Params().At(0).Type().String() == "string" && s.Params().At(1).Type().String() == "[]byte" && s.Results().At(1).Type().String() == "error" {
				mr = f
			}
		}
	}
	if mr == nil {
		c.Fail("C14.R4", "anchor/manifestReferences", 0, "reference parser func(mediaType string, data []byte) (iterator, error) not found in ocimem")
		return
	}
	n := 0
	isBlobField := func(v ssa.Value, want string) (string, bool) {
		b, name, ok := facts.FieldOf(facts.Resolve(v))
		if !ok || name != want {
			return "", false
		}
		t := b.Type()
		if p, ok := t.Underlying().(*types.Pointer); ok {
			t = p.Elem()
		}
		if !isNamed(t, "ociregistry/ocimem", "blob") {
			return "", false
		}
		return facts.Term(b), true
	}
	for _, fn := range c.P.ModuleFunctions("ocimem") {
		for _, ci := range facts.CallsIn(fn) {
			if ci.Common().StaticCallee() != mr {
				continue
			}
			n++
			args := ci.Common().Args
			key := facts.FuncName(fn) + "/reference-parse"
			bm, okm := isBlobField(args[0], "mediaType")
			bd, okd := isBlobField(args[1], "data")
			switch {
			case okm && okd && bm == bd:
				c.OK("C14.R4", key, ci.Pos(), "media type and bytes are the two fields of one stored blob")
			case okd && !okm:
				c.Fail("C14.R4", key, ci.Pos(), "stored manifest bytes are parsed under a media type that does not come from the stored blob (a referrer's claimed type): reachability from tags under-approximates, so content referenced by a tagged manifest can be deleted in immutable-tags mode")
			case okm && !okd, okm && okd && bm != bd:
				c.Fail("C14.R4", key, ci.Pos(), "media type and bytes come from different blobs")
			default:
				// both must derive from parameters of the enclosing (outermost) function
				root := outermost(fn)
				fromParam := func(v ssa.Value) bool {
					return sliceHas(v, func(x ssa.Value) bool {
						p, ok := x.(*ssa.Parameter)
						return ok && p.Parent() == root
					})
				}
				c.Check(fromParam(args[0]) && fromParam(args[1]), "C14.R4", key, ci.Pos(), "media type and bytes are both the pushed parameters", "reference parser called with a media type / bytes pair that is neither one stored blob nor the pushed parameters")
			}
		}
	}
	if n == 0 {
		c.Fail("C14.R4", "ocimem/reference-parse", mr.Pos(), "no call of the reference parser found (instance floor)")
	}
}
