package props

import (
	"go/token"
	"go/types"
	"strings"

	"golang.org/x/tools/go/ssa"

	"ocivet/internal/core"
	"ocivet/internal/facts"
)

func init() {
	register(&Prop{
		ID:    "C19",
		Title: "Credential lookup from config files is deterministic with fixed precedence",
		Run:   runC19,
		Explanation: "R1 map-iteration-order lint over decodeConfigFile, the one loop that extends the map it ranges over: (a) on every path through one iteration the (decoded) entry is stored back under the key being visited before the next iteration; (b) the list of URL keys an entry was derived from is sorted after every append, before the entry is stored; (c) the store under the derived host key happens only when no entry exists for it or the existing one was itself derived (an explicit entry is never overwritten); " +
			"R2 precedence and determinism of EntryForRegistry: the helper name is the per-host helper when one is configured and the default store otherwise; the auths table is consulted only on paths where no helper is configured, or the helper failed, is the default one (not per-host) and the failure is ErrHelperNotFound; credentials read from the table are returned only under len(derivedFrom) <= 1; and the lookup writes nothing to the ConfigFile (no stores, no Store/Delete calls on its fields), so results cannot depend on the order of lookups. " +
			"R3 the byte count of base64 Decode into a caller-sized buffer is used. " +
			"R4 the auth field is decoded with base64.StdEncoding. " +
			"R5 decodeAuth never returns one element of an unlimited split on ':' (the password is everything after the first colon). " +
			"R6 URL-form keys of the auths table keep their port (the key normalisation never calls URL.Hostname / net.SplitHostPort). " +
			"R7 the function returned by ExecHelper / ExecHelperWithEnv only reads the variables it captures from the creating call (locks aside): no buffer or result is shared between lookups. " +
			"R8 no prefix-like cutset (several characters with repeats or separators, e.g. \"http://\") is handed to strings.Trim/TrimLeft/TrimRight in ociauth: prefixes are removed as prefixes.",
		NotDecided: "exactness of base64 decoding of the auth field, and the text of the error when several entries are malformed (it can depend on iteration order; outside the property's statement), are not decided.",
		Technique:  "static analysis: must-pass-through on the loop body, dominance, disjunctive path facts, write-effect scan",
	})
}

func runC19(c *core.Ctx) {
	base64CountUsed(c, "C19.R3")
	authDecodedWithStdAlphabet(c, "C19.R4")
	passwordIsEverythingAfterTheFirstColon(c, "C19.R5")
	authKeysKeepThePort(c, "C19.R6")
	helperRunnerIsStateless(c, "C19.R7")
	prefixesRemovedAsPrefixes(c, "C19.R8", "ociauth")
	dec := c.P.Func("ociauth", "decodeConfigFile")
	if dec == nil {
		c.Fail("C19.R1", "anchor/ociauth.decodeConfigFile", 0, "ociauth.decodeConfigFile not found")
	} else {
		c19Decode(c, dec)
	}
	cf := c.P.NamedType("ociauth", "ConfigFile")
	if cf == nil {
		c.Fail("C19.R2", "anchor/ociauth.ConfigFile", 0, "ociauth.ConfigFile not found")
		return
	}
	efr := declaredMethod(c, types.NewPointer(cf), "EntryForRegistry")
	if efr == nil {
		c.Fail("C19.R2", "anchor/ConfigFile.EntryForRegistry", 0, "(*ConfigFile).EntryForRegistry not found")
		return
	}
	c19Entry(c, efr)
}

func isAuthsMap(v ssa.Value) bool {
	_, fld, ok := facts.FieldOf(facts.Resolve(v))
	return ok && fld == "Auths"
}

func c19Decode(c *core.Ctx, dec *ssa.Function) {
	c.Analysed("ociauth.decodeConfigFile")
	// the range loop over Auths
	var rng *ssa.Range
	var next *ssa.Next
	for _, b := range dec.Blocks {
		for _, in := range b.Instrs {
			if r, ok := in.(*ssa.Range); ok && isAuthsMap(r.X) {
				rng = r
			}
		}
	}
	if rng == nil {
		c.Fail("C19.R1", "decodeConfigFile/loop", dec.Pos(), "decodeConfigFile no longer ranges over the auths table")
		return
	}
	for _, ref := range *rng.Referrers() {
		if n, ok := ref.(*ssa.Next); ok {
			next = n
		}
	}
	if next == nil {
		return
	}
	var keyV ssa.Value
	for _, ref := range *next.Referrers() {
		if ex, ok := ref.(*ssa.Extract); ok && ex.Index == 1 {
			keyV = ex
		}
	}
	// (a) write-back under the visited key before the next iteration
	isWriteBack := func(in ssa.Instruction) bool {
		mu, ok := in.(*ssa.MapUpdate)
		return ok && isAuthsMap(mu.Map) && facts.Resolve(mu.Key) == keyV
	}
	isNext := func(in ssa.Instruction) bool { return in == ssa.Instruction(next) }
	// body entry: the successor of the `ok` test
	var bodyStart *ssa.BasicBlock
	for _, ref := range *next.Referrers() {
		if ex, ok := ref.(*ssa.Extract); ok && ex.Index == 0 {
			for _, r2 := range *ex.Referrers() {
				if iff, ok := r2.(*ssa.If); ok {
					bodyStart = iff.Block().Succs[0]
				}
			}
		}
	}
	if bodyStart == nil {
		c.Fail("C19.R1", "decodeConfigFile/loop-body", rng.Pos(), "cannot identify the loop body")
		return
	}
	if at, skip := facts.ReachesFrom(bodyStart, 0, func(in ssa.Instruction) bool { return isNext(in) }, isWriteBack, nil); skip {
		c.Fail("C19.R1", "decodeConfigFile/write-back-every-key", at.Pos(), "an iteration can finish without storing the (decoded) entry back under the key it visited: for such keys (e.g. URL-form keys using the base64 `auth` field) a verbatim lookup returns an entry without the decoded user and password")
	} else {
		c.OK("C19.R1", "decodeConfigFile/write-back-every-key", rng.Pos(), "every iteration stores the entry back under the visited key")
	}
	// error exits are fine (the whole decode fails): Returns are not `next`.
	// (b)+(c) the derived-key store
	n := 0
	// in decodeConfigFile itself or in a private helper that is handed the table
	isAuths := func(v ssa.Value) bool {
		return isAuthsMap(v) || isAuthsMap(resolveUp(v, dec, 3))
	}
	var scope []*ssa.Function
	for _, f := range withHelpers(dec) {
		if f.Parent() == nil {
			scope = append(scope, f)
		}
	}
	for _, df := range scope {
		for _, b := range df.Blocks {
			for _, in := range b.Instrs {
				mu, ok := in.(*ssa.MapUpdate)
				if !ok || !isAuths(mu.Map) || facts.Resolve(mu.Key) == keyV || facts.Resolve(resolveUp(mu.Key, dec, 3)) == keyV {
					continue
				}
				n++
				// (b) sorted after the append
				var appendCall, sortCall ssa.Instruction
				for _, ci := range facts.CallsIn(df) {
					if bi, ok := ci.Common().Value.(*ssa.Builtin); ok && bi.Name() == "append" {
						if _, fld, isF := facts.FieldOf(facts.Resolve(ci.Common().Args[0])); isF && fld == "derivedFrom" {
							appendCall = ci
						}
					}
					name := facts.CalleeName(ci.Common())
					if name == "slices.Sort" || name == "sort.Strings" {
						if _, fld, isF := facts.FieldOf(facts.Resolve(ci.Common().Args[0])); isF && fld == "derivedFrom" {
							sortCall = ci
						}
					}
				}
				okSort := appendCall != nil && sortCall != nil && facts.Dominates(appendCall, sortCall) && facts.Dominates(sortCall, in)
				c.Check(okSort, "C19.R1", "decodeConfigFile/derivedFrom-sorted", in.Pos(), "the derived-from list is sorted after the append and before the store", "the list of URL keys an entry was derived from is not sorted between the append and the store: its content (and the error message listing it) depends on map iteration order")
				// (c) never overwrite an explicit entry
				ff := facts.FlowFuncs{
					Edge: func(b2 *ssa.BasicBlock, idx int, t facts.Tokens) bool {
						for _, cd := range facts.EdgeConds(b2, idx) {
							if ex, ok := cd.V.(*ssa.Extract); ok && ex.Index == 1 {
								if lk, ok := ex.Tuple.(*ssa.Lookup); ok && lk.CommaOk && isAuths(lk.X) && !cd.Pos {
									t["absent"] = true
								}
							}
							if x, op, y, ok := facts.Cmp(cd); ok {
								if call, isCall := x.(*ssa.Call); isCall {
									if bi, isB := call.Call.Value.(*ssa.Builtin); isB && bi.Name() == "len" {
										if _, fld, isF := facts.FieldOf(facts.Resolve(call.Call.Args[0])); isF && fld == "derivedFrom" {
											if k, isK := facts.ConstInt(y); isK && k == 0 && (op == token.NEQ || op == token.GTR) {
												t["existingDerived"] = true
											}
										}
									}
								}
							}
						}
						return true
					},
				}
				flow := facts.PathFlow(df, ff)
				ok2 := facts.AllAt(ff, flow, in, func(t facts.Tokens) bool { return t["absent"] || t["existingDerived"] })
				c.Check(ok2, "C19.R1", "decodeConfigFile/explicit-wins", in.Pos(), "a derived entry is stored only when no entry exists or the existing one is itself derived", "an entry derived from a URL-form key can overwrite an explicit host entry (depending on which key the map iteration visits first)")
			}
		}
	}
	if n == 0 {
		c.Fail("C19.R1", "decodeConfigFile/derived-store", dec.Pos(), "no store under a derived host key found")
	}
}

func c19Entry(c *core.Ctx, efr *ssa.Function) {
	c.Analysed(facts.FuncName(efr))
	recv := recvOf(efr)
	// no writes to the ConfigFile
	bad := 0
	for _, f := range facts.WithAnon(efr) {
		for _, b := range f.Blocks {
			for _, in := range b.Instrs {
				switch x := in.(type) {
				case *ssa.Store:
					if sliceHas(x.Addr, func(v ssa.Value) bool { return v == ssa.Value(recv) }) {
						if _, isAlloc := x.Addr.(*ssa.Alloc); !isAlloc {
							bad++
							c.Fail("C19.R2", "EntryForRegistry/no-writes", x.Pos(), "EntryForRegistry writes to the ConfigFile: a lookup can change the result of later lookups")
						}
					}
				case *ssa.MapUpdate:
					if sliceHas(x.Map, func(v ssa.Value) bool { return v == ssa.Value(recv) }) {
						bad++
						c.Fail("C19.R2", "EntryForRegistry/no-writes", x.Pos(), "EntryForRegistry updates a map of the ConfigFile: a lookup can change the result of later lookups")
					}
				case ssa.CallInstruction:
					name := facts.CalleeName(x.Common())
					for _, mut := range []string{").Store", ").LoadOrStore", ").Delete", ").Swap", ").CompareAndSwap", ").LoadAndDelete"} {
						if strings.HasSuffix(name, mut) && len(x.Common().Args) > 0 && sliceHas(x.Common().Args[0], func(v ssa.Value) bool { return v == ssa.Value(recv) }) {
							bad++
							c.Fail("C19.R2", "EntryForRegistry/no-writes", x.Pos(), "EntryForRegistry mutates state of the ConfigFile ("+name+"): the result of a lookup depends on which lookups happened before it")
						}
					}
				}
			}
		}
	}
	if bad == 0 {
		c.OK("C19.R2", "EntryForRegistry/no-writes", efr.Pos(), "the lookup does not write to the ConfigFile")
	}
	// helper selection: phi(per-host helper when found, CredsStore otherwise)
	var runnerCall *ssa.Call
	for _, ci := range facts.CallsIn(efr) {
		cc := ci.Common()
		if cc.IsInvoke() || cc.StaticCallee() != nil {
			continue
		}
		if _, fld, isF := facts.FieldOf(facts.Resolve(cc.Value)); isF && fld == "runner" {
			runnerCall, _ = ci.(*ssa.Call)
		}
	}
	if runnerCall == nil {
		c.Fail("C19.R2", "EntryForRegistry/runner", efr.Pos(), "EntryForRegistry never runs a credential helper")
		return
	}
	helperV := facts.Resolve(runnerCall.Call.Args[0])
	okSel := false
	var explicitPhi *ssa.Phi
	if ph, isPhi := helperV.(*ssa.Phi); isPhi && len(ph.Edges) == 2 {
		perHost, store := false, false
		for _, e := range ph.Edges {
			ev := facts.Resolve(e)
			if ex, ok := ev.(*ssa.Extract); ok && ex.Index == 0 {
				if lk, ok := ex.Tuple.(*ssa.Lookup); ok {
					if _, fld, isF := facts.FieldOf(facts.Resolve(lk.X)); isF && fld == "CredHelpers" && argIsParam(lk.Index, efr, 1) {
						perHost = true
					}
				}
			}
			if _, fld, isF := facts.FieldOf(ev); isF && fld == "CredsStore" {
				// the default store is chosen only when no per-host helper is configured
				for i2, e2 := range ph.Edges {
					if e2 != e {
						continue
					}
					for _, cd := range facts.CondsAt(ph.Block().Preds[i2]) {
						if ex, ok := cd.V.(*ssa.Extract); ok && ex.Index == 1 && !cd.Pos {
							if lk, ok := ex.Tuple.(*ssa.Lookup); ok {
								if _, f2, isF2 := facts.FieldOf(facts.Resolve(lk.X)); isF2 && f2 == "CredHelpers" {
									store = true
								}
							}
						}
					}
				}
			}
		}
		okSel = perHost && store
		// the `explicit` flag: a bool phi in the same block
		for _, in := range ph.Block().Instrs {
			if p2, ok := in.(*ssa.Phi); ok && p2.Type().String() == "bool" {
				explicitPhi = p2
			}
		}
	}
	var explicitV ssa.Value
	if explicitPhi != nil {
		explicitV = explicitPhi
	}
	if !okSel {
		// the selection moved into a private helper returning (helper, explicit)
		if ok, ev := helperSelectedByHelper(helperV, efr); ok {
			okSel, explicitV = true, ev
		}
	}
	c.Check(okSel && argIsParam(runnerCall.Call.Args[1], efr, 1), "C19.R2", "EntryForRegistry/helper-selection", runnerCall.Pos(), "the per-host helper is used when configured, the default store otherwise", "the helper that is run is not (per-host helper if configured, else the default store) for the looked-up host")
	// the table is consulted only when allowed
	var errV ssa.Value
	for _, ref := range *runnerCall.Referrers() {
		if ex, ok := ref.(*ssa.Extract); ok && ex.Index == 1 {
			errV = ex
		}
	}
	ff := facts.FlowFuncs{
		Edge: func(b *ssa.BasicBlock, idx int, t facts.Tokens) bool {
			for _, cd := range facts.EdgeConds(b, idx) {
				if x, op, y, ok := facts.Cmp(cd); ok && facts.Resolve(x) == helperV {
					if s, isS := facts.ConstString(y); isS && s == "" && op == token.EQL {
						t["noHelper"] = true
					}
				}
				if x, isNil, ok := facts.NilCheck(cd); ok && errV != nil && facts.Resolve(x) == errV && !isNil {
					t["failed"] = true
				}
				if explicitV != nil && cd.V == explicitV && !cd.Pos {
					t["notExplicit"] = true
				}
				// or the comma-ok of the per-host helper lookup itself is the flag
				if ex, isEx := cd.V.(*ssa.Extract); isEx && ex.Index == 1 && !cd.Pos {
					if lk, isLk := ex.Tuple.(*ssa.Lookup); isLk && lk.CommaOk {
						if _, f2, isF2 := facts.FieldOf(facts.Resolve(lk.X)); isF2 && f2 == "CredHelpers" {
							t["notExplicit"] = true
						}
					}
				}
				if call, isCall := cd.V.(*ssa.Call); isCall && cd.Pos && facts.CalleeName(&call.Call) == "errors.Is" {
					if errV != nil && facts.Resolve(call.Call.Args[0]) == errV {
						if u, ok := facts.Resolve(call.Call.Args[1]).(*ssa.UnOp); ok {
							if g, ok := u.X.(*ssa.Global); ok && g.Name() == "ErrHelperNotFound" {
								t["notFound"] = true
							}
						}
					}
				}
			}
			return true
		},
	}
	pred := func(t facts.Tokens) bool {
		return t["noHelper"] || (t["failed"] && t["notExplicit"] && t["notFound"])
	}
	n := 0
	checkLookups := func(fn *ssa.Function, flow map[*ssa.BasicBlock]facts.DNF) {
		for _, b := range fn.Blocks {
			for _, in := range b.Instrs {
				lk, ok := in.(*ssa.Lookup)
				if !ok || !isAuthsMap(lk.X) {
					continue
				}
				n++
				ok2 := facts.AllAt(ff, flow, in, pred)
				c.Check(ok2, "C19.R2", "EntryForRegistry/table-only-as-fallback", in.Pos(), "the auths table is consulted only without a helper, or after the default helper was not found", "the auths table is consulted on a path where a helper is configured and it is not established that the helper failed, is the default (not per-host) one, and the failure is ErrHelperNotFound: a per-host helper no longer wins (or the answer depends on earlier lookups)")
			}
		}
	}
	touchesAuths := func(in ssa.Instruction) bool {
		lk, ok := in.(*ssa.Lookup)
		return ok && isAuthsMap(lk.X)
	}
	// a table lookup moved into a private helper is judged under the facts of each call
	il := facts.NewInliner(&ff, func(h *ssa.Function) bool {
		return h.Pkg == efr.Pkg && len(privateCallSites(h)) > 0 && helperTouches(h, 2, touchesAuths)
	})
	il.OnInlined = func(h *ssa.Function, flow map[*ssa.BasicBlock]facts.DNF) { checkLookups(h, flow) }
	flow := facts.PathFlow(efr, ff)
	checkLookups(efr, flow)
	if n == 0 {
		c.Fail("C19.R2", "EntryForRegistry/table-only-as-fallback", efr.Pos(), "EntryForRegistry never consults the auths table")
	}
	// table credentials only under len(derivedFrom) <= 1
	var rets []*ssa.Return
	for _, f := range withHelpers(efr) {
		if f.Parent() == nil {
			rets = append(rets, returnsOf(f)...)
		}
	}
	for _, r := range rets {
		if !facts.RetErrIsNil(r) {
			continue
		}
		fromTable := sliceHas(r.Results[0], func(v ssa.Value) bool {
			lk, ok := v.(*ssa.Lookup)
			return ok && isAuthsMap(lk.X)
		}) || sliceHas(facts.RetVal(r, 0), func(v ssa.Value) bool {
			lk, ok := v.(*ssa.Lookup)
			return ok && isAuthsMap(lk.X)
		})
		if !fromTable {
			continue
		}
		ok := false
		for _, cd := range facts.CondsAt(r.Block()) {
			if x, op, y, okc := facts.Cmp(cd); okc {
				if call, isCall := x.(*ssa.Call); isCall {
					if bi, isB := call.Call.Value.(*ssa.Builtin); isB && bi.Name() == "len" {
						if _, fld, isF := facts.FieldOf(facts.Resolve(call.Call.Args[0])); isF && fld == "derivedFrom" {
							if k, isK := facts.ConstInt(y); isK && ((op == token.LEQ && k <= 1) || (op == token.LSS && k <= 2)) {
								ok = true
							}
						}
					}
				}
			}
		}
		c.Check(ok, "C19.R2", "EntryForRegistry/ambiguous-derived-rejected", r.Pos(), "table credentials are returned only when at most one URL key maps to the host", "credentials from the auths table are returned on a path where several URL-form keys may map to the host: one of them is picked arbitrarily")
	}
}

// helperSelectedByHelper: v is result 0 of a call to a private helper that is
// given the looked-up host and returns (CredHelpers[host], true) when the
// per-host entry exists and (CredsStore, false) otherwise; the second result
// of that call is then the "explicitly configured" flag.
func helperSelectedByHelper(v ssa.Value, efr *ssa.Function) (bool, ssa.Value) {
	ex, ok := facts.Resolve(v).(*ssa.Extract)
	if !ok || ex.Index != 0 {
		return false, nil
	}
	call, ok := ex.Tuple.(*ssa.Call)
	if !ok {
		return false, nil
	}
	h := call.Call.StaticCallee()
	if h == nil || h.Blocks == nil || len(privateCallSites(h)) == 0 || h.Signature.Results().Len() != 2 {
		return false, nil
	}
	hostIdx := -1
	for i, a := range call.Call.Args {
		if argIsParam(a, efr, 1) {
			hostIdx = i
		}
	}
	if hostIdx < 0 {
		return false, nil
	}
	perHost, store := false, false
	for _, vr := range virtualReturns(h) {
		if len(vr.Vals) != 2 {
			return false, nil
		}
		v0 := facts.Resolve(vr.Vals[0])
		flag, isK := facts.Resolve(vr.Vals[1]).(*ssa.Const)
		if !isK || flag.Value == nil {
			return false, nil
		}
		if e0, ok := v0.(*ssa.Extract); ok && e0.Index == 0 {
			lk, ok := e0.Tuple.(*ssa.Lookup)
			if !ok {
				return false, nil
			}
			_, fld, isF := facts.FieldOf(facts.Resolve(lk.X))
			if !isF || fld != "CredHelpers" || !argIsParam(lk.Index, h, hostIdx) || flag.Value.String() != "true" {
				return false, nil
			}
			// returned only when the entry exists
			found := false
			for _, cd := range vr.Conds {
				if e1, ok := cd.V.(*ssa.Extract); ok && e1.Index == 1 && e1.Tuple == e0.Tuple && cd.Pos {
					found = true
				}
			}
			if !found {
				return false, nil
			}
			perHost = true
			continue
		}
		if _, fld, isF := facts.FieldOf(v0); isF && fld == "CredsStore" && flag.Value.String() == "false" {
			absent := false
			for _, cd := range vr.Conds {
				if e1, ok := cd.V.(*ssa.Extract); ok && e1.Index == 1 && !cd.Pos {
					if lk, ok := e1.Tuple.(*ssa.Lookup); ok {
						if _, f2, isF2 := facts.FieldOf(facts.Resolve(lk.X)); isF2 && f2 == "CredHelpers" {
							absent = true
						}
					}
				}
			}
			if !absent {
				return false, nil
			}
			store = true
			continue
		}
		return false, nil
	}
	if !perHost || !store {
		return false, nil
	}
	for _, ref := range *call.Referrers() {
		if e1, ok := ref.(*ssa.Extract); ok && e1.Index == 1 {
			return true, e1
		}
	}
	return true, nil
}
