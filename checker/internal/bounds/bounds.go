// Package bounds is the E6 bounds prover: a small difference-bound ("zone")
// reasoner over SSA integer values and len(x) terms of one function. It uses
// dominating branch conditions plus axioms about the standard library
// (DESIGN appendix A.7). It can only lose facts, never invent them: a query
// that it cannot derive is reported unproven.
//
// Assumption (recorded in evidence): integer arithmetic on lengths and
// offsets does not overflow int/int64.
package bounds

import (
	"fmt"
	"go/constant"
	"go/token"
	"go/types"
	"regexp/syntax"
	"strings"

	"golang.org/x/tools/go/ssa"

	"ocivet/internal/facts"
)

// lin is base + off; base "" is the constant zero node.
type lin struct {
	base string
	off  int64
}

type edge struct {
	to string
	w  int64
}

type Prover struct {
	fn *ssa.Function
	// storedFields: struct fields stored to anywhere in fn (by name) — loads
	// of such fields are not given stable terms.
	storedFields map[string]bool
	// extra length axioms injected by rules: term -> exact length
	LenAxioms map[string]int64
	// facts about the parameters imported from the call sites (private helpers)
	imported     []importedEdge
	importedDone bool
	depth        int
}

type importedEdge struct {
	from, to string
	w        int64
}

// PrivateCallSites, when set, returns every call site of fn if fn is a private
// helper (never called dynamically); the prover then assumes, on entry to fn,
// the difference bounds between its integer parameters, the lengths of its
// sequence parameters and zero that hold at ALL of those call sites.
var PrivateCallSites func(fn *ssa.Function) []ssa.CallInstruction

func New(fn *ssa.Function) *Prover {
	p := &Prover{fn: fn, storedFields: map[string]bool{}, LenAxioms: map[string]int64{}}
	for _, f := range facts.WithAnon(outer(fn)) {
		for _, b := range f.Blocks {
			for _, in := range b.Instrs {
				if s, ok := in.(*ssa.Store); ok {
					if _, name, ok := facts.FieldOf(s.Addr); ok {
						p.storedFields[name] = true
					}
				}
			}
		}
	}
	return p
}

func outer(fn *ssa.Function) *ssa.Function {
	for fn.Parent() != nil {
		fn = fn.Parent()
	}
	return fn
}

func id(v ssa.Value) string { return fmt.Sprintf("v:%s@%p", v.Name(), v) }

// seqKey gives a key for a sequence-typed value (string/slice/array) such
// that equal keys denote values of equal length.
func (p *Prover) seqKey(v ssa.Value) string {
	v = facts.ResolveFree(v)
	// A load of a field that is never stored to in this function tree gets a
	// structural term; everything else is keyed by identity.
	if _, name, ok := facts.FieldOf(v); ok {
		if !p.storedFields[name] {
			return facts.Term(v)
		}
		return id(v)
	}
	switch x := v.(type) {
	case *ssa.Parameter, *ssa.Const:
		return facts.Term(v)
	case *ssa.Slice:
		// array-pointer full slice has the array's length; key by identity otherwise
		_ = x
	}
	return id(v)
}

// toLin converts an integer SSA value into base+offset form.
func (p *Prover) toLin(v ssa.Value) lin {
	for i := 0; i < 8; i++ {
		switch x := v.(type) {
		case *ssa.Convert:
			if isInt(x.Type()) && isInt(x.X.Type()) {
				v = x.X
				continue
			}
		case *ssa.ChangeType:
			v = x.X
			continue
		}
		break
	}
	v = resolveCell(v)
	switch x := v.(type) {
	case *ssa.Const:
		if x.Value != nil && x.Value.Kind() == constant.Int {
			if i, ok := constant.Int64Val(x.Value); ok {
				return lin{"", i}
			}
		}
	case *ssa.BinOp:
		if x.Op == token.ADD || x.Op == token.SUB {
			if c, ok := constOf(x.Y); ok {
				l := p.toLin(x.X)
				if x.Op == token.ADD {
					return lin{l.base, l.off + c}
				}
				return lin{l.base, l.off - c}
			}
			if c, ok := constOf(x.X); ok && x.Op == token.ADD {
				l := p.toLin(x.Y)
				return lin{l.base, l.off + c}
			}
		}
	case *ssa.Call:
		if b, ok := x.Call.Value.(*ssa.Builtin); ok && (b.Name() == "len") && len(x.Call.Args) == 1 {
			return p.lenLin(x.Call.Args[0])
		}
	}
	return lin{id(v), 0}
}

// resolveCell looks through single-store spill cells only.
func resolveCell(v ssa.Value) ssa.Value {
	if u, ok := v.(*ssa.UnOp); ok && u.Op == token.MUL {
		if a, ok := u.X.(*ssa.Alloc); ok {
			if st := facts.StoresTo(a); len(st) == 1 {
				return resolveCell(st[0].Val)
			}
		}
	}
	return v
}

func constOf(v ssa.Value) (int64, bool) {
	if cv, ok := v.(*ssa.Convert); ok {
		v = cv.X
	}
	if c, ok := v.(*ssa.Const); ok && c.Value != nil && c.Value.Kind() == constant.Int {
		return constant.Int64Val(c.Value)
	}
	return 0, false
}

func isInt(t types.Type) bool {
	b, ok := t.Underlying().(*types.Basic)
	return ok && b.Info()&types.IsInteger != 0
}

// lenLin returns len(x) in linear form, using definitional knowledge of x.
func (p *Prover) lenLin(x ssa.Value) lin {
	x = facts.ResolveFree(x)
	if s, ok := facts.ConstString(x); ok {
		return lin{"", int64(len(s))}
	}
	if n, ok := p.LenAxioms[facts.Term(x)]; ok {
		return lin{"", n}
	}
	switch d := x.(type) {
	case *ssa.MakeSlice:
		return p.toLin(d.Len)
	case *ssa.Slice:
		// len(x[lo:hi]) = hi - lo ; only when expressible as base+const
		if arr, ok := derefArray(d.X.Type()); ok && d.Low == nil && d.High == nil {
			return lin{"", arr}
		}
		var hi lin
		if d.High != nil {
			hi = p.toLin(d.High)
		} else {
			hi = p.lenLin(d.X)
		}
		if d.Low == nil {
			return hi
		}
		lo := p.toLin(d.Low)
		if lo.base == "" {
			return lin{hi.base, hi.off - lo.off}
		}
		if lo.base == hi.base {
			return lin{"", hi.off - lo.off}
		}
	case *ssa.Alloc:
		if arr, ok := derefArray(d.Type()); ok {
			return lin{"", arr}
		}
	}
	if arr, ok := x.Type().Underlying().(*types.Array); ok {
		return lin{"", arr.Len()}
	}
	if arr, ok := derefArray(x.Type()); ok {
		return lin{"", arr}
	}
	return lin{"len(" + p.seqKey(x) + ")", 0}
}

func derefArray(t types.Type) (int64, bool) {
	if ptr, ok := t.Underlying().(*types.Pointer); ok {
		if arr, ok := ptr.Elem().Underlying().(*types.Array); ok {
			return arr.Len(), true
		}
	}
	return 0, false
}

// graph of difference constraints: x - y <= c  is edge y -> x with weight c.
type graph struct {
	e map[string][]edge
}

func (g *graph) le(a, b lin) { // a <= b   <=>  a.base - b.base <= b.off - a.off
	if g.e == nil {
		g.e = map[string][]edge{}
	}
	g.e[b.base] = append(g.e[b.base], edge{a.base, b.off - a.off})
}

// dist returns the shortest-path weight from src to dst (Bellman-Ford, bounded).
func (g *graph) dist(src, dst string) (int64, bool) {
	const inf = int64(1) << 60
	d := map[string]int64{src: 0}
	nodes := map[string]bool{src: true}
	for k, es := range g.e {
		nodes[k] = true
		for _, e := range es {
			nodes[e.to] = true
		}
	}
	for i := 0; i <= len(nodes); i++ {
		changed := false
		for from, es := range g.e {
			df, ok := d[from]
			if !ok {
				continue
			}
			for _, e := range es {
				nd := df + e.w
				if old, ok := d[e.to]; !ok || nd < old {
					if nd < -inf {
						continue
					}
					d[e.to] = nd
					changed = true
				}
			}
		}
		if !changed {
			break
		}
	}
	v, ok := d[dst]
	return v, ok
}

// provesLE: a <= b derivable?
func (g *graph) provesLE(a, b lin) bool {
	if a.base == b.base {
		return a.off <= b.off
	}
	w, ok := g.dist(b.base, a.base)
	return ok && w <= b.off-a.off
}

// build collects facts valid at instruction at.
func (p *Prover) build(at ssa.Instruction, roots []ssa.Value) *graph {
	g := &graph{}
	seen := map[ssa.Value]bool{}
	var neqs [][2]lin
	var indexCalls []*ssa.Call
	var adds []*ssa.BinOp
	var visit func(v ssa.Value, depth int)
	addLenNonNeg := func(l lin) {
		if strings.HasPrefix(l.base, "len(") {
			g.le(lin{"", 0}, lin{l.base, 0})
		}
	}
	visitSeq := func(x ssa.Value, depth int) {
		l := p.lenLin(x)
		addLenNonNeg(l)
		x = facts.ResolveFree(x)
		switch d := x.(type) {
		case *ssa.MakeSlice:
			visit(d.Len, depth+1)
		case *ssa.Slice:
			if d.Low != nil {
				visit(d.Low, depth+1)
			}
			if d.High != nil {
				visit(d.High, depth+1)
			}
			g.le(p.lenLin(d), p.lenLin(d.X))
			addLenNonNeg(p.lenLin(d.X))
		}
	}
	visit = func(v ssa.Value, depth int) {
		if v == nil || depth > 10 {
			return
		}
		for {
			if cv, ok := v.(*ssa.Convert); ok && isInt(cv.Type()) && isInt(cv.X.Type()) {
				v = cv.X
				continue
			}
			break
		}
		v = resolveCell(v)
		if seen[v] {
			return
		}
		seen[v] = true
		me := p.toLin(v)
		// a value of a small unsigned type lies within its range
		if b, ok := v.Type().Underlying().(*types.Basic); ok && me.base != "" {
			switch b.Kind() {
			case types.Uint8:
				g.le(lin{"", 0}, me)
				g.le(me, lin{"", 255})
			case types.Uint16:
				g.le(lin{"", 0}, me)
				g.le(me, lin{"", 65535})
			}
		}
		switch x := v.(type) {
		case *ssa.BinOp:
			switch x.Op {
			case token.ADD, token.SUB:
				visit(x.X, depth+1)
				visit(x.Y, depth+1)
				if x.Op == token.ADD {
					adds = append(adds, x)
				}
			case token.REM:
				if c, ok := constOf(x.Y); ok && c > 0 {
					g.le(me, lin{"", c - 1})
					g.le(lin{"", -(c - 1)}, me)
				}
			}
		case *ssa.Call:
			if b, ok := x.Call.Value.(*ssa.Builtin); ok {
				switch b.Name() {
				case "len":
					visitSeq(x.Call.Args[0], depth)
				case "copy":
					g.le(lin{"", 0}, me)
					g.le(me, p.lenLin(x.Call.Args[0]))
					g.le(me, p.lenLin(x.Call.Args[1]))
				case "min":
					for _, a := range x.Call.Args {
						g.le(me, p.toLin(a))
						visit(a, depth+1)
					}
				case "max":
					for _, a := range x.Call.Args {
						g.le(p.toLin(a), me)
						visit(a, depth+1)
					}
				}
				return
			}
			if isIndexFamily(facts.CalleeName(&x.Call)) {
				g.le(lin{"", -1}, me)
				sl := p.lenLin(x.Call.Args[0])
				addLenNonNeg(sl)
				g.le(me, sl) // i == -1, or i+len(sep) <= len(s)
				indexCalls = append(indexCalls, x)
			}
		case *ssa.Extract:
			if call, ok := x.Tuple.(*ssa.Call); ok {
				// n, err := r.Read(buf)  (io.Reader contract)  0 <= n <= len(buf)
				if call.Call.IsInvoke() && call.Call.Method.Name() == "Read" && x.Index == 0 && len(call.Call.Args) == 1 {
					g.le(lin{"", 0}, me)
					g.le(me, p.lenLin(call.Call.Args[0]))
				}
			}
		case *ssa.Phi:
			if lb, ok := p.phiLower(x, map[*ssa.Phi]bool{}, 0); ok {
				g.le(lin{"", lb}, me)
			}
			p.loopPhiFacts(g, x, me, visit, depth)
		}
	}
	for _, r := range roots {
		if r == nil {
			continue
		}
		if isSeq(r.Type()) {
			visitSeq(r, 0)
		} else {
			visit(r, 0)
		}
	}
	for _, cd := range facts.CondsAt(at.Block()) {
		p.addCond(g, cd, &neqs, visit, visitSeq)
	}
	for _, e := range p.callerFacts() {
		if g.e == nil {
			g.e = map[string][]edge{}
		}
		g.e[e.from] = append(g.e[e.from], edge{e.to, e.w})
	}
	for round := 0; round < 3; round++ {
		// x != c with x >= c  =>  x >= c+1 ; with x <= c => x <= c-1
		for _, ne := range neqs {
			a, b := ne[0], ne[1]
			if g.provesLE(b, a) && !g.provesLE(lin{b.base, b.off + 1}, a) {
				g.le(lin{b.base, b.off + 1}, a)
			}
			if g.provesLE(a, b) && !g.provesLE(a, lin{b.base, b.off - 1}) {
				g.le(a, lin{b.base, b.off - 1})
			}
		}
		// i = Index*(s, sep), i >= 0  =>  i + len(sep) <= len(s)
		for _, call := range indexCalls {
			me := p.toLin(call)
			if g.provesLE(lin{"", 0}, me) {
				if n, ok := sepLen(facts.CalleeName(&call.Call), call.Call.Args[1]); ok {
					g.le(lin{me.base, me.off + n}, p.lenLin(call.Call.Args[0]))
				}
			}
		}
		for _, x := range adds {
			p.indexPlusLenAxiom(g, x, p.toLin(x), at)
		}
	}
	return g
}

// loopPhiFacts adds two loop invariants for a loop-header phi v = phi[init, back]:
//
//  1. counted loop: if back = v + c (c >= 1) is computed only where v < N holds
//     (the test dominates the increment), N is not changed by the loop (a
//     constant or a length) and init <= N is derivable, then v <= N + c - 1.
//  2. lockstep: if another phi w of the same header advances by exactly cw >= 1
//     per iteration (back = w + cw) and v advances by at most cw on every path
//     of the body, then v - w never grows: v <= w + d for the d with
//     init_v <= init_w + d.
func (p *Prover) loopPhiFacts(g *graph, v *ssa.Phi, me lin, visit func(ssa.Value, int), depth int) {
	hdr := v.Block()
	if len(v.Edges) != 2 || len(hdr.Preds) != 2 {
		return
	}
	bi := -1
	for i, pr := range hdr.Preds {
		if hdr.Dominates(pr) {
			if bi >= 0 {
				return
			}
			bi = i
		}
	}
	if bi < 0 {
		return
	}
	init, back := v.Edges[1-bi], v.Edges[bi]
	// 0. a variable that only grows stays at or above its initial value
	if dmin, ok := p.minAdvance(back, v, 0); ok && dmin >= 0 {
		visit(init, depth+1)
		g.le(p.toLin(init), me)
	}
	// 1. counted loop
	if bo, ok := stripConv(back).(*ssa.BinOp); ok && bo.Op == token.ADD && stripConv(bo.X) == ssa.Value(v) {
		if c, ok := constOf(bo.Y); ok && c >= 1 {
			for _, cd := range facts.CondsAt(bo.Block()) {
				x, op, y, okc := facts.Cmp(cd)
				if !okc || stripConv(x) != ssa.Value(v) || (op != token.LSS && op != token.LEQ) {
					continue
				}
				n := p.toLin(y)
				stable := n.base == "" || strings.HasPrefix(n.base, "len(")
				if !stable {
					continue
				}
				visit(y, depth+1)
				visit(init, depth+1)
				ub := lin{n.base, n.off + c - 1}
				if op == token.LEQ {
					ub.off++
				}
				if g.provesLE(p.toLin(init), ub) {
					g.le(me, ub)
				}
			}
		}
	}
	// 2. lockstep with a sibling phi
	dv, ok := p.maxAdvance(back, v, 0)
	if !ok {
		return
	}
	for _, in := range hdr.Instrs {
		w, isPhi := in.(*ssa.Phi)
		if !isPhi {
			break
		}
		if w == v || len(w.Edges) != 2 || !isInt(w.Type()) {
			continue
		}
		wb, isBo := stripConv(w.Edges[bi]).(*ssa.BinOp)
		if !isBo || wb.Op != token.ADD || stripConv(wb.X) != ssa.Value(w) {
			continue
		}
		cw, isK := constOf(wb.Y)
		if !isK || cw < 1 || dv > cw {
			continue
		}
		visit(init, depth+1)
		visit(w.Edges[1-bi], depth+1)
		a, b := p.toLin(init), p.toLin(w.Edges[1-bi])
		var d int64
		if a.base == b.base {
			d = a.off - b.off
		} else if dist, ok := g.dist(b.base, a.base); ok {
			d = dist + a.off - b.off
		} else {
			continue
		}
		wl := p.toLin(w)
		g.le(me, lin{wl.base, wl.off + d})
	}
}

// callerFacts: see PrivateCallSites.
func (p *Prover) callerFacts() []importedEdge {
	if p.importedDone {
		return p.imported
	}
	p.importedDone = true
	fn := p.fn
	if PrivateCallSites == nil || p.depth >= 2 || fn.Parent() != nil {
		return nil
	}
	sites := PrivateCallSites(fn)
	if len(sites) == 0 {
		return nil
	}
	type node struct {
		idx int // parameter index, -1 for zero
		seq bool
	}
	nodes := []node{{-1, false}}
	for i, prm := range fn.Params {
		switch {
		case isInt(prm.Type()):
			nodes = append(nodes, node{i, false})
		case isSeq(prm.Type()):
			nodes = append(nodes, node{i, true})
		}
	}
	if len(nodes) < 2 {
		return nil
	}
	calleeLin := func(n node) lin {
		if n.idx < 0 {
			return lin{"", 0}
		}
		if n.seq {
			return p.lenLin(fn.Params[n.idx])
		}
		return p.toLin(fn.Params[n.idx])
	}
	type key struct{ x, y int }
	best := map[key]int64{}
	have := map[key]int{}
	for _, s := range sites {
		args := s.Common().Args
		if len(args) != len(fn.Params) {
			return nil
		}
		cp := New(s.Parent())
		cp.depth = p.depth + 1
		var roots []ssa.Value
		for _, n := range nodes {
			if n.idx >= 0 {
				roots = append(roots, args[n.idx])
			}
		}
		cg := cp.build(s, roots)
		callerLin := func(n node) lin {
			if n.idx < 0 {
				return lin{"", 0}
			}
			if n.seq {
				return cp.lenLin(args[n.idx])
			}
			return cp.toLin(args[n.idx])
		}
		for xi, x := range nodes {
			for yi, y := range nodes {
				if xi == yi {
					continue
				}
				lx, ly := callerLin(x), callerLin(y)
				var w int64
				if lx.base == ly.base {
					w = 0
				} else if d, ok := cg.dist(ly.base, lx.base); ok {
					w = d
				} else {
					continue
				}
				// value_x - value_y <= D
				D := w + lx.off - ly.off
				k := key{xi, yi}
				if have[k] == 0 || D > best[k] {
					best[k] = D
				}
				have[k]++
			}
		}
	}
	for k, D := range best {
		if have[k] != len(sites) {
			continue
		}
		ex, ey := calleeLin(nodes[k.x]), calleeLin(nodes[k.y])
		if ex.base == ey.base {
			continue
		}
		// ex.base + ex.off - (ey.base + ey.off) <= D
		p.imported = append(p.imported, importedEdge{from: ey.base, to: ex.base, w: D - ex.off + ey.off})
	}
	return p.imported
}

func stripConv(v ssa.Value) ssa.Value {
	for i := 0; i < 4; i++ {
		if cv, ok := v.(*ssa.Convert); ok && isInt(cv.Type()) && isInt(cv.X.Type()) {
			v = cv.X
			continue
		}
		break
	}
	return v
}

// minAdvance: the smallest c such that val can be root + c (see maxAdvance).
func (p *Prover) minAdvance(val ssa.Value, root *ssa.Phi, depth int) (int64, bool) {
	val = stripConv(val)
	if depth > 6 {
		return 0, false
	}
	if val == ssa.Value(root) {
		return 0, true
	}
	switch x := val.(type) {
	case *ssa.BinOp:
		if c, ok := constOf(x.Y); ok && (x.Op == token.ADD || x.Op == token.SUB) {
			d, ok := p.minAdvance(x.X, root, depth+1)
			if x.Op == token.SUB {
				c = -c
			}
			return d + c, ok
		}
	case *ssa.Phi:
		if x.Block() == root.Block() {
			return 0, false
		}
		var best int64
		for i, e := range x.Edges {
			d, ok := p.minAdvance(e, root, depth+1)
			if !ok {
				return 0, false
			}
			if i == 0 || d < best {
				best = d
			}
		}
		return best, true
	}
	return 0, false
}

// maxAdvance: the largest c such that val can be root + c, following phis
// inside the loop body; fails if some incoming value is not of that form.
func (p *Prover) maxAdvance(val ssa.Value, root *ssa.Phi, depth int) (int64, bool) {
	val = stripConv(val)
	if depth > 6 {
		return 0, false
	}
	if val == ssa.Value(root) {
		return 0, true
	}
	switch x := val.(type) {
	case *ssa.BinOp:
		if x.Op == token.ADD {
			if c, ok := constOf(x.Y); ok {
				d, ok := p.maxAdvance(x.X, root, depth+1)
				return d + c, ok
			}
		}
		if x.Op == token.SUB {
			if c, ok := constOf(x.Y); ok {
				d, ok := p.maxAdvance(x.X, root, depth+1)
				return d - c, ok
			}
		}
	case *ssa.Phi:
		if x.Block() == root.Block() {
			return 0, false
		}
		var best int64
		for i, e := range x.Edges {
			d, ok := p.maxAdvance(e, root, depth+1)
			if !ok {
				return 0, false
			}
			if i == 0 || d > best {
				best = d
			}
		}
		return best, true
	}
	return 0, false
}

func isIndexFamily(name string) bool {
	switch name {
	case "strings.Index", "strings.LastIndex", "strings.IndexByte", "strings.LastIndexByte",
		"strings.IndexRune", "strings.IndexAny", "strings.LastIndexAny", "bytes.Index", "bytes.IndexByte", "bytes.LastIndex":
		return true
	}
	return false
}

func isSeq(t types.Type) bool {
	switch u := t.Underlying().(type) {
	case *types.Slice, *types.Array:
		return true
	case *types.Basic:
		return u.Info()&types.IsString != 0
	case *types.Pointer:
		_, ok := u.Elem().Underlying().(*types.Array)
		return ok
	}
	return false
}

func sepLen(name string, sep ssa.Value) (int64, bool) {
	if strings.HasSuffix(name, "Byte") || strings.HasSuffix(name, "Rune") || strings.HasSuffix(name, "Any") {
		return 1, true // at least one byte matched at i
	}
	if s, ok := facts.ConstString(sep); ok {
		return int64(len(s)), true
	}
	return 0, false
}

// indexPlusLenAxiom: v = i + len(sep) where i = Index*(s, sep) and i >= 0  =>  v <= len(s).
func (p *Prover) indexPlusLenAxiom(g *graph, x *ssa.BinOp, me lin, at ssa.Instruction) {
	try := func(a, b ssa.Value) {
		call, ok := resolveCell(a).(*ssa.Call)
		if !ok {
			return
		}
		if !isIndexFamily(facts.CalleeName(&call.Call)) {
			return
		}
		lc, ok := resolveCell(b).(*ssa.Call)
		if !ok {
			return
		}
		bi, ok := lc.Call.Value.(*ssa.Builtin)
		if !ok || bi.Name() != "len" {
			return
		}
		if facts.Term(lc.Call.Args[0]) != facts.Term(call.Call.Args[1]) {
			return
		}
		il := p.toLin(a)
		if g.provesLE(lin{"", 0}, il) {
			g.le(me, p.lenLin(call.Call.Args[0]))
			g.le(il, me)
		}
	}
	try(x.X, x.Y)
	try(x.Y, x.X)
}

// phiLower: a lower bound for a loop phi whose edges are constants or
// (phi-derived + non-negative constant).
func (p *Prover) phiLower(ph *ssa.Phi, stack map[*ssa.Phi]bool, depth int) (int64, bool) {
	if depth > 4 {
		return 0, false
	}
	stack[ph] = true
	defer delete(stack, ph)
	have := false
	var lb int64
	for _, e := range ph.Edges {
		v, ok := p.lowerOf(e, ph, stack, depth)
		if !ok {
			return 0, false
		}
		if v == selfRef {
			continue
		}
		if !have || v < lb {
			lb = v
			have = true
		}
	}
	if !have && len(stack) > 1 {
		// every incoming value is (a phi being evaluated) + c, c >= 0: this inner
		// phi is no smaller than that phi
		return selfRef, true
	}
	return lb, have
}

const selfRef = int64(-1) << 62

// lowerOf returns a constant lower bound of v, or selfRef when v is
// (a phi on the stack) + non-negative constant.
func (p *Prover) lowerOf(v ssa.Value, root *ssa.Phi, stack map[*ssa.Phi]bool, depth int) (int64, bool) {
	for {
		if cv, ok := v.(*ssa.Convert); ok && isInt(cv.Type()) && isInt(cv.X.Type()) {
			v = cv.X
			continue
		}
		break
	}
	if c, ok := constOf(v); ok {
		return c, true
	}
	switch x := v.(type) {
	case *ssa.Phi:
		if stack[x] {
			return selfRef, true
		}
		return p.phiLower(x, stack, depth+1)
	case *ssa.BinOp:
		if x.Op == token.ADD {
			if c, ok := constOf(x.Y); ok && c >= 0 {
				l, ok := p.lowerOf(x.X, root, stack, depth)
				if !ok {
					return 0, false
				}
				if l == selfRef {
					return selfRef, true
				}
				return l + c, true
			}
		}
	case *ssa.Call:
		if b, ok := x.Call.Value.(*ssa.Builtin); ok && (b.Name() == "len" || b.Name() == "copy" || b.Name() == "cap") {
			return 0, true
		}
	}
	return 0, false
}

func (p *Prover) addCond(g *graph, cd facts.Cond, neqs *[][2]lin, visit func(ssa.Value, int), visitSeq func(ssa.Value, int)) {
	// comparisons
	if x, op, y, ok := facts.Cmp(cd); ok {
		if isInt(x.Type()) {
			visit(x, 1)
			visit(y, 1)
			a, b := p.toLin(x), p.toLin(y)
			switch op {
			case token.LSS:
				g.le(lin{a.base, a.off + 1}, b)
			case token.LEQ:
				g.le(a, b)
			case token.GTR:
				g.le(lin{b.base, b.off + 1}, a)
			case token.GEQ:
				g.le(b, a)
			case token.EQL:
				g.le(a, b)
				g.le(b, a)
			case token.NEQ:
				*neqs = append(*neqs, [2]lin{a, b})
			}
			return
		}
		// s != ""  /  s == "" (negated)  =>  len(s) >= 1
		if isStr(x.Type()) {
			if s, ok := facts.ConstString(y); ok && s == "" && op == token.NEQ {
				l := p.lenLin(x)
				g.le(lin{"", 1}, l)
			}
			if s, ok := facts.ConstString(x); ok && s == "" && op == token.NEQ {
				l := p.lenLin(y)
				g.le(lin{"", 1}, l)
			}
			if s, ok := facts.ConstString(y); ok && op == token.EQL {
				l := p.lenLin(x)
				g.le(lin{"", int64(len(s))}, l)
				g.le(l, lin{"", int64(len(s))})
			}
			return
		}
		// m != nil for slices: nothing about length
		return
	}
	// boolean calls
	if call, ok := cd.V.(*ssa.Call); ok && cd.Pos {
		name := facts.CalleeName(&call.Call)
		switch name {
		case "strings.HasPrefix", "strings.HasSuffix", "bytes.HasPrefix", "bytes.HasSuffix":
			g.le(p.lenLin(call.Call.Args[1]), p.lenLin(call.Call.Args[0]))
		}
	}
}

func isStr(t types.Type) bool {
	b, ok := t.Underlying().(*types.Basic)
	return ok && b.Info()&types.IsString != 0
}

// IndexOK tries to prove 0 <= idx < len(x) at instruction at.
func (p *Prover) IndexOK(x, idx ssa.Value, at ssa.Instruction) (bool, string) {
	// constant index into a fixed-size array (varargs packing etc.)
	if n, ok := arrayLen(x); ok {
		if c, ok := constOf(idx); ok && c >= 0 && c < n {
			return true, "constant index into fixed-size array"
		}
	}
	g := p.build(at, []ssa.Value{idx, x})
	il := p.toLin(idx)
	ll := p.lenLin(x)
	lo := g.provesLE(lin{"", 0}, il)
	hi := g.provesLE(lin{il.base, il.off + 1}, ll)
	if lo && hi {
		return true, "0 <= index < len proven from dominating conditions and library axioms"
	}
	return false, fmt.Sprintf("cannot prove %s (lower bound proven: %v, upper bound proven: %v)", "0 <= index < len", lo, hi)
}

func arrayLen(x ssa.Value) (int64, bool) {
	if a, ok := x.Type().Underlying().(*types.Array); ok {
		return a.Len(), true
	}
	return derefArray(x.Type())
}

// SliceOK tries to prove 0 <= lo <= hi <= len(x) (cap for 3-index / slices of slices is approximated by len: sound because len <= cap).
func (p *Prover) SliceOK(s *ssa.Slice, at ssa.Instruction) (bool, string) {
	if s.Low == nil && s.High == nil && s.Max == nil {
		return true, "full slice"
	}
	if s.Max != nil {
		return false, "3-index slice not modelled"
	}
	roots := []ssa.Value{s.X}
	if s.Low != nil {
		roots = append(roots, s.Low)
	}
	if s.High != nil {
		roots = append(roots, s.High)
	}
	g := p.build(at, roots)
	ll := p.lenLin(s.X)
	lo := lin{"", 0}
	if s.Low != nil {
		lo = p.toLin(s.Low)
	}
	hi := ll
	if s.High != nil {
		hi = p.toLin(s.High)
	}
	ok1 := g.provesLE(lin{"", 0}, lo)
	ok2 := g.provesLE(lo, hi)
	ok3 := g.provesLE(hi, ll)
	if ok1 && ok2 && ok3 {
		return true, "0 <= low <= high <= len proven"
	}
	return false, fmt.Sprintf("cannot prove slice bounds (0<=low: %v, low<=high: %v, high<=len: %v)", ok1, ok2, ok3)
}

// NumSubexp parses a regexp pattern and returns its number of capture groups.
func NumSubexp(pat string) (int, error) {
	re, err := syntax.Parse(pat, syntax.Perl)
	if err != nil {
		return 0, err
	}
	return re.MaxCap(), nil
}

// LowAtLeastOne tries to prove that the low bound of slice expression s is >= 1
// (so s[low:] is strictly shorter than s.X).
func (p *Prover) LowAtLeastOne(s *ssa.Slice) (bool, string) {
	if s.Low == nil {
		return false, "no low bound"
	}
	g := p.build(s, []ssa.Value{s.X, s.Low})
	lo := p.toLin(s.Low)
	if g.provesLE(lin{"", 1}, lo) {
		return true, "low >= 1"
	}
	return false, "cannot prove low >= 1"
}
